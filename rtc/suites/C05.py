"""C05 (bounded, T3): TT-cross reproduces low-rank tensors and caching is transparent.

The target is a Gaussian rank-rho TT-tensor exported to a dense array T by an own einsum chain; the element
oracle handed to `teneva.cross` is `f(I) = T[I]` (instrumented: every batch is recorded), so equal indices give
bitwise equal values and nothing of teneva is inside the oracle.

Clauses (statement -> clause):

* C05.cross.reproduce          fixed-rank start at r0 >= rho with dr_min = dr_max = 0, and rank growth
                               (dr_min >= 1) from r0 < rho for enough sweeps (each sweep grows every bond by
                               2*dr_min, so nswp = ceil((rho - r0) / (2*dr_min)) + 2): the result is a well-formed
                               finite TT of the same shape with ||dense(Y) - T|| <= 1e-8 ||T||; with validation
                               data the reported e_vld is then <= 1e-8 too.  With and without cache / validation.
* C05.cross.cache_transparent  same arguments with cache=None and cache={} (optionally pre-filled with true
                               pairs), nswp stop, m_cache_scale huge so that 'conv' cannot fire: cores equal bit for
                               bit, same info['nswp'], same stop, info['m'] (cache) <= info['m'] (no cache),
                               info['m'] + info['m_cache'] == number of requested rows (= rows the uncached
                               oracle received), info['m'] == rows the cached oracle received.
* C05.cross.cache_content      the dictionary ends up holding exactly prefill + evaluated pairs: every key is a
                               tuple of d integers inside the bounds that can be looked up with Python ints, the
                               value is the float f(key), no index is evaluated twice, none that was pre-filled,
                               len(cache) == prefill + info['m'].
* C05.cross.info_reports       however the run ends (nswp, budget m, objective returning None, callback, e, e_vld):
                               info['r'] == erank(returned), info['e_vld'] == accuracy_on_data(returned, I_vld,
                               y_vld) (-1 without validation data), info['e'] == accuracy(returned, tensor at the
                               start of the current / last sweep) -- the latter is taken from opts['Yold'] of the
                               last callback when the run ended at a sweep boundary, from the callback's Y of the
                               previous sweep when it was interrupted inside a sweep, and from the nswp=0 run
                               (documented: "only maxvol-preiteration") when interrupted inside the first sweep.
                               Exact equality with the teneva metric functions (the clause is about agreement of the
                               report with the returned tensor) plus an own dense evaluation with tolerance.

* C05.cross.interrupted_every_call  runs that end INSIDE a sweep (stop 'm': smallest / largest budget that stops
                               right before an evaluation; stop 'func': the objective returns None at that evaluation)
                               at EVERY evaluation after the working ranks have reached rho - from the first request of
                               the right-to-left half of sweep s0 + 1 (s0 = 0 for a fixed-rank start at r0 >= rho,
                               ceil((rho - r0) / (2 dr_min)) with growth) to the end of sweep s0 + 2 (thorough s0 + 3):
                               the returned tensor (new cores of the running half-sweep, pending factor folded into
                               the next core, cores of the previous half-sweep) is well-formed, of the same shape and
                               equals the target (rel. 1e-8), reported e_vld <= 1e-8.  The position of an evaluation
                               is read from the caller-visible info dictionary (completed sweeps, rows requested) and
                               the request sizes of the uncached run.  With / without cache and validation data;
                               fixed-rank starts rho, rho+1, rho+3, ragged profiles, growth 1/1, 1/2 (2/2, 1/3, 2/3
                               thorough), d = 2..5 (6 thorough), some non-default options.

Parameter coverage (every clause takes an optional `opt` dictionary; the systematic part above uses the defaults):
target scale 1e-12 .. 1e12 (1e+-30 thorough; the property is homogeneous in the target, all tolerances are
relative), scale of the start 1e-8 / 1e8, Fortran-ordered and non-contiguous cores of the start, rank profiles of
the start (ragged, far above rho), tau in {1, 1.01, 3, 1e6}, tau0 in {1, 2, 10}, k0 in {1, 2}, growth 1/3, 2/3, 3/5
(clipped on nearly square unfoldings), validation data as nested lists, the `func` replacement (a counting wrapper
around the library's own request function: called once per request, 2 d per sweep), log=True (one line per sweep
plus the pre-iteration line, same result), an integer-valued objective returned as integer ndarray (cache clauses),
d = 6 (9 thorough) modes and mode sizes up to 40 (70 thorough).

Input FORMS (opt keys y0 / num / call / vform / prekey, run through all five clauses; the reference is always the float64 image
of what is passed): the start with float32 / alternating float32-float64 / int64 / int32 / alternating int64-float64 cores
(integer-valued, still generic: rint(100 G)), read-only, Fortran-ordered, non-contiguous cores, the core list as tuple; every
numeric option (m, e, nswp, tau, dr_min, dr_max, tau0, k0, e_vld) as np.int64 / np.float64, np.int32 / np.float32, 0-d array,
the budget as float; every argument positionally in the documented order (pos, mix:2, mix:5, min, kwmin via gen.call_form);
validation indices as int32 / uint8 / int64, Fortran-ordered, non-contiguous, read-only arrays or tuple of tuples, values as
float32 / non-contiguous / read-only arrays or list (float32 values: the reported e_vld of an exact result is then the
rounding of the values, <= 1e-6); the cache pre-filled with tuples of np.int64 -> np.float64.

Conditioning rule ("almost all tensors"): SKIP unless every unfolding of T has sigma_r / sigma_1 >= 1e-3 at
its generic rank r = min(rho, product of mode sizes on either side).
"""
import math
import numpy as np
import teneva
from rtc.api import clause, PASS, FAIL, TRIVIAL, SKIP, check
from rtc import gen


BUDGET = (60, 600)
BOUNDS = ('d in 2..4 (6; 9 thorough), n_k in 1..6 (40; 70 thorough), rho <= 3 (quick) / 4 (thorough), Gaussian targets '
          'and starts; fixed-rank starts r0 in {rho, rho+1, rho+3, ragged profile} (0/0), growth 1/1, 1/2, 2/2, 1/3, 2/3, 3/5 '
          'from r0 in {1, 2}; 14 systematic shapes + random ones; cache None / {} / pre-filled; 6 ways of ending a run '
          'for the info clause; target scale 1e-12..1e12 (1e+-30 thorough), start scale 1e+-8, tau {1,1.01,3,1e6}, tau0 '
          '{1,2,10}, k0 {1,2}, F-ordered / non-contiguous starts, list-form validation data, func hook, log=True, '
          'integer-valued objective; runs ended inside a sweep by budget / objective at every evaluation after the ranks '
          'reached rho: 6 shapes d = 2..5 (16 thorough, d <= 6) x rho 1..3 x 3 (10) start / growth modes x {m, func}; input '
          'forms: 20 (28 thorough) combinations of start dtype f32 / mixed / i64 / i32 / read-only / F / view / tuple, numeric '
          'options as np.int64 / np.int32 / np.float32 / 0-d, positional call forms, validation data int32 / uint8 / F / view '
          '/ float32 / tuple, NumPy-typed pre-filled cache, each through all five clauses (220 quick cases)')

FUNCS = ('cross.cross', 'cross._func', 'cross._func_eval', 'cross._iter', 'utils._info_appr', 'utils._maxvol')
HUGE = 10 ** 18


class _Oracle:
    """f(I) = T[I], recording every batch; optionally returns None at its k-th call."""

    def __init__(self, T, none_at=None):
        self.T, self.batches, self.none_at = T, [], none_at
        self.hook_calls = 0

    def __call__(self, I):
        I = np.array(I)
        self.batches.append(I)
        if self.none_at is not None and len(self.batches) == self.none_at:
            return None
        return self.T[tuple(I.T)]

    def rows(self):
        return sum(len(b) for b in self.batches)


def _generic_ranks(n, rho):
    d = len(n)
    out = []
    for k in range(1, d):
        out.append(min(rho, int(np.prod(n[:k])), int(np.prod(n[k:]))))
    # a bond cannot exceed (previous bond) * n either; propagate
    for k in range(1, d - 1):
        out[k] = min(out[k], out[k - 1] * n[k])
    for k in range(d - 3, -1, -1):
        out[k] = min(out[k], out[k + 1] * n[k + 1])
    return out


def _ill_conditioned(T, n, rho, thr=1e-3):
    rk = _generic_ranks(n, rho)
    for k in range(1, len(n)):
        s = np.linalg.svd(T.reshape(int(np.prod(n[:k])), -1), compute_uv=False)
        r = rk[k - 1]
        if s[0] == 0 or s[r - 1] < thr * s[0]:
            return f'unfolding {k}: sigma_{r}/sigma_1 = {s[r - 1] / max(s[0], 1e-300):.1e} < {thr}'
    return None


def _setup(n, rho, r0, tseed, yseed, opt=None):
    """opt (all optional): scale (factor on the target), yscale (factor on every core of the start), order ('F' /
    'V': Fortran-ordered / non-contiguous cores of the start), ret='int' (integer-valued target returned as an
    integer ndarray); r0 may be an int or a rank profile (list of length d+1)."""
    opt = opt or {}
    T = gen.dense(gen.tt(n, rho, tseed, 'gauss'))
    if opt.get('ret') == 'int':
        T = np.rint(4.0 * T).astype(np.int64)
    if opt.get('scale'):
        T = T * float(opt['scale'])
    Y0 = gen.tt(n, r0, yseed, 'gauss', order=opt.get('order') or 'C')
    if opt.get('yscale'):
        Y0 = [G * float(opt['yscale']) for G in Y0]
    if opt.get('y0'):
        # input FORM of the start (gen.tt_form: f32 / mixed / i64 / imixed / F / V / ro / tuple); integer dtypes get the
        # integer-valued, still generic start rint(100 G)
        if any(t in opt['y0'] for t in ('i64', 'i32', 'imixed')):
            Y0 = [np.rint(100.0 * G) for G in Y0]
        Y0, _ = gen.tt_form(Y0, opt['y0'])
    return T, Y0


def _xkw(opt, f=None):
    """Keyword arguments of cross named in opt: tau, tau0, k0, and func='hook' (the documented replacement of the
    inner request function; here a wrapper that counts the requests and delegates to the library's own one)."""
    import sys
    opt = opt or {}
    kw = {key: opt[key] for key in ('tau', 'tau0', 'k0') if key in opt}
    if opt.get('func') == 'hook':
        inner = sys.modules['teneva.cross']._func

        def hook(f_, Ig, Ir, Ic, info, cache=None):
            if f is not None:
                f.hook_calls += 1
            return inner(f_, Ig, Ir, Ic, info, cache)
        kw['func'] = hook
    return kw


# (m_cache_scale is not converted: the suite passes 10**18 to keep 'conv' out, and 10**18 * info['m'] leaves int64)
NUMS = ('m', 'e', 'nswp', 'tau', 'dr_min', 'dr_max', 'tau0', 'k0', 'e_vld')
# documented order of the parameters of cross and their documented defaults (for the positional call forms)
XNAMES = ('f', 'Y0', 'm', 'e', 'nswp', 'tau', 'dr_min', 'dr_max', 'tau0', 'k0', 'info', 'cache', 'I_vld', 'y_vld', 'e_vld',
          'cb', 'func', 'm_cache_scale', 'log')
XDEFAULTS = (gen.call_form.REQ, gen.call_form.REQ, None, None, None, 1.1, 1, 1, 1.05, 100, None, None, None, None, None, None,
             None, 5, False)


def _call(opt, f, Y0, **kw):
    """teneva.cross(f, Y0, **kw) in the FORM named in opt: num = 'np64' / 'np32' / '0d' (every numeric option as NumPy scalar /
    0-d array; a budget additionally as float with 'float'), call = 'pos' / 'mix:k' / 'min' / 'kwmin' (gen.call_form with the
    documented parameter order; the info dictionary must be given)."""
    opt = opt or {}
    if opt.get('num'):
        kw = gen.num_kwargs(kw, opt['num'], NUMS if opt['num'] != 'float' else ('m',))
    if opt.get('call'):
        vals = [f, Y0] + [kw.get(name, dv) for name, dv in zip(XNAMES[2:], XDEFAULTS[2:])]
        assert set(kw) <= set(XNAMES) and kw.get('info') is not None
        return gen.call_form(teneva.cross, XNAMES, vals, XDEFAULTS, opt['call'])
    return teneva.cross(f, Y0, **kw)


def _cross(opt, f, Y0, **kw):
    """teneva.cross; with opt['log'] the progress lines are captured and returned as second value."""
    if (opt or {}).get('num') or (opt or {}).get('call'):
        return _call(opt, f, Y0, **kw), None
    if (opt or {}).get('log'):
        import contextlib, io
        out = io.StringIO()
        with contextlib.redirect_stdout(out):
            Y = teneva.cross(f, Y0, log=True, **kw)
        return Y, out.getvalue()
    return teneva.cross(f, Y0, **kw), None


def _vld(T, n, seed, cnt=12, opt=None):
    g = gen.rng('C05vld', seed)
    I = np.stack([g.integers(0, k, size=cnt) for k in n], axis=1)
    y = T[tuple(I.T)]
    vf = (opt or {}).get('vform')
    if vf == 'list':
        return I.tolist(), [float(v) for v in y]
    if vf:
        # 'i32+F' / 'u8+ro' / 'V' ...: form of the index array (gen.idx_form); a token after '|' is the form of the values
        # (gen.val_form: 'f32', 'V', 'ro', 'list'; the float64 image of what is passed is the reference of every check)
        fi, _, fy = vf.partition('|')
        return gen.idx_form(I, fi), gen.val_form(y, fy)[0]
    return I, y


def _own_erank(Y):
    d = len(Y)
    n = [G.shape[1] for G in Y]
    r = [1] + [G.shape[2] for G in Y]
    if d == 2:
        return float(r[1])
    sz = sum(n[k] * r[k] * r[k + 1] for k in range(d))
    b = r[0] * n[0] + n[d - 1] * r[d]
    a = sum(n[1:d - 1])
    return (math.sqrt(b * b + 4 * a * sz) - b) / (2 * a)


def _same_float(a, b):
    """Equal AND finite: a NaN / inf report never counts as agreement (not even with a NaN / inf reference)."""
    a, b = float(a), float(b)
    return a == b and math.isfinite(a)


@clause('C05.cross.reproduce', funcs=FUNCS + ('maxvol.maxvol', 'maxvol.maxvol_rect'))
def reproduce(n, rho, r0, dr_min, dr_max, nswp, tseed, yseed, cache, vld, opt=None):
    """Working ranks reach rho -> same shape, equal to the target up to rounding (rel. 1e-8).
    opt: see _setup / _xkw / _cross (target / start scale, memory layout, tau / tau0 / k0, func hook, log, vform)."""
    T, Y0 = _setup(n, rho, r0, tseed, yseed, opt)
    bad = _ill_conditioned(T, n, rho)
    if bad:
        return SKIP(bad)
    f = _Oracle(T)
    info = {}
    kw = _xkw(opt, f)
    if vld:
        kw['I_vld'], kw['y_vld'] = _vld(T, n, tseed, opt=opt)
    Y, text = _cross(opt, f, Y0, nswp=nswp, dr_min=dr_min, dr_max=dr_max, info=info,
                     cache={} if cache else None, m_cache_scale=HUGE, **kw)
    if 'func' in kw and f.hook_calls != 2 * len(n) * nswp:
        return FAIL(f'the func replacement was called {f.hook_calls} times, {2 * len(n) * nswp} requests expected')
    if text is not None:
        lines = [ln for ln in text.splitlines() if ln.strip()]
        if len(lines) != nswp + 1 or not lines[0].startswith('# pre') or 'stop: nswp' not in lines[-1]:
            return FAIL(f'log=True printed {len(lines)} lines for {nswp} sweeps (+ pre-iteration): {lines[-1:]}')
    msg = gen.wf(Y, n)
    if msg:
        return FAIL('result not well-formed / wrong shape: ' + msg)
    if not gen.finite(Y):
        return FAIL('non-finite cores')
    if info.get('stop') != 'nswp' or info.get('nswp') != nswp:
        return FAIL(f"stop {info.get('stop')} after {info.get('nswp')} sweeps, expected nswp after {nswp}")
    rel = np.linalg.norm(gen.dense(Y) - T) / np.linalg.norm(T)
    if not rel <= 1e-8:
        return FAIL(f'relative error {rel:.3e} > 1e-8; ranks {[G.shape[2] for G in Y[:-1]]}, evaluated {info["m"]}')
    evtol = 1e-6 if 'f32' in str((opt or {}).get('vform')) else 1e-8      # (validation values rounded to float32)
    if vld and not (0 <= info['e_vld'] <= evtol):
        return FAIL(f"reported e_vld {info['e_vld']:.3e} although the result equals the target")
    return PASS


class _PosOracle(_Oracle):
    """_Oracle that also notes, at every call, where the run is: (completed sweeps, rows requested so far), read from
    the caller-visible info dictionary (the counters are updated only after a successful call)."""

    def __init__(self, T, info, none_at=None):
        super().__init__(T, none_at)
        self.info, self.pos = info, []

    def __call__(self, I):
        self.pos.append((int(self.info.get('nswp', 0)), int(self.info.get('m', 0)) + int(self.info.get('m_cache', 0))))
        return super().__call__(I)


def _sweeps_to_reach(rho, r0, dr_min):
    """Complete sweeps after which every column index set has >= rho elements (None: never)."""
    r0min = r0 if isinstance(r0, int) else min(r0[1:-1])
    if r0min >= rho:
        return 0
    if dr_min < 1:
        return None
    return -(-(rho - r0min) // (2 * dr_min))


@clause('C05.cross.interrupted_every_call', funcs=FUNCS + ('maxvol.maxvol', 'maxvol.maxvol_rect'))
def interrupted_every_call(n, rho, r0, dr_min, dr_max, extra, tseed, yseed, cache, vld, end, opt=None):
    """The run is ended INSIDE a sweep - by the budget m (end='m': m is the smallest / the largest budget that stops the
    run right before that evaluation) or by the objective returning None (end='func') - at EVERY evaluation that comes
    after the working ranks have reached rho: with s0 = _sweeps_to_reach sweeps completed, every evaluation from the
    first one of the right-to-left half of sweep s0 + 1 (all cores have then been rebuilt from index sets of >= rho
    elements) to the last one of sweep s0 + 1 + extra.  Every such result is a well-formed finite TT of the same
    shape with ||dense(Y) - T|| <= 1e-8 ||T|| (and a reported e_vld <= 1e-8 with validation data): the left part
    (new left-to-right cores), the pending factor folded into the next core and the right part (cores of the previous
    half-sweep) interpolate the same rank-rho tensor."""
    T, Y0 = _setup(n, rho, r0, tseed, yseed, opt)
    bad = _ill_conditioned(T, n, rho)
    if bad:
        return SKIP(bad)
    s0 = _sweeps_to_reach(rho, r0, dr_min)
    if s0 is None:
        return SKIP('working ranks never reach rho')
    d = len(n)
    nswp = s0 + 1 + extra
    kw = dict(dr_min=dr_min, dr_max=dr_max, m_cache_scale=HUGE, **_xkw(opt))
    if vld:
        kw['I_vld'], kw['y_vld'] = _vld(T, n, tseed, opt=opt)
    # requests of the unconstrained uncached run (sizes), and the calls of the unconstrained run with this cache setting
    unc = _Oracle(T)
    _call(opt, unc, Y0, nswp=nswp, info={}, cache=None, **kw)
    starts = {0: 0}
    for j, b in enumerate(unc.batches):
        starts[max(starts) + len(b)] = j + 1
    iref = {}
    ref = _PosOracle(T, iref)
    _call(opt, ref, Y0, nswp=nswp, info=iref, cache={} if cache else None, **kw)
    if iref['stop'] != 'nswp' or len(unc.batches) != 2 * d * nswp:
        return FAIL(f"reference run: stop {iref['stop']}, {len(unc.batches)} requests for {nswp} sweeps")
    tested, nT, rows_before = 0, float(np.linalg.norm(T)), 0
    for k, (b, (sw, asked)) in enumerate(zip(ref.batches, ref.pos), start=1):
        before, rows_before = rows_before, rows_before + len(b)
        if asked not in starts:
            return SKIP('requests of the cached run cannot be aligned with the uncached run (cache_transparent decides)')
        j = starts[asked] - 2 * d * sw          # request number inside its sweep (0 .. 2d-1)
        if sw < s0 or (sw == s0 and j < d):
            continue                            # outside: left-to-right cores of the start / of too small index sets survive
        info = {}
        f = _Oracle(T, none_at=k if end == 'func' else None)
        if end == 'm':
            kw2 = dict(kw, m=before + (0 if k % 2 else len(b) - 1))
            if kw2['m'] < 1:
                continue
        else:
            kw2 = kw
        Y = _call(opt, f, Y0, nswp=nswp, info=info, cache={} if cache else None, **kw2)
        where = f'{end} at evaluation {k} (sweep {sw + 1}, request {j + 1} of {2 * d})'
        if info.get('stop') != end or info.get('nswp') != sw:
            return FAIL(f"{where}: stop {info.get('stop')!r} after {info.get('nswp')} sweeps")
        msg = gen.wf(Y, n)
        if msg:
            return FAIL(f'{where}: result not well-formed / wrong shape: {msg}')
        if not gen.finite(Y):
            return FAIL(f'{where}: non-finite cores')
        rel = float(np.linalg.norm(gen.dense(Y) - T)) / nT
        if not rel <= 1e-8:
            return FAIL(f'{where}: relative error {rel:.3e} > 1e-8 although the working ranks '
                        f'{[G.shape[2] for G in Y[:-1]]} have reached rho = {rho}; evaluated {info["m"]}')
        if vld and not (0 <= info['e_vld'] <= (1e-6 if 'f32' in str((opt or {}).get('vform')) else 1e-8)):
            return FAIL(f"{where}: reported e_vld {info['e_vld']:.3e} although the result equals the target")
        tested += 1
    return PASS if tested else TRIVIAL('no evaluation after the ranks reached rho')


def _prefill(T, n, cnt, seed):
    g = gen.rng('C05pre', seed)
    pre = {}
    for _ in range(cnt):
        key = tuple(int(g.integers(0, k)) for k in n)
        pre[key] = float(T[key])
    return pre


def _cached_pair(n, rho, r0, dr_min, dr_max, nswp, tseed, yseed, prefill, vld, opt=None):
    T, Y0 = _setup(n, rho, r0, tseed, yseed, opt)
    fa, ia = _Oracle(T), {}
    kw = _xkw(opt, fa)
    if vld:
        kw['I_vld'], kw['y_vld'] = _vld(T, n, tseed, opt=opt)
    Ya, _ = _cross(opt, fa, Y0, nswp=nswp, dr_min=dr_min, dr_max=dr_max, info=ia, cache=None,
                   m_cache_scale=HUGE, **kw)
    pre = _prefill(T, n, prefill, tseed)
    cache = dict(pre)
    if (opt or {}).get('prekey') == 'np':       # pre-filled by the caller with NumPy integers / NumPy floats (equal keys)
        cache = {tuple(np.int64(x) for x in key): np.float64(val) for key, val in pre.items()}
    fb, ib = _Oracle(T), {}
    Yb, _ = _cross(opt, fb, Y0, nswp=nswp, dr_min=dr_min, dr_max=dr_max, info=ib, cache=cache,
                   m_cache_scale=HUGE, **kw)
    return T, (Ya, ia, fa), (Yb, ib, fb), pre, cache


@clause('C05.cross.cache_transparent', funcs=FUNCS)
def cache_transparent(n, rho, r0, dr_min, dr_max, nswp, tseed, yseed, prefill, vld, opt=None):
    """cache=None vs cache=dict under identical arguments: identical cores, sweeps; evaluations never grow."""
    T, (Ya, ia, fa), (Yb, ib, fb), pre, cache = _cached_pair(n, rho, r0, dr_min, dr_max, nswp, tseed, yseed,
                                                             prefill, vld, opt)
    if ib['stop'] == 'conv':
        return SKIP("outside the quantifier: the cache-specific stop 'conv' fired (everything requested was pre-filled)")
    if len(Ya) != len(Yb) or any(A.shape != B.shape for A, B in zip(Ya, Yb)):
        return FAIL(f'core shapes differ: {[A.shape for A in Ya]} vs {[B.shape for B in Yb]}')
    for k, (A, B) in enumerate(zip(Ya, Yb)):
        if not np.array_equal(A, B):
            return FAIL(f'core {k} differs between uncached and cached run, max |diff| {np.abs(A - B).max():.3e}')
    if ia['nswp'] != ib['nswp'] or ia['stop'] != ib['stop']:
        return FAIL(f"nswp/stop {ia['nswp']}/{ia['stop']} (no cache) vs {ib['nswp']}/{ib['stop']} (cache)")
    for key in ('r', 'e', 'e_vld'):
        if not _same_float(ia[key], ib[key]):
            return FAIL(f'info[{key}] differs: {ia[key]} vs {ib[key]}')
    if ia['m'] != fa.rows():
        return FAIL(f"uncached info['m'] {ia['m']} != rows received {fa.rows()}")
    if ib['m'] != fb.rows():
        return FAIL(f"cached info['m'] {ib['m']} != rows received {fb.rows()}")
    if ib['m'] > ia['m']:
        return FAIL(f"evaluations grew with a cache: {ib['m']} > {ia['m']}")
    if ib['m'] + ib['m_cache'] != fa.rows():
        return FAIL(f"m + m_cache = {ib['m']} + {ib['m_cache']} != requested rows {fa.rows()}")
    if ia['m_cache'] != 0:
        return FAIL(f"m_cache {ia['m_cache']} without a cache")
    return PASS if ib['m_cache'] > 0 else TRIVIAL('no cache hit')


@clause('C05.cross.cache_content', funcs=('cross.cross', 'cross._func_eval'))
def cache_content(n, rho, r0, dr_min, dr_max, nswp, tseed, yseed, prefill, vld, opt=None):
    """The cache dictionary ends up holding exactly (pre-filled +) evaluated index -> value pairs."""
    T, _, (Yb, ib, fb), pre, cache = _cached_pair(n, rho, r0, dr_min, dr_max, nswp, tseed, yseed, prefill, vld, opt)
    d = len(n)
    evaluated = [tuple(int(x) for x in row) for b in fb.batches for row in b]
    if len(set(evaluated)) != len(evaluated):
        return FAIL(f'{len(evaluated) - len(set(evaluated))} indices were evaluated more than once')
    hit = set(evaluated) & set(pre)
    if hit:
        return FAIL(f'pre-filled index {sorted(hit)[0]} was evaluated again')
    for key, val in cache.items():
        if not isinstance(key, tuple) or len(key) != d:
            return FAIL(f'key {key!r} is not a tuple of length d')
        if not all(isinstance(x, (int, np.integer)) and not isinstance(x, bool) for x in key):
            return FAIL(f'key {key!r} has non-integer entries')
        if not all(0 <= int(x) < k for x, k in zip(key, n)):
            return FAIL(f'key {key!r} outside the bounds {n}')
        pk = tuple(int(x) for x in key)
        if pk not in cache:
            return FAIL(f'key {key!r} cannot be looked up with Python ints')
        if not isinstance(val, float) or val != float(T[pk]):
            return FAIL(f'cache[{pk}] = {val!r} != f(index) = {float(T[pk])!r}')
    want = set(evaluated) | set(pre)
    have = {tuple(int(x) for x in key) for key in cache}
    if have != want or len(cache) != len(want):
        return FAIL(f'cache holds {len(cache)} keys, evaluated + pre-filled are {len(want)}; '
                    f'missing {sorted(want - have)[:2]} extra {sorted(have - want)[:2]}')
    if len(cache) != len(pre) + ib['m']:
        return FAIL(f"len(cache) {len(cache)} != prefill {len(pre)} + info['m'] {ib['m']}")
    return PASS


@clause('C05.cross.info_reports', funcs=('cross.cross', 'utils._info_appr'))
def info_reports(n, rho, r0, dr_min, dr_max, nswp, tseed, yseed, cache, vld, end, frac, opt=None):
    """info['r'], info['e_vld'], info['e'] are those of the returned tensor, however the run ends.
    end: 'nswp' | 'm' | 'func' | 'cb' | 'e' | 'e_vld';  frac in [0, 1) places the interruption."""
    T, Y0 = _setup(n, rho, r0, tseed, yseed, opt)
    kw = dict(dr_min=dr_min, dr_max=dr_max, m_cache_scale=HUGE, **_xkw(opt))
    I_vld = y_vld = None
    if vld or end == 'e_vld':
        kw['I_vld'], kw['y_vld'] = _vld(T, n, tseed, opt=opt)
        # reference: the int64 / float64 image of what is passed
        I_vld, y_vld = np.array(kw['I_vld'], dtype=np.int64), np.array(kw['y_vld'], dtype=float)
    # reference run to know the unconstrained number of rows / calls
    ref, iref = _Oracle(T), {}
    _call(opt, ref, Y0, nswp=nswp, info=iref, cache={} if cache else None, **kw)
    f = _Oracle(T)
    seen = []                       # (Y copy, Yold copy) at every callback

    def cb(Y, info, opts):
        seen.append(([G.copy() for G in Y], [G.copy() for G in opts['Yold']]))
        return end == 'cb' and info['nswp'] == max(1, int(round(frac * nswp)))

    if end == 'm':
        kw['m'] = max(1, int(frac * ref.rows()))
    elif end == 'func':
        f.none_at = max(1, int(frac * len(ref.batches)) + 1)
    elif end == 'e':
        kw['e'] = 1e-6 if frac < 0.5 else 1e+10
    elif end == 'e_vld':
        kw['e_vld'] = 1e-6 if frac < 0.5 else 1e+10
    info = {}
    Y = _call(opt, f, Y0, nswp=nswp, info=info, cache={} if cache else None, cb=cb, **kw)
    msg = gen.wf(Y, n)
    if msg:
        return FAIL('result not well-formed: ' + msg)
    if not gen.finite(Y):
        return FAIL('non-finite result')
    stop = info['stop']
    # --- effective rank
    if not _same_float(info['r'], teneva.erank(Y)):
        return FAIL(f"info['r'] {info['r']} != erank(result) {teneva.erank(Y)} (stop {stop})")
    if not abs(float(info['r']) - _own_erank(Y)) <= 1e-9 * _own_erank(Y):       # (written so that NaN fails)
        return FAIL(f"info['r'] {info['r']} != own effective rank {_own_erank(Y)}")
    # --- validation error
    if I_vld is None:
        if info['e_vld'] != -1:
            return FAIL(f"e_vld {info['e_vld']} without validation data")
    else:
        want = teneva.accuracy_on_data(Y, I_vld, y_vld)
        if not _same_float(info['e_vld'], want):
            return FAIL(f"info['e_vld'] {info['e_vld']} != accuracy_on_data(result) {want} (stop {stop})")
        D = gen.dense(Y)
        own = np.linalg.norm(D[tuple(I_vld.T)] - y_vld) / np.linalg.norm(y_vld)
        scale = np.linalg.norm(gen.absdense(Y)[tuple(I_vld.T)]) / np.linalg.norm(y_vld)
        if not abs(info['e_vld'] - own) <= 1e-12 * (1 + scale) + 1e-9 * own:
            return FAIL(f"info['e_vld'] {info['e_vld']:.6e} != own dense evaluation {own:.6e}")
    # --- convergence value
    boundary = stop in ('nswp', 'cb', 'e', 'e_vld') and info['nswp'] == len(seen) and info['nswp'] > 0
    if stop in ('m', 'func') or not boundary:
        done = info['nswp']             # completed sweeps; interrupted inside sweep done + 1 (or before sweep 1)
        if done != len(seen):
            return FAIL(f"info['nswp'] {done} but the callback ran {len(seen)} times")
        if done > 0:
            Yold = seen[-1][0]
        else:
            Yold = teneva.cross(_Oracle(T), Y0, nswp=0, dr_min=dr_min, dr_max=dr_max, **_xkw(opt))
    else:
        Yold = seen[-1][1]
        if any(not np.array_equal(A, B) for A, B in zip(seen[-1][0], Y)):
            return FAIL('returned tensor differs from the tensor shown to the last callback')
        if len(seen) >= 2 and any(not np.array_equal(A, B) for A, B in zip(seen[-2][0], Yold)):
            return FAIL("opts['Yold'] is not the tensor of the previous sweep")
    want = teneva.accuracy(Y, Yold)
    if info['nswp'] == 0:
        # Yold is only known through the nswp=0 run (same values, possibly another memory layout): tolerance
        if not abs(info['e'] - want) <= 1e-9 * abs(want) + 1e-7:
            return FAIL(f"info['e'] {info['e']} != accuracy(result, pre-iterated tensor) {want} (stop {stop})")
    elif not _same_float(info['e'], want):
        return FAIL(f"info['e'] {info['e']} != accuracy(result, previous sweep) {want} (stop {stop}, nswp {info['nswp']})")
    A, B = gen.dense(Y), gen.dense(Yold)
    nb = np.linalg.norm(B)
    if not math.isfinite(float(info['e'])):
        return FAIL(f"info['e'] {info['e']} is not finite (stop {stop})")
    if nb > 0 and info['e'] >= 0:
        own = np.linalg.norm(A - B) / nb
        if not abs(info['e'] - own) <= 1e-6 * (1 + own):
            return FAIL(f"info['e'] {info['e']:.6e} != own dense relative distance {own:.6e}")
    expected = {'nswp': ('nswp',), 'm': ('m', 'nswp'), 'func': ('func',), 'cb': ('cb',), 'e': ('e', 'nswp'),
                'e_vld': ('e_vld', 'nswp')}[end]
    if stop not in expected:
        return FAIL(f'run ended with {stop!r}, the case was built to end with one of {expected}')
    return PASS


# ----------------------------------------------------------------------------------------------- cases

SHAPES = [[2, 2], [6, 5], [1, 4], [4, 1], [3, 6], [3, 3, 3], [2, 1, 3], [6, 2, 5], [1, 5, 4], [4, 4, 1],
          [3, 4, 2, 3], [5, 1, 2, 6], [2, 2, 2, 2], [4, 3, 3, 4]]


def _modes(rho):
    """(r0, dr_min, dr_max, nswp) with working ranks guaranteed to reach rho."""
    out = [(rho, 0, 0, 3), (rho + 1, 0, 0, 3)]
    for r0, a, b in ((1, 1, 1), (1, 1, 2), (2, 1, 1), (1, 2, 2)):
        if r0 > rho:
            continue
        out.append((r0, a, b, max(0, -(-(rho - r0) // (2 * a))) + 2))
    return out


def cases(tier, seed):
    big = tier == 'thorough'
    g = gen.rng('C05', seed)
    shapes = list(SHAPES)
    for _ in range(24 if big else 6):
        d = int(g.integers(2, 5))
        shapes.append([int(x) for x in g.integers(1, 7, size=d)])
    reps = 4 if big else 1
    k = 0
    for n in shapes:
        for rho in range(1, 5 if big else 4):
            for (r0, a, b, nswp) in _modes(rho):
                for rep in range(reps):
                    k += 1
                    base = dict(n=n, rho=rho, r0=r0, dr_min=a, dr_max=b, nswp=nswp,
                                tseed=int(g.integers(1 << 30)), yseed=int(g.integers(1 << 30)))
                    yield 'C05.cross.reproduce', dict(base, cache=bool(k % 2), vld=bool((k // 2) % 2))
                    if big:
                        yield 'C05.cross.reproduce', dict(base, cache=not (k % 2), vld=not ((k // 2) % 2))
                    pre = (0, 0, 7)[k % 3]
                    yield 'C05.cross.cache_transparent', dict(base, prefill=pre, vld=bool(k % 2))
                    yield 'C05.cross.cache_content', dict(base, prefill=pre, vld=bool(k % 2))
        # cache transparency does not need a low-rank target: full-rank Gaussian target, more sweeps
        for (r0, a, b, nswp) in ((2, 0, 0, 3), (1, 1, 1, 3), (1, 1, 2, 2), (3, 0, 2, 2)):
            base = dict(n=n, rho=8, r0=r0, dr_min=a, dr_max=b, nswp=nswp,
                        tseed=int(g.integers(1 << 30)), yseed=int(g.integers(1 << 30)))
            yield 'C05.cross.cache_transparent', dict(base, prefill=0, vld=False)
            yield 'C05.cross.cache_content', dict(base, prefill=5, vld=False)
    ends = [('nswp', 0.0), ('m', 0.05), ('m', 0.3), ('m', 0.6), ('m', 0.95), ('func', 0.0), ('func', 0.3),
            ('func', 0.6), ('func', 0.95), ('cb', 0.3), ('cb', 0.6), ('cb', 1.0), ('e', 0.0), ('e', 0.9),
            ('e_vld', 0.0), ('e_vld', 0.9)]
    k = 0
    for n in shapes:
        for rho, (r0, a, b, nswp) in ((2, (2, 0, 0, 3)), (3, (1, 1, 1, 3)), (2, (1, 1, 2, 3)), (8, (2, 0, 1, 3))):
            for end, frac in ends:
                for rep in range(reps):
                    k += 1
                    yield 'C05.cross.info_reports', dict(
                        n=n, rho=rho, r0=r0, dr_min=a, dr_max=b, nswp=nswp, tseed=int(g.integers(1 << 30)),
                        yseed=int(g.integers(1 << 30)), cache=bool(k % 2), vld=bool((k // 2) % 2), end=end, frac=frac)
    # ------------------------------------------------------------ runs that end INSIDE a sweep (budget / objective),
    # every evaluation after the working ranks have reached rho (own generator; see interrupted_every_call)
    g3 = gen.rng('C05int', seed)
    ishapes = [[6, 5], [3, 3, 3], [6, 2, 5], [3, 4, 2, 3], [4, 3, 3, 4], [3, 4, 5, 4, 3]]
    if big:
        ishapes += [[2, 2], [3, 6], [4, 1], [2, 1, 3], [1, 5, 4], [2, 2, 2, 2], [5, 1, 2, 6], [2] * 6, [12, 2, 12], [3, 40]]
    k = j = 0
    for n in ishapes:
        for rho in (1, 2, 3):
            d = len(n)
            j += 1
            prof = [1] + [rho + (q % 3) for q in range(d - 1)] + [1]
            imodes = [(rho, 0, 0), (rho + 1, 0, 0), (1, 1, 1), (1, 1, 2), (rho + 3, 0, 0), (prof, 0, 0), (2, 1, 1), (1, 2, 2),
                      (1, 1, 3), (1, 2, 3)]
            imodes = [mo for mo in imodes if not (mo[1] and mo[0] > rho)]
            for mi, (r0, a, b) in enumerate(imodes):
                if not big and (r0, a, b) not in [imodes[q % len(imodes)] for q in (j % 4, (j + 2) % 4, 4 + j % 2)]:
                    continue                    # quick: three of the first six modes per (shape, rho), rotating
                for end in ('m', 'func'):
                    for extra in ((1, 2) if big and mi in (0, 2) else (1,)):
                        k += 1
                        yield 'C05.cross.interrupted_every_call', dict(
                            n=n, rho=rho, r0=r0, dr_min=a, dr_max=b, extra=extra, tseed=int(g3.integers(1 << 30)),
                            yseed=int(g3.integers(1 << 30)), cache=bool((k // 2) % 2), vld=bool((k // 4) % 2), end=end)
    for oi, o in enumerate([{'scale': 1e-8}, {'tau': 3.0}, {'order': 'F'}] + ([{'scale': 1e8}, {'tau': 1.0}, {'tau0': 2.0, 'k0': 1},
                           {'yscale': 1e8}, {'order': 'V'}, {'vform': 'list'}, {'func': 'hook'}] if big else [])):
        for q, n in enumerate(ishapes[1:4] if not big else ishapes[:8]):
            if not big and (oi + q) % 3 == 2:
                continue
            for (rho, r0, a, b) in ((2, 2, 0, 0), (3, 1, 1, 2)) if (big or (oi + q) % 2) else ((3, 3, 0, 0), (2, 1, 1, 1)):
                k += 1
                yield 'C05.cross.interrupted_every_call', dict(
                    n=n, rho=rho, r0=r0, dr_min=a, dr_max=b, extra=1, tseed=int(g3.integers(1 << 30)),
                    yseed=int(g3.integers(1 << 30)), cache=bool(k % 2), vld=bool((k // 2) % 2) or 'vform' in o,
                    end=('m', 'func')[(k // 4 + k) % 2], opt=o)
    # ------------------------------------------------------------ parameter / regime coverage (own generator)
    g2 = gen.rng('C05cov', seed)

    def sd():
        return int(g2.integers(1 << 30))

    opts = [{'tau': 1.0}, {'tau': 1.01}, {'tau': 3.0}, {'tau': 1e6}, {'tau0': 1.0}, {'tau0': 2.0}, {'tau0': 10.0},
            {'k0': 1}, {'k0': 2}, {'k0': 1, 'tau0': 1.0, 'tau': 1.0}, {'scale': 1e-8}, {'scale': 1e-4}, {'scale': 1e4},
            {'scale': 1e8}, {'scale': 1e-12}, {'scale': 1e12}, {'yscale': 1e-8}, {'yscale': 1e8}, {'order': 'F'}, {'order': 'V'}, {'vform': 'list'},
            {'func': 'hook'}, {'log': True}]
    if big:
        opts += [{'scale': 1e-30}, {'scale': 1e30}, {'scale': 1e8, 'yscale': 1e-8}, {'tau': 1.5, 'tau0': 1.5, 'k0': 3},
                 {'func': 'hook', 'log': True, 'vform': 'list', 'order': 'V'}]
    cov = [[2, 2], [6, 5], [1, 4], [3, 3, 3], [2, 1, 3], [3, 4, 2, 3]]
    wide = [[2] * 6, [30, 3], [3, 40], [12, 2, 12]] + ([[2] * 9, [64, 2], [2, 3, 1, 3, 2], [5, 70]] if big else [])

    def grow(rho, r0, a, b):
        return (r0, a, b, max(0, -(-(rho - r0) // (2 * a))) + 2)

    k = 0
    # every option with a rotating (shape, rank, mode); thorough: every shape
    for j, o in enumerate(opts):
        for q, n in enumerate((SHAPES + wide) if big else cov):
            for rep in range(reps):
                k += 1
                rho = 1 + k % 3
                modes = _modes(rho) + [grow(rho, 1, 1, 3), grow(rho, 1, 2, 3)]
                r0, a, b, nswp = modes[(j + q + rep) % len(modes)]
                yield 'C05.cross.reproduce', dict(n=n, rho=rho, r0=r0, dr_min=a, dr_max=b, nswp=nswp, tseed=sd(),
                                                  yseed=sd(), cache=bool(k % 2), vld=bool((k // 2) % 2) or 'vform' in o,
                                                  opt=o)
    # target scale again: every shape, with and without cache
    for n in (SHAPES if big else cov):
        for sc in (1e-12, 1e-8, 1e8) + ((1e-4, 1e4, 1e12) if big else ()):
            for cache in (False, True):
                k += 1
                rho = 1 + k % 3
                r0, a, b, nswp = (_modes(rho) + [grow(rho, 1, 1, 3)])[k % 7 if rho > 1 else k % 5]
                yield 'C05.cross.reproduce', dict(n=n, rho=rho, r0=r0, dr_min=a, dr_max=b, nswp=nswp, tseed=sd(),
                                                  yseed=sd(), cache=cache, vld=bool((k // 2) % 2), opt={'scale': sc})
    # many modes / large modes; growth by 2..3 per half-sweep with room to spare (also on nearly square unfoldings,
    # where the limits are clipped); starts far above the target rank; ragged rank profiles of the start
    for n in wide + cov:
        for rho in ((1, 2, 3, 4) if big else (2, 3)):
            d = len(n)
            prof = [1] + [rho + (q % 3) for q in range(d - 1)] + [1]
            for (r0, a, b, nswp) in (_modes(rho)[:1] + [grow(rho, 1, 1, 1), grow(rho, 1, 1, 3), grow(rho, 1, 2, 3),
                                                      grow(rho, 1, 3, 5), (rho + 3, 0, 0, 3), (prof, 0, 0, 3)]):
                for rep in range(reps):
                    k += 1
                    if not big and n in cov and (a, b) in ((0, 0), (1, 1)) and isinstance(r0, int) and r0 <= rho:
                        continue                    # (already in the systematic part above)
                    yield 'C05.cross.reproduce', dict(n=n, rho=rho, r0=r0, dr_min=a, dr_max=b, nswp=nswp, tseed=sd(),
                                                      yseed=sd(), cache=bool(k % 2), vld=bool((k // 2) % 2))
    # cache clauses under non-default options (incl. an integer-valued objective)
    copts = [{'tau': 3.0}, {'tau0': 2.0}, {'k0': 1}, {'scale': 1e-8}, {'scale': 1e8}, {'ret': 'int'}, {'order': 'V'},
             {'func': 'hook'}, {'vform': 'list'}] + ([{'tau': 1.0}, {'log': True}, {'yscale': 1e8}, {'scale': 1e30}] if big else [])
    for j, o in enumerate(copts):
        for q, n in enumerate((SHAPES + wide[:4]) if big else ([6, 5], [2, 1, 3], [3, 4, 2, 3])):
            for (rho, r0, a, b, nswp) in ((2, 2, 0, 0, 3), (8, 1, 1, 2, 3)) + (((3, 1, 2, 3, 2), (8, 3, 0, 2, 2)) if big else ()):
                if o.get('ret') == 'int' and rho < 8:
                    rho = 8                         # (rounding destroys the low rank; transparency does not need it)
                base = dict(n=n, rho=rho, r0=r0, dr_min=a, dr_max=b, nswp=nswp, tseed=sd(), yseed=sd(), opt=o)
                pre = (0, 6)[(j + q) % 2]
                yield 'C05.cross.cache_transparent', dict(base, prefill=pre, vld='vform' in o)
                yield 'C05.cross.cache_content', dict(base, prefill=pre, vld='vform' in o)
    # info clause under non-default options
    iopts = [{'tau0': 2.0, 'k0': 1}, {'scale': 1e-8}, {'scale': 1e8}, {'vform': 'list'}, {'order': 'F'}] + \
        ([{'tau': 3.0}, {'yscale': 1e-8}, {'func': 'hook'}, {'scale': 1e30}] if big else [])
    k = 0
    for o in iopts:
        for n in ((SHAPES[:8] + wide[:2]) if big else ([6, 5], [2, 1, 3])):
            for rho, (r0, a, b, nswp) in ((2, (2, 0, 0, 3)), (8, (1, 1, 2, 3))):
                for end, frac in (ends if big else ends[::2]):
                    k += 1
                    yield 'C05.cross.info_reports', dict(
                        n=n, rho=rho, r0=r0, dr_min=a, dr_max=b, nswp=nswp, tseed=sd(), yseed=sd(), cache=bool(k % 2),
                        vld=bool((k // 2) % 2) or 'vform' in o, end=end, frac=frac, opt=o)
    # ------------------------------------------------------------ input FORMS (own generator): the start as float32 / mixed /
    # integer-dtype / read-only / non-contiguous cores or as a tuple, every numeric option as NumPy scalar / 0-d array (budget
    # also as float), positional call forms in the documented parameter order, validation data as int32 / uint8 / Fortran-ordered
    # / non-contiguous / read-only / float32 / tuple forms, a cache pre-filled with NumPy-typed keys and values
    g4 = gen.rng('C05forms', seed)

    def sf():
        return int(g4.integers(1 << 30))

    fopts = [{'y0': 'f32'}, {'y0': 'mixed'}, {'y0': 'i64'}, {'y0': 'imixed+V'}, {'y0': 'tuple'}, {'y0': 'ro'},
             {'y0': 'F+ro+tuple'}, {'y0': 'mixed1+V'}, {'num': 'np64'}, {'num': 'np32'}, {'num': '0d'}, {'num': 'float'},
             {'call': 'pos'}, {'call': 'mix:2'}, {'call': 'kwmin'}, {'vform': 'i32+F'}, {'vform': 'u8+ro|f32'},
             {'vform': 'V|V+ro'}, {'vform': 'tuple|list'}, {'y0': 'f32+tuple', 'num': 'np32', 'call': 'pos', 'vform': 'i32+V|f32'}]
    if big:
        fopts += [{'y0': 'i32'}, {'y0': 'f32+F'}, {'num': 'np32', 'call': 'pos'}, {'num': '0d', 'y0': 'ro+tuple'},
                  {'call': 'min'}, {'call': 'mix:5'}, {'vform': 'i64+F+ro|f32+ro'}, {'tau': 1.5, 'tau0': 1.25, 'k0': 3, 'num': 'np32'}]
    fshapes = [[6, 5], [3, 4, 2, 3], [2, 1, 3], [3, 3, 3]] + ([[2, 2], [1, 4], [12, 2, 12], [2] * 6] if big else [])
    k = 0
    for j, o in enumerate(fopts):
        hasv = 'vform' in o
        for q, n in enumerate(fshapes):
            if not big and (j + q) % 2:
                continue                        # quick: two of the four shapes per form, rotating
            for rep in range(reps):
                k += 1
                rho = 1 + k % 3
                modes = _modes(rho) + [grow(rho, 1, 1, 3)]
                r0, a, b, nswp = modes[(j + q + rep) % len(modes)]
                yield 'C05.cross.reproduce', dict(n=n, rho=rho, r0=r0, dr_min=a, dr_max=b, nswp=nswp, tseed=sf(), yseed=sf(),
                                                  cache=bool(k % 2), vld=bool((k // 2) % 2) or hasv, opt=o)
        for q, n in enumerate(fshapes[:2] if not big else fshapes[:6]):
            if not big and (j + q) % 2 == 0:
                continue
            for (rho, r0, a, b, nswp) in ((2, 2, 0, 0, 3), (8, 1, 1, 2, 3)):
                base = dict(n=n, rho=rho, r0=r0, dr_min=a, dr_max=b, nswp=nswp, tseed=sf(), yseed=sf(),
                            opt=dict(o, prekey='np') if (j + q) % 3 == 0 else o)
                pre = (0, 6)[(j + q) % 2] if (j + q) % 3 else 6
                yield 'C05.cross.cache_transparent', dict(base, prefill=pre, vld=hasv)
                yield 'C05.cross.cache_content', dict(base, prefill=pre, vld=hasv)
            for ei, (end, frac) in enumerate(ends):
                if big or (ei + j) % 4 == 0:
                    k += 1
                    rho, (r0, a, b, nswp) = ((2, (2, 0, 0, 3)), (8, (1, 1, 2, 3)))[k % 2]
                    yield 'C05.cross.info_reports', dict(n=n, rho=rho, r0=r0, dr_min=a, dr_max=b, nswp=nswp, tseed=sf(),
                                                         yseed=sf(), cache=bool(k % 2), vld=bool((k // 2) % 2) or hasv,
                                                         end=end, frac=frac, opt=o)
            k += 1
            rho, r0, a, b = ((2, 2, 0, 0), (3, 1, 1, 2))[k % 2]
            yield 'C05.cross.interrupted_every_call', dict(
                n=[3, 3, 3] if not big else n, rho=rho, r0=r0, dr_min=a, dr_max=b, extra=1, tseed=sf(), yseed=sf(),
                cache=bool(k % 2), vld=bool((k // 2) % 2) or hasv, end=('m', 'func')[(k // 2) % 2], opt=o)
