"""C05 (bounded, T3): TT-cross reproduces low-rank tensors and caching is transparent.

The target is a Gaussian rank-rho TT-tensor exported to a dense array T by an own einsum chain; the element
oracle handed to `teneva.cross` is `f(I) = T[I]` (instrumented: every batch is recorded), so equal indices give
bitwise equal values and nothing of teneva is inside the oracle.

Clauses (statement -> clause):

* C05.cross.reproduce          fixed-rank start at r0 >= rho with dr_min = dr_max = 0, and rank growth
                               (dr_min >= 1) from r0 < rho for enough sweeps (each sweep grows every bond by
                               2*dr_min, so nswp = ceil((rho - r0) / (2*dr_min)) + 2): the result is a well-formed
                               finite TT of the same shape with ||dense(Y) - T|| <= 1e-8 ||T||; with validation
                               data the reported e_vld is then <= 1e-8 too.  With and without cache / validation.
* C05.cross.cache_transparent  same arguments with cache=None and cache={} (optionally pre-filled with true
                               pairs), nswp stop, m_cache_scale huge so that 'conv' cannot fire: cores equal bit for
                               bit, same info['nswp'], same stop, info['m'] (cache) <= info['m'] (no cache),
                               info['m'] + info['m_cache'] == number of requested rows (= rows the uncached
                               oracle received), info['m'] == rows the cached oracle received.
* C05.cross.cache_content      the dictionary ends up holding exactly prefill + evaluated pairs: every key is a
                               tuple of d integers inside the bounds that can be looked up with Python ints, the
                               value is the float f(key), no index is evaluated twice, none that was pre-filled,
                               len(cache) == prefill + info['m'].
* C05.cross.info_reports       however the run ends (nswp, budget m, objective returning None, callback, e, e_vld):
                               info['r'] == erank(returned), info['e_vld'] == accuracy_on_data(returned, I_vld,
                               y_vld) (-1 without validation data), info['e'] == accuracy(returned, tensor at the
                               start of the current / last sweep) -- the latter is taken from opts['Yold'] of the
                               last callback when the run ended at a sweep boundary, from the callback's Y of the
                               previous sweep when it was interrupted inside a sweep, and from the nswp=0 run
                               (documented: "only maxvol-preiteration") when interrupted inside the first sweep.
                               Exact equality with the teneva metric functions (the clause is about agreement of the
                               report with the returned tensor) plus an own dense evaluation with tolerance.

Conditioning rule ("almost all tensors"): SKIP unless every unfolding of T has sigma_r / sigma_1 >= 1e-3 at
its generic rank r = min(rho, product of mode sizes on either side).
"""
import math
import numpy as np
import teneva
from rtc.api import clause, PASS, FAIL, TRIVIAL, SKIP, check
from rtc import gen


BUDGET = (60, 600)
BOUNDS = ('d in 2..4, n_k in 1..6, rho <= 3 (quick) / 4 (thorough), Gaussian targets and starts; fixed-rank starts '
          'r0 in {rho, rho+1} (0/0), growth 1/1, 1/2, 2/2 from r0 in {1, 2}; 14 systematic shapes + random ones; '
          'cache None / {} / pre-filled; 6 ways of ending a run for the info clause')

FUNCS = ('cross.cross', 'cross._func', 'cross._func_eval', 'cross._iter', 'utils._info_appr', 'utils._maxvol')
HUGE = 10 ** 18


class _Oracle:
    """f(I) = T[I], recording every batch; optionally returns None at its k-th call."""

    def __init__(self, T, none_at=None):
        self.T, self.batches, self.none_at = T, [], none_at

    def __call__(self, I):
        I = np.array(I)
        self.batches.append(I)
        if self.none_at is not None and len(self.batches) == self.none_at:
            return None
        return self.T[tuple(I.T)]

    def rows(self):
        return sum(len(b) for b in self.batches)


def _generic_ranks(n, rho):
    d = len(n)
    out = []
    for k in range(1, d):
        out.append(min(rho, int(np.prod(n[:k])), int(np.prod(n[k:]))))
    # a bond cannot exceed (previous bond) * n either; propagate
    for k in range(1, d - 1):
        out[k] = min(out[k], out[k - 1] * n[k])
    for k in range(d - 3, -1, -1):
        out[k] = min(out[k], out[k + 1] * n[k + 1])
    return out


def _ill_conditioned(T, n, rho, thr=1e-3):
    rk = _generic_ranks(n, rho)
    for k in range(1, len(n)):
        s = np.linalg.svd(T.reshape(int(np.prod(n[:k])), -1), compute_uv=False)
        r = rk[k - 1]
        if s[0] == 0 or s[r - 1] < thr * s[0]:
            return f'unfolding {k}: sigma_{r}/sigma_1 = {s[r - 1] / max(s[0], 1e-300):.1e} < {thr}'
    return None


def _setup(n, rho, r0, tseed, yseed):
    T = gen.dense(gen.tt(n, rho, tseed, 'gauss'))
    Y0 = gen.tt(n, r0, yseed, 'gauss')
    return T, Y0


def _vld(T, n, seed, cnt=12):
    g = gen.rng('C05vld', seed)
    I = np.stack([g.integers(0, k, size=cnt) for k in n], axis=1)
    return I, T[tuple(I.T)]


def _own_erank(Y):
    d = len(Y)
    n = [G.shape[1] for G in Y]
    r = [1] + [G.shape[2] for G in Y]
    if d == 2:
        return float(r[1])
    sz = sum(n[k] * r[k] * r[k + 1] for k in range(d))
    b = r[0] * n[0] + n[d - 1] * r[d]
    a = sum(n[1:d - 1])
    return (math.sqrt(b * b + 4 * a * sz) - b) / (2 * a)


def _same_float(a, b):
    """Equal AND finite: a NaN / inf report never counts as agreement (not even with a NaN / inf reference)."""
    a, b = float(a), float(b)
    return a == b and math.isfinite(a)


@clause('C05.cross.reproduce', funcs=FUNCS + ('maxvol.maxvol', 'maxvol.maxvol_rect'))
def reproduce(n, rho, r0, dr_min, dr_max, nswp, tseed, yseed, cache, vld):
    """Working ranks reach rho -> same shape, equal to the target up to rounding (rel. 1e-8)."""
    T, Y0 = _setup(n, rho, r0, tseed, yseed)
    bad = _ill_conditioned(T, n, rho)
    if bad:
        return SKIP(bad)
    f = _Oracle(T)
    info = {}
    kw = {}
    if vld:
        kw['I_vld'], kw['y_vld'] = _vld(T, n, tseed)
    Y = teneva.cross(f, Y0, nswp=nswp, dr_min=dr_min, dr_max=dr_max, info=info,
                     cache={} if cache else None, m_cache_scale=HUGE, **kw)
    msg = gen.wf(Y, n)
    if msg:
        return FAIL('result not well-formed / wrong shape: ' + msg)
    if not gen.finite(Y):
        return FAIL('non-finite cores')
    if info.get('stop') != 'nswp' or info.get('nswp') != nswp:
        return FAIL(f"stop {info.get('stop')} after {info.get('nswp')} sweeps, expected nswp after {nswp}")
    rel = np.linalg.norm(gen.dense(Y) - T) / np.linalg.norm(T)
    if not rel <= 1e-8:
        return FAIL(f'relative error {rel:.3e} > 1e-8; ranks {[G.shape[2] for G in Y[:-1]]}, evaluated {info["m"]}')
    if vld and not (0 <= info['e_vld'] <= 1e-8):
        return FAIL(f"reported e_vld {info['e_vld']:.3e} although the result equals the target")
    return PASS


def _prefill(T, n, cnt, seed):
    g = gen.rng('C05pre', seed)
    pre = {}
    for _ in range(cnt):
        key = tuple(int(g.integers(0, k)) for k in n)
        pre[key] = float(T[key])
    return pre


def _cached_pair(n, rho, r0, dr_min, dr_max, nswp, tseed, yseed, prefill, vld):
    T, Y0 = _setup(n, rho, r0, tseed, yseed)
    kw = {}
    if vld:
        kw['I_vld'], kw['y_vld'] = _vld(T, n, tseed)
    fa, ia = _Oracle(T), {}
    Ya = teneva.cross(fa, Y0, nswp=nswp, dr_min=dr_min, dr_max=dr_max, info=ia, cache=None,
                      m_cache_scale=HUGE, **kw)
    pre = _prefill(T, n, prefill, tseed)
    cache = dict(pre)
    fb, ib = _Oracle(T), {}
    Yb = teneva.cross(fb, Y0, nswp=nswp, dr_min=dr_min, dr_max=dr_max, info=ib, cache=cache,
                      m_cache_scale=HUGE, **kw)
    return T, (Ya, ia, fa), (Yb, ib, fb), pre, cache


@clause('C05.cross.cache_transparent', funcs=FUNCS)
def cache_transparent(n, rho, r0, dr_min, dr_max, nswp, tseed, yseed, prefill, vld):
    """cache=None vs cache=dict under identical arguments: identical cores, sweeps; evaluations never grow."""
    T, (Ya, ia, fa), (Yb, ib, fb), pre, cache = _cached_pair(n, rho, r0, dr_min, dr_max, nswp, tseed, yseed,
                                                             prefill, vld)
    if ib['stop'] == 'conv':
        return SKIP("outside the quantifier: the cache-specific stop 'conv' fired (everything requested was pre-filled)")
    if len(Ya) != len(Yb) or any(A.shape != B.shape for A, B in zip(Ya, Yb)):
        return FAIL(f'core shapes differ: {[A.shape for A in Ya]} vs {[B.shape for B in Yb]}')
    for k, (A, B) in enumerate(zip(Ya, Yb)):
        if not np.array_equal(A, B):
            return FAIL(f'core {k} differs between uncached and cached run, max |diff| {np.abs(A - B).max():.3e}')
    if ia['nswp'] != ib['nswp'] or ia['stop'] != ib['stop']:
        return FAIL(f"nswp/stop {ia['nswp']}/{ia['stop']} (no cache) vs {ib['nswp']}/{ib['stop']} (cache)")
    for key in ('r', 'e', 'e_vld'):
        if not _same_float(ia[key], ib[key]):
            return FAIL(f'info[{key}] differs: {ia[key]} vs {ib[key]}')
    if ia['m'] != fa.rows():
        return FAIL(f"uncached info['m'] {ia['m']} != rows received {fa.rows()}")
    if ib['m'] != fb.rows():
        return FAIL(f"cached info['m'] {ib['m']} != rows received {fb.rows()}")
    if ib['m'] > ia['m']:
        return FAIL(f"evaluations grew with a cache: {ib['m']} > {ia['m']}")
    if ib['m'] + ib['m_cache'] != fa.rows():
        return FAIL(f"m + m_cache = {ib['m']} + {ib['m_cache']} != requested rows {fa.rows()}")
    if ia['m_cache'] != 0:
        return FAIL(f"m_cache {ia['m_cache']} without a cache")
    return PASS if ib['m_cache'] > 0 else TRIVIAL('no cache hit')


@clause('C05.cross.cache_content', funcs=('cross.cross', 'cross._func_eval'))
def cache_content(n, rho, r0, dr_min, dr_max, nswp, tseed, yseed, prefill, vld):
    """The cache dictionary ends up holding exactly (pre-filled +) evaluated index -> value pairs."""
    T, _, (Yb, ib, fb), pre, cache = _cached_pair(n, rho, r0, dr_min, dr_max, nswp, tseed, yseed, prefill, vld)
    d = len(n)
    evaluated = [tuple(int(x) for x in row) for b in fb.batches for row in b]
    if len(set(evaluated)) != len(evaluated):
        return FAIL(f'{len(evaluated) - len(set(evaluated))} indices were evaluated more than once')
    hit = set(evaluated) & set(pre)
    if hit:
        return FAIL(f'pre-filled index {sorted(hit)[0]} was evaluated again')
    for key, val in cache.items():
        if not isinstance(key, tuple) or len(key) != d:
            return FAIL(f'key {key!r} is not a tuple of length d')
        if not all(isinstance(x, (int, np.integer)) and not isinstance(x, bool) for x in key):
            return FAIL(f'key {key!r} has non-integer entries')
        if not all(0 <= int(x) < k for x, k in zip(key, n)):
            return FAIL(f'key {key!r} outside the bounds {n}')
        pk = tuple(int(x) for x in key)
        if pk not in cache:
            return FAIL(f'key {key!r} cannot be looked up with Python ints')
        if not isinstance(val, float) or val != float(T[pk]):
            return FAIL(f'cache[{pk}] = {val!r} != f(index) = {float(T[pk])!r}')
    want = set(evaluated) | set(pre)
    have = {tuple(int(x) for x in key) for key in cache}
    if have != want or len(cache) != len(want):
        return FAIL(f'cache holds {len(cache)} keys, evaluated + pre-filled are {len(want)}; '
                    f'missing {sorted(want - have)[:2]} extra {sorted(have - want)[:2]}')
    if len(cache) != len(pre) + ib['m']:
        return FAIL(f"len(cache) {len(cache)} != prefill {len(pre)} + info['m'] {ib['m']}")
    return PASS


@clause('C05.cross.info_reports', funcs=('cross.cross', 'utils._info_appr'))
def info_reports(n, rho, r0, dr_min, dr_max, nswp, tseed, yseed, cache, vld, end, frac):
    """info['r'], info['e_vld'], info['e'] are those of the returned tensor, however the run ends.
    end: 'nswp' | 'm' | 'func' | 'cb' | 'e' | 'e_vld';  frac in [0, 1) places the interruption."""
    T, Y0 = _setup(n, rho, r0, tseed, yseed)
    kw = dict(dr_min=dr_min, dr_max=dr_max, m_cache_scale=HUGE)
    I_vld = y_vld = None
    if vld or end == 'e_vld':
        I_vld, y_vld = _vld(T, n, tseed)
        kw['I_vld'], kw['y_vld'] = I_vld, y_vld
    # reference run to know the unconstrained number of rows / calls
    ref, iref = _Oracle(T), {}
    teneva.cross(ref, Y0, nswp=nswp, info=iref, cache={} if cache else None, **kw)
    f = _Oracle(T)
    seen = []                       # (Y copy, Yold copy) at every callback

    def cb(Y, info, opts):
        seen.append(([G.copy() for G in Y], [G.copy() for G in opts['Yold']]))
        return end == 'cb' and info['nswp'] == max(1, int(round(frac * nswp)))

    if end == 'm':
        kw['m'] = max(1, int(frac * ref.rows()))
    elif end == 'func':
        f.none_at = max(1, int(frac * len(ref.batches)) + 1)
    elif end == 'e':
        kw['e'] = 1e-6 if frac < 0.5 else 1e+10
    elif end == 'e_vld':
        kw['e_vld'] = 1e-6 if frac < 0.5 else 1e+10
    info = {}
    Y = teneva.cross(f, Y0, nswp=nswp, info=info, cache={} if cache else None, cb=cb, **kw)
    msg = gen.wf(Y, n)
    if msg:
        return FAIL('result not well-formed: ' + msg)
    if not gen.finite(Y):
        return FAIL('non-finite result')
    stop = info['stop']
    # --- effective rank
    if not _same_float(info['r'], teneva.erank(Y)):
        return FAIL(f"info['r'] {info['r']} != erank(result) {teneva.erank(Y)} (stop {stop})")
    if not abs(float(info['r']) - _own_erank(Y)) <= 1e-9 * _own_erank(Y):       # (written so that NaN fails)
        return FAIL(f"info['r'] {info['r']} != own effective rank {_own_erank(Y)}")
    # --- validation error
    if I_vld is None:
        if info['e_vld'] != -1:
            return FAIL(f"e_vld {info['e_vld']} without validation data")
    else:
        want = teneva.accuracy_on_data(Y, I_vld, y_vld)
        if not _same_float(info['e_vld'], want):
            return FAIL(f"info['e_vld'] {info['e_vld']} != accuracy_on_data(result) {want} (stop {stop})")
        D = gen.dense(Y)
        own = np.linalg.norm(D[tuple(I_vld.T)] - y_vld) / np.linalg.norm(y_vld)
        scale = np.linalg.norm(gen.absdense(Y)[tuple(I_vld.T)]) / np.linalg.norm(y_vld)
        if not abs(info['e_vld'] - own) <= 1e-12 * (1 + scale) + 1e-9 * own:
            return FAIL(f"info['e_vld'] {info['e_vld']:.6e} != own dense evaluation {own:.6e}")
    # --- convergence value
    boundary = stop in ('nswp', 'cb', 'e', 'e_vld') and info['nswp'] == len(seen) and info['nswp'] > 0
    if stop in ('m', 'func') or not boundary:
        done = info['nswp']             # completed sweeps; interrupted inside sweep done + 1 (or before sweep 1)
        if done != len(seen):
            return FAIL(f"info['nswp'] {done} but the callback ran {len(seen)} times")
        if done > 0:
            Yold = seen[-1][0]
        else:
            Yold = teneva.cross(_Oracle(T), Y0, nswp=0, dr_min=dr_min, dr_max=dr_max)
    else:
        Yold = seen[-1][1]
        if any(not np.array_equal(A, B) for A, B in zip(seen[-1][0], Y)):
            return FAIL('returned tensor differs from the tensor shown to the last callback')
        if len(seen) >= 2 and any(not np.array_equal(A, B) for A, B in zip(seen[-2][0], Yold)):
            return FAIL("opts['Yold'] is not the tensor of the previous sweep")
    want = teneva.accuracy(Y, Yold)
    if info['nswp'] == 0:
        # Yold is only known through the nswp=0 run (same values, possibly another memory layout): tolerance
        if not abs(info['e'] - want) <= 1e-9 * abs(want) + 1e-7:
            return FAIL(f"info['e'] {info['e']} != accuracy(result, pre-iterated tensor) {want} (stop {stop})")
    elif not _same_float(info['e'], want):
        return FAIL(f"info['e'] {info['e']} != accuracy(result, previous sweep) {want} (stop {stop}, nswp {info['nswp']})")
    A, B = gen.dense(Y), gen.dense(Yold)
    nb = np.linalg.norm(B)
    if not math.isfinite(float(info['e'])):
        return FAIL(f"info['e'] {info['e']} is not finite (stop {stop})")
    if nb > 0 and info['e'] >= 0:
        own = np.linalg.norm(A - B) / nb
        if not abs(info['e'] - own) <= 1e-6 * (1 + own):
            return FAIL(f"info['e'] {info['e']:.6e} != own dense relative distance {own:.6e}")
    expected = {'nswp': ('nswp',), 'm': ('m', 'nswp'), 'func': ('func',), 'cb': ('cb',), 'e': ('e', 'nswp'),
                'e_vld': ('e_vld', 'nswp')}[end]
    if stop not in expected:
        return FAIL(f'run ended with {stop!r}, the case was built to end with one of {expected}')
    return PASS


# ----------------------------------------------------------------------------------------------- cases

SHAPES = [[2, 2], [6, 5], [1, 4], [4, 1], [3, 6], [3, 3, 3], [2, 1, 3], [6, 2, 5], [1, 5, 4], [4, 4, 1],
          [3, 4, 2, 3], [5, 1, 2, 6], [2, 2, 2, 2], [4, 3, 3, 4]]


def _modes(rho):
    """(r0, dr_min, dr_max, nswp) with working ranks guaranteed to reach rho."""
    out = [(rho, 0, 0, 3), (rho + 1, 0, 0, 3)]
    for r0, a, b in ((1, 1, 1), (1, 1, 2), (2, 1, 1), (1, 2, 2)):
        if r0 > rho:
            continue
        out.append((r0, a, b, max(0, -(-(rho - r0) // (2 * a))) + 2))
    return out


def cases(tier, seed):
    big = tier == 'thorough'
    g = gen.rng('C05', seed)
    shapes = list(SHAPES)
    for _ in range(24 if big else 6):
        d = int(g.integers(2, 5))
        shapes.append([int(x) for x in g.integers(1, 7, size=d)])
    reps = 4 if big else 1
    k = 0
    for n in shapes:
        for rho in range(1, 5 if big else 4):
            for (r0, a, b, nswp) in _modes(rho):
                for rep in range(reps):
                    k += 1
                    base = dict(n=n, rho=rho, r0=r0, dr_min=a, dr_max=b, nswp=nswp,
                                tseed=int(g.integers(1 << 30)), yseed=int(g.integers(1 << 30)))
                    yield 'C05.cross.reproduce', dict(base, cache=bool(k % 2), vld=bool((k // 2) % 2))
                    if big:
                        yield 'C05.cross.reproduce', dict(base, cache=not (k % 2), vld=not ((k // 2) % 2))
                    pre = (0, 0, 7)[k % 3]
                    yield 'C05.cross.cache_transparent', dict(base, prefill=pre, vld=bool(k % 2))
                    yield 'C05.cross.cache_content', dict(base, prefill=pre, vld=bool(k % 2))
        # cache transparency does not need a low-rank target: full-rank Gaussian target, more sweeps
        for (r0, a, b, nswp) in ((2, 0, 0, 3), (1, 1, 1, 3), (1, 1, 2, 2), (3, 0, 2, 2)):
            base = dict(n=n, rho=8, r0=r0, dr_min=a, dr_max=b, nswp=nswp,
                        tseed=int(g.integers(1 << 30)), yseed=int(g.integers(1 << 30)))
            yield 'C05.cross.cache_transparent', dict(base, prefill=0, vld=False)
            yield 'C05.cross.cache_content', dict(base, prefill=5, vld=False)
    ends = [('nswp', 0.0), ('m', 0.05), ('m', 0.3), ('m', 0.6), ('m', 0.95), ('func', 0.0), ('func', 0.3),
            ('func', 0.6), ('func', 0.95), ('cb', 0.3), ('cb', 0.6), ('cb', 1.0), ('e', 0.0), ('e', 0.9),
            ('e_vld', 0.0), ('e_vld', 0.9)]
    k = 0
    for n in shapes:
        for rho, (r0, a, b, nswp) in ((2, (2, 0, 0, 3)), (3, (1, 1, 1, 3)), (2, (1, 1, 2, 3)), (8, (2, 0, 1, 3))):
            for end, frac in ends:
                for rep in range(reps):
                    k += 1
                    yield 'C05.cross.info_reports', dict(
                        n=n, rho=rho, r0=r0, dr_min=a, dr_max=b, nswp=nswp, tseed=int(g.integers(1 << 30)),
                        yseed=int(g.integers(1 << 30)), cache=bool(k % 2), vld=bool((k // 2) % 2), end=end, frac=frac)
