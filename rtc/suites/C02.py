"""C02 (bounded, T3): truncate keeps the error within e*||Y|| and never exceeds rank caps; add_many.

Oracle: own dense evaluation of input and output (`gen.dense`) and the dense SVDs of all d-1 unfoldings of
the INPUT; with tail_k(q) = sqrt(sum_{j>=q} s_j^2) of unfolding k:

* `C02.truncate.shape_ranks`        well-formed, same mode sizes, finite, every rank <= max(1, int(r)) and <= the
                                    input rank and <= what the unfolding can carry; both modes x both stab flags.
* `C02.truncate.<mode>.error_bound` cap not binding: ||Y-Z||^2 <= e^2 ||Y||^2 (1+2e-6) + C eps ||Y||^2.
* `C02.truncate.<mode>.rss_optimal` any cap: ||Y-Z||^2 <= sum_k tail_k(r_k(Z))^2 (1+1e-6) + C eps ||Y||^2.
* `C02.truncate.<mode>.rank_minimal` e >= 1e-4 (above the rounding floor of the Gram-matrix eigen-decomposition):
                                    r_k(Z) <= min{q >= 1 : tail_k(q) <= (1-5e-7) e ||Y|| / sqrt(d-1)}.
  <mode> = eigh_mode (is_eigh=True, the default) / svd_mode (is_eigh=False; a known defect of the pinned tree
  is isolated there: the factor kept as core k carries the weights, so the later steps see wrong spectra).
* `C02.add_many.sum_bound`          result within the bound accumulated over the rounding steps of the dense
                                    sum, ranks <= cap; `C02.add_many.numbers`: number-only input gives the number.

Accuracy e is either a plain float or a threshold `[k, q, sign]`, resolved inside the clause to
(1 + sign*1e-6) * tail_k(q) sqrt(d-1) / ||Y|| - i.e. just above / below the value at which bond k may drop to
rank q.  Tensor families: Gaussian, integer, geometrically decaying bond weights, exact low rank hidden in
larger TT-ranks, d = 2 with prescribed singular values (ties, gaps, exact zeros); total scales 1e-6 ... 1e6.
Exactly-zero tensors are excluded (their NaN result is C11's finding).

Parameter / regime coverage added by the audit of the signatures:
* `C02.truncate.many_modes`  d = 20 .. 70 (thorough 100): spectra of the unfoldings and ||Y - Z|| from the cores alone
                             (own QR / SVD sweeps, no dense array); all four contract clauses, thresholds included.
* per-core factors 2^ex (param `ex` of the truncate clauses): +-100 (totals 2^+-400, both stab flags) and +300 / -150
  with use_stab=True (totals up to 2^1200, outside the double range; reference from the unscaled cores).
* uneven exponent PROFILES (param `ex` as a list of d integers, `_ex_profiles`): the scale of the tensor sits in single
  cores - one core at / below the threshold 1e-100 of core_stab (2^-345, 2^-400) at EVERY position j >= 1, met after the
  sweep has accumulated a power 2^3 / 2^-7 / 2^300 (or 2^600 from two cores) on the earlier cores, also followed by a
  2^+400 core; d = 2, 3, 4 (thorough 5, 6), both stab flags, both modes, thresholds included.  Reference from the
  unscaled cores, the result is scaled back by the total power only (`_unscale`), never by the input profile.
* mode sizes 300 .. 1025 (thorough 2048) in the truncate clauses.
* `C02.truncate.no_orth`     orth=False (never used before): e is the absolute per-unfolding budget; on left-orthonormal
                             input (own QR sweep) the error / rss / rank-cap contract of the sweep, otherwise structure.
* add_many: trunc_freq in {3,4,5,6,7,15,50} against m-1 in {2..30} (dividing, not dividing, default 15 firing at
  m = 16, 17, 31, never firing), leading numbers, float cap 2.7, each of e / r / trunc_freq left at its default.

Input forms / magnitude slips (round 6):
* `C02.truncate.wide_spectrum`  tensors whose d-1 unfoldings ALL have a prescribed spectrum (`gen.tt_spectrum`) with a wide
  dynamic range: dominant values 1 .. 1e-2 and a tail at the level u = 3e-11 .. 1e-3 of the dominant one - clusters of
  values each below the per-unfolding budget whose root-sum-square exceeds it, single values just above / far below it
  (`wide_spectrum`: 9 templates); budget = u and (1 +- 1e-2) x the tails inside the cluster; weights in the first / a
  middle / the last core, total scales 1e-6 .. 1e6, both stab flags, caps.  SVD mode: u down to 3e-11 with the LINEAR
  rounding allowance 64 d r eps ||Y|| (the mode resolves singular values to eps ||Y||, so e = 1e-10 is a real
  requirement there); eigen mode: u >= 1e-5 (allowance 16 d r eps ||Y||^2 in the squares, as in the other clauses).
  All four contract clauses (ranks, error bound, rss-optimality, minimal ranks with the allowance as slack).
  Also the documented CALL FORMS of truncate (everything positional in the documented order, prefix + keywords,
  trailing defaults omitted - `gen.call_form` against `SIG`).
* `C02.add_many.number_terms`   NUMBER summands among the tensors (`NUM_FAMILIES`): 0, +-0.0, negative, ints (10**20),
  tiny (|v| <= 1e-16 - const's special branch -, its boundary 1e-16 / 1.0000001e-16, 1e-300, denormal), huge (1e30,
  2e100), on data of the same scale (1e-100 .. 1e100) and far off it; leading / trailing / consecutive / interleaved;
  call forms of add_many.  Bound as in sum_bound plus the eigen-mode allowance per rounding step.
* `C02.add.number_term`         the step add(Y, v) / add(v, Y) itself: dense(Y) + v entry by entry to rounding.

Input forms (form audit):
* `C02.forms.truncate`  the four contract clauses with the core list as cores of dtype float32 / int64 / int32 / dtypes mixed
  between the cores (int64 cores next to non-integer float64 ones, float32 next to float64), read-only cores, read-only
  non-contiguous views, a tuple (`gen.tt_form1`); e as numpy.float64 / numpy.float32 / 0-d array; the cap r as numpy.int64 /
  int32 / float64 / float32 / 0-d float / 0-d int array / Python float (`gen.num_form1`); reference = float64 image of what is
  passed; thresholds (1 +- 1e-6) included for the exact forms.  float32 cores: linear allowance 16 d r eps32 ||Y|| (the
  unchanged library orthogonalises them in float32), no rank-minimality claim.
* `C02.add_many.sum_bound` `form=`: Y_many and summands as tuples / read-only cores / read-only views, e / r / trunc_freq as
  numpy.float64 / int64 / int32 / float32 / 0-d array.
"""
import itertools, math
import numpy as np
import teneva
from rtc.api import clause, PASS, FAIL, TRIVIAL, SKIP
from rtc import gen


BUDGET = (58, 580)
BOUNDS = ('d in {2,3,4} (thorough 5), modes 1..4 (thorough 5), ranks 1..4 incl. over-ranked (thorough 6), 5 tensor '
          'families, scales 1e-6..1e6, e in {0.9..1e-10} plus (1 +- 1e-6) x every rank-change threshold in [1e-4, 0.9], '
          'caps {1e12, 1, 2, 3, 2.7}, is_eigh x use_stab; add_many up to 31 summands, trunc_freq in {1,2,3,4,5,6,7,15,50} '
          'and defaults; d = 20..70 (thorough 100) with own QR/SVD oracles; per-core factors 2^+-100, 2^300, 2^-150 (stab); '
          'uneven per-core exponent profiles with one core <= 1e-100 (2^-345 / 2^-400) at every position after 2^3 / 2^-7 / 2^300; '
          'mode sizes up to 1025 (thorough 2048); orth=False on pre-orthogonalised and raw inputs; prescribed wide spectra '
          '(all unfoldings) with clustered tails at 3e-11..1e-3 of the dominant value, d = 2..4, SVD mode down to budgets 1e-10 ||Y|| '
          '(linear allowance 64 d r eps ||Y||), eigen mode from 1e-5, thresholds +-1e-2; call forms of truncate / add_many; '
          'number summands in add_many / add: 0, +-0.0, negative, ints, |v| <= 1e-16 (boundary, denormal), 1e30, 2e100 on data '
          'of scale 1e-100..1e100; input forms: 11 core-list forms (float32 / int64 / int32 / mixed / read-only / views / tuple) x '
          '4 (thorough 7) configurations x 4 contract clauses, e / r as numpy.float64 / float32 / int64 / int32 / 0-d arrays, '
          'add_many with tuples, read-only summands and numpy numbers')

EPS = np.finfo(float).eps
E_LIST = (0.9, 0.3, 0.1, 1e-2, 1e-3, 1e-5, 1e-8, 1e-10)
CAPS = (1e12, 1, 2, 3, 2.7)
SPECTRA = {
    'geom': [1.0, 1e-1, 1e-2, 1e-3, 1e-4],
    'ties': [1.0, 1.0, 0.5, 0.5, 0.5],
    'gap': [1.0, 0.9, 1e-3, 0.9e-3],
    'zeros': [1.0, 0.3, 0.0, 0.0],
    'flat': [1.0, 1.0, 1.0, 1.0],
}


# ----------------------------------------------------------------------------- inputs and oracle

def _orth(g, m, k):
    Q, _ = np.linalg.qr(g.normal(size=(m, k)))
    return Q


def make(n, r, seed, kind, scale, order='C'):
    """Input tensor of a family; total scale `scale` spread evenly over the cores."""
    d = len(n)
    g = gen.rng('C02', n, r, seed, kind)
    if kind in ('gauss', 'int'):
        Y = gen.tt(n, r, seed, kind)
    elif kind == 'decay':
        Y = gen.tt(n, r, seed, 'gauss')
        for k in range(d - 1):
            Y[k] = Y[k] * (0.3 ** np.arange(Y[k].shape[2]))[None, None, :]
    elif kind == 'lowrank':     # true TT-rank rho <= 2 hidden in ranks r:  G_k A_k, pinv(A_k) G_{k+1}
        rho = 1 + seed % 2
        rr = [1] + [min(rho, r[k]) for k in range(1, d)] + [1]
        Y = gen.tt(n, rr, seed, 'gauss')
        for k in range(d - 1):
            A = g.normal(size=(rr[k + 1], r[k + 1]))
            Bp = np.linalg.pinv(A)
            Y[k] = np.einsum('anb,bc->anc', Y[k], A)
            Y[k + 1] = np.einsum('cb,bnd->cnd', Bp, Y[k + 1])
    elif kind.startswith('spec:'):     # d = 2, prescribed singular values
        s = np.array(SPECTRA[kind[5:]][: min(n)])
        q = len(s)
        U, V = _orth(g, n[0], q), _orth(g, n[1], q)
        Y = [(U * s)[None, :, :], V.T[:, :, None].copy()]
    else:
        raise ValueError(kind)
    f = float(scale) ** (1.0 / d)
    Y = [np.array(G * f, order='F' if order == 'F' else 'C') for G in Y]
    if order == 'V':
        Z = []
        for G in Y:
            big = np.zeros((G.shape[0] * 2, G.shape[1] * 2, G.shape[2] * 2))
            big[::2, ::2, ::2] = G
            Z.append(big[::2, ::2, ::2])
        Y = Z
    return Y


def spectra(D, n):
    d = len(n)
    out = []
    for k in range(1, d):
        M = D.reshape(int(np.prod(n[:k])), -1)
        out.append(np.linalg.svd(M, compute_uv=False))
    return out


def tails(s):
    """tail(q), q = 0..len(s): l2 norm of the singular values discarded when q are kept."""
    t = np.sqrt(np.cumsum((s ** 2)[::-1])[::-1])
    return np.append(t, 0.0)


def resolve_e(e, svs, nrm, d):
    """float -> itself; [k, q, sign] -> (1 + sign*1e-6) * threshold of bond k for rank q (None if out of range)."""
    if not isinstance(e, (list, tuple)):
        return float(e)
    k, q, sign = e
    if k >= len(svs) or q >= len(svs[k]) or q < 1:
        return None
    e0 = tails(svs[k])[q] * math.sqrt(d - 1) / nrm
    if not (1e-4 <= e0 <= 0.9):
        return None
    return e0 * (1 + sign * 1e-6)


class Case:
    pass


def _unscale(Z, total):
    """Cores of 2^-total * Z (exact, powers of two only) without assuming how the result spreads its scale over the
    cores: every core is normalised to max-modulus in [0.5, 1), the exponents are summed and what remains of
    (sum - total) is spread evenly.  A wrong total scale of Z shows up as a wrong / overflowing / vanishing dense tensor."""
    out, rest = [], -int(total)
    for G in Z:
        _, x = math.frexp(float(np.abs(G).max()))
        out.append(np.ldexp(G, -x))
        rest += x
    q, rem = divmod(rest, len(out))
    return [np.ldexp(G, q + (1 if k < rem else 0)) for k, G in enumerate(out)]


EPS32 = float(np.finfo(np.float32).eps)
# input forms of the call made by run() - set (and restored) by `C02.forms.truncate` only: form of the core list
# (`gen.tt_form1`), of the number e and of the cap r (`gen.num_form1`)
_FORM = {'form': None, 'eform': None, 'capform': None}
F32_FORMS = ('f32', 'mix_f32a', 'mix_f32b', 'tuple_f32_ro')


def run(n, r, seed, kind, scale, order, e, cap, stab, eigh, ex=0):
    """ex != 0: every core of the input carries the extra factor 2^ex (total 2^(d ex), possibly outside the double
    range - only meaningful with stab); the reference stays at the unscaled tensor and the result is scaled back
    core by core (exact).  ex = list of d integers: core k carries 2^ex[k] (an uneven scale PROFILE, e.g. one core
    below the threshold 1e-100 of core_stab); the result is scaled back by the total 2^-sum(ex) (see _unscale)."""
    c = Case()
    c.Y = make(n, r, seed, kind, scale, order)
    form = _FORM['form']
    if form:
        c.Y = gen.tt_form1_values(c.Y, form)       # values that the form can hold; the reference is their float64 image
    c.d = len(n)
    c.D = gen.dense(c.Y)
    prof = isinstance(ex, (list, tuple))
    if prof:
        if len(ex) != c.d:
            raise ValueError('exponent profile must name every core')
        c.Y = [np.ldexp(G, int(x)) for G, x in zip(c.Y, ex)]
    elif ex:
        c.Y = [np.ldexp(G, ex) for G in c.Y]
    c.nrm = float(np.linalg.norm(c.D))
    if c.nrm == 0 or not np.isfinite(c.nrm):
        return None, SKIP('zero tensor (C11)')
    c.svs = spectra(c.D, n)
    c.e = resolve_e(e, c.svs, c.nrm, c.d)
    if c.e is None:
        return None, SKIP('threshold outside [1e-4, 0.9] or not present')
    c.cap = cap
    c.rin = [1] + [G.shape[2] for G in c.Y]
    if form or _FORM['eform'] or _FORM['capform']:
        Yin = gen.tt_form1(c.Y, form) if form else c.Y
        e_in, cap_in = gen.num_form1(c.e, _FORM['eform']), gen.num_form1(cap, _FORM['capform'])
        c.e, c.cap = float(e_in), float(cap_in)                       # float64 image of what is passed
        snap = gen.snapshot(Yin)
        c.Z = teneva.truncate(Yin, e_in, cap_in, use_stab=stab, is_eigh=eigh)
        if gen.snapshot(Yin) != snap:
            return None, FAIL('input changed')
        if not isinstance(c.Z, list) or not all(isinstance(G, np.ndarray) and G.dtype.kind in 'fiu' for G in c.Z):
            return None, FAIL('result is not a list of numeric cores')
        c.Z = gen.tt_image1(c.Z)                                       # the dtype of the result is not part of the property
    else:
        snap = gen.snapshot(c.Y)
        c.Z = teneva.truncate(c.Y, c.e, cap, use_stab=stab, is_eigh=eigh)
        if gen.snapshot(c.Y) != snap:
            return None, FAIL('input changed')
    msg = gen.wf(c.Z, n)
    if msg:
        return None, FAIL('result not well-formed: ' + msg)
    if not gen.finite(c.Z):
        return None, FAIL('non-finite cores')
    if prof:
        c.Z = _unscale(c.Z, sum(int(x) for x in ex))
    elif ex:
        c.Z = [np.ldexp(G, -ex) for G in c.Z]
    c.rk = [1] + [G.shape[2] for G in c.Z]
    c.err = float(np.linalg.norm(gen.dense(c.Z) - c.D))
    c.floor2 = 16.0 * c.d * max(c.rin) * EPS * c.nrm ** 2
    if form in F32_FORMS:       # the unchanged library orthogonalises float32 cores in float32: LINEAR allowance c d r eps32 ||Y||
        c.floor2 = (16.0 * c.d * max(c.rin) * EPS32 * c.nrm) ** 2
    c.capbinds = any(x >= max(1, int(c.cap)) for x in c.rk[1:-1]) and cap < 1e6
    return c, None


def _shape_ranks(**p):
    c, res = run(**p)
    if c is None:
        return res
    n = p['n']
    for k in range(1, c.d):
        carry = min(int(np.prod(n[:k])), int(np.prod(n[k:])))
        if c.rk[k] > max(1, int(c.cap)):
            return FAIL(f'rank {k} = {c.rk[k]} > cap max(1,int({c.cap}))')
        if c.rk[k] > c.rin[k]:
            return FAIL(f'rank {k} = {c.rk[k]} > input rank {c.rin[k]}')
        if c.rk[k] > carry:
            return FAIL(f'rank {k} = {c.rk[k]} > size of the unfolding {carry}')
    return PASS


def _error_bound(**p):
    c, res = run(**p)
    if c is None:
        return res
    if c.capbinds:
        return SKIP('cap binds')
    lim2 = (c.e * c.nrm) ** 2 * (1 + 2e-6) + c.floor2
    if not c.err ** 2 <= lim2:
        return FAIL(f'||Y-Z|| = {c.err / c.nrm:.6e} ||Y|| > e = {c.e:.6e} (ranks {c.rin} -> {c.rk}, ||Y|| = {c.nrm:.3e})')
    return PASS if c.rk != c.rin else TRIVIAL('nothing truncated')


def _rss_optimal(**p):
    c, res = run(**p)
    if c is None:
        return res
    best2 = sum(tails(s)[min(c.rk[k + 1], len(s))] ** 2 for k, s in enumerate(c.svs))
    if not c.err ** 2 <= best2 * (1 + 1e-6) + c.floor2:
        return FAIL(f'||Y-Z|| = {c.err:.6e} > rss of best unfolding errors {math.sqrt(best2):.6e} at ranks {c.rk} '
                    f'(input {c.rin}, e = {c.e:.3e}, ||Y|| = {c.nrm:.3e})')
    return PASS if c.rk != c.rin else TRIVIAL('nothing truncated')


def _rank_minimal(**p):
    c, res = run(**p)
    if c is None:
        return res
    if c.e < 1e-4:
        return SKIP('e below the stated rounding floor 1e-4')
    if _FORM['form'] in F32_FORMS:
        return SKIP('float32 cores: the rank decisions are taken on float32 spectra')
    budget = c.e * c.nrm / math.sqrt(c.d - 1) * (1 - 5e-7)
    for k, s in enumerate(c.svs):
        t = tails(s)
        qmin = max(1, next(q for q in range(len(t)) if t[q] <= budget))
        if c.rk[k + 1] > qmin:
            return FAIL(f'bond {k + 1}: rank {c.rk[k + 1]} > minimal rank {qmin} meeting the budget {budget:.6e} '
                        f'(tails {t[max(0, qmin - 1):qmin + 1]}, e = {c.e:.6e})')
    return PASS


@clause('C02.truncate.shape_ranks', funcs=('transformation.truncate',))
def shape_ranks(n, r, seed, kind, scale, order, e, cap, stab, eigh, ex=0):
    """Same mode sizes, finite well-formed cores, every rank <= max(1, int(r)), <= the input rank and <= the size
    of its unfolding - for both decomposition modes and both stabilisation flags."""
    return _shape_ranks(n=n, r=r, seed=seed, kind=kind, scale=scale, order=order, e=e, cap=cap, stab=stab, eigh=eigh, ex=ex)


@clause('C02.truncate.eigh_mode.error_bound', funcs=('transformation.truncate', 'svd.matrix_svd'))
def eigh_error_bound(n, r, seed, kind, scale, order, e, cap, stab, ex=0):
    """is_eigh=True: ||Y - Z|| <= e ||Y|| whenever the cap does not bind."""
    return _error_bound(n=n, r=r, seed=seed, kind=kind, scale=scale, order=order, e=e, cap=cap, stab=stab, eigh=True, ex=ex)


@clause('C02.truncate.eigh_mode.rss_optimal', funcs=('transformation.truncate', 'svd.matrix_svd'))
def eigh_rss(n, r, seed, kind, scale, order, e, cap, stab, ex=0):
    """is_eigh=True: the error is at most the root-sum-square of the best unfolding errors at the returned ranks."""
    return _rss_optimal(n=n, r=r, seed=seed, kind=kind, scale=scale, order=order, e=e, cap=cap, stab=stab, eigh=True, ex=ex)


@clause('C02.truncate.eigh_mode.rank_minimal', funcs=('transformation.truncate', 'svd.matrix_svd'))
def eigh_rank_min(n, r, seed, kind, scale, order, e, cap, stab, ex=0):
    """is_eigh=True, e >= 1e-4: no rank exceeds the smallest rank meeting the budget e||Y||/sqrt(d-1) of its unfolding."""
    return _rank_minimal(n=n, r=r, seed=seed, kind=kind, scale=scale, order=order, e=e, cap=cap, stab=stab, eigh=True, ex=ex)


@clause('C02.truncate.svd_mode.error_bound', funcs=('transformation.truncate', 'svd.matrix_skeleton'))
def svd_error_bound(n, r, seed, kind, scale, order, e, cap, stab, ex=0):
    """is_eigh=False: ||Y - Z|| <= e ||Y|| whenever the cap does not bind (known defect of the pinned tree)."""
    return _error_bound(n=n, r=r, seed=seed, kind=kind, scale=scale, order=order, e=e, cap=cap, stab=stab, eigh=False, ex=ex)


@clause('C02.truncate.svd_mode.rss_optimal', funcs=('transformation.truncate', 'svd.matrix_skeleton'))
def svd_rss(n, r, seed, kind, scale, order, e, cap, stab, ex=0):
    """is_eigh=False: the error is at most the root-sum-square of the best unfolding errors at the returned ranks."""
    return _rss_optimal(n=n, r=r, seed=seed, kind=kind, scale=scale, order=order, e=e, cap=cap, stab=stab, eigh=False, ex=ex)


@clause('C02.truncate.svd_mode.rank_minimal', funcs=('transformation.truncate', 'svd.matrix_skeleton'))
def svd_rank_min(n, r, seed, kind, scale, order, e, cap, stab, ex=0):
    """is_eigh=False, e >= 1e-4: no rank exceeds the smallest rank meeting the budget of its unfolding."""
    return _rank_minimal(n=n, r=r, seed=seed, kind=kind, scale=scale, order=order, e=e, cap=cap, stab=stab, eigh=False, ex=ex)



_CHECKS = {'shape_ranks': _shape_ranks, 'error_bound': _error_bound, 'rss_optimal': _rss_optimal, 'rank_minimal': _rank_minimal}


@clause('C02.forms.truncate', funcs=('transformation.truncate', 'svd.matrix_svd', 'svd.matrix_skeleton'))
def forms_truncate(check, form, eform, capform, params):
    """The four contract clauses (`check`) of truncate with the arguments in other INPUT FORMS: the core list with cores of
    dtype float32 / int64 / int32 / mixed between the cores, read-only cores and views, as a tuple (`gen.tt_form1`); the
    accuracy e as numpy.float64 / numpy.float32 / 0-d array; the cap r as numpy.int64 / int32 / float64 / float32 / 0-d
    array / Python float (`gen.num_form1`).  The reference is the float64 image of what is passed.  float32 cores: the
    unchanged library orthogonalises them in float32, so the rounding allowance is 16 d r eps32 ||Y|| (linear) and
    rank-minimality is not claimed."""
    _FORM.update(form=form, eform=eform, capform=capform)
    try:
        return _CHECKS[check](**params)
    finally:
        _FORM.update(form=None, eform=None, capform=None)


@clause('C02.truncate.d2_exact_rank', funcs=('transformation.truncate', 'svd.matrix_svd', 'svd.matrix_skeleton'))
def d2_exact_rank(n, seed, spec, scale, q, sign, stab, eigh):
    """d = 2 with prescribed singular values: just above the threshold of rank q the result has rank exactly
    the smallest q' with tail(q') <= e ||Y|| (ties skip ranks), just below one more, and the error is that tail."""
    Y = make(n, [1, min(n), 1], seed, 'spec:' + spec, scale)
    s = np.array(SPECTRA[spec][: min(n)]) * scale
    t = tails(s)
    nrm = t[0]
    if q >= len(s) or t[q] <= 0:
        e = 1e-7 if sign > 0 else None      # all-zero tail: any positive e removes it
        if e is None:
            return SKIP('no threshold')
    else:
        e = t[q] / nrm * (1 + sign * 1e-6)
    if not (0 < e < 1):
        return SKIP('e outside (0,1)')
    want = max(1, next(j for j in range(len(t)) if t[j] <= e * nrm))
    Z = teneva.truncate(Y, e, use_stab=stab, is_eigh=eigh)
    msg = gen.wf(Z, n)
    if msg:
        return FAIL(msg)
    got = Z[0].shape[2]
    if got != want:
        return FAIL(f'spectrum {s.tolist()} e = {e:.9e}: rank {got}, expected {want}')
    err = float(np.linalg.norm(gen.dense(Z) - gen.dense(Y)))
    if not abs(err - t[want]) <= 1e-6 * t[want] + 1e-7 * nrm:
        return FAIL(f'error {err:.6e} != discarded tail {t[want]:.6e}')
    return PASS


# ----------------------------------------------------------------------------- own TT oracles (no dense array)

def _left_orth(Y):
    """Own left-to-right QR sweep (NumPy only): same tensor, cores 0..d-2 with orthonormal columns."""
    Z = [np.array(G, dtype=float) for G in Y]
    for k in range(len(Z) - 1):
        r1, m, r2 = Z[k].shape
        Q, R = np.linalg.qr(Z[k].reshape(r1 * m, r2))
        Z[k] = Q.reshape(r1, m, Q.shape[1])
        Z[k + 1] = np.einsum('ab,bmc->amc', R, Z[k + 1])
    return Z


def own_spectra(Y):
    """(singular values of the d-1 unfoldings, Frobenius norm) from the cores alone: QR sweep to the right, then SVD
    sweep to the left (the weights travel with the remainder, nothing is truncated)."""
    Z = _left_orth(Y)
    d = len(Z)
    nrm = float(np.linalg.norm(Z[-1]))
    svs = [None] * (d - 1)
    for k in range(d - 1, 0, -1):
        r1, m, r2 = Z[k].shape
        U, sv, Vt = np.linalg.svd(Z[k].reshape(r1, m * r2), full_matrices=False)
        svs[k - 1] = sv
        Z[k] = Vt.reshape(-1, m, r2)
        Z[k - 1] = np.einsum('amb,bc->amc', Z[k - 1], U * sv)
    return svs, nrm


def own_distance(Y, Z):
    """||Y - Z||_F through the block TT of the difference and a QR sweep (no cancellation of large scalar products)."""
    d = len(Y)
    W = []
    for k, (G, H) in enumerate(zip(Y, Z)):
        G, H = np.asarray(G, dtype=float), np.asarray(H, dtype=float)
        if k == 0:
            W.append(np.concatenate([G, -H], axis=2))
        elif k == d - 1:
            W.append(np.concatenate([G, H], axis=0))
        else:
            T = np.zeros((G.shape[0] + H.shape[0], G.shape[1], G.shape[2] + H.shape[2]))
            T[:G.shape[0], :, :G.shape[2]] = G
            T[G.shape[0]:, :, G.shape[2]:] = H
            W.append(T)
    return float(np.linalg.norm(_left_orth(W)[-1]))


def _resolve_many(e, svs, nrm, d):
    if not isinstance(e, (list, tuple)):
        return float(e)
    k, q, sign = e
    if k >= len(svs) or q >= len(svs[k]) or q < 1:
        return None
    e0 = tails(svs[k])[q] * math.sqrt(d - 1) / nrm
    if not (1e-2 <= e0 <= 0.9):
        return None
    return e0 * (1 + sign * 1e-6)


@clause('C02.truncate.many_modes', funcs=('transformation.truncate', 'svd.matrix_svd', 'svd.matrix_skeleton'))
def truncate_many_modes(d, nk, r, seed, kind, e, cap, stab, eigh):
    """d = 20 .. 70 modes (no dense array): all four contract clauses with the spectra of the unfoldings and the
    distance ||Y - Z|| computed from the cores alone by own QR / SVD sweeps.  Here the budget split e/sqrt(d-1) over
    many bonds matters: ranks must not exceed the minimal ones (e >= 1e-2), the error must stay below e ||Y||."""
    n = [nk] * d
    Y = make(n, [1] + [r] * (d - 1) + [1], seed, kind, 1.0)
    svs, nrm = own_spectra(Y)
    if not (nrm > 0 and np.isfinite(nrm)):
        return SKIP('zero tensor')
    ee = _resolve_many(e, svs, nrm, d)
    if ee is None:
        return SKIP('threshold outside [1e-2, 0.9] or not present')
    rin = [1] + [G.shape[2] for G in Y]
    snap = gen.snapshot(Y)
    Z = teneva.truncate(Y, ee, cap, use_stab=stab, is_eigh=eigh)
    if gen.snapshot(Y) != snap:
        return FAIL('input changed')
    msg = gen.wf(Z, n)
    if msg:
        return FAIL('result not well-formed: ' + msg)
    if not gen.finite(Z):
        return FAIL('non-finite cores')
    rk = [1] + [G.shape[2] for G in Z]
    for k in range(1, d):
        if rk[k] > max(1, int(cap)) or rk[k] > rin[k]:
            return FAIL(f'rank {k} = {rk[k]} exceeds the cap {cap} or the input rank {rin[k]}')
    err = own_distance(Y, Z)
    floor2 = 16.0 * d * max(rin) * EPS * nrm ** 2
    best2 = sum(tails(sv)[min(rk[k + 1], len(sv))] ** 2 for k, sv in enumerate(svs))
    if not err ** 2 <= best2 * (1 + 1e-6) + floor2:
        return FAIL(f'||Y-Z|| = {err:.6e} > rss of best unfolding errors {math.sqrt(best2):.6e} (e = {ee:.3e}, ||Y|| = {nrm:.3e})')
    capbinds = cap < 1e6 and any(x >= max(1, int(cap)) for x in rk[1:-1])
    if not capbinds and not err ** 2 <= (ee * nrm) ** 2 * (1 + 2e-6) + floor2:
        return FAIL(f'||Y-Z|| = {err / nrm:.6e} ||Y|| > e = {ee:.6e} (d = {d}, ranks {rk})')
    if ee >= 1e-2:
        budget = ee * nrm / math.sqrt(d - 1) * (1 - 5e-7)
        for k, sv in enumerate(svs):
            t = tails(sv)
            qmin = max(1, next(q for q in range(len(t)) if t[q] <= budget))
            if rk[k + 1] > qmin:
                return FAIL(f'bond {k + 1}: rank {rk[k + 1]} > minimal rank {qmin} meeting the budget {budget:.6e} '
                            f'(tails {t[max(0, qmin - 1):qmin + 1]}, e = {ee:.6e}, d = {d})')
    return PASS if rk != rin else TRIVIAL('nothing truncated')


@clause('C02.truncate.no_orth', funcs=('transformation.truncate', 'svd.matrix_svd', 'svd.matrix_skeleton'))
def truncate_no_orth(n, r, seed, kind, scale, e, cap, stab, eigh, pre):
    """orth=False: the sweep alone, e is then the absolute budget of every unfolding.  pre=True: the input is
    left-orthonormal already (own QR sweep), so the contract of the sweep applies - error <= sqrt(d-1) e_abs and
    <= rss of the best unfolding errors at the returned ranks; pre=False: structure only (well-formed, same shape,
    ranks <= cap and <= input ranks).  The input stays untouched in both cases."""
    Y = make(n, r, seed, kind, scale)
    d = len(n)
    if pre:
        Y = _left_orth(Y)
    D = gen.dense(Y)
    nrm = float(np.linalg.norm(D))
    if nrm == 0 or not np.isfinite(nrm):
        return SKIP('zero tensor (C11)')
    e_abs = e * nrm / math.sqrt(d - 1)
    rin = [1] + [G.shape[2] for G in Y]
    snap = gen.snapshot(Y)
    Z = teneva.truncate(Y, e_abs, cap, orth=False, use_stab=stab, is_eigh=eigh)
    if gen.snapshot(Y) != snap:
        return FAIL('input changed')
    if gen.shares(Y, Z):
        return FAIL('result shares memory with the input')
    msg = gen.wf(Z, n)
    if msg:
        return FAIL('result not well-formed: ' + msg)
    if not gen.finite(Z):
        return FAIL('non-finite cores')
    rk = [1] + [G.shape[2] for G in Z]
    for k in range(1, d):
        if rk[k] > max(1, int(cap)) or rk[k] > rin[k]:
            return FAIL(f'rank {k} = {rk[k]} exceeds the cap {cap} or the input rank {rin[k]}')
    if not pre:
        return TRIVIAL('input not orthogonalised: structure only')
    svs = spectra(D, n)
    err = float(np.linalg.norm(gen.dense(Z) - D))
    floor2 = 16.0 * d * max(rin) * EPS * nrm ** 2
    best2 = sum(tails(sv)[min(rk[k + 1], len(sv))] ** 2 for k, sv in enumerate(svs))
    if not err ** 2 <= best2 * (1 + 1e-6) + floor2:
        return FAIL(f'||Y-Z|| = {err:.6e} > rss of best unfolding errors {math.sqrt(best2):.6e} at ranks {rk}')
    capbinds = cap < 1e6 and any(x >= max(1, int(cap)) for x in rk[1:-1])
    if not capbinds and not err ** 2 <= (e * nrm) ** 2 * (1 + 2e-6) + floor2:
        return FAIL(f'||Y-Z|| = {err / nrm:.6e} ||Y|| > sqrt(d-1) e_abs = {e:.6e} ||Y|| (ranks {rin} -> {rk})')
    return PASS


# ----------------------------------------------------------------------------- wide spectra with clustered tails

# documented signatures (docstrings of /repo/teneva/transformation.py, act_many.py): parameter order and defaults
REQ = gen.call_form.REQ
SIG = {
    'truncate': (('Y', 'e', 'r', 'orth', 'use_stab', 'is_eigh'), (REQ, 1e-10, 1e12, True, False, True)),
    'add_many': (('Y_many', 'e', 'r', 'trunc_freq'), (REQ, 1e-10, 1e12, 15)),
}


def wide_spectrum(name, u):
    """(singular values, per-unfolding budget) of a template in the unit u: a dominant part of size 1 .. 1e-2 and a
    tail at the level u - clusters of values each below the budget whose root-sum-square exceeds it, single values just
    above it, far below it; the number of droppable values is decided by the ACCUMULATED tail energy only."""
    T = {
        'c4a': ([1, 0.03] + [0.8 * u] * 4, u),                  # one of four may go (0.8; 1.13)
        'c4b': ([1, 0.03] + [0.6 * u] * 4, u),                  # two of four (0.85; 1.04)
        'two': ([1, 0.75 * u, 0.75 * u], u),                    # one of two (0.75; 1.06)
        'mix9': ([3, 0.7, 1e-3 ** 0.5 * u ** 0.5, 30 * u, 0.9 * u, 0.9 * u, 0.7 * u, 0.7 * u, 0.6 * u], u),   # two of five
        'stair': ([1, 0.01, 60 * u, 20 * u, 1e-3 * u], u),      # only the last one
        'many8': ([1, 0.03] + [0.365 * u] * 8, u),              # seven of eight (0.966; 1.032)
        'flat3': ([1, 1, 1] + [0.8 * u] * 3, u),                # one of three under a flat top
        'keep': ([1, 0.5, 3 * u, 2 * u], u),                    # nothing may go: every value above the budget
        'all': ([1, 0.2, 0.4 * u, 0.3 * u, 0.2 * u], u),        # the whole tail goes (0.54)
    }
    sv, eb = T[name]
    return [float(x) for x in sv], float(eb)


@clause('C02.truncate.wide_spectrum', funcs=('transformation.truncate', 'svd.matrix_svd', 'svd.matrix_skeleton'))
def truncate_wide_spectrum(d, nk, s, eb, at, seed, scale, cap, stab, eigh, form='kw'):
    """Tensors whose d-1 unfoldings all have the prescribed singular values s (gen.tt_spectrum: wide dynamic range, the
    tail a cluster far below the dominant value), rounded with the per-unfolding budget eb (same units as s; a list
    ['thr', q, sign] = (1 + sign 1e-2) x tail(q)), i.e. e = eb sqrt(d-1) / ||s||: ranks <= cap and input ranks; error
    <= e ||Y|| unless the cap binds; error <= rss of the best unfolding errors at the returned ranks; no rank above the
    smallest one meeting the budget.  Rounding allowance by mode: is_eigh=False (LAPACK SVD of the cores) resolves
    singular values to eps ||Y||, so the allowance is LINEAR, 64 d r eps ||Y|| - budgets of 1e-10 ||Y|| are meaningful;
    is_eigh=True (Gram matrix) resolves tail ENERGIES to eps ||Y||^2, allowance 16 d r eps ||Y||^2 in the squares."""
    n = [nk] * d
    f = float(scale) ** (1.0 / d)
    Y = [G * f for G in gen.tt_spectrum(n, s, seed, at)]
    D = gen.dense(Y)
    nrm = float(np.linalg.norm(D))
    if not (nrm > 0 and np.isfinite(nrm)):
        return SKIP('zero tensor')
    svs = spectra(D, n)
    if isinstance(eb, (list, tuple)):
        _, q, sign = eb
        if not (1 <= q < len(s)):
            return SKIP('no such threshold')
        budget = tails(svs[0])[q] * (1 + sign * 1e-2)
    else:
        budget = float(eb) * float(scale)
    e = budget * math.sqrt(d - 1) / nrm
    if not (0 < e < 1):
        return SKIP('e outside (0, 1)')
    rin = [1] + [G.shape[2] for G in Y]
    snap = gen.snapshot(Y)
    Z = gen.call_form(teneva.truncate, SIG['truncate'][0], [Y, e, cap, True, stab, eigh], SIG['truncate'][1], form)
    if gen.snapshot(Y) != snap:
        return FAIL('input changed')
    msg = gen.wf(Z, n)
    if msg:
        return FAIL('result not well-formed: ' + msg)
    if not gen.finite(Z):
        return FAIL('non-finite cores')
    rk = [1] + [G.shape[2] for G in Z]
    for k in range(1, d):
        if rk[k] > max(1, int(cap)) or rk[k] > rin[k]:
            return FAIL(f'rank {k} = {rk[k]} exceeds the cap {cap} or the input rank {rin[k]}')
    err = float(np.linalg.norm(gen.dense(Z) - D))
    lin = 0.0 if eigh else 64.0 * d * max(rin) * EPS * nrm
    sq = 16.0 * d * max(rin) * EPS * nrm ** 2 if eigh else 0.0
    what = f'(s = {s}, budget {budget:.4e}, e = {e:.4e}, ||Y|| = {nrm:.3e}, ranks {rin} -> {rk})'

    def within(bound):
        return err ** 2 <= bound ** 2 * (1 + 2e-6) + sq if eigh else err <= bound * (1 + 1e-6) + lin
    best = math.sqrt(sum(tails(sv)[min(rk[k + 1], len(sv))] ** 2 for k, sv in enumerate(svs)))
    if not within(best):
        return FAIL(f'||Y-Z|| = {err:.6e} > rss of best unfolding errors {best:.6e} ' + what)
    capbinds = cap < 1e6 and any(x >= max(1, int(cap)) for x in rk[1:-1])
    if not capbinds and not within(e * nrm):
        return FAIL(f'||Y-Z|| = {err:.6e} = {err / nrm:.6e} ||Y|| > e ||Y|| = {e * nrm:.6e} ' + what)
    bud = budget * (1 - 5e-7)
    for k, sv in enumerate(svs):
        t = tails(sv)
        ok = (t ** 2 <= bud ** 2 - sq) if eigh else (t <= bud - lin)
        qmin = max(1, int(np.argmax(ok))) if ok.any() else len(sv)
        if rk[k + 1] > qmin:
            return FAIL(f'bond {k + 1}: rank {rk[k + 1]} > minimal rank {qmin} meeting the budget (tails {t[max(0, qmin - 1):qmin + 1]}) ' + what)
    return PASS if rk != rin else TRIVIAL('nothing truncated')


# ----------------------------------------------------------------------------- add_many

@clause('C02.add_many.sum_bound', funcs=('act_many.add_many', 'transformation.truncate'))
def add_many_sum(n, r, seed, m, e, cap, freq, nums, scale, defaults='', form=None):
    """add_many: well-formed result of the same shape, ranks <= max(1, int(r)); when the cap does not bind the
    distance to the dense sum is within the bound accumulated over the rounding steps (each e times the norm
    of the running sum at that step).  `defaults` names one argument that is left at its documented default.
    form (input forms): 'tuple' - Y_many and the summands are tuples / have read-only cores / read-only views in turn;
    'np' - additionally e, r, trunc_freq as numpy.float64 / numpy.int64 / numpy.int32; 'np0' - as 0-d array / numpy.float32
    cap / numpy.int64."""
    d = len(n)
    g = gen.rng('am', n, r, seed, m)
    items, dense_items = [], []
    for j in range(m):
        if nums and j in nums:
            v = [2, -1.5, 3.0, 1][j % 4]
            items.append(v)
            dense_items.append(np.full(n, float(v)))
        else:
            rr = [1] + [int(x) for x in g.integers(1, max(r) + 1, size=d - 1)] + [1]
            Y = make(n, rr, seed * 31 + j, 'gauss' if j % 3 else 'decay', scale * (10.0 ** int(g.integers(-2, 3))))
            items.append(Y)
            dense_items.append(gen.dense(Y))
    if all(not isinstance(x, list) for x in items):
        return SKIP('number-only input (other clause)')
    e0, cap0, freq0 = e, cap, freq
    if form:
        items = tuple(x if not isinstance(x, list) else
                      (tuple(x) if j % 3 == 0 else gen.tt_form1(x, ('ro', 'ro_view', 'tuple')[j % 3])) for j, x in enumerate(items))
        if form == 'np':
            e, cap, freq = np.float64(e), (np.int64(cap) if cap < 1e6 and cap == int(cap) else np.float64(cap)), np.int32(freq)
        elif form == 'np0':
            e, cap, freq = np.array(e), np.float32(cap), np.int64(freq)
    snap = gen.snapshot(items)
    if defaults == 'e':                 # documented default accuracy 1e-10
        e = 1e-10
        Z = teneva.add_many(items, r=cap, trunc_freq=freq)
    elif defaults == 'r':               # no cap
        cap = 1e12
        Z = teneva.add_many(items, e, trunc_freq=freq)
    elif defaults == 'freq':            # documented default trunc_freq = 15
        freq = 15
        Z = teneva.add_many(items, e, cap)
    else:
        Z = teneva.add_many(items, e, cap, trunc_freq=freq)
    if gen.snapshot(items) != snap:
        return FAIL('an input changed')
    if form:                            # back to the plain numbers (float64 image of the cap)
        e, cap, freq = (e if defaults == 'e' else e0), (cap if defaults == 'r' else float(cap)), (freq if defaults == 'freq' else freq0)
    msg = gen.wf(Z, n)
    if msg:
        return FAIL('result not well-formed: ' + msg)
    if not gen.finite(Z):
        return FAIL('non-finite cores')
    rk = [G.shape[2] for G in Z[:-1]]
    if any(x > max(1, int(cap)) for x in rk):
        return FAIL(f'ranks {rk} exceed the cap {cap}')
    # accumulated bound: E <- E + e (||S_t|| + E) at every rounding step
    S = dense_items[0].copy()
    E = 0.0
    for i, A in enumerate(dense_items[1:]):
        S = S + A
        if (i + 1) % freq == 0:
            E += e * (np.linalg.norm(S) + E)
    tot = sum(np.linalg.norm(A) for A in dense_items)
    if cap < 1e6 and any(x >= max(1, int(cap)) for x in rk):
        return TRIVIAL('cap binds: only structure and ranks checked')
    E += e * (np.linalg.norm(S) + E)
    err = float(np.linalg.norm(gen.dense(Z) - S))
    lim = E * (1 + 1e-6) + 64 * d * m * EPS * tot
    if not err <= lim:
        return FAIL(f'|add_many - dense sum| = {err:.6e} > accumulated bound {lim:.6e} (e = {e}, m = {m}, freq = {freq})')
    return PASS


@clause('C02.add_many.numbers', funcs=('act_many.add_many',))
def add_many_numbers(vals, freq):
    """Number-only input returns the plain sum (a number)."""
    got = teneva.add_many(list(vals), 1e-8, 5, trunc_freq=freq)
    want = vals[0]
    for v in vals[1:]:
        want = want + v
    if isinstance(got, (list, np.ndarray)) or got != want:
        return FAIL(f'add_many({vals}) = {got!r}, want {want!r}')
    return PASS


@clause('C02.add_many.number_terms', funcs=('act_many.add_many', 'act_two.add', 'tensors.const', 'transformation.truncate'))
def add_many_number_terms(n, r, seed, terms, scale, e, cap, freq, form='mix:3'):
    """add_many over a list that mixes TT-tensors ('T': random, total scale `scale`) with NUMBER summands (ints / floats
    given literally in `terms`: zero, +-0.0, negative, tiny (|v| <= 1e-16, denormal), huge, of the scale of the data
    or far off it).  Same contract as sum_bound: well-formed, same shape, ranks <= cap, distance to the dense sum within
    the bound accumulated over the rounding steps (e x norm of the running sum each) plus rounding of the summation."""
    d = len(n)
    g = gen.rng('amn', n, r, seed, len(terms))
    items, dense_items = [], []
    for j, t in enumerate(terms):
        if t == 'T':
            rr = [1] + [int(x) for x in g.integers(1, max(r) + 1, size=d - 1)] + [1]
            Y = make(n, rr, seed * 37 + j, 'gauss' if j % 3 else 'decay', scale)
            items.append(Y)
            dense_items.append(gen.dense(Y))
        else:
            if isinstance(t, bool) or not isinstance(t, (int, float)):
                raise ValueError('terms: "T" or an int / float')
            items.append(t)
            dense_items.append(np.full(n, float(t)))
    if all(not isinstance(x, list) for x in items):
        return SKIP('number-only input (other clause)')
    snap = gen.snapshot(items)
    Z = gen.call_form(teneva.add_many, SIG['add_many'][0], [items, e, cap, freq], SIG['add_many'][1], form)
    if gen.snapshot(items) != snap:
        return FAIL('an input changed')
    msg = gen.wf(Z, n)
    if msg:
        return FAIL('result not well-formed: ' + msg)
    if not gen.finite(Z):
        return FAIL('non-finite cores')
    rk = [G.shape[2] for G in Z[:-1]]
    if any(x > max(1, int(cap)) for x in rk):
        return FAIL(f'ranks {rk} exceed the cap {cap}')
    if cap < 1e6 and any(x >= max(1, int(cap)) for x in rk):
        return TRIVIAL('cap binds: only structure and ranks checked')
    # accumulated bound: E <- E + e' (||S_t|| + E) at every rounding step; leading numbers are summed as numbers.
    # add_many rounds in the eigen-decomposition mode, whose error bound carries the allowance 16 d R eps ||S||^2 in the
    # squares (as in C02.truncate.eigh_mode.error_bound; R = rank of the un-rounded sum): e'^2 = e^2 + 16 d R eps.  It only
    # matters for e < 1e-6 on sums with a wide dynamic range (a huge number among small tensors).
    R = sum(max(r) if isinstance(x, list) else 1 for x in items)
    e1 = math.sqrt(e ** 2 * (1 + 2e-6) + 16.0 * d * R * EPS)
    S = dense_items[0].copy()
    E = 0.0
    isnum = not isinstance(items[0], list)
    for i, A in enumerate(dense_items[1:]):
        S = S + A
        isnum = isnum and not isinstance(items[i + 1], list)
        if not isnum and (i + 1) % freq == 0:
            E += e1 * (np.linalg.norm(S) + E)
    E += e1 * (np.linalg.norm(S) + E)
    tot = sum(np.linalg.norm(A) for A in dense_items)
    err = float(np.linalg.norm(gen.dense(Z) - S))
    lim = E * (1 + 1e-6) + 64 * d * len(terms) * EPS * tot
    if not err <= lim:
        return FAIL(f'|add_many - dense sum| = {err:.6e} > accumulated bound {lim:.6e} (terms {terms}, scale {scale}, e = {e}, '
                    f'freq = {freq}, ||sum|| = {np.linalg.norm(S):.3e})')
    return PASS


@clause('C02.add.number_term', funcs=('act_two.add', 'tensors.const'))
def add_number_term(n, r, seed, v, scale, side):
    """The step add_many is built from: add(Y, v) / add(v, Y) with a number v is a well-formed TT-tensor of the shape of
    Y whose dense form is dense(Y) + v entry by entry (to rounding: 64 d eps (|cores| chain + |v|)); Y is not changed."""
    d = len(n)
    Y = make(n, r, seed, 'gauss', scale)
    if isinstance(v, bool) or not isinstance(v, (int, float)):
        raise ValueError('v: int / float')
    snap = gen.snapshot(Y)
    Z = teneva.add(Y, v) if side == 'r' else teneva.add(v, Y)
    if gen.snapshot(Y) != snap:
        return FAIL('input changed')
    msg = gen.wf(Z, n)
    if msg:
        return FAIL('result not well-formed: ' + msg)
    want = gen.dense(Y) + float(v)
    sc = gen.absdense(Y) + abs(float(v))
    got = gen.dense(Z)
    if not gen.close(got, want, sc, c=64.0 * d):
        k = int(np.nanargmax(np.abs(got - want) / (sc + 1e-300)))
        return FAIL(f'add with the number {v!r} ({side}): entry {got.flat[k]!r}, expected {want.flat[k]!r} (scale of the data {scale})')
    return PASS


# ----------------------------------------------------------------------------- case list

# (scale of the TT summands, lists of NUMBER summands) for C02.add_many.number_terms / C02.add.number_term
NUM_FAMILIES = [
    (1.0, [[0], [0.0], [-0.0], [2.5, -0.75], [-3], [7, 0, -7], [5e-17], [-1e-16], [1e-16], [1.0000001e-16], [1e-300], [-5e-324],
           [1e-17, -2e-17, 3e-17], [1e30], [-4e15, 4e15], [10 ** 20], [-10 ** 9, 1]]),
    (1e-12, [[3e-12, -1e-13], [0], [5e-17], [-2e-12]]),
    (1e-17, [[5e-17], [-4e-17, 1e-17], [1e-16], [1.0000001e-16], [-1.0000001e-16], [0.0], [2e-16, -1e-16], [9e-17, 9e-17]]),
    (2e-18, [[-4e-17, 1e-17], [3e-18]]),
    (1e-20, [[7e-20, 0.0], [-3e-20]]),
    (1e-100, [[3e-100, -1e-100], [0]]),
    (1e6, [[2.5e6], [-1, 1e-17], [3]]),
    (1e100, [[2e100, -5e99], [1e-17]]),
]

TRUNC = ['C02.truncate.eigh_mode.error_bound', 'C02.truncate.eigh_mode.rss_optimal', 'C02.truncate.eigh_mode.rank_minimal',
         'C02.truncate.svd_mode.error_bound', 'C02.truncate.svd_mode.rss_optimal', 'C02.truncate.svd_mode.rank_minimal']


def _emit(base):
    for cid in TRUNC:
        yield cid, dict(base)
    for eigh in (True, False):
        yield 'C02.truncate.shape_ranks', dict(base, eigh=eigh)


def _thresholds(n, r, seed, kind, scale):
    """All [k, q] whose threshold lies in [1e-4, 0.9] (computed like in the clause)."""
    Y = make(n, r, seed, kind, scale)
    D = gen.dense(Y)
    nrm = float(np.linalg.norm(D))
    if nrm == 0:
        return []
    svs = spectra(D, n)
    out = []
    for k, s in enumerate(svs):
        for q in range(1, len(s)):
            if resolve_e([k, q, 0], svs, nrm, len(n)) is not None:
                out.append((k, q))
    return out


def _ex_profiles(d, big):
    """Per-core exponent lists with ONE core (two in the 'tail' profile) below core_stab's threshold 1e-100 ~ 2^-332 while
    the other cores are moderate / large: the tiny core at every position j >= 1 after the first core carried 2^3, 2^-7
    or 2^300 (accumulated power != 0 when the tiny core is met), a tiny core followed by a huge one (the sweep returns to
    the scaling branch), two large cores before the tiny one.  Every running core R_k Y_k of the orthogonalisation sweep
    (with or without stabilisation) stays within 2^-410 .. 2^610, so nothing under- or overflows, squares included."""
    out = []
    for j in range(1, d):
        for a in ((3, -7, 300) if (big or j == d - 1) else ((3, -7, 300)[j % 3],)):
            p = [0] * d
            p[0], p[j] = a, (-345 if a == -7 else -400)
            out.append(p)
    if d >= 3:
        p = [0] * d
        p[0], p[d - 2], p[d - 1] = 5, -400, 400
        out.append(p)
        p = [0] * d
        p[0], p[1], p[d - 1] = 300, 300, -400
        out.append(p)
    if d >= 4:
        p = [0] * d
        p[0], p[1], p[d - 2], p[d - 1] = -30, 2, -350, -20
        out.append(p)
    return out


def cases(tier, seed):
    big = tier == 'thorough'
    g = gen.rng('C02', seed)
    shapes = [[3, 4], [4, 1], [2, 2, 2], [3, 2, 4], [1, 3, 2], [3, 1, 3], [2, 3, 2, 2], [4, 2, 1, 3], [1, 1, 1]]
    if big:
        shapes += [[5, 5], [2, 5, 3], [2, 2, 2, 2, 2], [3, 2, 1, 2, 3], [4, 4, 4], [2, 3, 4, 2]]
    kinds = ('gauss', 'decay', 'lowrank', 'int')
    scales = (1.0, 1e-6, 1e6) if not big else (1.0, 1e-6, 1e-3, 1e3, 1e6)
    j = 0
    for n in shapes:
        profs = gen.rank_profiles(n, rmax=6 if big else 4)
        for r in profs:
            for kind in kinds:
                j += 1
                sd = j
                scs = scales if kind != 'int' else (1.0,)
                for si, scale in enumerate(scs):
                    order = 'CFV'[(j + si) % 3]
                    base0 = dict(n=n, r=r, seed=sd, kind=kind, scale=scale, order=order)
                    # plain accuracies x stab (cap free), caps at two accuracies
                    combos = [(e, 1e12, stab) for e in (E_LIST if (big or si == 0) else E_LIST[1::3]) for stab in (False, True)]
                    combos += [(e, cap, bool((j + ci) % 2)) for e in (0.1, 1e-8) for ci, cap in enumerate(CAPS[1:])]
                    for e, cap, stab in combos:
                        yield from _emit(dict(base0, e=e, cap=cap, stab=stab))
                    # every rank-change threshold, both sides
                    if si == 0 or big:
                        th = _thresholds(n, r, sd, kind, scale)
                        if not big and len(th) > 6:
                            th = th[:: max(1, len(th) // 6)]
                        for k, q in th:
                            for sign in (1, -1):
                                for stab in ((False, True) if big else (bool((k + q + j) % 2),)):
                                    yield from _emit(dict(base0, e=[k, q, sign], cap=1e12, stab=stab))
    # many modes: d = 20 .. 70, spectra and distances by own QR / SVD sweeps
    for d_, nk_ in ((20, 3), (45, 2), (70, 2)) + (((32, 4), (100, 2)) if big else ()):
        for kind in ('gauss', 'decay') + (('lowrank',) if big else ()):
            for s_ in range(3 if big else 1):
                svs_, nrm_ = own_spectra(make([nk_] * d_, [1] + [4] * (d_ - 1) + [1], 7 + s_, kind, 1.0))
                ths = [(k, q) for k in (d_ // 2, d_ - 3, 2) for q in (1, 2, 3)
                       if _resolve_many([k, q, 0], svs_, nrm_, d_) is not None][:(6 if big else 2)]
                es = [0.3, 0.05] + ([0.7, 1e-2, 1e-4] if big else []) + [[k, q, sg] for k, q in ths for sg in (1, -1)]
                for e in es:
                    for stab in (False, True):
                        for eigh in (True, False):
                            yield 'C02.truncate.many_modes', dict(d=d_, nk=nk_, r=4, seed=7 + s_, kind=kind, e=e, cap=1e12,
                                                                   stab=stab, eigh=eigh)
                    yield 'C02.truncate.many_modes', dict(d=d_, nk=nk_, r=4, seed=7 + s_, kind=kind, e=e, cap=2, stab=bool(d_ % 2),
                                                           eigh=not isinstance(e, list))
    # per-core factors 2^ex: totals 2^(d ex) within (ex = +-100) and far outside (stab only: +300, -150) the double range
    for n, r in (([3, 4], [1, 3, 1]), ([2, 3, 2], [1, 2, 3, 1]), ([2, 2, 3, 2], [1, 2, 4, 2, 1])) + \
            ((([3, 3, 3], [1, 3, 3, 1]), ([2, 2, 2, 2, 2], [1, 2, 4, 4, 2, 1])) if big else ()):
        for ki, kind in enumerate(('gauss', 'lowrank', 'decay')):
            for ex, stabs in ((100, (False, True)), (-100, (False, True)), (300, (True,)), (-150, (True,))):
                base0 = dict(n=n, r=r, seed=11 + ki, kind=kind, scale=1.0, order='CFV'[ki], ex=ex)
                th = _thresholds(n, r, 11 + ki, kind, 1.0)[:: 2 if big else 3]
                for stab in stabs:
                    for e in [0.1, 1e-8] + ([0.5, 1e-3] if big else []) + [[k, q, sg] for k, q in th for sg in (1, -1)]:
                        yield from _emit(dict(base0, e=e, cap=1e12, stab=stab))
                    yield from _emit(dict(base0, e=1e-8, cap=2, stab=stab))
    # uneven exponent PROFILES (ex = list): one core at / below core_stab's threshold 1e-100 (2^-345, 2^-400) at every
    # position, after a positive / negative / large power has been accumulated on the earlier cores; both stab flags
    # (every running core and its Gram matrix stay inside the double range, see _ex_profiles)
    for n, r in (([3, 4], [1, 3, 1]), ([2, 3, 2], [1, 2, 3, 1]), ([2, 2, 3, 2], [1, 2, 4, 2, 1])) + \
            ((([4, 5, 4], [1, 3, 3, 1]), ([2, 2, 2, 2, 2], [1, 2, 4, 4, 2, 1]), ([2, 3, 1, 2, 2, 2], [1, 2, 3, 3, 2, 2, 1])) if big else ()):
        for pi, prof in enumerate(_ex_profiles(len(n), big)):
            kind = ('gauss', 'lowrank', 'decay')[pi % 3]
            base0 = dict(n=n, r=r, seed=41 + pi, kind=kind, scale=1.0, order='CFV'[pi % 3], ex=prof)
            th = _thresholds(n, r, 41 + pi, kind, 1.0)[:: 2 if big else 3]
            for stab in (True, False):
                es = [0.1, 1e-8] + ([0.5, 1e-3] if big else []) + [[k, q, sg] for k, q in th for sg in (1, -1)]
                for e in (es if (stab or big) else es[:3]):
                    yield from _emit(dict(base0, e=e, cap=1e12, stab=stab))
                yield from _emit(dict(base0, e=1e-8, cap=2, stab=stab))
    # large mode sizes
    for n, r in (([520, 3], [1, 3, 1]), ([2, 300, 2], [1, 2, 2, 1]), ([1, 1025, 2], [1, 1, 2, 1])) + \
            ((([3, 2048], [1, 3, 1]), ([30, 2, 31], [1, 4, 4, 1])) if big else ()):
        for ki, kind in enumerate(('gauss', 'decay', 'lowrank')):
            base0 = dict(n=n, r=r, seed=21 + ki, kind=kind, scale=(1.0, 1e-6, 1e6)[ki], order='CFV'[ki])
            th = _thresholds(n, r, 21 + ki, kind, base0['scale'])[:: 1 if big else 2]
            for stab in (False, True):
                for e in [0.3, 1e-8] + [[k, q, sg] for k, q in th for sg in (1, -1)]:
                    yield from _emit(dict(base0, e=e, cap=1e12, stab=stab))
            yield from _emit(dict(base0, e=1e-8, cap=1, stab=bool(ki % 2)))
            yield from _emit(dict(base0, e=1e-8, cap=2, stab=not ki % 2))
    # orth=False
    for n in ([3, 4], [2, 3, 2], [3, 1, 3], [2, 3, 2, 2]) + (([4, 4, 4], [2, 2, 2, 2, 2]) if big else ()):
        for ki, kind in enumerate(('gauss', 'decay', 'lowrank')):
            for scale in (1.0, 1e-6, 1e6):
                for e, cap in ((0.3, 1e12), (1e-2, 1e12), (1e-8, 1e12), (1e-8, 2), (0.1, 1)):
                    for stab in (False, True):
                        for eigh in (True, False):
                            for pre in (True, False):
                                if not big and (ki + stab + eigh + pre + (cap < 1e6) + (scale > 1)) % 2:
                                    continue
                                yield 'C02.truncate.no_orth', dict(n=n, r=[1] + [4] * (len(n) - 1) + [1], seed=31 + ki, kind=kind,
                                                                    scale=scale, e=e, cap=cap, stab=stab, eigh=eigh, pre=pre)
    # d = 2, prescribed spectra: every threshold, both sides, both modes, both flags
    for n in ([5, 4], [4, 6], [3, 3]) + (([6, 6],) if big else ()):
        for spec in SPECTRA:
            for scale in (1.0, 1e-6, 1e6):
                for q in range(1, min(min(n), len(SPECTRA[spec])) + 1):
                    for sign in (1, -1):
                        for stab in (False, True):
                            for eigh in (True, False):
                                yield 'C02.truncate.d2_exact_rank', dict(n=n, seed=q, spec=spec, scale=scale, q=q,
                                                                          sign=sign, stab=stab, eigh=eigh)
    # seeded random part
    for _ in range(400 if big else 60):
        d = int(g.integers(2, 6 if big else 5))
        n = [int(x) for x in g.integers(1, 6 if big else 5, size=d)]
        if int(np.prod(n)) > 600:
            continue
        r = [1] + [int(x) for x in g.integers(1, 7 if big else 5, size=d - 1)] + [1]
        kind = kinds[int(g.integers(0, 3))]
        scale = 10.0 ** int(g.integers(-6, 7))
        sd = int(g.integers(1 << 30))
        base0 = dict(n=n, r=r, seed=sd, kind=kind, scale=scale, order='CFV'[int(g.integers(0, 3))])
        e = float(10.0 ** g.uniform(-6, -0.05))
        yield from _emit(dict(base0, e=e, cap=1e12, stab=bool(g.integers(0, 2))))
        yield from _emit(dict(base0, e=e, cap=int(g.integers(1, 4)), stab=bool(g.integers(0, 2))))
        th = _thresholds(n, r, sd, kind, scale)
        if th:
            k, q = th[int(g.integers(0, len(th)))]
            for sign in (1, -1):
                yield from _emit(dict(base0, e=[k, q, sign], cap=1e12, stab=bool(g.integers(0, 2))))
    # wide dynamic range with clustered tails (every unfolding has the prescribed spectrum): the tail sits u = 3e-11 .. 1e-3
    # below the dominant value; SVD mode down to budgets of 1e-10 ||Y|| (linear rounding allowance), eigen mode from 1e-5;
    # thresholds at +-1 % around the tails inside the cluster; weights in the first / a middle / the last core
    WNAMES = ('c4a', 'c4b', 'two', 'mix9', 'stair', 'many8', 'flat3', 'keep', 'all')
    for wi, name in enumerate(WNAMES):
        for eigh in (False, True):
            us = ((1e-10, 3e-11, 1e-8) + ((1e-6, 1e-3) if big else ())) if not eigh else ((1e-5, 1e-3) + ((1e-4, 1e-10) if big else ()))
            for ui, u in enumerate(us):
                sv, eb = wide_spectrum(name, u)
                for d in (2, 3, 4):
                    nk = max(len(sv), 3) + (2 if d == 2 else 0)
                    if nk ** d > (12000 if big else 3000):
                        continue
                    ebs = [eb] + [['thr', q, sg] for q in sorted({len(sv) - 1, max(2, len(sv) - 2)}) for sg in (1, -1)]
                    if big:
                        ebs += [['thr', q, sg] for q in range(2, len(sv) - 2) for sg in (1, -1)]
                    for at in (range(d) if big else ((wi + ui + d) % d,)):
                        for scale in ((1.0, 1e-6, 1e6) if big else ((1.0, 1e-6, 1e6)[(wi + ui + d + eigh) % 3],)):
                            for stab in (False, True):
                                for sd in range(2 if big else 1):
                                    for bi, b in enumerate(ebs):
                                        if not big and bi and (bi + stab + wi + d) % 2:
                                            continue
                                        yield 'C02.truncate.wide_spectrum', dict(d=d, nk=nk, s=sv, eb=b, at=at, seed=sd + 1, scale=scale,
                                                                                 cap=1e12, stab=stab, eigh=eigh)
                            for cap in (2, 3) + ((len(sv) - 1,) if big else ()):
                                yield 'C02.truncate.wide_spectrum', dict(d=d, nk=nk, s=sv, eb=eb, at=at, seed=1, scale=scale, cap=cap,
                                                                         stab=bool((wi + d) % 2), eigh=eigh)
    # the documented call forms of truncate (all positional in the documented order, all keywords, prefix + keywords,
    # trailing defaults left out) on the same family
    for fi, form in enumerate(('pos', 'mix:1', 'mix:2', 'mix:3', 'mix:4', 'min', 'kwmin')):
        for wi, name in enumerate(('c4a', 'two', 'stair', 'all')):
            for eigh in (False, True):
                sv, eb = wide_spectrum(name, 1e-10 if not eigh else 1e-4)
                for stab in (False, True):
                    for cap in (1e12, 2):
                        d = 2 + (fi + wi) % 2
                        yield 'C02.truncate.wide_spectrum', dict(d=d, nk=len(sv) + 1, s=sv, eb=eb, at=(fi + wi) % d, seed=5, scale=(1.0, 1e-6, 1e6)[(fi + wi) % 3],
                                                                 cap=cap, stab=stab, eigh=eigh, form=form)
    # add_many
    am_shapes = [[3, 4], [2, 3, 2], [2, 1, 3], [2, 2, 2, 2]] + ([[3, 3, 3], [4, 2, 3, 2]] if big else [])
    for n in am_shapes:
        for m in (1, 2, 3, 5, 7):
            for freq in (1, 2, 3, 15):
                for e, cap in ((1e-8, 1e12), (1e-2, 1e12), (0.2, 1e12), (1e-8, 2), (1e-2, 1)):
                    for nums in ([], [1], [0, 2]):
                        if nums and max(nums) >= m:
                            continue
                        for rep in range(3 if big else 1):
                            yield 'C02.add_many.sum_bound', dict(n=n, r=[1, 3, 1], seed=rep + (int(g.integers(1 << 20)) if rep else 0),
                                                                 m=m, e=e, cap=cap, freq=freq, nums=nums,
                                                                 scale=(1.0, 1e-4, 1e5)[(m + freq + rep) % 3])
    # trunc_freq that divides / does not divide the number of additions m-1 (also the documented default 15 actually
    # firing: m = 16, 17, 31), freq > m, leading numbers, float cap, arguments left at their defaults
    for n in ([3, 4], [2, 3, 2]) + (([2, 2, 2, 2],) if big else ()):
        for m, freq in ((16, 15), (17, 15), (31, 15), (5, 4), (6, 4), (9, 4), (8, 7), (9, 7), (4, 3), (5, 3), (3, 50), (13, 6), (13, 5)):
            for e, cap in ((1e-8, 1e12), (1e-2, 1e12), (1e-6, 2.7)) + (((0.2, 1e12), (1e-8, 3)) if big else ()):
                for nums in ([], [0, 1], list(range(m - 1))[:3]):
                    if not big and (m + freq + len(nums) + (cap < 1e6)) % 2:
                        continue
                    yield 'C02.add_many.sum_bound', dict(n=n, r=[1, 3, 1], seed=m + freq, m=m, e=e, cap=cap, freq=freq, nums=nums,
                                                         scale=(1.0, 1e-7, 1e4)[(m + freq) % 3])
        for dflt in ('e', 'r', 'freq'):
            for m in (2, 6, 16, 17):
                yield 'C02.add_many.sum_bound', dict(n=n, r=[1, 3, 1], seed=m, m=m, e=1e-6, cap=1e12 if dflt != 'e' else 4, freq=2,
                                                     nums=[], scale=(1.0, 1e-7)[m % 2], defaults=dflt)
    # input forms: truncate with the core list / e / r in other forms (every contract clause), add_many with tuples,
    # read-only summands and numpy numbers
    fshapes = [([3, 4], [1, 3, 1]), ([2, 3, 2], [1, 2, 3, 1]), ([3, 2, 2, 3], [1, 3, 4, 3, 1]), ([4, 1, 3], [1, 2, 2, 1])]
    if big:
        fshapes += [([2, 2, 2, 2, 2], [1, 2, 4, 4, 2, 1]), ([5, 4], [1, 4, 1]), ([1, 3, 2], [1, 1, 2, 1])]
    eforms, capforms = (None, 'f64', 'f32', 'a0'), (None, 'i64', 'i32', 'f64', 'f32', 'a0', 'a0i', 'pyfloat')
    fj = 0
    for si, (n, r) in enumerate(fshapes):
        for fi, form in enumerate((None,) + gen.TT_FORMS1):
            for kind in (('int',) if form in ('i64', 'i32') else ('gauss', 'decay', 'int') if big else (('gauss', 'decay', 'int')[(si + fi) % 3],)):
                thr = _thresholds(n, r, 800 + si, kind, 1.0) if form not in F32_FORMS + ('mix_fi', 'mix_if') else []
                for ei, (e, cap) in enumerate(((0.3, 1e12), (1e-2, 2), (1e-3, 1e12), (0.05, 3)) + ((([thr[0][0], thr[0][1], 1], 1e12),
                                                                                                   ([thr[-1][0], thr[-1][1], -1], 1e12)) if thr else ())):
                    fj += 1
                    if not big and form is not None and (fj % 2):
                        continue
                    stab, eigh = bool((fj // 2) % 2), bool((fj // 4 + ei) % 2)
                    ef = eforms[fj % 4] if (form is None or fj % 3 == 0) else None
                    cf = capforms[(fj // 2) % 8] if (form is None or fj % 3 == 1) else None
                    if cap >= 1e6 and cf in ('i32',):
                        cf = 'f64'
                    if cf in ('i64', 'i32', 'a0i') and cap != int(cap):
                        cf = 'f32'
                    if form is None and ef is None and cf is None:
                        continue
                    base = dict(n=n, r=r, seed=800 + si, kind=kind, scale=1.0, order=('C', 'F', 'V')[fj % 3], e=e, cap=cap, stab=stab, eigh=eigh)
                    for check in ('shape_ranks', 'error_bound', 'rss_optimal', 'rank_minimal'):
                        yield 'C02.forms.truncate', dict(check=check, form=form, eform=ef, capform=cf, params=base)
    for n in ([3, 4], [2, 3, 2]):
        for fi, form in enumerate(('tuple', 'np', 'np0')):
            for m, freq in ((5, 4), (9, 4), (4, 3), (17, 15)) + (((16, 15), (13, 6)) if big else ()):
                for e, cap in ((1e-8, 1e12), (1e-6, 2.7), (1e-2, 3)):
                    yield 'C02.add_many.sum_bound', dict(n=n, r=[1, 3, 1], seed=900 + m + freq, m=m, e=e, cap=cap, freq=freq,
                                                         nums=[] if (m + fi) % 2 else [1], scale=(1.0, 1e-7, 1e4)[(m + fi) % 3], form=form)
            for dflt in ('e', 'r', 'freq'):
                yield 'C02.add_many.sum_bound', dict(n=n, r=[1, 3, 1], seed=6, m=6, e=1e-6, cap=1e12 if dflt != 'e' else 4, freq=2,
                                                     nums=[], scale=1.0, defaults=dflt, form=form)
    # NUMBER summands of every kind among tensors of matching (and of far-off) scale: zero, +-0.0, negative, tiny
    # (|v| <= 1e-16: const's special branch, its boundary 1e-16, denormals), huge, Python ints; leading / trailing /
    # consecutive / interleaved positions; also the step add(Y, v), add(v, Y) itself
    for fi, (scale, numlists) in enumerate(NUM_FAMILIES):
        for li, nums in enumerate(numlists):
            for pi in range(4):
                if pi == 0:
                    terms = ['T']
                    for v in nums:
                        terms += [v, 'T']
                elif pi == 1:
                    terms = list(nums) + ['T', 'T']
                elif pi == 2:
                    terms = ['T', 'T'] + list(nums)
                else:
                    terms = []
                    for v in nums:
                        terms += [v, 'T']
                for ni, n in enumerate(([4, 5, 3], [3, 4], [3, 3, 2, 4])):
                    if not big and (fi + li + pi + ni) % 3:
                        continue
                    for ei, e in enumerate((1e-6, 1e-10) + ((1e-2,) if big else ())):
                        for freq in ((1, 2, 15) if big else ((1, 2, 15)[(li + pi + ei) % 3],)):
                            yield 'C02.add_many.number_terms', dict(n=n, r=[1, 3, 1], seed=fi * 100 + li, terms=terms, scale=scale, e=e,
                                                                    cap=1e12, freq=freq)
                    if big or (li + pi) % 4 == 0:
                        yield 'C02.add_many.number_terms', dict(n=n, r=[1, 3, 1], seed=fi * 100 + li, terms=terms, scale=scale, e=1e-6, cap=2, freq=2)
            for v in nums:
                for ni, n in enumerate(([4, 5, 3], [3, 4], [2, 1, 3, 2])):
                    if not big and (fi + li + ni) % 3:
                        continue
                    for side in 'rl':
                        yield 'C02.add.number_term', dict(n=n, r=[1] + [2] * (len(n) - 1) + [1], seed=fi * 10 + li, v=v, scale=scale, side=side)
    for form in ('pos', 'kw', 'min', 'kwmin', 'mix:1', 'mix:2'):
        for ti, terms in enumerate((['T', 2.5, 'T'], [-1, 'T', 'T', 'T'], ['T', 'T', 5e-17], ['T', 'T', 'T', 'T'])):
            for e, cap, freq in ((1e-6, 1e12, 2), (1e-10, 1e12, 15), (1e-4, 2, 15), (1e-10, 3, 1), (1e-3, 1e12, 15)):
                yield 'C02.add_many.number_terms', dict(n=[3, 4, 2], r=[1, 3, 1], seed=70 + ti, terms=terms, scale=(1.0, 1e-17, 1e5)[ti % 3],
                                                        e=e, cap=cap, freq=freq, form=form)
    for vals in ([2], [2, 3], [1.5, -2, 4], [1, 2, 3, 4, 5, 6, 7], [0.1, 0.2, 0.3], [-1, 1]):
        for freq in (1, 2, 15):
            yield 'C02.add_many.numbers', dict(vals=vals, freq=freq)
