"""C10 (bounded, T3): results depend only on arguments and seed, not on global state or history.

* C10.seeded.int_seed: every function that takes a seed (rand, rand_norm, rand_stab, sample, sample_lhs,
  sample_rand, sample_rand_poi, sample_tt, sample_func, anova / ANOVA (cores, sample), core_qr_rand, cross_act)
  returns bit-identical results for the same integer seed under two different states of the global NumPy
  generator (np.random.seed(ga) / seed(gb) + draws) with other library calls in between (seed=None calls, calls
  that use the default info dictionaries); the call leaves the global NumPy state and `random` state untouched.
* C10.seeded.generator: given a np.random.Generator the function draws from that object only: two generators
  with equal state give bit-identical results and end in equal states under different global states; the global
  state is untouched; the generator state advanced iff the function draws (cross_act(dr=0) does not).
* C10.sample_square.global_rng / .nonunique: the same two checks for sample_square, isolated because of the known
  defect (np.random.shuffle on the unique path; on the pinned tree the call moreover raises for every input [C14]:
  the unique clause FAILs, the non-unique one SKIPs until C14 is repaired).
* C10.deterministic.repeat: functions without randomness - the whole call-pattern table of the C09 suite
  (`rtc.suites.C09.PATTERNS`, 99 call patterns incl. truncate, orthogonalize, svd, cross with a deterministic f, als,
  als_func, anova with integer seed, optima_*, func_*, grid maps ...) - return bit-identical results (and info
  dictionaries, except the clock entry 't') on repeated calls with freshly built equal arguments under
  different global generator states and histories, and leave the global state untouched.
* C10.history.scribbled_result / C10.seeded.scribbled_result (gap closure; history made by the CALLER): call, overwrite every
  array of the result tree in place and empty every returned list / dict (`gen.scribble`), call again with freshly built equal
  arguments (and, for plain array / list / number arguments, with the same argument objects): bit-identical to a result
  obtained BEFORE the scribbling, which itself is not touched by it.  A memoised function (functools.lru_cache on hashable
  arguments, a module-level table keyed on values or identities, a module-level work array handed out as the result) fails
  for every input although plain repeated calls are bit-identical.  Whole C09 table (every flag variant, base shape; first
  variant also d = 2 and d = 1) and the whole seeded table with integer seeds.
* C10.defaults.info: cross / als / als_func called with the default `info` argument after an earlier default-info
  call with different stopping parameters return exactly what a call with a fresh info={} returns, and the default
  dictionary then holds exactly the fresh dictionary's entries (nothing carried over).
* C10.defaults.info.allow_swap: the same after an als(allow_swap=True) call with the default info (on the pinned tree the
  key 'rearrange' written by that call stayed in the module-level default dictionary: repaired by a `fix:` commit, see
  known_findings.json).
* C10.defaults.cache_to_data: cache_to_data() with its default never changes, whatever was converted before.

Parameter coverage (audit): the seeded table has, besides one default-ish call per routine, every parameter that
changes what or how much is drawn: sample m = 1 / float m / unsert = 0 / d = 2; sample_lhs with m < every mode,
m a multiple of every mode (no remainder draw), m = 1 with a mode of size 1; sample_rand m = 1, d = 4;
sample_tt r = 1 / d = 2 / d = 4; sample_square unique / non-unique / m_fact = 1 with forced restarts (the function
calls itself again with the same seed object) / float_cf; anova order 2 with d = 4, noise = 0; ANOVA.cores called
repeatedly incl. rel_noise, ANOVA.sample(with_square, xi); core_qr_rand m = 0; cross_act with three inputs, d = 4,
nswp = 0; ndarray n / r arguments; integer seeds 0, 1, 42 and 2^40 + 12345 (beyond 32 bits).  The history made
between the compared calls also contains seed=None calls of sample_square (shuffle), anova, core_qr_rand, sample.
The deterministic table inherits all flag variants of C09 (log=True, every stop criterion, allow_swap, update_sol,
Generator seeds freshly built from equal integers, read-only layout, d = 4).  defaults.info: 8 parameter sets per
function (validation stop, cache + m_cache_scale, callbacks returning True, weights, update_sol, fh, lamb=None).

rand_custom draws from the caller's f (its default is the global np.random.randn by documentation) and takes no
seed: it is only part of the deterministic table with a seeded f.
"""
import contextlib
import inspect
import io
import random
import numpy as np
import teneva
from rtc.api import clause, PASS, FAIL, TRIVIAL, SKIP, check
from rtc import gen
from rtc.suites import C09 as tab


BUDGET = (100, 600)
BOUNDS = ('40 seeded call patterns (18 base ones x 4 integer seeds incl. 2^40+12345 x 2 pairs of global states, 22 '
          'parameter variants x 2 seeds; quick) / 11 seeds x 4 pairs (thorough); deterministic table: every C09 pattern '
          'and flag variant (about 370) once (quick) / x 4 layouts x 5 shape variants (thorough); default-dict '
          'histories: 3 functions x 8 parameter sets pairwise (subset in quick) + als allow_swap history; caller-made '
          'history (result overwritten / emptied, call repeated with fresh and with the same arguments): every C09 pattern and '
          'flag variant (iterative fits: 4 variants in quick) + 40 seeded patterns x 2 integer seeds (5 thorough)')

N3 = [3, 4, 2]


def _ypos(s):
    return [np.abs(G) + 0.1 for G in gen.tt(N3, [1, 3, 2, 1], s, 'gauss')]


def _data(s, m=30):
    Y = gen.tt(N3, 2, s, 'gauss')
    I = np.vstack([gen.all_indices(N3), gen.rng('C10d', s).integers(0, np.array(N3), size=(m, 3))])
    return I, np.array([tab._chain(Y, r) for r in I]), Y


def _dens(s):
    g = gen.rng('C10dens', s)
    A = teneva.func_int([np.ones((1, 5, 1)) for _ in range(3)])
    return [G + 0.05 * g.normal(size=G.shape) for G in A]


def _f_act(X):
    return X[:, 0] + 2 * X[:, 1]


# name -> (callable(seed_argument, data_seed) -> result, draws?)
SEEDED = {
    'rand': (lambda sd, s: teneva.rand(N3, 3, -1.0, 2.0, seed=sd), True),
    'rand_list_r': (lambda sd, s: teneva.rand(np.array(N3), [1, 2, 3, 1], seed=sd), True),
    'rand_norm': (lambda sd, s: teneva.rand_norm(N3, 2, 0.5, 2.0, seed=sd), True),
    'rand_stab': (lambda sd, s: teneva.rand_stab(N3, 3, 1e-3, seed=sd), True),
    'sample': (lambda sd, s: teneva.sample(_ypos(s), 9, seed=sd), True),
    'sample_lhs': (lambda sd, s: teneva.sample_lhs(N3, 7, seed=sd), True),
    'sample_rand': (lambda sd, s: teneva.sample_rand(N3, 7, seed=sd), True),
    'sample_rand_poi': (lambda sd, s: teneva.sample_rand_poi([-1.0, 0.0], [1.0, 3.0], 6, seed=sd), True),
    'sample_tt': (lambda sd, s: teneva.sample_tt(N3, 2, seed=sd), True),
    'sample_func': (lambda sd, s: teneva.sample_func(_dens(s), seed=sd), True),
    'anova_o1': (lambda sd, s: teneva.anova(*_data(s)[:2], r=3, order=1, noise=1e-3, seed=sd), True),
    'anova_o2': (lambda sd, s: teneva.anova(*_data(s)[:2], r=3, order=2, noise=1e-3, seed=sd), True),
    'ANOVA_cores': (lambda sd, s: teneva.ANOVA(*_data(s)[:2], order=1, seed=sd).cores(2, 1e-2), True),
    'ANOVA_sample': (lambda sd, s: [teneva.ANOVA(*_data(s)[:2], order=2, seed=sd).sample() for _ in range(1)], True),
    'core_qr_rand_ltr': (lambda sd, s: teneva.core_qr_rand(gen.tt(N3, 2, s, 'gauss')[1], 2, True, seed=sd), True),
    'core_qr_rand_rtl': (lambda sd, s: teneva.core_qr_rand(gen.tt(N3, 2, s, 'gauss')[1], 2, False, seed=sd), True),
    'cross_act': (lambda sd, s: teneva.cross_act(_f_act, [gen.tt(N3, 2, s, 'gauss'), gen.tt(N3, 2, s + 1, 'gauss')],
                                                 gen.tt(N3, 1, s + 2, 'gauss'), 1e-6, 1, dr=2, dr2=1, seed=sd), True),
    'cross_act_dr0': (lambda sd, s: teneva.cross_act(_f_act, [gen.tt(N3, 2, s, 'gauss'),
                                                                gen.tt(N3, 2, s + 1, 'gauss')],
                                                     gen.tt(N3, 2, s + 2, 'gauss'), 1e-6, 1, dr=0, seed=sd), False),
    # ---- parameter-coverage additions: every parameter that changes what / how much is drawn
    'rand_d2_r1': (lambda sd, s: teneva.rand([5, 2], 1, seed=sd), True),
    'rand_stab_array': (lambda sd, s: teneva.rand_stab(np.array(N4), np.array([1, 2, 3, 2, 1]), seed=sd), True),
    'sample_m1': (lambda sd, s: teneva.sample(_ypos(s), seed=sd), True),
    'sample_d2_unsert0': (lambda sd, s: teneva.sample([G[:, :, :1] if k else G for k, G in enumerate(_ypos(s)[:2])],
                                                     5.0, sd, 0.0), True),
    'sample_lhs_m_small': (lambda sd, s: teneva.sample_lhs([3, 4, 5], 2, seed=sd), True),       # m < every n_k
    'sample_lhs_m_multiple': (lambda sd, s: teneva.sample_lhs(np.array(N3), 12, seed=sd), True),  # no remainder draw
    'sample_lhs_m1': (lambda sd, s: teneva.sample_lhs([1, 3], 1.0, seed=sd), True),
    'sample_rand_d4': (lambda sd, s: teneva.sample_rand(np.array(N4), 1, seed=sd), True),
    'sample_tt_d4_r1': (lambda sd, s: teneva.sample_tt(N4, 1, seed=sd), True),
    'sample_tt_d2': (lambda sd, s: teneva.sample_tt([3, 4], 3, seed=sd), True),
    'sample_func_d2': (lambda sd, s: teneva.sample_func(_dens(s)[:1] + _dens(s + 1)[2:], seed=sd), True),
    'sample_square_unique': (lambda sd, s: teneva.sample_square(gen.tt(N4, 2, s, 'gauss'), 5, True, sd), True),
    'sample_square_nonunique': (lambda sd, s: teneva.sample_square(gen.tt(N3, 2, s, 'gauss'), 5, False, sd), True),
    # m_fact = 1 and as many distinct rows as the tensor has entries with sizeable mass: the function restarts itself
    'sample_square_restart': (lambda sd, s: teneva.sample_square(gen.tt([2, 2, 2], 2, s, 'ones'), 6, True, sd, 1), True),
    'sample_square_float_cf': (lambda sd, s: teneva.sample_square(gen.tt(N3, 2, s, 'gauss'), 3, False, sd,
                                                                  float_cf=2), True),
    'anova_o2_d4': (lambda sd, s: teneva.anova(*_data4(s), r=4, order=2, noise=1e-6, seed=sd), True),
    'anova_noise0': (lambda sd, s: teneva.anova(*_data(s)[:2], r=3, order=1, noise=0.0, seed=sd), True),
    'ANOVA_cores_twice': (lambda sd, s: (lambda A: [A.cores(3, 1e-2), A.cores(3, rel_noise=1e-3), A.cores_1(2)])(
        teneva.ANOVA(*_data(s)[:2], order=2, seed=sd)), True),
    'ANOVA_sample_square': (lambda sd, s: (lambda A: [A.sample(with_square=True), A.sample(), A.sample(1)])(
        teneva.ANOVA(*_data(s)[:2], order=1, seed=sd)), True),
    'core_qr_rand_m0': (lambda sd, s: teneva.core_qr_rand(gen.tt(N3, 2, s, 'gauss')[1], 0, True, seed=sd), None),
    'cross_act_three_d4': (lambda sd, s: teneva.cross_act(lambda X: X[:, 0] * X[:, 1] - X[:, 2],
                                                          [gen.tt(N4, 2, s + k, 'gauss') for k in range(3)],
                                                          gen.tt(N4, 2, s + 3, 'gauss'), 1e-4, 0, 3, 1, 0, sd), True),
}

N4 = [2, 3, 2, 3]
BIG_SEED = (1 << 40) + 12345       # beyond 32 bits: legal for default_rng, not for the legacy global generator


def _data4(s):
    Y = gen.tt(N4, 2, s, 'gauss')
    I = np.vstack([gen.all_indices(N4), gen.rng('C10d4', s).integers(0, np.array(N4), size=(10, 4))])
    return I, np.array([tab._chain(Y, r) for r in I])


N_OLD = 18      # the first entries of SEEDED: the original table (3 seeds x 2 pairs in quick), the rest 2 seeds x 1 pair


def _quiet(f, *a):
    with contextlib.redirect_stdout(io.StringIO()):
        return f(*a)


def _gstate():
    st = np.random.get_state()
    return (st[0], st[1].tobytes(), st[2], st[3], st[4], repr(random.getstate()))


def _perturb(k):
    """set the global generator state and make history: draws, seed=None calls, default-dictionary calls"""
    np.random.seed(k)
    np.random.rand(k % 7 + 1)
    random.seed(k)
    I, y, Y = _data(k % 5)
    teneva.rand([2, 2], 1)
    teneva.sample_lhs([3, 3], 4)
    teneva.sample_rand([3, 3], 2, seed=None)
    teneva.cross(lambda J: np.array([tab._chain(Y, r) for r in J]), gen.tt(N3, 1, k, 'gauss'),
                 m=20 + k % 30 if k % 2 else None, nswp=None if k % 2 else 1)
    teneva.als(I, y, gen.tt(N3, 2, k, 'gauss'), nswp=1 + k % 2)
    teneva.truncate(Y, 1e-3)
    if k % 3 == 0:      # seed=None calls of the other seeded routines (incl. the shuffle of sample_square)
        teneva.sample_square(Y, 2)
        teneva.anova(I, y)
        teneva.core_qr_rand(Y[1], 1)
        teneva.sample(_ypos(k % 5), 2)
    np.random.randn(3)


def _same(a, b):
    return gen.snapshot(a) == gen.snapshot(b)


@clause('C10.seeded.int_seed', funcs=('utils._rand', 'tensors.rand', 'tensors.rand_norm', 'tensors.rand_stab',
                                      'sample.sample', 'sample.sample_lhs', 'sample.sample_rand',
                                      'sample.sample_rand_poi', 'sample.sample_tt', 'sample_func.sample_func',
                                      'anova.anova', 'core.core_qr_rand', 'cross_act.cross_act'))
def seeded_int(fn, seed, ga, gb):
    """Same integer seed -> bit-identical result, whatever the global generator state and the calls made before;
    the call does not touch the global NumPy / `random` state."""
    f, _draws = SEEDED[fn]
    np.random.seed(ga)
    random.seed(ga)
    g0 = _gstate()
    r1 = _quiet(f, seed, seed)
    if _gstate() != g0:
        return FAIL('the call changed the global generator state (it draws from numpy.random / random)')
    _perturb(gb)
    g1 = _gstate()
    r2 = _quiet(f, seed, seed)
    if _gstate() != g1:
        return FAIL('the call changed the global generator state (it draws from numpy.random / random)')
    if not _same(r1, r2):
        return FAIL(f'results for seed={seed} differ between global states seed({ga}) and seed({gb})+history')
    np.random.seed(ga)
    r3 = _quiet(f, seed, seed)
    return check(_same(r1, r3), 'third call (after history) differs from the first')


@clause('C10.seeded.generator', funcs=('utils._rand', 'tensors.rand', 'tensors.rand_norm', 'tensors.rand_stab',
                                       'sample.sample', 'sample.sample_lhs', 'sample.sample_rand',
                                       'sample.sample_rand_poi', 'sample.sample_tt', 'sample_func.sample_func',
                                       'anova.anova', 'core.core_qr_rand', 'cross_act.cross_act'))
def seeded_generator(fn, seed, ga, gb):
    """Generator object as seed: equal generator states -> equal results and equal final states, global state
    untouched, state advanced iff the function draws."""
    f, draws = SEEDED[fn]
    g1, g2 = np.random.default_rng(seed), np.random.default_rng(seed)
    s0 = g1.bit_generator.state
    np.random.seed(ga)
    gs = _gstate()
    r1 = _quiet(f, g1, seed)
    if _gstate() != gs:
        return FAIL('global generator state changed although a generator object was passed')
    _perturb(gb)
    gs = _gstate()
    r2 = _quiet(f, g2, seed)
    if _gstate() != gs:
        return FAIL('global generator state changed although a generator object was passed')
    if not _same(r1, r2):
        return FAIL('two generators with equal state give different results (draws from somewhere else)')
    if g1.bit_generator.state != g2.bit_generator.state:
        return FAIL('the two generators end in different states')
    if draws is not None and (g1.bit_generator.state != s0) != draws:
        return FAIL(f'passed generator advanced: {g1.bit_generator.state != s0}, function draws: {draws}')
    return PASS


def _sample_square_pair(unique, mode, seed, ga, gb):
    Y = gen.tt([4, 3, 4], 2, seed, 'gauss')

    def f(sd):
        return teneva.sample_square(Y, 4, unique=unique, seed=sd)
    np.random.seed(ga)
    gs = _gstate()
    r1 = f(seed if mode == 'int' else np.random.default_rng(seed))
    touched = _gstate() != gs
    np.random.seed(gb)
    np.random.rand(5)
    r2 = f(seed if mode == 'int' else np.random.default_rng(seed))
    if touched:
        return FAIL('the call changed the global NumPy generator state (np.random.shuffle)')
    return check(_same(r1, r2), f'results for the same seed differ between global states seed({ga}) and seed({gb}):'
                                f' {r1.tolist()} vs {r2.tolist()}')


@clause('C10.sample_square.global_rng', funcs=('sample.sample_square',))
def sample_square_global(mode, seed, ga, gb):
    """sample_square(unique=True) with an integer seed / generator object under two global states: identical
    results, global state untouched.  Known defect of the pinned tree: np.random.shuffle on the unique path (on
    the pinned tree the call moreover raises for every input under the installed NumPy [C14], which hides it: the
    clause fails either way until both are repaired)."""
    try:
        return _sample_square_pair(True, mode, seed, ga, gb)
    except Exception as e:
        return FAIL(f'sample_square raised {type(e).__name__}: {str(e)[:160]} - repeatability cannot be observed '
                    f'(C14 defect; behind it np.random.shuffle draws from the global generator on this path)')


@clause('C10.sample_square.nonunique', funcs=('sample.sample_square',))
def sample_square_nonunique(mode, seed, ga, gb):
    """sample_square(unique=False): same check on the path without the uniqueness filter (the pinned tree raised here for
    every input - repaired by the `fix:` commit recorded for C14; an exception is a failure again)."""
    return _sample_square_pair(False, mode, seed, ga, gb)


def _result(call):
    res, extra, exc = tab._run(call)
    if exc is not None:
        return None, exc
    out = [extra if call.post else res]
    info = call.kwargs.get('info')
    if isinstance(info, dict):
        out.append({k: v for k, v in info.items() if k != 't'})
    if isinstance(call.kwargs.get('cache'), dict):
        out.append(call.kwargs['cache'])
    return out, None


@clause('C10.deterministic.repeat', funcs=())
def deterministic_repeat(fn, layout, sv, variant, seed, ga, gb):
    """Repeated call with equal (freshly built) arguments under a different global state and history: bit-identical
    result (and info / cache dictionaries without the clock entry); the global state is untouched."""
    try:
        c1 = tab._build(fn, layout, sv, variant, seed)
        c2 = tab._build(fn, layout, sv, variant, seed)
    except tab.NA as e:
        return SKIP(str(e))
    np.random.seed(ga)
    random.seed(ga)
    gs = _gstate()
    r1, exc = _result(c1)
    if exc is not None:
        why = tab.BLOCKED.get(fn) or tab.BLOCKED.get((fn, variant))
        return SKIP(f'blocked by known defect {why}') if why else FAIL(f'call raised {type(exc).__name__}: {exc}')
    if _gstate() != gs:
        return FAIL('the call changed the global generator state')
    _perturb(gb)
    r2, exc = _result(c2)
    if exc is not None:
        return FAIL(f'second call raised {type(exc).__name__}: {exc}')
    if not _same(r1, r2):
        return FAIL('second call with equal arguments (other global state, calls in between) returns a different result')
    r3, exc = _result(tab._build(fn, layout, sv, variant, seed))
    if exc is not None:
        return FAIL(f'third call raised {type(exc).__name__}: {exc}')
    return check(_same(r2, r3), 'immediately repeated call returns a different result')


def _plain(x):
    """only numbers / strings / None / arrays and lists, tuples of them (no callables, generators, dictionaries: objects with
    a state of their own that a repeated call with the SAME objects would legitimately see)"""
    if isinstance(x, (list, tuple)):
        return all(_plain(e) for e in x)
    return x is None or isinstance(x, (np.ndarray, np.generic, int, float, complex, str, bool))


class _Raised(Exception):
    pass


def _run_or_raise(call):
    out, exc = _result(call)
    if exc is not None:
        raise _Raised(f'{type(exc).__name__}: {exc}')
    return out


@clause('C10.history.scribbled_result', funcs=())
def scribbled_result(fn, layout, sv, variant, seed):
    """History = what the CALLER did with the result of an earlier call.  Call; overwrite every array of the result tree in
    place and empty every returned list / dictionary (`gen.scribble`); call again with freshly built equal arguments (and,
    for plain array / list / number arguments, once more with the very same argument objects): the repeated calls return
    bit-identically what a call made BEFORE any modification returned, and that earlier result is not touched by the
    scribbling.  A function that memoises (functools.lru_cache on hashable arguments, a module-level table keyed on the
    bytes or the identity of an argument, a preallocated module-level work array handed out as the result) fails here for
    every input, although plain repeated calls are bit-identical.  Runs over the whole call-pattern table of C09."""
    try:
        tab._build(fn, layout, sv, variant, seed)
    except tab.NA as e:
        return SKIP(str(e))

    def make():
        return tab._build(fn, layout, sv, variant, seed)
    probe = make()
    same = all(_plain(a) for k, a in probe.items() if k != 'info')
    try:
        msg = gen.call_scribble_call(make, _run_or_raise, same_objects=same, args_of=lambda c: [
            c.args, {k: a for k, a in c.kwargs.items() if k != 'info'}])       # (pass-through results may alias arguments)
    except _Raised as e:
        why = tab._blocked(fn, variant, sv)
        return SKIP(f'blocked by known defect {why}') if why else FAIL(f'call raised {e}')
    return check(msg is None, msg)


@clause('C10.seeded.scribbled_result', funcs=('utils._rand', 'tensors.rand', 'tensors.rand_norm', 'tensors.rand_stab',
                                              'sample.sample', 'sample.sample_lhs', 'sample.sample_rand',
                                              'sample.sample_rand_poi', 'sample.sample_tt', 'sample_func.sample_func',
                                              'anova.anova', 'core.core_qr_rand', 'cross_act.cross_act',
                                              'sample.sample_square'))
def seeded_scribbled(fn, seed):
    """The same for the seeded routines called with an INTEGER seed (hashable arguments: shape list / rank / seed could key
    a memo table): call, scribble over the result, call again with the same seed - the original result comes back."""
    f, _draws = SEEDED[fn]
    try:
        msg = gen.call_scribble_call(lambda: seed, lambda sd: _quiet(f, sd, seed), same_objects=False)
    except Exception as e:
        if fn.startswith('sample_square'):
            return SKIP(f'sample_square raised {type(e).__name__} (C14 defect)')
        raise
    return check(msg is None, msg)


def _default_info(f):
    return inspect.signature(f).parameters['info'].default


def _info_calls(fn, seed):
    """(call(kwargs) -> result, list of stopping-parameter sets)"""
    I, y, Yref = _data(seed)
    if fn == 'cross':
        Y0 = gen.tt(N3, 1, seed + 1, 'gauss')

        def call(**kw):
            return teneva.cross(lambda J: np.array([tab._chain(Yref, r) for r in J]), Y0, **kw)
        return call, [dict(m=25), dict(nswp=2), dict(e=1e-10, nswp=5, cache={}), dict(nswp=0), dict(m=400, e=1e-12),
                      dict(nswp=3, I_vld=I[:6], y_vld=y[:6], e_vld=1e30), dict(nswp=4, cache={}, m_cache_scale=0),
                      dict(nswp=2, cb=lambda Y, info, opts: True, dr_max=0, dr_min=0),
                      # set 8: a WARM (non-empty) cache - an empty dict is falsy, a filled one is not (seeded change C10-13)
                      dict(nswp=3, cache='warm', m_cache_scale=3)]
    if fn == 'als':
        Y0 = gen.tt(N3, 2, seed + 1, 'gauss')

        def call(**kw):
            return teneva.als(I, y, Y0, **kw)
        return call, [dict(nswp=1), dict(nswp=3, e=None), dict(nswp=2, r=3), dict(nswp=4, e=1e-2),
                      dict(nswp=2, I_vld=I[:5], y_vld=y[:5], e_vld=1e-1),
                      dict(nswp=3, cb=lambda Y, info, opts: True), dict(nswp=2, w=np.linspace(1, 2, len(y)), lamb=None),
                      dict(nswp=1, update_sol=True)]
    X = gen.rng('C10x', seed).uniform(-1, 1, size=(60, 3))
    yy = np.sin(X.sum(axis=1))
    A0 = gen.tt([3, 3, 3], 2, seed + 1, 'gauss')

    def call(**kw):
        return teneva.als_func(X, yy, A0, **kw)
    return call, [dict(nswp=1), dict(nswp=3), dict(nswp=2, e=1e-1), dict(nswp=2, X_vld=X[:5], y_vld=yy[:5], e_vld=1e-1),
                  dict(nswp=2, n_max=4), dict(nswp=1, lamb=None), dict(nswp=2, fh=tab._fh, e=1e10),
                  dict(nswp=1, update_sol=True)]


@clause('C10.defaults.info', funcs=('cross.cross', 'als.als', 'als_func.als_func'))
def defaults_info(fn, first, second, seed):
    """call(first parameter set, default info); call(second set, default info) == call(second set, info={})
    bitwise, and afterwards the default dictionary holds the same entries as the fresh one (clock excepted)."""
    call, sets = _info_calls(fn, seed)
    d = _default_info(getattr(teneva, fn))

    warm = {}
    if fn == 'cross':   # the filled cache of an earlier run with a private info: every compared call gets its own copy
        call(nswp=2, cache=warm, info={})

    def fresh(kw):      # cache dictionaries must not be shared between the compared calls
        return {k: ((dict(warm) if v == 'warm' else {}) if k == 'cache' else v) for k, v in kw.items()}
    call(**fresh(sets[first]))
    leftover = {k: v for k, v in d.items() if k != 't'}
    r_def = call(**fresh(sets[second]))
    after = {k: v for k, v in d.items() if k != 't'}
    info = {}
    r_new = call(info=info, **fresh(sets[second]))
    want = {k: v for k, v in info.items() if k != 't'}
    if not _same(r_def, r_new):
        return FAIL(f'result with the default info (left over from the previous call: {leftover}) differs from the '
                    f'result with info={{}}')
    if gen.snapshot(after) != gen.snapshot(want) or set(after) != set(want):
        return FAIL(f'default info after the call {after} != fresh info {want}')
    return PASS


@clause('C10.defaults.info.allow_swap', funcs=('als.als',))
def defaults_info_allow_swap(second, seed):
    """The same statement after an als call with the experimental flag allow_swap=True (which records the mode
    permutation under info['rearrange']): a later default-info call returns what a fresh info={} call returns and
    the default dictionary holds exactly the fresh dictionary's entries - nothing is carried over."""
    n = [4, 2, 3]
    Yref = gen.tt(n, [1, 3, 2, 1], seed, 'gauss')
    I = np.vstack([gen.all_indices(n), gen.all_indices(n)[::3]])
    y = np.array([tab._chain(Yref, r) for r in I])
    Y0 = gen.tt(n, 2, seed + 1, 'gauss')
    d = _default_info(teneva.als)
    _quiet(lambda: teneva.als(I, y, Y0, nswp=2, r=3, allow_swap=True, I_vld=I[::2], y_vld=y[::2]))
    kw = [dict(nswp=1), dict(nswp=2, r=3), dict(nswp=2, e=1e10)][second]
    r_def = teneva.als(I, y, Y0, **kw)
    after = {k: v for k, v in d.items() if k != 't'}
    info = {}
    r_new = teneva.als(I, y, Y0, info=info, **kw)
    want = {k: v for k, v in info.items() if k != 't'}
    if not _same(r_def, r_new):
        return FAIL('result with the default info after an allow_swap call differs from the result with info={}')
    if set(after) != set(want) or gen.snapshot(after) != gen.snapshot(want):
        return FAIL(f'default info after the call has entries {sorted(after)}, a fresh info has {sorted(want)}: '
                    f'{sorted(set(after) ^ set(want))} carried over from the earlier allow_swap call')
    return PASS


@clause('C10.defaults.cache_to_data', funcs=('data.cache_to_data',))
def defaults_cache(seed):
    """cache_to_data() (default argument) returns the same empty data before and after conversions of real caches
    and its default dictionary stays empty."""
    d = inspect.signature(teneva.cache_to_data).parameters['cache'].default
    a = teneva.cache_to_data()
    I, y, Yref = _data(seed)
    cache = {}
    teneva.cross(lambda J: np.array([tab._chain(Yref, r) for r in J]), gen.tt(N3, 1, seed, 'gauss'), nswp=2,
                 cache=cache, info={})
    Ic, yc = teneva.cache_to_data(cache)
    if len(Ic) != len(cache) or len(yc) != len(cache) or len(cache) == 0:
        return FAIL(f'cache of {len(cache)} entries converted to {len(Ic)} / {len(yc)} rows')
    if any(cache[tuple(int(v) for v in r)] != v_ for r, v_ in zip(Ic, yc)):
        return FAIL('converted data do not match the cache')
    b = teneva.cache_to_data()
    if len(d) != 0:
        return FAIL(f'default cache dictionary now has {len(d)} entries')
    return check(_same(a, b) and all(len(x) == 0 for x in b), 'cache_to_data() changed after a conversion')


def cases(tier, seed):
    big = tier == 'thorough'
    g = gen.rng('C10', seed)

    def rs(k=20):
        return int(g.integers(1 << k))

    for fn in SEEDED:
        old = list(SEEDED).index(fn) < N_OLD
        for sd in ([0, 1, 42] if old or big else [0]) + [BIG_SEED] + [rs() for _ in range(7 if big else 0)]:
            for rep in range(4 if big else 2 if old and sd != BIG_SEED else 1):
                ga, gb = rs(16), rs(16)
                yield 'C10.seeded.int_seed', dict(fn=fn, seed=sd, ga=ga, gb=gb)
                yield 'C10.seeded.generator', dict(fn=fn, seed=sd, ga=ga, gb=gb)
    for mode in ('int', 'generator'):
        for rep in range(6 if big else 3):
            yield 'C10.sample_square.global_rng', dict(mode=mode, seed=rs(), ga=rs(16), gb=rs(16))
            yield 'C10.sample_square.nonunique', dict(mode=mode, seed=rs(), ga=rs(16), gb=rs(16))
    for fn in sorted(tab.PATTERNS):
        variants = tab.PATTERNS[fn][1]
        if big:
            combos = [(L, sv, v) for v in variants for L in tab.LAYOUTS for sv in tab.SHAPE_VARIANTS]
        else:
            j = sorted(tab.PATTERNS).index(fn)
            combos = [(tab.LAYOUTS[k % 4], tab.SHAPE_VARIANTS[k % 5] if k else 'base', v)
                      for k, v in enumerate(variants)] + [(tab.LAYOUTS[j % 4], tab.SHAPE_VARIANTS[1 + j % 4], variants[0])]
        for L, sv, v in combos:
            yield 'C10.deterministic.repeat', dict(fn=fn, layout=L, sv=sv, variant=v, seed=rs(), ga=rs(16), gb=rs(16))
    # ---- history made by the CALLER: the result of an earlier call overwritten / emptied, then the same call repeated.  Every
    # pattern and flag variant of the table on the base shape (a memo table does not care about layouts; the key would be built
    # from the argument values), the first variant also for d = 2, and the one-core shape; thorough: all shape variants, 2 seeds.
    g3 = gen.rng('C10scribble', seed)
    for fn in sorted(tab.PATTERNS):
        variants = tab.PATTERNS[fn][1]
        for k, v in enumerate(variants):
            if not big and k >= 4 and fn in ('als', 'als_func', 'cross', 'cross_act'):
                continue        # (the iterative fits are the expensive calls; a memo table sits in front of all flag variants)
            svs = (tab.SHAPE_VARIANTS + ('d1',)) if big else (('base', 'd2', 'd1') if k == 0 else ('base',))
            for sv in svs:
                for rep in range(2 if big else 1):
                    yield 'C10.history.scribbled_result', dict(fn=fn, layout=('C', 'F')[rep], sv=sv, variant=v,
                                                               seed=int(g3.integers(1 << 20)))
    for fn in SEEDED:
        for sd in (0, BIG_SEED) + ((1, 42, int(g3.integers(1 << 20))) if big else ()):
            yield 'C10.seeded.scribbled_result', dict(fn=fn, seed=sd)
    for fn in ('cross', 'als', 'als_func'):
        for first in range(8):
            for second in range(8):
                new = first >= 5 or second >= 5
                if big or (not new and ((first + 2 * second) % 3 != 2 or first == second)) \
                        or (new and (first + second) % 4 == 1):
                    yield 'C10.defaults.info', dict(fn=fn, first=first, second=second, seed=rs())
    for first in (2, 6, 8, 0):          # a warm cache in the second call, after calls that leave a hit count behind
        yield 'C10.defaults.info', dict(fn='cross', first=first, second=8, seed=rs())
    yield 'C10.defaults.info', dict(fn='cross', first=8, second=2, seed=rs())
    for second in range(3):
        for rep in range(3 if big else 1):
            yield 'C10.defaults.info.allow_swap', dict(second=second, seed=rs())
    for rep in range(6 if big else 2):
        yield 'C10.defaults.cache_to_data', dict(seed=rs())
