"""C10 (bounded, T3): results depend only on arguments and seed, not on global state or history.

* C10.seeded.int_seed: every function that takes a seed (rand, rand_norm, rand_stab, sample, sample_lhs,
  sample_rand, sample_rand_poi, sample_tt, sample_func, anova / ANOVA (cores, sample), core_qr_rand, cross_act)
  returns bit-identical results for the same integer seed under two different states of the global NumPy
  generator (np.random.seed(ga) / seed(gb) + draws) with other library calls in between (seed=None calls, calls
  that use the default info dictionaries); the call leaves the global NumPy state and `random` state untouched.
* C10.seeded.generator: given a np.random.Generator the function draws from that object only: two generators
  with equal state give bit-identical results and end in equal states under different global states; the global
  state is untouched; the generator state advanced iff the function draws (cross_act(dr=0) does not).
* C10.sample_square.global_rng / .nonunique: the same two checks for sample_square, isolated because of the known
  defect (np.random.shuffle on the unique path; on the pinned tree the call moreover raises for every input [C14]:
  the unique clause FAILs, the non-unique one SKIPs until C14 is repaired).
* C10.deterministic.repeat: functions without randomness - the whole call-pattern table of the C09 suite
  (`rtc.suites.C09.PATTERNS`, 99 call patterns incl. truncate, orthogonalize, svd, cross with a deterministic f, als,
  als_func, anova with integer seed, optima_*, func_*, grid maps ...) - return bit-identical results (and info
  dictionaries, except the clock entry 't') on repeated calls with freshly built equal arguments under
  different global generator states and histories, and leave the global state untouched.
* C10.defaults.info: cross / als / als_func called with the default `info` argument after an earlier default-info
  call with different stopping parameters return exactly what a call with a fresh info={} returns, and the default
  dictionary then holds exactly the fresh dictionary's entries (nothing carried over).
* C10.defaults.cache_to_data: cache_to_data() with its default never changes, whatever was converted before.

rand_custom draws from the caller's f (its default is the global np.random.randn by documentation) and takes no
seed: it is only part of the deterministic table with a seeded f.
"""
import contextlib
import inspect
import io
import random
import numpy as np
import teneva
from rtc.api import clause, PASS, FAIL, TRIVIAL, SKIP, check
from rtc import gen
from rtc.suites import C09 as tab


BUDGET = (100, 600)
BOUNDS = ('16 seeded call patterns x 3 integer seeds x 2 pairs of global states (quick) / 10 seeds x 4 pairs '
          '(thorough); deterministic table: every C09 pattern and flag variant once (quick) / x 3 layouts x 4 shape '
          'variants (thorough); default-dict histories: 3 functions x 4 orders of stopping parameters')

N3 = [3, 4, 2]


def _ypos(s):
    return [np.abs(G) + 0.1 for G in gen.tt(N3, [1, 3, 2, 1], s, 'gauss')]


def _data(s, m=30):
    Y = gen.tt(N3, 2, s, 'gauss')
    I = np.vstack([gen.all_indices(N3), gen.rng('C10d', s).integers(0, np.array(N3), size=(m, 3))])
    return I, np.array([tab._chain(Y, r) for r in I]), Y


def _dens(s):
    g = gen.rng('C10dens', s)
    A = teneva.func_int([np.ones((1, 5, 1)) for _ in range(3)])
    return [G + 0.05 * g.normal(size=G.shape) for G in A]


def _f_act(X):
    return X[:, 0] + 2 * X[:, 1]


# name -> (callable(seed_argument, data_seed) -> result, draws?)
SEEDED = {
    'rand': (lambda sd, s: teneva.rand(N3, 3, -1.0, 2.0, seed=sd), True),
    'rand_list_r': (lambda sd, s: teneva.rand(np.array(N3), [1, 2, 3, 1], seed=sd), True),
    'rand_norm': (lambda sd, s: teneva.rand_norm(N3, 2, 0.5, 2.0, seed=sd), True),
    'rand_stab': (lambda sd, s: teneva.rand_stab(N3, 3, 1e-3, seed=sd), True),
    'sample': (lambda sd, s: teneva.sample(_ypos(s), 9, seed=sd), True),
    'sample_lhs': (lambda sd, s: teneva.sample_lhs(N3, 7, seed=sd), True),
    'sample_rand': (lambda sd, s: teneva.sample_rand(N3, 7, seed=sd), True),
    'sample_rand_poi': (lambda sd, s: teneva.sample_rand_poi([-1.0, 0.0], [1.0, 3.0], 6, seed=sd), True),
    'sample_tt': (lambda sd, s: teneva.sample_tt(N3, 2, seed=sd), True),
    'sample_func': (lambda sd, s: teneva.sample_func(_dens(s), seed=sd), True),
    'anova_o1': (lambda sd, s: teneva.anova(*_data(s)[:2], r=3, order=1, noise=1e-3, seed=sd), True),
    'anova_o2': (lambda sd, s: teneva.anova(*_data(s)[:2], r=3, order=2, noise=1e-3, seed=sd), True),
    'ANOVA_cores': (lambda sd, s: teneva.ANOVA(*_data(s)[:2], order=1, seed=sd).cores(2, 1e-2), True),
    'ANOVA_sample': (lambda sd, s: [teneva.ANOVA(*_data(s)[:2], order=2, seed=sd).sample() for _ in range(1)], True),
    'core_qr_rand_ltr': (lambda sd, s: teneva.core_qr_rand(gen.tt(N3, 2, s, 'gauss')[1], 2, True, seed=sd), True),
    'core_qr_rand_rtl': (lambda sd, s: teneva.core_qr_rand(gen.tt(N3, 2, s, 'gauss')[1], 2, False, seed=sd), True),
    'cross_act': (lambda sd, s: teneva.cross_act(_f_act, [gen.tt(N3, 2, s, 'gauss'), gen.tt(N3, 2, s + 1, 'gauss')],
                                                 gen.tt(N3, 1, s + 2, 'gauss'), 1e-6, 1, dr=2, dr2=1, seed=sd), True),
    'cross_act_dr0': (lambda sd, s: teneva.cross_act(_f_act, [gen.tt(N3, 2, s, 'gauss'),
                                                                gen.tt(N3, 2, s + 1, 'gauss')],
                                                     gen.tt(N3, 2, s + 2, 'gauss'), 1e-6, 1, dr=0, seed=sd), False),
}


def _quiet(f, *a):
    with contextlib.redirect_stdout(io.StringIO()):
        return f(*a)


def _gstate():
    st = np.random.get_state()
    return (st[0], st[1].tobytes(), st[2], st[3], st[4], repr(random.getstate()))


def _perturb(k):
    """set the global generator state and make history: draws, seed=None calls, default-dictionary calls"""
    np.random.seed(k)
    np.random.rand(k % 7 + 1)
    random.seed(k)
    I, y, Y = _data(k % 5)
    teneva.rand([2, 2], 1)
    teneva.sample_lhs([3, 3], 4)
    teneva.sample_rand([3, 3], 2, seed=None)
    teneva.cross(lambda J: np.array([tab._chain(Y, r) for r in J]), gen.tt(N3, 1, k, 'gauss'),
                 m=20 + k % 30 if k % 2 else None, nswp=None if k % 2 else 1)
    teneva.als(I, y, gen.tt(N3, 2, k, 'gauss'), nswp=1 + k % 2)
    teneva.truncate(Y, 1e-3)
    np.random.randn(3)


def _same(a, b):
    return gen.snapshot(a) == gen.snapshot(b)


@clause('C10.seeded.int_seed', funcs=('utils._rand', 'tensors.rand', 'tensors.rand_norm', 'tensors.rand_stab',
                                      'sample.sample', 'sample.sample_lhs', 'sample.sample_rand',
                                      'sample.sample_rand_poi', 'sample.sample_tt', 'sample_func.sample_func',
                                      'anova.anova', 'core.core_qr_rand', 'cross_act.cross_act'))
def seeded_int(fn, seed, ga, gb):
    """Same integer seed -> bit-identical result, whatever the global generator state and the calls made before;
    the call does not touch the global NumPy / `random` state."""
    f, _draws = SEEDED[fn]
    np.random.seed(ga)
    random.seed(ga)
    g0 = _gstate()
    r1 = _quiet(f, seed, seed)
    if _gstate() != g0:
        return FAIL('the call changed the global generator state (it draws from numpy.random / random)')
    _perturb(gb)
    g1 = _gstate()
    r2 = _quiet(f, seed, seed)
    if _gstate() != g1:
        return FAIL('the call changed the global generator state (it draws from numpy.random / random)')
    if not _same(r1, r2):
        return FAIL(f'results for seed={seed} differ between global states seed({ga}) and seed({gb})+history')
    np.random.seed(ga)
    r3 = _quiet(f, seed, seed)
    return check(_same(r1, r3), 'third call (after history) differs from the first')


@clause('C10.seeded.generator', funcs=('utils._rand', 'tensors.rand', 'tensors.rand_norm', 'tensors.rand_stab',
                                       'sample.sample', 'sample.sample_lhs', 'sample.sample_rand',
                                       'sample.sample_rand_poi', 'sample.sample_tt', 'sample_func.sample_func',
                                       'anova.anova', 'core.core_qr_rand', 'cross_act.cross_act'))
def seeded_generator(fn, seed, ga, gb):
    """Generator object as seed: equal generator states -> equal results and equal final states, global state
    untouched, state advanced iff the function draws."""
    f, draws = SEEDED[fn]
    g1, g2 = np.random.default_rng(seed), np.random.default_rng(seed)
    s0 = g1.bit_generator.state
    np.random.seed(ga)
    gs = _gstate()
    r1 = _quiet(f, g1, seed)
    if _gstate() != gs:
        return FAIL('global generator state changed although a generator object was passed')
    _perturb(gb)
    gs = _gstate()
    r2 = _quiet(f, g2, seed)
    if _gstate() != gs:
        return FAIL('global generator state changed although a generator object was passed')
    if not _same(r1, r2):
        return FAIL('two generators with equal state give different results (draws from somewhere else)')
    if g1.bit_generator.state != g2.bit_generator.state:
        return FAIL('the two generators end in different states')
    if (g1.bit_generator.state != s0) != draws:
        return FAIL(f'passed generator advanced: {g1.bit_generator.state != s0}, function draws: {draws}')
    return PASS


def _sample_square_pair(unique, mode, seed, ga, gb):
    Y = gen.tt([4, 3, 4], 2, seed, 'gauss')

    def f(sd):
        return teneva.sample_square(Y, 4, unique=unique, seed=sd)
    np.random.seed(ga)
    gs = _gstate()
    r1 = f(seed if mode == 'int' else np.random.default_rng(seed))
    touched = _gstate() != gs
    np.random.seed(gb)
    np.random.rand(5)
    r2 = f(seed if mode == 'int' else np.random.default_rng(seed))
    if touched:
        return FAIL('the call changed the global NumPy generator state (np.random.shuffle)')
    return check(_same(r1, r2), f'results for the same seed differ between global states seed({ga}) and seed({gb}):'
                                f' {r1.tolist()} vs {r2.tolist()}')


@clause('C10.sample_square.global_rng', funcs=('sample.sample_square',))
def sample_square_global(mode, seed, ga, gb):
    """sample_square(unique=True) with an integer seed / generator object under two global states: identical
    results, global state untouched.  Known defect of the pinned tree: np.random.shuffle on the unique path (on
    the pinned tree the call moreover raises for every input under the installed NumPy [C14], which hides it: the
    clause fails either way until both are repaired)."""
    try:
        return _sample_square_pair(True, mode, seed, ga, gb)
    except Exception as e:
        return FAIL(f'sample_square raised {type(e).__name__}: {str(e)[:160]} - repeatability cannot be observed '
                    f'(C14 defect; behind it np.random.shuffle draws from the global generator on this path)')


@clause('C10.sample_square.nonunique', funcs=('sample.sample_square',))
def sample_square_nonunique(mode, seed, ga, gb):
    """sample_square(unique=False): same check on the path without the uniqueness filter (the pinned tree raised here for
    every input - repaired by the `fix:` commit recorded for C14; an exception is a failure again)."""
    return _sample_square_pair(False, mode, seed, ga, gb)


def _result(call):
    res, extra, exc = tab._run(call)
    if exc is not None:
        return None, exc
    out = [extra if call.post else res]
    info = call.kwargs.get('info')
    if isinstance(info, dict):
        out.append({k: v for k, v in info.items() if k != 't'})
    if isinstance(call.kwargs.get('cache'), dict):
        out.append(call.kwargs['cache'])
    return out, None


@clause('C10.deterministic.repeat', funcs=())
def deterministic_repeat(fn, layout, sv, variant, seed, ga, gb):
    """Repeated call with equal (freshly built) arguments under a different global state and history: bit-identical
    result (and info / cache dictionaries without the clock entry); the global state is untouched."""
    try:
        c1 = tab._build(fn, layout, sv, variant, seed)
        c2 = tab._build(fn, layout, sv, variant, seed)
    except tab.NA as e:
        return SKIP(str(e))
    np.random.seed(ga)
    random.seed(ga)
    gs = _gstate()
    r1, exc = _result(c1)
    if exc is not None:
        why = tab.BLOCKED.get(fn) or tab.BLOCKED.get((fn, variant))
        return SKIP(f'blocked by known defect {why}') if why else FAIL(f'call raised {type(exc).__name__}: {exc}')
    if _gstate() != gs:
        return FAIL('the call changed the global generator state')
    _perturb(gb)
    r2, exc = _result(c2)
    if exc is not None:
        return FAIL(f'second call raised {type(exc).__name__}: {exc}')
    if not _same(r1, r2):
        return FAIL('second call with equal arguments (other global state, calls in between) returns a different result')
    r3, exc = _result(tab._build(fn, layout, sv, variant, seed))
    if exc is not None:
        return FAIL(f'third call raised {type(exc).__name__}: {exc}')
    return check(_same(r2, r3), 'immediately repeated call returns a different result')


def _default_info(f):
    return inspect.signature(f).parameters['info'].default


def _info_calls(fn, seed):
    """(call(kwargs) -> result, list of stopping-parameter sets)"""
    I, y, Yref = _data(seed)
    if fn == 'cross':
        Y0 = gen.tt(N3, 1, seed + 1, 'gauss')

        def call(**kw):
            return teneva.cross(lambda J: np.array([tab._chain(Yref, r) for r in J]), Y0, **kw)
        return call, [dict(m=25), dict(nswp=2), dict(e=1e-10, nswp=5, cache={}), dict(nswp=0), dict(m=400, e=1e-12)]
    if fn == 'als':
        Y0 = gen.tt(N3, 2, seed + 1, 'gauss')

        def call(**kw):
            return teneva.als(I, y, Y0, **kw)
        return call, [dict(nswp=1), dict(nswp=3, e=None), dict(nswp=2, r=3), dict(nswp=4, e=1e-2),
                      dict(nswp=2, I_vld=I[:5], y_vld=y[:5], e_vld=1e-1)]
    X = gen.rng('C10x', seed).uniform(-1, 1, size=(60, 3))
    yy = np.sin(X.sum(axis=1))
    A0 = gen.tt([3, 3, 3], 2, seed + 1, 'gauss')

    def call(**kw):
        return teneva.als_func(X, yy, A0, **kw)
    return call, [dict(nswp=1), dict(nswp=3), dict(nswp=2, e=1e-1), dict(nswp=2, X_vld=X[:5], y_vld=yy[:5], e_vld=1e-1),
                  dict(nswp=2, n_max=4)]


@clause('C10.defaults.info', funcs=('cross.cross', 'als.als', 'als_func.als_func'))
def defaults_info(fn, first, second, seed):
    """call(first parameter set, default info); call(second set, default info) == call(second set, info={})
    bitwise, and afterwards the default dictionary holds the same entries as the fresh one (clock excepted)."""
    call, sets = _info_calls(fn, seed)
    d = _default_info(getattr(teneva, fn))

    def fresh(kw):      # cache dictionaries must not be shared between the compared calls
        return {k: ({} if k == 'cache' else v) for k, v in kw.items()}
    call(**fresh(sets[first]))
    leftover = {k: v for k, v in d.items() if k != 't'}
    r_def = call(**fresh(sets[second]))
    after = {k: v for k, v in d.items() if k != 't'}
    info = {}
    r_new = call(info=info, **fresh(sets[second]))
    want = {k: v for k, v in info.items() if k != 't'}
    if not _same(r_def, r_new):
        return FAIL(f'result with the default info (left over from the previous call: {leftover}) differs from the '
                    f'result with info={{}}')
    if gen.snapshot(after) != gen.snapshot(want) or set(after) != set(want):
        return FAIL(f'default info after the call {after} != fresh info {want}')
    return PASS


@clause('C10.defaults.cache_to_data', funcs=('data.cache_to_data',))
def defaults_cache(seed):
    """cache_to_data() (default argument) returns the same empty data before and after conversions of real caches
    and its default dictionary stays empty."""
    d = inspect.signature(teneva.cache_to_data).parameters['cache'].default
    a = teneva.cache_to_data()
    I, y, Yref = _data(seed)
    cache = {}
    teneva.cross(lambda J: np.array([tab._chain(Yref, r) for r in J]), gen.tt(N3, 1, seed, 'gauss'), nswp=2,
                 cache=cache, info={})
    Ic, yc = teneva.cache_to_data(cache)
    if len(Ic) != len(cache) or len(yc) != len(cache) or len(cache) == 0:
        return FAIL(f'cache of {len(cache)} entries converted to {len(Ic)} / {len(yc)} rows')
    if any(cache[tuple(int(v) for v in r)] != v_ for r, v_ in zip(Ic, yc)):
        return FAIL('converted data do not match the cache')
    b = teneva.cache_to_data()
    if len(d) != 0:
        return FAIL(f'default cache dictionary now has {len(d)} entries')
    return check(_same(a, b) and all(len(x) == 0 for x in b), 'cache_to_data() changed after a conversion')


def cases(tier, seed):
    big = tier == 'thorough'
    g = gen.rng('C10', seed)

    def rs(k=20):
        return int(g.integers(1 << k))

    for fn in SEEDED:
        for sd in [0, 1, 42] + [rs() for _ in range(7 if big else 0)]:
            for rep in range(4 if big else 2):
                ga, gb = rs(16), rs(16)
                yield 'C10.seeded.int_seed', dict(fn=fn, seed=sd, ga=ga, gb=gb)
                yield 'C10.seeded.generator', dict(fn=fn, seed=sd, ga=ga, gb=gb)
    for mode in ('int', 'generator'):
        for rep in range(6 if big else 3):
            yield 'C10.sample_square.global_rng', dict(mode=mode, seed=rs(), ga=rs(16), gb=rs(16))
            yield 'C10.sample_square.nonunique', dict(mode=mode, seed=rs(), ga=rs(16), gb=rs(16))
    for fn in sorted(tab.PATTERNS):
        variants = tab.PATTERNS[fn][1]
        if big:
            combos = [(L, sv, v) for v in variants for L in tab.LAYOUTS for sv in tab.SHAPE_VARIANTS]
        else:
            combos = [(tab.LAYOUTS[k % 3], tab.SHAPE_VARIANTS[k % 4] if k else 'base', v)
                      for k, v in enumerate(variants)] + [('F', 'rank1', variants[0]), ('V', 'd2', variants[0])]
        for L, sv, v in combos:
            yield 'C10.deterministic.repeat', dict(fn=fn, layout=L, sv=sv, variant=v, seed=rs(), ga=rs(16), gb=rs(16))
    for fn in ('cross', 'als', 'als_func'):
        for first in range(5):
            for second in range(5):
                if big or (first + 2 * second) % 3 != 2 or first == second:
                    yield 'C10.defaults.info', dict(fn=fn, first=first, second=second, seed=rs())
    for rep in range(6 if big else 2):
        yield 'C10.defaults.cache_to_data', dict(seed=rs())
