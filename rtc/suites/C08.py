"""C08 (bounded, T3): maxvol returns a dominant submatrix with an exact coefficient matrix.

Clauses of the property statement and where they are evaluated (real functions from /repo, oracles are
plain NumPy: own solves / pseudo-inverses of A[I], set arithmetic on I):

* maxvol on tall full-column-rank A [n, r]: I holds r distinct valid row numbers, A = B A[I], B[I] = identity,
  max|B| <= e when the iteration limit is not hit (k = 10^5), also re-derived from I alone through an own
  solve; k = 0, 1, 2 still gives the identities                               -> C08.maxvol.contract
* exactly solvable instances (stacked scaled identities, row order permuted) with a unique dominant
  submatrix: the returned set of rows and B are the known ones                -> C08.maxvol.exact
* wide / square input -> ValueError, n = r+1 accepted (maxvol and maxvol_rect) -> C08.maxvol.reject
* maxvol_rect: r+dr_min <= |I| <= min(n, r+dr_max) distinct valid rows, B of shape [n, |I|], A = B A[I],
  B[I] = identity (exactly), every row norm of B <= e when it stopped before the upper limit (also re-derived
  from I alone through an own pseudo-inverse)                                 -> C08.maxvol_rect.contract
* the same distinctness when zero rows make every residual vanish while dr_min forces growth
  (known defect of the pinned tree, isolated)                                 -> C08.maxvol_rect.distinct.zero_rows
* acceptance / rejection of every (dr_min, dr_max) pair incl. None, negative, too large, on small sizes
                                                                              -> C08.maxvol_rect.limits
* _maxvol: n <= r returns (arange(n), eye(n)); clipping of dr_max / dr_min; dispatch to maxvol / maxvol_rect;
  with distinct tau / tau0 and the iteration limit not hit the accuracy parameters must arrive in the right
  slots (max|B| <= tau0 resp. row norms <= tau, re-derived here)                -> C08._maxvol.dispatch
* optional arguments left out == documented defaults (maxvol e=1.05, k=100; maxvol_rect e=1.1, dr_min=0,
  dr_max=None, e0=1.05, k0=10; _maxvol tau=1.1, 0/0, tau0=1.05, k0=100) and the identities hold -> C08.defaults

Input presentation (parameters `scale`, `form`, `p2` of the clauses; every quantity of the property is invariant
under A -> c A): overall factors 1e-12 .. 1e12 and 2^-300, 2^300 (2^+-500 exact in C08.maxvol.exact), Fortran
order, non-contiguous views, transposed views.

Element type and writeability of the input (gap closure; part of `form` = '<layout>[:<dtype>][:ro]'): int64, int32, int16, int8,
uint8 (integer-valued matrices as np.array([[2, 1], ...]) / rng.integers give them), float32, float16, longdouble, read-only
arrays, each also Fortran-ordered / strided / transposed: B must be a FLOAT matrix with the identities of the statement to the
working precision (SciPy factorises float32, float16 and integers of <= 16 bits in single precision: eps of float32 there), the
input is never written to, _maxvol's trivial branch returns a float identity.  C08.input_form.int_fortran_order isolates a
finding: integer dtype x Fortran order (or transposed view) gives a wrong B on the clean tree because scipy.linalg.lu (1.18.1)
returns P L U != A for such input.

Matrix families (quantifier): Gaussian factors with prescribed singular values (condition number 1 ... 1e8),
rows of unit length,
nz exactly-zero rows, nd duplicated rows, small-integer matrices (ties), aspect ratios from n = r+1.
Tolerances: residual |A - B A[I]| <= 64 (r+|I|) eps max|A| max(1, max|B|)  (the residual of the triangular
solves / rank-one updates does not depend on the conditioning; measured <= 5 eps max|A| max|B|);
|B[I] - Id| <= 64 r eps cond(A[I])  (here the conditioning enters); dominance re-derived from I:
max|A A[I]^-1| <= e (1 + 64 r eps cond(A[I])).
"""
import numpy as np
import teneva
from rtc.api import clause, PASS, FAIL, TRIVIAL, SKIP, check
from rtc import gen

BUDGET = (100, 800)
BOUNDS = ('r <= 5 (quick) / <= 10 (thorough), n - r in {1,2,3,7,20,(60)} and 40, 100, (300), cond in {1,1e4,1e8} (+1e2,1e6 '
          'thorough), families gauss / integer / 1-3 zero rows / 1-3 duplicate rows, e in {1.01,1.05,1.5,2,5,100}, k in '
          '{0,1,2,3,5,10,100,1e5}; maxvol_rect: all 0 <= dr_min <= n-r (n-r <= 7), dr_max in {dr_min, dr_min+1, dr_min+3, None}, '
          'e0 in {1.01,1.05,2,5}, k0 in {1,2,10,100}; limits exhaustive for n <= 6, r <= 3, dr in -1..n-r+2 and None; overall '
          'scale 1e-12..1e12 and 2^+-300 (2^+-500 exact), C / F / non-contiguous / transposed input; _maxvol with '
          '(tau, tau0, k0) in {(1.1,1.05,100), (3,1.01,1e5), (1.01,2.5,1e5), (1.3,1.3,1)}; default-argument calls; input '
          'element types int64/int32/int16/int8/uint8/float32/float16/longdouble and read-only arrays x C / F / strided / '
          'transposed (21 forms x r in {1,2,3,5} x n-r in {1,7,40}) for maxvol, maxvol_rect, _maxvol (also n <= r)')

EPS = np.finfo(float).eps
KBIG = 100000


def _matrix(n, r, nz, nd, ints, lc, seed):
    """Tall matrix [n, r] of full column rank: Gaussian with singular values 10^(-lc*j/(r-1)) (condition 10^lc),
    or rows of unit length (lc < 0), or small integers (ints=True, lc ignored); nz rows exactly zero, nd rows exact copies of other rows.
    Returns (A, cond) or None when the construction is rank deficient (caller SKIPs)."""
    g = gen.rng('C08.matrix', n, r, nz, nd, ints, lc, seed)
    if n - nz - nd < r:
        return None
    p = g.permutation(n)
    zero = [int(i) for i in p[:nz]]
    dst = [int(i) for i in p[nz:nz + nd]]
    rest = [int(i) for i in p[nz + nd:]]
    src = [rest[int(g.integers(len(rest)))] for _ in dst]
    A0 = g.integers(-3, 4, size=(n, r)).astype(float) if ints else g.normal(size=(n, r))

    def shape_it(M):
        M[zero] = 0.
        for a, b in zip(dst, src):
            M[a] = M[b]
        return M
    A0 = shape_it(A0)
    U, s, Vt = np.linalg.svd(A0, full_matrices=False)
    if s[-1] <= 1e-6 * s[0]:
        return None
    if ints:
        return A0, float(s[0] / s[-1])
    if lc < 0:                      # 'sphere' family: rows of unit length (row norms of A A[I]^+ stay near 1..sqrt(r))
        nrm = np.linalg.norm(A0, axis=1)
        A = shape_it(A0 / np.where(nrm > 0, nrm, 1.)[:, None])
        s = np.linalg.svd(A, compute_uv=False)
        return A, float(s[0] / s[-1])
    st = 10. ** (-lc * np.arange(r) / max(1, r - 1)) if r > 1 else np.ones(1)
    A = shape_it((U * st) @ Vt)
    s = np.linalg.svd(A, compute_uv=False)
    c = float(s[0] / s[-1])
    if c > 1.001e8:
        return None
    return A, c


EPS32 = float(np.finfo(np.float32).eps)
SINGLE = ('float32', 'float16', 'int16', 'int8', 'uint8')      # SciPy's LU (and so B) is single precision for these dtypes
INT_DT = ('int64', 'int32', 'int16', 'int8', 'uint8')


def _form(form):
    """'<layout>[:<dtype>][:ro]' -> (layout, dtype or None, read-only?)"""
    parts = form.split(':')
    dt = [q for q in parts[1:] if q != 'ro']
    return parts[0] or 'C', (dt[0] if dt else None), 'ro' in parts[1:]


def _form_values(A, form):
    """The float64 matrix holding EXACTLY the values that reach the library when A is handed over in the given form, and
    the unit roundoff the library can be held to: integer dtypes take round(3 A) for a non-integer A (uint8: shifted to
    be >= 0), float32 / float16 the rounded entries; eps is that of float32 for the dtypes SciPy factorises in single
    precision (float32, float16 and the integers of <= 16 bits), else that of float64.  None if the values do not fit
    the dtype or the full column rank is lost by the conversion (caller SKIPs)."""
    _layout, dt, _ro = _form(form)
    if dt is None:
        return A, EPS
    if dt in INT_DT:
        if not np.array_equal(A, np.rint(A)):
            A = np.rint(3. * A)
        if dt == 'uint8':
            A = A - min(0., A.min())
        info = np.iinfo(dt)
        if A.min() < info.min or A.max() > info.max:
            return None
        A = A.astype(dt).astype(float)
    else:
        A = A.astype(dt).astype(float)
    if not np.all(np.isfinite(A)):
        return None
    sv = np.linalg.svd(A, compute_uv=False)
    if sv[-1] <= 1e-4 * sv[0]:
        return None
    return A, (EPS32 if dt in SINGLE else EPS)


def _present(A, scale=1.0, form='C'):
    """The matrix as handed to the library: overall factor `scale` (B = A A[I]^-1 and every quantity of the
    property are invariant under it) and the form '<layout>[:<dtype>][:ro]' - memory layout 'C' / 'F' contiguous, 'view'
    (non-contiguous slice of a larger array), 'T' (transposed view of a C-contiguous [r, n] array); element type (default
    float64; int64, int32, int16, int8, uint8, float32, float16, longdouble - A must hold values of that type, see
    _form_values); 'ro': the array (and the buffer it is a view of) is read-only, a write attempt raises."""
    layout, dt, ro = _form(form)
    A = A * scale if scale != 1.0 else A
    if dt is not None:
        A = A.astype(dt)
    if layout == 'F':
        out = np.asfortranarray(A)
        out = out.copy(order='F') if out is A else out
    elif layout == 'view':
        big = np.full((2 * A.shape[0], 2 * A.shape[1] + 1), 7, dtype=A.dtype)
        big[::2, 1::2] = A
        out = big[::2, 1::2]
        if ro:
            big.flags.writeable = False
    elif layout == 'T':
        base = np.ascontiguousarray(A.T)
        base = base.copy() if base is A.T or np.shares_memory(base, A) else base
        out = base.T
        if ro:
            base.flags.writeable = False
    else:
        out = A.copy()
    if ro:
        out.flags.writeable = False
    return out


def _valid_index(I, n, m=None):
    if not isinstance(I, np.ndarray) or I.ndim != 1 or I.dtype.kind not in 'iu':
        return f'I is not a 1-D integer array: {type(I).__name__} {getattr(I, "shape", None)} {getattr(I, "dtype", None)}'
    if m is not None and I.shape[0] != m:
        return f'|I| = {I.shape[0]} != {m}'
    if I.size and (I.min() < 0 or I.max() >= n):
        return f'row number out of range: {I.tolist()} (n={n})'
    return None


def _residual_ok(A, B, I, eps=EPS):
    S = A[I]
    res = np.abs(A - B @ S).max()
    tol = 64. * (A.shape[1] + len(I)) * eps * np.abs(A).max() * max(1., np.abs(B).max())
    return bool(np.all(np.isfinite(B)) and res <= tol), res, tol      # (an infinite B would make tol infinite)


@clause('C08.maxvol.contract', funcs=('maxvol.maxvol',))
def maxvol_contract(n, r, nz, nd, ints, lc, seed, e, k, scale=1.0, form='C'):
    """I: r distinct valid rows; A = B A[I]; B[I] = identity; k >= 1e5 (limit not hit): max|B| <= e and
    the same dominance recomputed from I alone.  scale: overall factor of A; form: memory layout of A."""
    M = _matrix(n, r, nz, nd, ints, lc, seed)
    if M is None:
        return SKIP('rank-deficient construction')
    A, cond = M
    A = A * scale
    V = _form_values(A, form)
    if V is None:
        return SKIP(f'the form {form} cannot hold this matrix with full column rank')
    A, eps = V
    A_in = _present(A, 1.0, form)
    snap = gen.snapshot(A_in)
    I, B = teneva.maxvol(A_in, e, k)
    if gen.snapshot(A_in) != snap:
        return FAIL(f'the input matrix ({form}) was modified')
    msg = _valid_index(I, n, r)
    if msg:
        return FAIL(msg)
    if len(set(I.tolist())) != r:
        return FAIL(f'rows not distinct: {I.tolist()}')
    if not isinstance(B, np.ndarray) or B.shape != (n, r) or B.dtype.kind != 'f' or not np.all(np.isfinite(B)):
        return FAIL(f'B malformed: shape {getattr(B, "shape", None)}, dtype {getattr(B, "dtype", None)} (input form {form})')
    B = B.astype(float)
    ok, res, tol = _residual_ok(A, B, I, eps)
    if not ok:
        return FAIL(f'A != B A[I]: residual {res:.3e} > tol {tol:.3e} (cond {cond:.1e}, input form {form})')
    S = A[I]
    cS = np.linalg.cond(S)
    errI = np.abs(B[I] - np.eye(r)).max()
    tolI = 64. * r * eps * cS
    if not errI <= tolI:
        return FAIL(f'B[I] != identity: {errI:.3e} > {tolI:.3e} (cond(A[I]) {cS:.1e})')
    if k >= KBIG:
        mb = np.abs(B).max()
        if not mb <= e:
            return FAIL(f'max|B| = {mb!r} > e = {e} although the iteration limit {k} is not hit')
        Bo = np.linalg.solve(S.T, A.T).T
        mo = np.abs(Bo).max()
        if not mo <= e * (1. + 64. * r * eps * cS):
            return FAIL(f'rows I are not dominant: max|A A[I]^-1| = {mo!r} > e = {e}')
        B0 = teneva.maxvol(_present(A, 1.0, form), e, 0)[1]          # classification only: was any row swap needed?
        if not np.all(np.isfinite(B0)):
            return FAIL('B of the LU start (k = 0) is not finite')
        return PASS if np.abs(B0).max() > e else TRIVIAL('the LU start is already dominant (no row swap needed)')
    return PASS


@clause('C08.maxvol.exact', funcs=('maxvol.maxvol',))
def maxvol_exact(r, levels, seed, e, k, p2=0):
    """A = row permutation of vstack(c_1 Id, ..., c_L Id) with 1 = c_1 < ... < c_L = 2^(L-1): the only submatrix
    with max|A A[I]^-1| <= e < 2 consists of the rows of c_L Id; then B = A / c_L up to the column order."""
    g = gen.rng('C08.exact', r, levels, seed)
    blocks = [2. ** j * np.eye(r) for j in range(levels)]
    A = np.vstack(blocks)
    n = A.shape[0]
    p = g.permutation(n)
    A = A[p]
    # additionally mix the columns by a well-conditioned integer unimodular matrix (keeps exactness)
    T = np.eye(r)
    for j in range(r - 1):
        T[j, j + 1] = float(g.integers(-1, 2))
    A = (A @ T) * 2. ** p2              # p2: overall power-of-two factor (exact; B does not depend on it)
    I, B = teneva.maxvol(A.copy(), e, k)
    msg = _valid_index(I, n, r)
    if msg:
        return FAIL(msg)
    top = set(int(i) for i in np.nonzero(p >= (levels - 1) * r)[0])
    ok, res, tol = _residual_ok(A, B, I)
    if not ok:
        return FAIL(f'A != B A[I]: {res:.3e} > {tol:.3e}')
    if len(set(I.tolist())) != r:
        return FAIL(f'rows not distinct: {I.tolist()}')
    if k < KBIG:
        return PASS
    if set(I.tolist()) != top:
        return FAIL(f'I = {sorted(I.tolist())} is not the unique dominant set {sorted(top)}')
    want = np.linalg.solve(A[I].T, A.T).T
    if not np.allclose(B, want, rtol=0, atol=64 * r * EPS * 2. ** levels) or not np.all(np.isfinite(B)):
        return FAIL('B differs from A A[I]^-1')
    return PASS


@clause('C08.maxvol.reject', funcs=('maxvol.maxvol', 'maxvol.maxvol_rect'))
def maxvol_reject(n, r, seed):
    """maxvol and maxvol_rect raise ValueError iff n <= r (wide or square input)."""
    A = gen.rng('C08.reject', n, r, seed).normal(size=(n, r))
    for name, call in (('maxvol', lambda: teneva.maxvol(A.copy(), 1.05, 10)),
                       ('maxvol_rect', lambda: teneva.maxvol_rect(A.copy(), 1.1, 0, None, 1.05, 10)),
                       ('maxvol_rect(dr_max=0)', lambda: teneva.maxvol_rect(A.copy(), 1.1, 0, 0, 1.05, 10))):
        try:
            call()
            raised = False
        except ValueError:
            raised = True
        if raised != (n <= r):
            return FAIL(f'{name}: n={n} r={r} raised={raised}')
    return PASS


def _rect_call(A, e, dr_min, dr_max, e0, k0, form='C'):
    A_in = _present(A, 1.0, form)
    snap = gen.snapshot(A_in)
    out = teneva.maxvol_rect(A_in, e, dr_min, dr_max, e0, k0)
    if gen.snapshot(A_in) != snap:
        raise AssertionError(f'the input matrix ({form}) was modified')
    return out


@clause('C08.maxvol_rect.contract', funcs=('maxvol.maxvol_rect',))
def rect_contract(n, r, nz, nd, ints, lc, seed, e, dr_min, dr_max, e0, k0, scale=1.0, form='C'):
    """r+dr_min <= |I| <= min(n, r+dr_max), distinct valid rows, B [n, |I|], A = B A[I], B[I] = identity,
    early stop => all row norms of B (and of A pinv(A[I])) <= e.  Quantifier: at least r+dr_min non-zero rows
    (otherwise see C08.maxvol_rect.distinct.zero_rows)."""
    M = _matrix(n, r, nz, nd, ints, lc, seed)
    if M is None:
        return SKIP('rank-deficient construction')
    A, cond = M
    A = A * scale
    V = _form_values(A, form)
    if V is None:
        return SKIP(f'the form {form} cannot hold this matrix with full column rank')
    A, eps = V
    if r + dr_min > int(A.any(axis=1).sum()):
        return SKIP('fewer non-zero rows than r+dr_min: covered by C08.maxvol_rect.distinct.zero_rows')
    I, B = _rect_call(A, e, dr_min, dr_max, e0, k0, form)
    hi = n if dr_max is None else min(n, r + dr_max)
    msg = _valid_index(I, n)
    if msg:
        return FAIL(msg)
    m = len(I)
    if not (r + dr_min <= m <= hi):
        return FAIL(f'|I| = {m} outside [{r + dr_min}, {hi}]')
    if len(set(I.tolist())) != m:
        return FAIL(f'rows not distinct: {I.tolist()}')
    if not isinstance(B, np.ndarray) or B.shape != (n, m) or B.dtype.kind != 'f' or not np.all(np.isfinite(B)):
        return FAIL(f'B malformed: shape {getattr(B, "shape", None)}, dtype {getattr(B, "dtype", None)} for |I| = {m} '
                    f'(input form {form})')
    B = B.astype(float)
    ok, res, tol = _residual_ok(A, B, I, eps)
    if not ok:
        return FAIL(f'A != B A[I]: residual {res:.3e} > tol {tol:.3e} (cond {cond:.1e}, input form {form})')
    if not np.array_equal(B[I], np.eye(m)):
        return FAIL(f'B[I] != identity: max dev {np.abs(B[I] - np.eye(m)).max():.3e}')
    if m < hi:
        slack = 1e-10 if eps == EPS else 64. * (r + m) * eps     # (the library's own row norms are in the working precision)
        nb = np.linalg.norm(B, axis=1).max()
        if not nb <= e * (1. + slack):
            return FAIL(f'stopped at |I| = {m} < {hi} but a row of B has norm {nb!r} > e = {e}')
        S = A[I]
        Bo = A @ np.linalg.pinv(S)
        no = np.linalg.norm(Bo, axis=1).max()
        if not no <= e * (1. + slack + 64. * m * eps * np.linalg.cond(S)):
            return FAIL(f'stopped at |I| = {m} < {hi} but a row of A pinv(A[I]) has norm {no!r} > e = {e}')
        return PASS
    return PASS


@clause('C08.maxvol_rect.distinct.zero_rows', funcs=('maxvol.maxvol_rect',))
def rect_distinct_zero_rows(n, r, nz, lc, seed, e, dr_min, dr_max, e0, k0, scale=1.0):
    """Fewer non-zero rows than r+dr_min <= n: growth is forced through zero rows (all residuals vanish);
    the selected rows must still be distinct, of the promised number, with B[I] = identity and A = B A[I]."""
    if not (n - nz < r + dr_min <= n):
        return SKIP('not in the zero-row family')
    M = _matrix(n, r, nz, 0, False, lc, seed)
    if M is None:
        return SKIP('rank-deficient construction')
    A, cond = M
    A = A * scale
    I, B = _rect_call(A, e, dr_min, dr_max, e0, k0)
    hi = n if dr_max is None else min(n, r + dr_max)
    msg = _valid_index(I, n)
    if msg:
        return FAIL(msg)
    m = len(I)
    if not (r + dr_min <= m <= hi):
        return FAIL(f'|I| = {m} outside [{r + dr_min}, {hi}]')
    if len(set(I.tolist())) != m:
        return FAIL(f'rows not distinct: I = {I.tolist()} (zero rows {np.nonzero(~A.any(axis=1))[0].tolist()})')
    if B.shape != (n, m) or not np.array_equal(B[I], np.eye(m)):
        return FAIL('B[I] != identity')
    ok, res, tol = _residual_ok(A, B, I)
    return check(ok, f'A != B A[I]: {res:.3e} > {tol:.3e}')


@clause('C08.maxvol_rect.limits', funcs=('maxvol.maxvol_rect',))
def rect_limits(n, r, seed):
    """For every dr_min in -1..n-r+2 and dr_max in {None, -1..n-r+2}: ValueError iff dr_min < 0 or
    dr_min > dr_max or dr_min > n-r (r+dr_max > n is clipped, not rejected); otherwise the number of rows
    is within [r+dr_min, min(n, r+dr_max)]."""
    A = gen.rng('C08.limits', n, r, seed).normal(size=(n, r))
    top = n - r + 2
    for dr_min in range(-1, top + 1):
        for dr_max in [None] + list(range(-1, top + 1)):
            bad = dr_min < 0 or dr_min > n - r or (dr_max is not None and dr_min > dr_max)
            try:
                I, B = teneva.maxvol_rect(A.copy(), 1.1, dr_min, dr_max, 1.05, 10)
                raised = False
            except ValueError:
                raised = True
            if raised != bad:
                return FAIL(f'dr_min={dr_min} dr_max={dr_max}: raised={raised}, inconsistent={bad}')
            if not raised:
                hi = n if dr_max is None else min(n, r + dr_max)
                if not (r + dr_min <= len(I) <= hi) or len(set(I.tolist())) != len(I) or B.shape != (n, len(I)):
                    return FAIL(f'dr_min={dr_min} dr_max={dr_max}: |I|={len(I)} I={I.tolist()} B{B.shape}')
    return PASS


@clause('C08._maxvol.dispatch', funcs=('utils._maxvol', 'maxvol.maxvol', 'maxvol.maxvol_rect'))
def maxvol_dispatch(n, r, dr_min, dr_max, seed, tau=1.1, tau0=1.05, k0=100, scale=1.0, form='C'):
    """n <= r: (arange(n), eye(n)); otherwise dr_max clipped to n-r, dr_min to dr_max, and the result is the
    one of maxvol (clipped dr_max = 0) or maxvol_rect with the clipped limits (agreement clause), with the
    row-count and reproduction identities of the statement.  With k0 >= 1e5 (iteration limit not hit) the
    accuracy parameters must arrive in the right slots: max|B| <= tau0 for the square variant (also re-derived
    from I alone), row norms of B <= tau when the rectangular variant stopped before its upper limit."""
    A = gen.rng('C08.dispatch', n, r, seed).normal(size=(n, r)) * scale
    eps = EPS
    if form != 'C':                     # element type / memory form of the input (see _present)
        if n > r:
            V = _form_values(A, form)
            if V is None:
                return SKIP(f'the form {form} cannot hold this matrix with full column rank')
            A, eps = V
        elif _form(form)[1] in INT_DT:  # wide / square input: any values do
            A = np.rint(3. * A)
            A = A - (A.min() if _form(form)[1] == 'uint8' else 0.)
    A_in = _present(A, 1.0, form)
    snap = gen.snapshot(A_in)
    I, B = teneva._maxvol(A_in, tau, dr_min, dr_max, tau0, k0)
    if gen.snapshot(A_in) != snap:
        return FAIL(f'the input matrix ({form}) was modified')
    if n <= r:
        if not (isinstance(I, np.ndarray) and I.dtype.kind in 'iu' and np.array_equal(I, np.arange(n))):
            return FAIL(f'trivial case: I = {I!r}')
        if not (isinstance(B, np.ndarray) and B.dtype.kind == 'f' and B.shape == (n, n) and np.array_equal(B, np.eye(n))):
            return FAIL('trivial case: B is not the identity')
        return PASS
    dmax = min(dr_max, n - r)
    dmin = min(dr_min, dmax)
    msg = _valid_index(I, n)
    if msg:
        return FAIL(msg)
    if not (r + dmin <= len(I) <= r + dmax) or len(set(I.tolist())) != len(I):
        return FAIL(f'|I| = {len(I)} outside [{r + dmin}, {r + dmax}] or not distinct: {I.tolist()}')
    if not (isinstance(B, np.ndarray) and B.shape == (n, len(I)) and B.dtype.kind == 'f'):
        return FAIL(f'B has shape {getattr(B, "shape", None)}, dtype {getattr(B, "dtype", None)} for |I| = {len(I)} '
                    f'(input form {form})')
    B_lib, B = B, B.astype(float)
    ok, res, tol = _residual_ok(A, B, I, eps)
    if not ok:
        return FAIL(f'A != B A[I]: {res:.3e} > {tol:.3e} (input form {form})')
    if k0 >= KBIG:
        if dmax == 0:
            S = A[I]
            cS = np.linalg.cond(S)
            mb = np.abs(B).max()
            mo = np.abs(np.linalg.solve(S.T, A.T).T).max()
            if not (mb <= tau0 and mo <= tau0 * (1. + 64. * r * eps * cS)):
                return FAIL(f'square variant: max|B| = {mb!r} (from I alone {mo!r}) > tau0 = {tau0}')
        elif len(I) < r + dmax:
            nb = np.linalg.norm(B, axis=1).max()
            if not nb <= tau * (1. + (1e-10 if eps == EPS else 64. * (r + len(I)) * eps)):
                return FAIL(f'rectangular variant stopped at |I| = {len(I)} < {r + dmax} with a row norm {nb!r} > tau = {tau}')
    if dmax == 0:
        I2, B2 = teneva.maxvol(_present(A, 1.0, form), tau0, k0)
    else:
        I2, B2 = teneva.maxvol_rect(_present(A, 1.0, form), tau, dmin, dmax, tau0, k0)
    if not (np.array_equal(I, I2) and np.array_equal(B_lib, B2)):
        return FAIL(f'differs from the direct call: I = {I.tolist()} vs {I2.tolist()}')
    return PASS


@clause('C08.input_form.int_fortran_order', funcs=('maxvol.maxvol', 'maxvol.maxvol_rect', 'utils._maxvol'))
def int_fortran_order(which, params):
    """The contract clauses above for an INTEGER-typed matrix that is Fortran-ordered (or the transposed view of a
    C-ordered array), isolated: on the clean library with the installed SciPy 1.18.1 these calls return a wrong B
    (A != B A[I] by O(|A|), B[I] != identity, _maxvol even repeats rows), because `scipy.linalg.lu` itself returns
    factors with P L U != A for Fortran-ordered integer input (C-ordered / strided integer input and Fortran-ordered float
    input are factorised correctly).  Possible genuine defect (environment-induced), reported; every other element type x
    memory layout combination is checked by the general clauses."""
    fn = {'maxvol': maxvol_contract, 'rect': rect_contract, 'dispatch': maxvol_dispatch}[which]
    return fn(**params)


@clause('C08.defaults', funcs=('maxvol.maxvol', 'maxvol.maxvol_rect', 'utils._maxvol'))
def defaults(n, r, seed, scale=1.0):
    """Calls that leave the optional arguments out behave like calls with the documented defaults
    (maxvol: e=1.05, k=100; maxvol_rect: e=1.1, dr_min=0, dr_max=None, e0=1.05, k0=10; _maxvol: tau=1.1, dr_min=0,
    dr_max=0, tau0=1.05, k0=100) and satisfy the identities of the statement."""
    A = gen.rng('C08.defaults', n, r, seed).normal(size=(n, r)) * scale
    runs = (('maxvol', teneva.maxvol(A.copy()), teneva.maxvol(A.copy(), 1.05, 100), r, r),
            ('maxvol_rect', teneva.maxvol_rect(A.copy()), teneva.maxvol_rect(A.copy(), 1.1, 0, None, 1.05, 10), r, n),
            ('maxvol_rect(e, dr_min)', teneva.maxvol_rect(A.copy(), 1.5, 1),
             teneva.maxvol_rect(A.copy(), 1.5, 1, None, 1.05, 10), r + 1, n),
            ('_maxvol', teneva._maxvol(A.copy()), teneva._maxvol(A.copy(), 1.1, 0, 0, 1.05, 100), r, r))
    for name, (I, B), (I2, B2), lo, hi in runs:
        msg = _valid_index(I, n)
        if msg:
            return FAIL(f'{name}: {msg}')
        if not (lo <= len(I) <= hi) or len(set(I.tolist())) != len(I) or B.shape != (n, len(I)):
            return FAIL(f'{name}: |I| = {len(I)} outside [{lo}, {hi}] / not distinct / B{B.shape}: {I.tolist()}')
        ok, res, tol = _residual_ok(A, B, I)
        if not ok:
            return FAIL(f'{name}: A != B A[I]: {res:.3e} > {tol:.3e}')
        if not (np.array_equal(I, I2) and np.array_equal(B, B2)):
            return FAIL(f'{name}: default call differs from the call with the documented defaults: '
                        f'I = {I.tolist()} vs {I2.tolist()}')
    I, B = runs[1][1]
    if len(I) < n:                       # dr_max=None: the only stop before n rows is the accuracy criterion e=1.1
        nb = np.linalg.norm(B, axis=1).max()
        if not nb <= 1.1 * (1. + 1e-10):
            return FAIL(f'maxvol_rect defaults: stopped at {len(I)} < {n} rows with a row norm {nb!r} > 1.1')
    return PASS


def cases(tier, seed):
    big = tier == 'thorough'
    g = gen.rng('C08.cases', seed)

    def s():
        return int(g.integers(1 << 30))

    rs = range(1, 11) if big else range(1, 6)
    extra = (1, 2, 3, 7, 20, 60) if big else (1, 2, 3, 7, 20)
    lcs = (0., 2., 4., 6., 8.) if big else (0., 4., 8.)
    fams = ((0, 0, False), (0, 0, True), (1, 0, False), (2, 0, False), (3, 0, False), (0, 1, False), (0, 2, False),
            (0, 3, False), (1, 1, False), (1, 1, True))
    # ---- maxvol: systematic grid (fixed seeds) + random seeds
    for r in rs:
        for dn in extra:
            n = r + dn
            for (nz, nd, ints) in fams:
                if n - nz - nd < r:
                    continue
                for lc in ((0.,) if ints else lcs):
                    for e in (1.01, 1.5):
                        for k in (0, 1, KBIG):
                            yield 'C08.maxvol.contract', dict(n=n, r=r, nz=nz, nd=nd, ints=ints, lc=lc, seed=r + dn,
                                                              e=e, k=k)
    for rep in range(1500 if big else 400):
        r = int(g.integers(1, rs[-1] + 1))
        n = r + int(g.choice(extra))
        nz, nd, ints = fams[int(g.integers(len(fams)))]
        if n - nz - nd < r:
            nz, nd = 0, 0
        yield 'C08.maxvol.contract', dict(n=n, r=r, nz=nz, nd=nd, ints=ints, lc=float(g.choice(lcs)), seed=s(),
                                          e=float(g.choice([1.01, 1.05, 1.5, 2., 5.])),
                                          k=int(g.choice([0, 1, 2, KBIG, KBIG])))
    # many rows and e = 1.01: the LU start is usually not dominant, so the swap loop really runs
    for r in (range(2, 11) if big else range(2, 6)):
        for dn in ((40, 100, 300) if big else (40, 100)):
            for rep in range(12 if big else 6):
                for k in (1, 2, KBIG):
                    yield 'C08.maxvol.contract', dict(n=r + dn, r=r, nz=rep % 2, nd=rep % 3, ints=False,
                                                      lc=lcs[rep % len(lcs)], seed=100 + rep if rep < 3 else s(),
                                                      e=(1.01, 1.05, 1.2)[rep % 3], k=k)
    for r in rs:
        for levels in (2, 3, 4):
            for e in (1.01, 1.5, 1.99):
                for k in (0, 1, KBIG):
                    for rep in range(3 if big else 1):
                        yield 'C08.maxvol.exact', dict(r=r, levels=levels, seed=rep if rep == 0 else s(), e=e, k=k)
    for r in range(1, 8 if big else 6):
        for n in range(1, r + 3):
            yield 'C08.maxvol.reject', dict(n=n, r=r, seed=0)
    # ---- maxvol_rect
    rr = range(1, 8) if big else range(1, 5)
    for r in rr:
        for dn in ((1, 2, 3, 5, 7) if big else (1, 2, 3, 5)):
            n = r + dn
            for (nz, nd, ints) in fams:
                if n - nz - nd < r:
                    continue
                for lc in ((0.,) if ints else ((0., 4., 8.) if big else (0., 8.))):
                    for dr_min in range(0, dn + 1):
                        for dr_max in sorted({dr_min, dr_min + 1, dr_min + 3}) + [None]:
                            for e in (1.01, 2.):
                                p = dict(n=n, r=r, nz=nz, lc=lc, seed=r * 10 + dn, e=e, dr_min=dr_min, dr_max=dr_max,
                                         e0=1.05, k0=10)
                                if r + dr_min <= n - nz:
                                    p.update(nd=nd, ints=ints)
                                    yield 'C08.maxvol_rect.contract', p
    # early stop after real growth: e between 1 and sqrt(r), many candidate rows
    for r in (range(2, 9) if big else range(2, 6)):
        for dn in ((20, 60, 150) if big else (20, 60)):
            for e in (1.01, 1.05, 1.2, 1.5):
                for dr_min in (0, 2):
                    for dr_max in (None, 10):
                        for rep in range(4 if big else 2):
                            yield 'C08.maxvol_rect.contract', dict(n=r + dn, r=r, nz=rep % 2, nd=rep % 3, ints=False,
                                                                   lc=(-1., lcs[rep % len(lcs)])[rep % 2],
                                                                   seed=200 + rep if rep < 1 else s(),
                                                                   e=e, dr_min=dr_min, dr_max=dr_max,
                                                                   e0=(1.05, 5.)[(rep // 2) % 2], k0=(10, 1)[(rep // 2) % 2])
    for r in (1, 2, 3):
        for nz in (1, 2):
            for x in (0, 1):
                n = r + x + nz
                for dr_min in range(x + 1, x + nz + 1):
                    for dr_max in (dr_min, None):
                        yield 'C08.maxvol_rect.distinct.zero_rows', dict(n=n, r=r, nz=nz, lc=0., seed=n, e=1.1,
                                                                         dr_min=dr_min, dr_max=dr_max, e0=1.05, k0=10)
    for rep in range(2000 if big else 400):
        r = int(g.integers(1, (10 if big else 5) + 1))
        dn = int(g.choice([1, 2, 3, 5, 7, 20]))
        n = r + dn
        nz, nd, ints = fams[int(g.integers(len(fams)))]
        if n - nz - nd < r:
            nz, nd = 0, 0
        dr_min = int(g.integers(0, max(0, dn - nz) + 1))
        dr_max = [dr_min, dr_min + 1, dr_min + 2, dr_min + 5, None][int(g.integers(5))]
        yield 'C08.maxvol_rect.contract', dict(n=n, r=r, nz=nz, nd=nd, ints=ints, lc=float(g.choice(lcs)), seed=s(),
                                               e=float(g.choice([1.01, 1.1, 1.5, 2., 5.])), dr_min=dr_min,
                                               dr_max=dr_max, e0=float(g.choice([1.01, 1.05, 1.5])),
                                               k0=int(g.choice([1, 10, 100])))
    for rep in range(30 if big else 10):
        r = int(g.integers(1, 5))
        nz = int(g.integers(1, 4))
        n = r + nz + int(g.integers(0, 3))
        dr_min = int(g.integers(n - nz - r + 1, n - r + 1))
        yield 'C08.maxvol_rect.distinct.zero_rows', dict(n=n, r=r, nz=nz, lc=float(g.choice(lcs)), seed=s(),
                                                         e=1.1, dr_min=dr_min, dr_max=[dr_min, None][rep % 2],
                                                         e0=1.05, k0=10)
    for r in range(1, 5 if big else 4):
        for n in range(r + 1, r + (6 if big else 4)):
            for rep in range(2 if big else 1):
                yield 'C08.maxvol_rect.limits', dict(n=n, r=r, seed=rep)
    # ---- _maxvol
    for r in range(1, 5):
        for n in range(1, r + 5):
            for dr_min in range(0, 4):
                for dr_max in range(0, 7):
                    yield 'C08._maxvol.dispatch', dict(n=n, r=r, dr_min=dr_min, dr_max=dr_max, seed=0)
    # accuracy parameters in the right slots (distinct values, limit not hit / hit at once), many rows, scales
    for r in (range(1, 7) if big else range(1, 5)):
        for dn in ((0, 1, 2, 12, 40, 120) if big else (0, 1, 12, 40)):
            for (a, b) in ((0, 0), (0, 3), (1, 2), (2, 50), (3, 3)):
                for (tau, tau0, k0) in ((3.0, 1.01, KBIG), (1.01, 2.5, KBIG), (1.3, 1.3, 1)):
                    for sc in ((1.0, 1e-8, 1e8, 2. ** -300, 2. ** 300) if big else (1.0, 1e-8, 1e8)):
                        yield 'C08._maxvol.dispatch', dict(n=r + dn, r=r, dr_min=a, dr_max=b, seed=1 + dn, tau=tau,
                                                           tau0=tau0, k0=k0, scale=sc)
    # ---- overall scale of the input (every quantity of the property is invariant under A -> c A)
    scales = (1e-8, 1e-4, 1e4, 1e8, 2. ** -300, 2. ** 300) if big else (1e-8, 1e4, 2. ** -300, 2. ** 300)
    sfams = ((0, 0, False), (0, 0, True), (1, 1, False), (2, 0, False), (0, 2, False))
    for r in (rs if big else (1, 2, 3, 5)):
        for dn in ((1, 2, 7, 20, 60) if big else (1, 3, 20)):
            n = r + dn
            for j, (nz, nd, ints) in enumerate(sfams):
                if n - nz - nd < r:
                    continue
                for sc in scales:
                    lc = 0. if ints else (0., 8., 4.)[(r + dn + j) % (3 if big else 2)]
                    for k in (0, 1, KBIG):
                        yield 'C08.maxvol.contract', dict(n=n, r=r, nz=nz, nd=nd, ints=ints, lc=lc, seed=r + dn, e=1.01,
                                                          k=k, scale=sc)
                    for dr_min in sorted({0, 1, dn}):
                        if r + dr_min > n - nz:
                            continue
                        for dr_max in ((dr_min, dr_min + 2, None) if big else (dr_min + 2, None)):
                            yield 'C08.maxvol_rect.contract', dict(
                                n=n, r=r, nz=nz, nd=nd, ints=ints, lc=lc, seed=r * 10 + dn, e=(1.01, 2.)[(dr_min + j) % 2],
                                dr_min=dr_min, dr_max=dr_max, e0=1.05, k0=10, scale=sc)
    for r in (2, 3, 5):                                      # swap loop / early stop really run at every scale
        for dn in (40, 100):
            for sc in scales:
                for rep in range(3 if big else 1):
                    sd = 300 + rep if rep < 1 else s()
                    yield 'C08.maxvol.contract', dict(n=r + dn, r=r, nz=0, nd=rep % 2, ints=False, lc=(0., 6.)[rep % 2],
                                                      seed=sd, e=1.01, k=KBIG, scale=sc)
                    yield 'C08.maxvol_rect.contract', dict(n=r + dn, r=r, nz=rep % 2, nd=0, ints=False, lc=-1., seed=sd,
                                                           e=1.2, dr_min=0, dr_max=None, e0=1.05, k0=10, scale=sc)
    for r in (1, 2, 3):
        for sc in scales:
            yield 'C08.maxvol_rect.distinct.zero_rows', dict(n=r + 3, r=r, nz=2, lc=0., seed=r + 3, e=1.1, dr_min=2,
                                                             dr_max=None, e0=1.05, k0=10, scale=sc)
    for r in (rs if big else (1, 2, 4)):
        for p2 in (-500, -27, 27, 500):
            for k in (0, KBIG):
                yield 'C08.maxvol.exact', dict(r=r, levels=3, seed=0, e=1.5, k=k, p2=p2)
    # ---- memory layout of the input (Fortran order, non-contiguous view, transposed view)
    for r in ((1, 2, 3, 5, 8) if big else (1, 3, 5)):
        for dn in (1, 7, 40):
            for form in ('F', 'view', 'T'):
                for rep in range(2 if big else 1):
                    sd = r + dn if rep == 0 else s()
                    for k in (1, KBIG):
                        yield 'C08.maxvol.contract', dict(n=r + dn, r=r, nz=rep, nd=0, ints=False, lc=0., seed=sd, e=1.01,
                                                          k=k, form=form)
                    for (a, b) in ((0, None), (1, 2), (0, 0)):
                        yield 'C08.maxvol_rect.contract', dict(n=r + dn, r=r, nz=0, nd=rep, ints=False, lc=0., seed=sd,
                                                               e=1.1, dr_min=a, dr_max=b, e0=1.05, k0=10, form=form)
    # ---- element type and writeability of the input (the property says "matrix", not "float64 matrix"): integer dtypes of
    # every width (an integer-valued tall matrix built with np.array([[2, 1], [1, 3], ...]) or rng.integers), single / half /
    # extended precision floats, read-only arrays, each also Fortran-ordered / as a non-contiguous or transposed view; B must
    # come back as a FLOAT matrix with A = B A[I] to the working precision (float32 for the dtypes SciPy factorises in single
    # precision), whatever buffer the implementation allocates "like A"
    dforms = ('C:int64', 'C:int32', 'F:int64', 'view:int32', 'T:int64', 'C:int16', 'C:int8', 'C:uint8', 'F:int8',
              'C:float32', 'F:float32', 'view:float32', 'T:float32', 'C:float16', 'C:longdouble', 'C:ro', 'F:ro',
              'view:ro', 'T:ro', 'C:int64:ro', 'F:float32:ro')
    for r in ((1, 2, 3, 5, 8) if big else (1, 2, 3, 5)):
        for dn in ((1, 3, 7, 40) if big else (1, 7, 40)):
            for j, form in enumerate(dforms):
                isint = _form(form)[1] in INT_DT
                for rep in range(3 if big else 1):
                    sd = r + dn + j if rep == 0 else s()
                    fam = dict(nz=rep % 2, nd=(rep // 2) % 2, ints=isint or rep == 2, lc=0. if isint else (0., 2.)[(r + j) % 2])
                    out = []
                    for k in (0, 1, KBIG):
                        out.append(('maxvol', 'C08.maxvol.contract', dict(n=r + dn, r=r, seed=sd, e=(1.01, 1.5)[(j + k) % 2],
                                                                          k=k, form=form, **fam)))
                    for (a, b) in ((0, None), (1, 2), (0, 0)):
                        out.append(('rect', 'C08.maxvol_rect.contract', dict(
                            n=r + dn, r=r, seed=sd, e=(1.1, 1.5)[(j + a) % 2], dr_min=a, dr_max=b, e0=1.05, k0=10, form=form,
                            **fam)))
                    for (a, b, tau, tau0, k0) in ((0, 0, 1.1, 1.05, 100), (1, 2, 3.0, 1.01, KBIG), (0, 3, 1.01, 2.5, KBIG)):
                        out.append(('dispatch', 'C08._maxvol.dispatch', dict(n=r + dn, r=r, dr_min=a, dr_max=b, seed=sd,
                                                                             tau=tau, tau0=tau0, k0=k0, form=form)))
                    for which, cid, p in out:
                        if isint and _form(form)[0] in ('F', 'T'):      # known finding (SciPy lu), isolated
                            yield 'C08.input_form.int_fortran_order', dict(which=which, params=p)
                        else:
                            yield cid, p
            for form in dforms[:3] + dforms[9:10] + dforms[15:16]:       # n <= r: the trivial branch of _maxvol
                for n in (r - 1, r):
                    if n >= 1:
                        yield 'C08._maxvol.dispatch', dict(n=n, r=r, dr_min=0, dr_max=1, seed=dn, form=form)
    # ---- random: any scale, any layout, more iteration limits
    for rep in range(1500 if big else 200):
        r = int(g.integers(1, rs[-1] + 1))
        dn = int(g.choice([1, 2, 3, 7, 20, 60]))
        n = r + dn
        nz, nd, ints = fams[int(g.integers(len(fams)))]
        if n - nz - nd < r:
            nz, nd = 0, 0
        sc = float(10. ** int(g.integers(-12, 13)))
        form = ('C', 'F', 'view', 'T')[int(g.integers(4))]
        lc = float(g.choice(lcs))
        yield 'C08.maxvol.contract', dict(n=n, r=r, nz=nz, nd=nd, ints=ints, lc=lc, seed=s(),
                                          e=float(g.choice([1.01, 1.05, 1.5, 100.])),
                                          k=int(g.choice([0, 3, 5, 10, 100, KBIG])), scale=sc, form=form)
        dr_min = int(g.integers(0, max(0, dn - nz) + 1))
        dr_max = [dr_min, dr_min + 1, dr_min + 4, None][int(g.integers(4))]
        yield 'C08.maxvol_rect.contract', dict(n=n, r=r, nz=nz, nd=nd, ints=ints, lc=lc, seed=s(),
                                               e=float(g.choice([1.01, 1.1, 1.5, 3.])), dr_min=dr_min, dr_max=dr_max,
                                               e0=float(g.choice([1.01, 1.05, 2.])), k0=int(g.choice([1, 2, 10, 100])),
                                               scale=sc, form=form)
    # ---- default arguments
    for r in (range(1, 8) if big else range(1, 6)):
        for dn in (1, 3, 30, 100):
            for j, sc in enumerate((1.0, 1e-7, 1e7)):
                yield 'C08.defaults', dict(n=r + dn, r=r, seed=dn + 7 * j, scale=sc)
