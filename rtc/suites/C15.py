"""C15 (bounded, T3): optimum search returns true tensor entries and is exact when nothing is pruned.

Oracle: gen.dense(Y) (own einsum evaluation) and NumPy arg-extrema on it; ties are handled by comparing VALUES,
never indices.  Integer-valued tensors (kinds int / ties / signs / const / zero) give exact entries, there the
reported extrema must equal the dense ones exactly; for Gaussian cores the selection happens in an orthogonalised
copy, so an element within tol = 256 eps d r_max max(absdense(Y)) of the optimum may be chosen (for the optimum
opposite to the max-modulus one the selection happens on (Y - y1)^2: with delta = 256 eps d (r_max+1)^2 (max absdense
+ |y1|)^2 and M = max|D - y1| the reported value may miss the true one by delta/M, or sqrt(delta) if M^2 <= delta).

Clauses:
  C15.beam.valid               optima_tt_beam: integer multi-index inside the bounds for every k, both l2r flags,
                               ret_all rows inside the bounds, at most k of them, first row = the single answer
  C15.beam.full                k >= number of elements: the entry at the returned index has the maximum modulus (both flags)
  C15.max.full                 optima_tt_max with a full beam: y == entry at i, |y| = max |D|
  C15.optima_tt.valid          any k: indices inside bounds, y_min / y_max equal the entries there, y_min <= y_max
  C15.optima_tt.full           k >= number of elements: y_min = min D, y_max = max D
  C15.rank1.max_modulus        rank-1 tensors, every k >= 1: optima_tt_beam (both flags), optima_tt_max and the
                               max-modulus one of optima_tt's two answers are exact
  C15.optima_tt.rank1.opposite KNOWN DEFECT: rank-1, k < number of elements: BOTH y_min and y_max are exact
                               (the optimum opposite to the max-modulus one is searched on a rank-4 tensor and is
                               sometimes missed)
  C15.optima_qtt.valid         power-of-two shapes, any k: TT indices inside bounds, values equal the entries, ordered
  C15.optima_qtt.full          k >= number of elements: exact min / max, equal to optima_tt's values
  C15.optima_qtt.reject        unequal or non-power-of-two mode sizes -> ValueError
  C15.optima_func.rank1        rank-1 coefficient tensor: the returned point lies in [-1,1]^d and |interpolant| there
                               is the maximum over the cube (per-mode maximisation by derivative roots + end points +
                               a 2001-point grid, relative tolerance 1e-6); k = 1 for arbitrary mode polynomials,
                               k > 1 for mode polynomials without a root in [-1,1] (dominant constant term)
  C15.optima_func.rank1.constant_mode  DEFECT (same failing statement): a mode whose polynomial is a non-zero constant
                               (p^2 has an empty derivative) -> ValueError('Coefficient array is empty') for every k
  C15.optima_func.rank1.n2     KNOWN DEFECT: first mode of size 2 whose linear polynomial has its root inside
                               [-1,1], k >= 3: every candidate of the first mode is kept, the partial product at
                               the root is exactly 0 and the next step raises ValueError('Coefficient array is empty')
"""
import numpy as np
import teneva
from rtc.api import clause, PASS, FAIL, TRIVIAL, SKIP, check
from rtc import gen

BUDGET = (100, 800)
BOUNDS = ('d = 2..4, n_k in 1..4 (5 thorough), ranks 1..4, kinds gauss / int / ties / signs / const / zero, '
          'k in {1, 2, 3, N-1, N, N+3} (N = number of elements), both sweep directions; qtt: d <= 3, q <= 2 (3 thorough); '
          'functional: d = 2..3, n_k in 2..6, k in {1, 2, 3, 10}')

EPS = np.finfo(float).eps
EXACT = ('int', 'ties', 'signs', 'const', 'zero')


def _tt(shape, r, kind, seed):
    shape = [int(k) for k in shape]
    if kind in ('gauss', 'int'):
        return gen.tt(shape, r, seed, kind)
    g = gen.rng('C15.tt', shape, r, kind, seed)
    d = len(shape)
    rr = [1] + [r] * (d - 1) + [1]
    if kind == 'ties':          # entries in {-1, 0, 1}: many equal values and equal moduli
        return [g.integers(-1, 2, size=(rr[k], shape[k], rr[k + 1])).astype(float) for k in range(d)]
    if kind == 'signs':         # all entries of the tensor of one sign (non-negative cores, global sign by seed)
        Y = [g.integers(0, 4, size=(rr[k], shape[k], rr[k + 1])).astype(float) for k in range(d)]
        if seed % 2:
            Y[0] = -Y[0]
        return Y
    if kind == 'const':         # constant tensor c * r^(d-1)
        Y = [np.ones((rr[k], shape[k], rr[k + 1])) for k in range(d)]
        Y[-1] = Y[-1] * float([2., -3., 0.5][seed % 3])
        return Y
    if kind == 'zero':
        Y = [g.integers(-2, 3, size=(rr[k], shape[k], rr[k + 1])).astype(float) for k in range(d)]
        Y[seed % d] = np.zeros_like(Y[seed % d])
        return Y
    raise ValueError(kind)


def _index_ok(i, shape):
    i = np.asarray(i)
    if i.dtype.kind not in 'iu' or i.shape != (len(shape),):
        return f'index {i!r} is not an integer vector of length {len(shape)}'
    if np.any(i < 0) or np.any(i >= np.asarray(shape)):
        return f'index {i.tolist()} outside the bounds {list(shape)}'
    return None


def _tol(Y):
    return 256. * EPS * len(Y) * max(max(G.shape[0], G.shape[2]) for G in Y) * float(gen.absdense(Y).max())


def _is_max_mod(v, D, Y, kind):
    m = np.abs(D).max()
    return abs(v) == m if kind in EXACT else abs(v) >= m - _tol(Y)


def _entry_ok(y, D, i, Y):
    return gen.close(y, D[tuple(np.asarray(i))], gen.absdense(Y)[tuple(np.asarray(i))] + 1e-300)


# ------------------------------------------------------------------ beam

@clause('C15.beam.valid', funcs=('optima.optima_tt_beam',))
def beam_valid(shape, r, kind, seed, k):
    """optima_tt_beam for both sweep directions and any k: a valid multi-index; ret_all: <= k valid rows, row 0 is
    the single answer."""
    Y = _tt(shape, r, kind, seed)
    for l2r in (True, False):
        i = teneva.optima_tt_beam(Y, k, l2r=l2r)
        msg = _index_ok(i, shape)
        if msg:
            return FAIL(f'l2r={l2r}: {msg}')
        I = teneva.optima_tt_beam(Y, k, l2r=l2r, ret_all=True)
        if I.ndim != 2 or I.shape[1] != len(shape) or not 1 <= I.shape[0] <= max(k, 1):
            return FAIL(f'l2r={l2r}: ret_all shape {I.shape} for k={k}')
        for row in I:
            msg = _index_ok(row, shape)
            if msg:
                return FAIL(f'l2r={l2r}, ret_all: {msg}')
        if not np.array_equal(I[0], i):
            return FAIL(f'l2r={l2r}: first ret_all row {I[0].tolist()} != single answer {i.tolist()}')
    return PASS


@clause('C15.beam.full', funcs=('optima.optima_tt_beam',))
def beam_full(shape, r, kind, seed, extra):
    """k = number of elements + extra: nothing is pruned, the entry at the returned index has maximum modulus
    (both sweep directions); all ret_all rows are distinct multi-indices."""
    Y = _tt(shape, r, kind, seed)
    D = gen.dense(Y)
    k = D.size + extra
    for l2r in (True, False):
        i = teneva.optima_tt_beam(Y, k, l2r=l2r)
        msg = _index_ok(i, shape)
        if msg:
            return FAIL(f'l2r={l2r}: {msg}')
        v = D[tuple(i)]
        if not _is_max_mod(v, D, Y, kind):
            return FAIL(f'l2r={l2r}: |D[{i.tolist()}]| = {abs(v)!r} < max |D| = {np.abs(D).max()!r}')
        I = teneva.optima_tt_beam(Y, k, l2r=l2r, ret_all=True)
        if len({tuple(row) for row in I.tolist()}) != D.size or I.shape[0] != D.size:
            return FAIL(f'l2r={l2r}: full beam holds {I.shape[0]} rows / {len({tuple(r_) for r_ in I.tolist()})} distinct, expected {D.size}')
    return PASS


@clause('C15.max.full', funcs=('optima.optima_tt_max', 'optima.optima_tt_beam'))
def max_full(shape, r, kind, seed, extra):
    """optima_tt_max with a full beam: valid index, y equals the entry, |y| is the maximum modulus."""
    Y = _tt(shape, r, kind, seed)
    D = gen.dense(Y)
    i, y = teneva.optima_tt_max(Y, D.size + extra)
    msg = _index_ok(i, shape)
    if msg:
        return FAIL(msg)
    if not _entry_ok(y, D, i, Y):
        return FAIL(f'y = {y!r} != D[{i.tolist()}] = {D[tuple(i)]!r}')
    return check(_is_max_mod(y, D, Y, kind), f'|y| = {abs(y)!r} < max |D| = {np.abs(D).max()!r}')


# ------------------------------------------------------------------ optima_tt

def _minmax_valid(res, D, Y, shape):
    i_min, y_min, i_max, y_max = res
    for nm, i, y in (('min', i_min, y_min), ('max', i_max, y_max)):
        msg = _index_ok(i, shape)
        if msg:
            return f'i_{nm}: {msg}'
        if not _entry_ok(y, D, i, Y):
            return f'y_{nm} = {y!r} != D[{np.asarray(i).tolist()}] = {D[tuple(np.asarray(i))]!r}'
    if not y_min <= y_max:
        return f'y_min = {y_min!r} > y_max = {y_max!r}'
    return None


def _minmax_exact(res, D, Y, kind):
    i_min, y_min, i_max, y_max = res
    lo, hi = D.min(), D.max()
    if kind in EXACT:
        if y_min != lo or y_max != hi:
            return f'(y_min, y_max) = ({y_min!r}, {y_max!r}) != true ({lo!r}, {hi!r})'
        return None
    tol = _tol(Y)
    y1 = y_max if abs(y_max) >= abs(y_min) else y_min          # the max-modulus answer
    rmax = max(max(G.shape[0], G.shape[2]) for G in Y)
    delta = 256. * EPS * len(Y) * (rmax + 1) ** 2 * (float(gen.absdense(Y).max()) + abs(y1)) ** 2
    M = np.abs(D - y1).max()
    tol2 = delta / M if M * M > delta else np.sqrt(delta)
    t_min, t_max = (tol2, tol) if y1 is y_max else (tol, tol2)
    if not (y_min <= lo + t_min and y_max >= hi - t_max):
        return f'(y_min, y_max) = ({y_min!r}, {y_max!r}) vs true ({lo!r}, {hi!r}), tolerances ({t_min:.2e}, {t_max:.2e})'
    return None


@clause('C15.optima_tt.valid', funcs=('optima.optima_tt', 'optima.optima_tt_max'))
def optima_tt_valid(shape, r, kind, seed, k):
    """optima_tt for any k: indices inside the bounds, reported values equal the entries there, y_min <= y_max;
    optima_tt_max likewise."""
    Y = _tt(shape, r, kind, seed)
    D = gen.dense(Y)
    msg = _minmax_valid(teneva.optima_tt(Y, k), D, Y, shape)
    if msg:
        return FAIL(msg)
    i, y = teneva.optima_tt_max(Y, k)
    msg = _index_ok(i, shape)
    if msg:
        return FAIL('optima_tt_max: ' + msg)
    return check(_entry_ok(y, D, i, Y), f'optima_tt_max: y = {y!r} != D[{i.tolist()}]')


@clause('C15.optima_tt.full', funcs=('optima.optima_tt', 'optima.optima_tt_max', 'optima.optima_tt_beam'))
def optima_tt_full(shape, r, kind, seed, extra):
    """optima_tt with k >= number of elements reports the true minimum and maximum."""
    Y = _tt(shape, r, kind, seed)
    D = gen.dense(Y)
    res = teneva.optima_tt(Y, D.size + extra)
    msg = _minmax_valid(res, D, Y, shape) or _minmax_exact(res, D, Y, kind)
    return FAIL(msg) if msg else PASS


@clause('C15.rank1.max_modulus', funcs=('optima.optima_tt_beam', 'optima.optima_tt_max', 'optima.optima_tt'))
def rank1_max_modulus(shape, kind, seed, k):
    """Rank-1 tensors, any k >= 1: the max-modulus entry is found by optima_tt_beam (both directions), by
    optima_tt_max, and is one of the two answers of optima_tt."""
    Y = _tt(shape, 1, kind, seed)
    D = gen.dense(Y)
    for l2r in (True, False):
        i = teneva.optima_tt_beam(Y, k, l2r=l2r)
        msg = _index_ok(i, shape)
        if msg:
            return FAIL(msg)
        if not _is_max_mod(D[tuple(i)], D, Y, kind):
            return FAIL(f'beam l2r={l2r}, k={k}: |D[{i.tolist()}]| = {abs(D[tuple(i)])!r} < {np.abs(D).max()!r}')
    i, y = teneva.optima_tt_max(Y, k)
    if _index_ok(i, shape) or not _entry_ok(y, D, i, Y) or not _is_max_mod(y, D, Y, kind):
        return FAIL(f'optima_tt_max k={k}: ({np.asarray(i).tolist()}, {y!r}), max |D| = {np.abs(D).max()!r}')
    res = teneva.optima_tt(Y, k)
    msg = _minmax_valid(res, D, Y, shape)
    if msg:
        return FAIL(msg)
    best = res[1] if abs(res[1]) > abs(res[3]) else res[3]
    return check(_is_max_mod(best, D, Y, kind), f'optima_tt k={k}: max(|y_min|, |y_max|) = {abs(best)!r} < {np.abs(D).max()!r}')


@clause('C15.optima_tt.rank1.opposite', funcs=('optima.optima_tt',))
def optima_tt_rank1_opposite(shape, kind, seed, k):
    """Rank-1 tensor, k < number of elements: optima_tt reports the true minimum AND the true maximum."""
    Y = _tt(shape, 1, kind, seed)
    D = gen.dense(Y)
    if k >= D.size:
        return SKIP('full beam: C15.optima_tt.full')
    res = teneva.optima_tt(Y, k)
    msg = _minmax_valid(res, D, Y, shape) or _minmax_exact(res, D, Y, kind)
    return FAIL(msg) if msg else PASS


# ------------------------------------------------------------------ quantised variant

@clause('C15.optima_qtt.valid', funcs=('optima.optima_qtt', 'grid.ind_qtt_to_tt', 'act_one.tt_to_qtt'))
def optima_qtt_valid(d, q, r, kind, seed, k):
    """optima_qtt on [2^q]^d for any k: TT multi-indices inside the bounds, values equal the entries, ordered."""
    shape = [2 ** q] * d
    Y = _tt(shape, r, kind, seed)
    if any(not np.any(G) for G in Y):
        return SKIP('exactly-zero core: tt_to_qtt returns NaN (C11 defect)')
    D = gen.dense(Y)
    msg = _minmax_valid(teneva.optima_qtt(Y, k), D, Y, shape)
    return FAIL(msg) if msg else PASS


@clause('C15.optima_qtt.full', funcs=('optima.optima_qtt', 'optima.optima_tt', 'grid.ind_qtt_to_tt'))
def optima_qtt_full(d, q, r, kind, seed, extra):
    """optima_qtt with k >= number of elements: exact minimum and maximum (integer tensors: exactly; Gaussian:
    within the QTT accuracy 1e-9 ||D||), the same values as optima_tt."""
    shape = [2 ** q] * d
    Y = _tt(shape, r, kind, seed)
    if any(not np.any(G) for G in Y):
        return SKIP('exactly-zero core: tt_to_qtt returns NaN (C11 defect)')
    D = gen.dense(Y)
    k = D.size + extra
    res = teneva.optima_qtt(Y, k)
    msg = _minmax_valid(res, D, Y, shape)
    if msg:
        return FAIL(msg)
    ref = teneva.optima_tt(Y, k)
    if kind in EXACT:
        if res[1] != D.min() or res[3] != D.max():
            return FAIL(f'(y_min, y_max) = ({res[1]!r}, {res[3]!r}) != true ({D.min()!r}, {D.max()!r})')
        if res[1] != ref[1] or res[3] != ref[3]:
            return FAIL('values differ from optima_tt')
        return PASS
    tol = 1e-9 * np.linalg.norm(D) + _tol(Y)
    y1 = max(abs(res[1]), abs(res[3]))
    M = max(np.abs(D - res[1]).max(), np.abs(D - res[3]).max())
    tol2 = max(tol, (tol * (np.abs(D).max() + y1)) / M if M > 0 else tol)
    if not (res[1] <= D.min() + tol2 and res[3] >= D.max() - tol2):
        return FAIL(f'(y_min, y_max) = ({res[1]!r}, {res[3]!r}) vs true ({D.min()!r}, {D.max()!r}), tol {tol2:.2e}')
    if not (abs(res[1] - ref[1]) <= 2 * tol2 and abs(res[3] - ref[3]) <= 2 * tol2):
        return FAIL('values differ from optima_tt')
    return PASS


@clause('C15.optima_qtt.reject', funcs=('optima.optima_qtt',))
def optima_qtt_reject(shape, seed):
    """optima_qtt raises ValueError iff the mode sizes are not all equal to one power of two."""
    Y = gen.tt(shape, 2, seed, 'gauss')
    ok = len(set(shape)) == 1 and shape[0] >= 2 and (shape[0] & (shape[0] - 1)) == 0
    try:
        teneva.optima_qtt(Y, 5)
        raised = False
    except ValueError:
        raised = True
    return check(raised != ok, f'shape {shape}: raised={raised}')


# ------------------------------------------------------------------ functional variant

def _func_coefs(n, seed, kind, fam):
    """Rank-1 coefficient tensor: Chebyshev coefficients c_k (length n_k) of the mode polynomials."""
    g = gen.rng('C15.func', n, seed, kind, fam)
    cs = []
    for nk in n:
        c = g.integers(-3, 4, size=nk).astype(float) if kind == 'int' else g.normal(size=nk)
        if not np.any(c[1:]):                # every mode polynomial depends on its variable (see ...constant_mode)
            c[-1] = 1.
        if fam == 'dominant':                # |c_0| > sum_{j>=1} |c_j|: no root in [-1, 1]
            c[0] = (1. if g.integers(2) else -1.) * (np.abs(c[1:]).sum() + 1. + abs(c[0]))
        cs.append(c)
    return cs


def _mode_max(c):
    """max |p| on [-1, 1] for the Chebyshev series c: derivative roots, end points, 2001-point grid."""
    Pc = np.polynomial.chebyshev
    cand = [-1., 1.]
    if len(c) > 2:
        dr = Pc.chebroots(Pc.chebder(c)) if np.any(Pc.chebder(c)) else []
        cand += [float(z.real) for z in np.atleast_1d(dr) if abs(z.imag) < 1e-9 and -1. <= z.real <= 1.]
    cand = np.concatenate([np.array(cand), np.linspace(-1., 1., 2001)])
    return float(np.abs(Pc.chebval(cand, c)).max())


def _func_check(x, cs):
    Pc = np.polynomial.chebyshev
    x = np.asarray(x)
    if x.shape != (len(cs),) or x.dtype.kind != 'f' or not np.all(np.isfinite(x)):
        return f'result {x!r} is not a finite point of dimension {len(cs)}'
    if not (np.all(x >= -1.) and np.all(x <= 1.)):
        return f'point {x.tolist()} outside [-1, 1]^d'
    val = abs(float(np.prod([Pc.chebval(x[k], cs[k]) for k in range(len(cs))])))
    best = float(np.prod([_mode_max(c) for c in cs]))
    if not val >= best * (1. - 1e-6):
        return f'|f(x)| = {val!r} < max over the cube {best!r} at x = {x.tolist()}'
    return None


@clause('C15.optima_func.rank1', funcs=('optima_func.optima_func_tt_beam', 'optima_func._find_poly_max', 'optima_func._step_top_k'))
def optima_func_rank1(n, seed, kind, fam, k):
    """Rank-1 coefficient tensor: the returned point is in [-1,1]^d and maximises |interpolant| (k = 1 for
    arbitrary mode polynomials; k > 1 for mode polynomials without roots in [-1, 1])."""
    if k > 1 and fam != 'dominant':
        return SKIP('k > 1 with roots inside the cube: see C15.optima_func.rank1.n2')
    cs = _func_coefs(n, seed, kind, fam)
    A = [c.reshape(1, -1, 1).copy() for c in cs]
    x = teneva.optima_func_tt_beam(A, k=k)
    msg = _func_check(x, cs)
    if msg:
        return FAIL(msg)
    X = teneva.optima_func_tt_beam(A, k=k, ret_all=True)
    if X.ndim != 2 or X.shape[1] != len(n) or not np.array_equal(X[0], x) or not np.all(np.abs(X) <= 1.):
        return FAIL(f'ret_all: shape {X.shape}, first row {X[0].tolist()} vs {x.tolist()}')
    return PASS


@clause('C15.optima_func.rank1.n2', funcs=('optima_func.optima_func_tt_beam', 'optima_func._step_top_k'))
def optima_func_rank1_n2(n, c0, c1, seed, k):
    """First mode of size 2 with p_1 = c0 + c1 x, |c0| < |c1| (root inside the cube), k >= 3: the routine returns a
    maximiser of |interpolant| in [-1,1]^d."""
    cs = _func_coefs(n, seed, 'gauss', 'free')
    cs[0] = np.array([float(c0), float(c1)])
    A = [c.reshape(1, -1, 1).copy() for c in cs]
    x = teneva.optima_func_tt_beam(A, k=k)
    msg = _func_check(x, cs)
    return FAIL(msg) if msg else PASS


@clause('C15.optima_func.rank1.constant_mode', funcs=('optima_func.optima_func_tt_beam', 'optima_func._find_poly_max'))
def optima_func_rank1_constant_mode(n, mode, seed, k):
    """Rank-1 coefficient tensor whose factor in one mode is a non-zero constant (the function does not depend on
    that variable): the routine returns a maximiser of |interpolant| in [-1,1]^d."""
    cs = _func_coefs(n, seed, 'gauss', 'dominant')
    cs[mode] = np.concatenate([[2.5], np.zeros(n[mode] - 1)])
    A = [c.reshape(1, -1, 1).copy() for c in cs]
    x = teneva.optima_func_tt_beam(A, k=k)
    msg = _func_check(x, cs)
    return FAIL(msg) if msg else PASS


# ------------------------------------------------------------------ case list

def cases(tier, seed):
    big = tier == 'thorough'
    g = gen.rng('C15.cases', seed)

    def s():
        return int(g.integers(1 << 30))

    shapes = [[2, 2], [3, 4], [1, 3], [4, 1], [2, 3, 2], [3, 1, 3], [4, 2, 3], [2, 2, 2, 2], [1, 1], [3, 2, 1, 2]]
    if big:
        shapes += [[5, 5], [2, 5, 3], [4, 4, 4], [3, 2, 2, 3], [1, 1, 1]]
    kinds = ('gauss', 'int', 'ties', 'signs', 'const', 'zero')
    for shape in shapes:
        N = int(np.prod(shape))
        for kind in kinds:
            for r in ((1, 2, 3, 4) if big else (1, 2, 3)):
                for sd in ((1, 2, 3) if big else (1, 2)):
                    for extra in (0, 3):
                        p = dict(shape=shape, r=r, kind=kind, seed=sd, extra=extra)
                        yield 'C15.beam.full', p
                        yield 'C15.max.full', p
                        yield 'C15.optima_tt.full', p
                    for k in sorted({1, 2, 3, max(1, N - 1), N + 1}):
                        yield 'C15.beam.valid', dict(shape=shape, r=r, kind=kind, seed=sd, k=k)
                        yield 'C15.optima_tt.valid', dict(shape=shape, r=r, kind=kind, seed=sd, k=k)
            for sd in ((1, 2, 3, 4) if big else (1, 2)):
                for k in sorted({1, 2, 3, max(1, N - 1), N}):
                    yield 'C15.rank1.max_modulus', dict(shape=shape, kind=kind, seed=sd, k=k)
    # rank 1, pruned beam: the known defect (Gaussian: about 2 % of the cases at k = 1)
    for (shape, sd, k) in (([4, 3, 4], 62, 1), ([4, 3, 4], 97, 2), ([3, 3, 3, 3], 63, 1), ([4, 4, 4, 4], 22, 1),
                           ([4, 4, 4, 4], 22, 2), ([3, 3, 3, 3, 3], 1, 1)):     # failing on the pinned tree
        yield 'C15.optima_tt.rank1.opposite', dict(shape=shape, kind='gauss', seed=sd, k=k)
    for shape in ([3, 3, 3, 3], [4, 4, 4, 4], [3, 3, 3, 3, 3], [2, 3], [3, 4, 2]):
        for sd in range(1, 41 if big else 21):
            for k in (1, 2):
                yield 'C15.optima_tt.rank1.opposite', dict(shape=shape, kind=('gauss', 'int')[sd % 5 == 0], seed=sd, k=k)
                yield 'C15.rank1.max_modulus', dict(shape=shape, kind=('gauss', 'int')[sd % 5 == 0], seed=sd, k=k)
    for rep in range(400 if big else 100):
        d = int(g.integers(2, 6))
        shape = [int(g.integers(2, 5)) for _ in range(d)]
        N = int(np.prod(shape))
        k = int(g.choice([1, 1, 2, 5]))
        if k >= N:
            k = 1
        yield 'C15.optima_tt.rank1.opposite', dict(shape=shape, kind=('gauss', 'gauss', 'int')[rep % 3], seed=s(), k=k)
        yield 'C15.rank1.max_modulus', dict(shape=shape, kind=('gauss', 'gauss', 'int')[rep % 3], seed=s(), k=k)
    # random full-beam cases
    for rep in range(400 if big else 100):
        d = int(g.integers(2, 5))
        shape = [int(g.integers(1, 5)) for _ in range(d)]
        p = dict(shape=shape, r=int(g.integers(1, 5)), kind=kinds[int(g.integers(4))], seed=s(), extra=int(g.integers(0, 4)))
        yield 'C15.beam.full', p
        yield 'C15.optima_tt.full', p
    # quantised variant
    for d in (1, 2, 3):
        for q in ((1, 2, 3) if big else (1, 2)):
            if d == 1 and q == 1 or d * q > 6:
                continue
            for kind in kinds:
                for r in (1, 3):
                    for sd in (1, 2):
                        if d >= 2:
                            for extra in (0, 5):
                                yield 'C15.optima_qtt.full', dict(d=d, q=q, r=r, kind=kind, seed=sd, extra=extra)
                            for k in (1, 2, 7):
                                yield 'C15.optima_qtt.valid', dict(d=d, q=q, r=r, kind=kind, seed=sd, k=k)
    for shape in ([2, 2], [4, 4, 4], [2, 4], [3, 3], [4, 4, 2], [6, 6], [8, 8], [5, 4], [2, 2, 2, 3]):
        yield 'C15.optima_qtt.reject', dict(shape=shape, seed=1)
    # functional variant
    fshapes = [[2, 2], [3, 3], [2, 5], [4, 2], [3, 4, 2], [2, 2, 2], [5, 3, 4]]
    if big:
        fshapes += [[6, 6], [2, 6, 2], [4, 4, 4]]
    for n in fshapes:
        for kind in ('gauss', 'int'):
            for sd in ((1, 2, 3, 4, 5, 6) if big else (1, 2, 3)):
                yield 'C15.optima_func.rank1', dict(n=n, seed=sd, kind=kind, fam='free', k=1)
                for k in (1, 2, 3, 10):
                    yield 'C15.optima_func.rank1', dict(n=n, seed=sd, kind=kind, fam='dominant', k=k)
    for rep in range(150 if big else 40):
        n = [int(g.integers(2, 7)) for _ in range(int(g.integers(2, 4)))]
        yield 'C15.optima_func.rank1', dict(n=n, seed=s(), kind=('gauss', 'int')[rep % 2], fam='free', k=1)
        yield 'C15.optima_func.rank1', dict(n=n, seed=s(), kind=('gauss', 'int')[rep % 2], fam='dominant',
                                            k=int(g.choice([2, 3, 10])))
    for n in ([2, 2], [3, 4], [4, 2, 3]):
        for mode in range(len(n)):
            for k in (1, 3):
                yield 'C15.optima_func.rank1.constant_mode', dict(n=n, mode=mode, seed=1, k=k)
    for n in ([2, 2], [2, 5], [2, 3, 2]):
        for (c0, c1) in ((1., -1.), (0.5, 2.), (0., 3.), (-1., 2.), (0.565651847104875, 2.6645741194157955)):
            for k in (3, 10):
                yield 'C15.optima_func.rank1.n2', dict(n=n, c0=c0, c1=c1, seed=1, k=k)
    for sd in range(1, 41 if big else 21):                        # Gaussian coefficients with the root inside
        gg = gen.rng('C15.n2', sd)
        c1 = float(gg.normal())
        c0 = float(gg.uniform(-1, 1)) * abs(c1)
        yield 'C15.optima_func.rank1.n2', dict(n=[2, 2 + sd % 4] + ([3] if sd % 2 else []), c0=c0, c1=c1, seed=sd, k=3)
