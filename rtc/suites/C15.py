"""C15 (bounded, T3): optimum search returns true tensor entries and is exact when nothing is pruned.

Oracle: gen.dense(Y) (own einsum evaluation) and NumPy arg-extrema on it; ties are handled by comparing VALUES,
never indices.  Integer-valued tensors (kinds int / ties / signs / const / zero) give exact entries, there the
reported extrema must equal the dense ones exactly; for Gaussian cores the selection happens in an orthogonalised
copy, so an element within tol = 256 eps d r_max max(absdense(Y)) of the optimum may be chosen (for the optimum
opposite to the max-modulus one the selection happens on (Y - y1)^2: with delta = 256 eps d (r_max+1)^2 (max absdense
+ |y1|)^2 and M = max|D - y1| the reported value may miss the true one by delta/M, or sqrt(delta) if M^2 <= delta).

Clauses:
  C15.beam.valid               optima_tt_beam: integer multi-index inside the bounds for every k, both l2r flags,
                               ret_all rows inside the bounds, at most k of them, first row = the single answer
  C15.beam.full                k >= number of elements: the entry at the returned index has the maximum modulus (both flags)
  C15.max.full                 optima_tt_max with a full beam: y == entry at i, |y| = max |D|
  C15.optima_tt.valid          any k: indices inside bounds, y_min / y_max equal the entries there, y_min <= y_max
  C15.optima_tt.full           k >= number of elements: y_min = min D, y_max = max D
  C15.rank1.max_modulus        rank-1 tensors, every k >= 1: optima_tt_beam (both flags), optima_tt_max and the
                               max-modulus one of optima_tt's two answers are exact
  C15.optima_tt.rank1.opposite KNOWN DEFECT: rank-1, k < number of elements: BOTH y_min and y_max are exact
                               (the optimum opposite to the max-modulus one is searched on a rank-4 tensor and is
                               sometimes missed)
  C15.optima_qtt.valid         power-of-two shapes, any k: TT indices inside bounds, values equal the entries, ordered
  C15.optima_qtt.full          k >= number of elements: exact min / max, equal to optima_tt's values
  C15.optima_qtt.reject        unequal or non-power-of-two mode sizes -> ValueError
  C15.beam.no_orth             optima_tt_beam(to_orth=False, p = None / int / the stabilised form): valid indices for
                               every k, exact with a full beam (dense reference taken BEFORE the call: the routine
                               rescales the boundary core of its argument in place - recorded as DOUBTFUL, disabled)
  C15.many_modes               d = 20..500 (no dense reference; own chain products): valid answers whose values equal the
                               entries, ordered; rank 1: exact max modulus; overall scale 2^+-600
  C15.optima_qtt.kron          QTT-rank-1 tensors on [2^q]^d, q up to 10 (mode sizes 512 / 1024, up to 2^30 elements), any k,
                               also under the binding cap r = 1: exact max modulus, values = entries at the mapped-back indices
  C15.optima_qtt.capped.ordered  POSSIBLE DEFECT: optima_qtt with a binding accuracy e / rank cap r orders its two answers by
                               the values of the crude QTT copy and then re-evaluates them on Y: y_min > y_max in about 2 %
                               of the Gaussian cases at r = 1 (e.g. d=2 q=3 r=3 gauss seed=94 k=100 rcap=1)
  C15.optima_func.rank1        rank-1 coefficient tensor: the returned point lies in [-1,1]^d and |interpolant| there
                               is the maximum over the cube (per-mode maximisation by derivative roots + end points +
                               a 2001-point grid, relative tolerance 1e-6); k = 1 for arbitrary mode polynomials,
                               k > 1 for mode polynomials without a root in [-1,1] (dominant constant term)
  C15.optima_func.rank1.constant_mode  DEFECT (same failing statement): a mode whose polynomial is a non-zero constant
                               (p^2 has an empty derivative) -> ValueError('Coefficient array is empty') for every k
  C15.optima_func.rank1.n2     KNOWN DEFECT: first mode of size 2 whose linear polynomial has its root inside
                               [-1,1], k >= 3: every candidate of the first mode is kept, the partial product at
                               the root is exactly 0 and the next step raises ValueError('Coefficient array is empty')

  C15.input_form.tt            input FORMS: optima_tt_beam / optima_tt_max / optima_tt on tensors with float32 / int64 / int32 / mixed-
                               dtype cores, Fortran order, non-contiguous views, read-only arrays, tuple of cores (gen.tt_form), k as
                               np.int64 / np.int32 / 0-d array, keyword / positional calls; reference: float64 image of what is passed
                               (float32 cores: float32 tolerance - the library computes in the dtype of the cores); integer cores give
                               exactly the answers of their float copy (the shift by the constant tensor in optima_tt)
  C15.input_form.qtt           the same for optima_qtt with k / e / r as NumPy numbers (r also float / np.float32), positional (Y, k, e, r)
  C15.input_form.func          optima_func_tt_beam on float32 / Fortran / view / read-only / tuple coefficient tensors, k / k_loc as NumPy
                               integers, positional (A, k, k_loc, ret_all)
  C15.optima_func.rank1.integer_cores  POSSIBLE DEFECT: coefficient cores of integer dtype -> UFuncTypeError (`G[:, 0, :] *= sqrt(2)` on the copy)

Parameter coverage (audit): k (1 .. N+3, default-like 100), l2r, ret_all, to_orth, p; optima_qtt e (1e-14 .. 0.9) and r
(int / float, binding 1, 2 and non-binding); optima_func_tt_beam k, k_loc (1, 2, 5), ret_all; every clause family also
runs on exact re-scalings 2^mag of the tensor (mag = +-27, +-332, +-664; half of that for optima_tt, which squares the
shifted tensor; optima_qtt's e is an ABSOLUTE per-core accuracy and is scaled along for mag < 0), on mode sizes
300 / 520 (1030 thorough) and on d = 10 (12) with a full beam; the functional variant also on coefficient scales
2^+-27, 2^+-100, a redundant rank-2 storage of the rank-1 tensor, d = 6 (8) and modes of size 1.
"""
import numpy as np
import teneva
from rtc.api import clause, PASS, FAIL, TRIVIAL, SKIP, check
from rtc import gen

BUDGET = (100, 800)
BOUNDS = ('d = 2..4, n_k in 1..4 (5 thorough), ranks 1..4, kinds gauss / int / ties / signs / const / zero, '
          'k in {1, 2, 3, N-1, N, N+3} (N = number of elements), both sweep directions, to_orth False with p in {None, 0, 5, -3, stab}; '
          'exact re-scalings 2^mag, mag in {+-27, +-332, +-664} (optima_tt: half); mode sizes 300 / 520 (1030 thorough), '
          'd = 10 (12) full beam; d = 20 / 70 (64, 200, 500 thorough) ranks 1..3 without dense reference, scale 2^+-600; '
          'qtt: d <= 3, q <= 3 dense, e in {1e-14 .. 0.9}, r cap in {1, 2, 16., 64, 100, 1e12}, QTT-rank-1 tensors with q <= 10; '
          'functional: d = 2..6 (8), n_k in 1..6, k in {1, 2, 3, 10}, k_loc in {1, 2, 5}, coefficient scale 2^+-27, 2^+-100, '
          'plain and redundant storage; input forms: 12 core forms (float32, int64, int32, mixed, F, view, read-only, tuple, combinations) x '
          '4 k forms x kw / positional on 4 (7) shapes, optima_qtt 6 number forms for (k, e, r), functional variant 6 + 3 forms')

EPS = np.finfo(float).eps
EXACT = ('int', 'ties', 'signs', 'const', 'zero')


def _scaled(Y, mag):
    """Y * 2^mag exactly: the exponent is spread evenly over the cores, the remainder goes to core (mag mod d)."""
    if not mag:
        return Y
    d = len(Y)
    q, rem = divmod(int(mag), d) if mag >= 0 else (-((-int(mag)) // d), -((-int(mag)) % d))
    Z = [G * 2. ** q for G in Y]
    if rem:
        Z[abs(rem) % d] = Z[abs(rem) % d] * 2. ** rem
    return Z


def _tt(shape, r, kind, seed, mag=0):
    return _scaled(_tt0(shape, r, kind, seed), mag)


def _tt0(shape, r, kind, seed):
    shape = [int(k) for k in shape]
    if kind in ('gauss', 'int'):
        return gen.tt(shape, r, seed, kind)
    g = gen.rng('C15.tt', shape, r, kind, seed)
    d = len(shape)
    rr = [1] + [r] * (d - 1) + [1]
    if kind == 'ties':          # entries in {-1, 0, 1}: many equal values and equal moduli
        return [g.integers(-1, 2, size=(rr[k], shape[k], rr[k + 1])).astype(float) for k in range(d)]
    if kind == 'signs':         # all entries of the tensor of one sign (non-negative cores, global sign by seed)
        Y = [g.integers(0, 4, size=(rr[k], shape[k], rr[k + 1])).astype(float) for k in range(d)]
        if seed % 2:
            Y[0] = -Y[0]
        return Y
    if kind == 'const':         # constant tensor c * r^(d-1)
        Y = [np.ones((rr[k], shape[k], rr[k + 1])) for k in range(d)]
        Y[-1] = Y[-1] * float([2., -3., 0.5][seed % 3])
        return Y
    if kind == 'zero':
        Y = [g.integers(-2, 3, size=(rr[k], shape[k], rr[k + 1])).astype(float) for k in range(d)]
        Y[seed % d] = np.zeros_like(Y[seed % d])
        return Y
    raise ValueError(kind)


def _index_ok(i, shape):
    i = np.asarray(i)
    if i.dtype.kind not in 'iu' or i.shape != (len(shape),):
        return f'index {i!r} is not an integer vector of length {len(shape)}'
    if np.any(i < 0) or np.any(i >= np.asarray(shape)):
        return f'index {i.tolist()} outside the bounds {list(shape)}'
    return None


def _tol(Y):
    return 256. * EPS * len(Y) * max(max(G.shape[0], G.shape[2]) for G in Y) * float(gen.absdense(Y).max())


def _is_max_mod(v, D, Y, kind):
    m = np.abs(D).max()
    return abs(v) == m if kind in EXACT else abs(v) >= m - _tol(Y)


def _entry_ok(y, D, i, Y):
    return gen.close(y, D[tuple(np.asarray(i))], gen.absdense(Y)[tuple(np.asarray(i))] + 1e-300)


# ------------------------------------------------------------------ beam

@clause('C15.beam.valid', funcs=('optima.optima_tt_beam',))
def beam_valid(shape, r, kind, seed, k, mag=0):
    """optima_tt_beam for both sweep directions and any k: a valid multi-index; ret_all: <= k valid rows, row 0 is
    the single answer."""
    Y = _tt(shape, r, kind, seed, mag)
    for l2r in (True, False):
        i = teneva.optima_tt_beam(Y, k, l2r=l2r)
        msg = _index_ok(i, shape)
        if msg:
            return FAIL(f'l2r={l2r}: {msg}')
        I = teneva.optima_tt_beam(Y, k, l2r=l2r, ret_all=True)
        if I.ndim != 2 or I.shape[1] != len(shape) or not 1 <= I.shape[0] <= max(k, 1):
            return FAIL(f'l2r={l2r}: ret_all shape {I.shape} for k={k}')
        for row in I:
            msg = _index_ok(row, shape)
            if msg:
                return FAIL(f'l2r={l2r}, ret_all: {msg}')
        if not np.array_equal(I[0], i):
            return FAIL(f'l2r={l2r}: first ret_all row {I[0].tolist()} != single answer {i.tolist()}')
    return PASS


@clause('C15.beam.full', funcs=('optima.optima_tt_beam',))
def beam_full(shape, r, kind, seed, extra, mag=0):
    """k = number of elements + extra: nothing is pruned, the entry at the returned index has maximum modulus
    (both sweep directions); all ret_all rows are distinct multi-indices."""
    Y = _tt(shape, r, kind, seed, mag)
    D = gen.dense(Y)
    k = D.size + extra
    for l2r in (True, False):
        i = teneva.optima_tt_beam(Y, k, l2r=l2r)
        msg = _index_ok(i, shape)
        if msg:
            return FAIL(f'l2r={l2r}: {msg}')
        v = D[tuple(i)]
        if not _is_max_mod(v, D, Y, kind):
            return FAIL(f'l2r={l2r}: |D[{i.tolist()}]| = {abs(v)!r} < max |D| = {np.abs(D).max()!r}')
        I = teneva.optima_tt_beam(Y, k, l2r=l2r, ret_all=True)
        if len({tuple(row) for row in I.tolist()}) != D.size or I.shape[0] != D.size:
            return FAIL(f'l2r={l2r}: full beam holds {I.shape[0]} rows / {len({tuple(r_) for r_ in I.tolist()})} distinct, expected {D.size}')
    return PASS


@clause('C15.beam.no_orth', funcs=('optima.optima_tt_beam',))
def beam_no_orth(shape, r, kind, seed, k, p, mag=0, untouched=False):
    """optima_tt_beam(to_orth=False, p=...) (the tensor is used as it is, p is the power-of-two exponent of an
    external scale): a valid multi-index for every k, both directions; ret_all rows valid, <= k, row 0 = the answer;
    with k >= number of elements the entry at the index has the maximum modulus of the tensor AS IT WAS BEFORE THE
    CALL and the beam holds every multi-index once.  p: None (default), an int, or 'stab' (the cores are passed the
    way orthogonalize(use_stab=True) leaves them: max-modulus of every core in [1, 2), the total exponent in p).
    k <= 0 stands for k = number of elements - k."""
    Y = _tt(shape, r, kind, seed, mag)
    N = int(np.prod(shape))
    kk = N - k if k <= 0 else k

    def prep():
        Yc, pp = [G.copy() for G in Y], p
        if p == 'stab':
            pp = 0
            for j, G in enumerate(Yc):
                m = np.abs(G).max()
                if m > 0:
                    ex = int(np.floor(np.log2(m)))
                    Yc[j], pp = G / 2. ** ex, pp + ex
        return Yc, pp

    for l2r in (True, False):
        Yc, pp = prep()
        Dc, tol, snap = gen.dense(Yc), _tol(Yc), gen.snapshot(Yc)          # reference BEFORE the call
        i = teneva.optima_tt_beam(Yc, kk, l2r=l2r, to_orth=False, p=pp)
        changed = gen.snapshot(Yc) != snap
        msg = _index_ok(i, shape)
        if msg:
            return FAIL(f'l2r={l2r}: {msg}')
        Yc, pp = prep()
        I = teneva.optima_tt_beam(Yc, kk, l2r=l2r, ret_all=True, to_orth=False, p=pp)
        if I.ndim != 2 or I.shape[1] != len(shape) or not 1 <= I.shape[0] <= kk:
            return FAIL(f'l2r={l2r}: ret_all shape {I.shape} for k={kk}')
        for row in I:
            msg = _index_ok(row, shape)
            if msg:
                return FAIL(f'l2r={l2r}, ret_all: {msg}')
        if not np.array_equal(I[0], i):
            return FAIL(f'l2r={l2r}: first ret_all row {I[0].tolist()} != single answer {i.tolist()}')
        if kk >= N:
            v, m = Dc[tuple(i)], np.abs(Dc).max()
            if not (abs(v) == m if kind in EXACT else abs(v) >= m - tol):
                return FAIL(f'l2r={l2r}, p={pp}: |D[{i.tolist()}]| = {abs(v)!r} < max |D| = {m!r}')
            if I.shape[0] != N or len({tuple(row) for row in I.tolist()}) != N:
                return FAIL(f'l2r={l2r}: full beam holds {I.shape[0]} rows, expected {N} distinct ones')
        if untouched and changed:
            return FAIL(f'l2r={l2r}: optima_tt_beam(to_orth=False) changed the cores of its argument')
    return PASS


@clause('C15.max.full', funcs=('optima.optima_tt_max', 'optima.optima_tt_beam'))
def max_full(shape, r, kind, seed, extra, mag=0):
    """optima_tt_max with a full beam: valid index, y equals the entry, |y| is the maximum modulus."""
    Y = _tt(shape, r, kind, seed, mag)
    D = gen.dense(Y)
    i, y = teneva.optima_tt_max(Y, D.size + extra)
    msg = _index_ok(i, shape)
    if msg:
        return FAIL(msg)
    if not _entry_ok(y, D, i, Y):
        return FAIL(f'y = {y!r} != D[{i.tolist()}] = {D[tuple(i)]!r}')
    return check(_is_max_mod(y, D, Y, kind), f'|y| = {abs(y)!r} < max |D| = {np.abs(D).max()!r}')


# ------------------------------------------------------------------ optima_tt

def _minmax_valid(res, D, Y, shape, ordered=True):
    i_min, y_min, i_max, y_max = res
    for nm, i, y in (('min', i_min, y_min), ('max', i_max, y_max)):
        msg = _index_ok(i, shape)
        if msg:
            return f'i_{nm}: {msg}'
        if not _entry_ok(y, D, i, Y):
            return f'y_{nm} = {y!r} != D[{np.asarray(i).tolist()}] = {D[tuple(np.asarray(i))]!r}'
    if ordered and not y_min <= y_max:
        return f'y_min = {y_min!r} > y_max = {y_max!r}'
    return None


def _minmax_exact(res, D, Y, kind):
    i_min, y_min, i_max, y_max = res
    lo, hi = D.min(), D.max()
    if kind in EXACT:
        if y_min != lo or y_max != hi:
            return f'(y_min, y_max) = ({y_min!r}, {y_max!r}) != true ({lo!r}, {hi!r})'
        return None
    tol = _tol(Y)
    y1 = y_max if abs(y_max) >= abs(y_min) else y_min          # the max-modulus answer
    rmax = max(max(G.shape[0], G.shape[2]) for G in Y)
    delta = 256. * EPS * len(Y) * (rmax + 1) ** 2 * (float(gen.absdense(Y).max()) + abs(y1)) ** 2
    M = np.abs(D - y1).max()
    tol2 = delta / M if M * M > delta else np.sqrt(delta)
    t_min, t_max = (tol2, tol) if y1 is y_max else (tol, tol2)
    if not (y_min <= lo + t_min and y_max >= hi - t_max):
        return f'(y_min, y_max) = ({y_min!r}, {y_max!r}) vs true ({lo!r}, {hi!r}), tolerances ({t_min:.2e}, {t_max:.2e})'
    return None


@clause('C15.optima_tt.valid', funcs=('optima.optima_tt', 'optima.optima_tt_max'))
def optima_tt_valid(shape, r, kind, seed, k, mag=0):
    """optima_tt for any k: indices inside the bounds, reported values equal the entries there, y_min <= y_max;
    optima_tt_max likewise."""
    Y = _tt(shape, r, kind, seed, mag)
    D = gen.dense(Y)
    msg = _minmax_valid(teneva.optima_tt(Y, k), D, Y, shape)
    if msg:
        return FAIL(msg)
    i, y = teneva.optima_tt_max(Y, k)
    msg = _index_ok(i, shape)
    if msg:
        return FAIL('optima_tt_max: ' + msg)
    return check(_entry_ok(y, D, i, Y), f'optima_tt_max: y = {y!r} != D[{i.tolist()}]')


@clause('C15.optima_tt.full', funcs=('optima.optima_tt', 'optima.optima_tt_max', 'optima.optima_tt_beam'))
def optima_tt_full(shape, r, kind, seed, extra, mag=0):
    """optima_tt with k >= number of elements reports the true minimum and maximum."""
    Y = _tt(shape, r, kind, seed, mag)
    D = gen.dense(Y)
    res = teneva.optima_tt(Y, D.size + extra)
    msg = _minmax_valid(res, D, Y, shape) or _minmax_exact(res, D, Y, kind)
    return FAIL(msg) if msg else PASS


@clause('C15.rank1.max_modulus', funcs=('optima.optima_tt_beam', 'optima.optima_tt_max', 'optima.optima_tt'))
def rank1_max_modulus(shape, kind, seed, k, mag=0):
    """Rank-1 tensors, any k >= 1: the max-modulus entry is found by optima_tt_beam (both directions), by
    optima_tt_max, and is one of the two answers of optima_tt."""
    Y = _tt(shape, 1, kind, seed, mag)
    D = gen.dense(Y)
    for l2r in (True, False):
        i = teneva.optima_tt_beam(Y, k, l2r=l2r)
        msg = _index_ok(i, shape)
        if msg:
            return FAIL(msg)
        if not _is_max_mod(D[tuple(i)], D, Y, kind):
            return FAIL(f'beam l2r={l2r}, k={k}: |D[{i.tolist()}]| = {abs(D[tuple(i)])!r} < {np.abs(D).max()!r}')
    i, y = teneva.optima_tt_max(Y, k)
    if _index_ok(i, shape) or not _entry_ok(y, D, i, Y) or not _is_max_mod(y, D, Y, kind):
        return FAIL(f'optima_tt_max k={k}: ({np.asarray(i).tolist()}, {y!r}), max |D| = {np.abs(D).max()!r}')
    res = teneva.optima_tt(Y, k)
    msg = _minmax_valid(res, D, Y, shape)
    if msg:
        return FAIL(msg)
    best = res[1] if abs(res[1]) > abs(res[3]) else res[3]
    return check(_is_max_mod(best, D, Y, kind), f'optima_tt k={k}: max(|y_min|, |y_max|) = {abs(best)!r} < {np.abs(D).max()!r}')


@clause('C15.optima_tt.rank1.opposite', funcs=('optima.optima_tt',))
def optima_tt_rank1_opposite(shape, kind, seed, k):
    """Rank-1 tensor, k < number of elements: optima_tt reports the true minimum AND the true maximum."""
    Y = _tt(shape, 1, kind, seed)
    D = gen.dense(Y)
    if k >= D.size:
        return SKIP('full beam: C15.optima_tt.full')
    res = teneva.optima_tt(Y, k)
    msg = _minmax_valid(res, D, Y, shape) or _minmax_exact(res, D, Y, kind)
    return FAIL(msg) if msg else PASS


# ------------------------------------------------------------------ quantised variant

def _qtt_kw(e, rcap):
    kw = {}
    if e is not None:
        kw['e'] = e
    if rcap is not None:
        kw['r'] = rcap
    return kw


@clause('C15.optima_qtt.valid', funcs=('optima.optima_qtt', 'grid.ind_qtt_to_tt', 'act_one.tt_to_qtt'))
def optima_qtt_valid(d, q, r, kind, seed, k, mag=0, e=None, rcap=None):
    """optima_qtt on [2^q]^d for any k: TT multi-indices inside the bounds, values equal the entries, ordered."""
    shape = [2 ** q] * d
    Y = _tt(shape, r, kind, seed, mag)
    if any(not np.any(G) for G in Y):
        return SKIP('exactly-zero core: tt_to_qtt returns NaN (C11 defect)')
    D = gen.dense(Y)
    snap = gen.snapshot(Y)
    res = teneva.optima_qtt(Y, k, **_qtt_kw(e, rcap))
    if gen.snapshot(Y) != snap:
        return FAIL('optima_qtt changed its argument')
    # with a binding accuracy / rank cap the order of the two answers is a separate clause (C15.optima_qtt.capped.ordered)
    msg = _minmax_valid(res, D, Y, shape, ordered=(e is None and rcap is None))
    return FAIL(msg) if msg else PASS


@clause('C15.optima_qtt.capped.ordered', funcs=('optima.optima_qtt',))
def optima_qtt_capped_ordered(d, q, r, kind, seed, k, e=None, rcap=None, mag=0):
    """optima_qtt with a binding accuracy e / rank cap r (the QTT copy is only a crude approximation): the reported
    minimum still does not exceed the reported maximum (both are entries of Y itself)."""
    shape = [2 ** q] * d
    Y = _tt(shape, r, kind, seed, mag)
    if any(not np.any(G) for G in Y):
        return SKIP('exactly-zero core')
    D = gen.dense(Y)
    i_min, y_min, i_max, y_max = teneva.optima_qtt(Y, k, **_qtt_kw(e, rcap))
    if _index_ok(i_min, shape) or _index_ok(i_max, shape):
        return FAIL(_index_ok(i_min, shape) or _index_ok(i_max, shape))
    return check(D[tuple(i_min)] <= D[tuple(i_max)] and y_min <= y_max,
                 f'reported minimum {y_min!r} at {np.asarray(i_min).tolist()} exceeds reported maximum {y_max!r} at '
                 f'{np.asarray(i_max).tolist()} (true min {D.min()!r}, max {D.max()!r})')


@clause('C15.optima_qtt.full', funcs=('optima.optima_qtt', 'optima.optima_tt', 'grid.ind_qtt_to_tt'))
def optima_qtt_full(d, q, r, kind, seed, extra, mag=0, e=None, rcap=None):
    """optima_qtt with k >= number of elements: exact minimum and maximum (integer tensors: exactly; Gaussian:
    within the QTT accuracy 1e-9 ||D||), the same values as optima_tt."""
    shape = [2 ** q] * d
    Y = _tt(shape, r, kind, seed, mag)
    if any(not np.any(G) for G in Y):
        return SKIP('exactly-zero core: tt_to_qtt returns NaN (C11 defect)')
    D = gen.dense(Y)
    k = D.size + extra
    res = teneva.optima_qtt(Y, k, **_qtt_kw(e, rcap))        # e / rcap: only non-binding values in this clause
    msg = _minmax_valid(res, D, Y, shape)
    if msg:
        return FAIL(msg)
    ref = teneva.optima_tt(Y, k)
    if kind in EXACT:
        if res[1] != D.min() or res[3] != D.max():
            return FAIL(f'(y_min, y_max) = ({res[1]!r}, {res[3]!r}) != true ({D.min()!r}, {D.max()!r})')
        if res[1] != ref[1] or res[3] != ref[3]:
            return FAIL('values differ from optima_tt')
        return PASS
    tol = 1e-9 * np.linalg.norm(D) + _tol(Y)
    y1 = max(abs(res[1]), abs(res[3]))
    M = max(np.abs(D - res[1]).max(), np.abs(D - res[3]).max())
    tol2 = max(tol, (tol * (np.abs(D).max() + y1)) / M if M > 0 else tol)
    if not (res[1] <= D.min() + tol2 and res[3] >= D.max() - tol2):
        return FAIL(f'(y_min, y_max) = ({res[1]!r}, {res[3]!r}) vs true ({D.min()!r}, {D.max()!r}), tol {tol2:.2e}')
    if not (abs(res[1] - ref[1]) <= 2 * tol2 and abs(res[3] - ref[3]) <= 2 * tol2):
        return FAIL('values differ from optima_tt')
    return PASS


@clause('C15.optima_qtt.reject', funcs=('optima.optima_qtt',))
def optima_qtt_reject(shape, seed):
    """optima_qtt raises ValueError iff the mode sizes are not all equal to one power of two."""
    Y = gen.tt(shape, 2, seed, 'gauss')
    ok = len(set(shape)) == 1 and shape[0] >= 2 and (shape[0] & (shape[0] - 1)) == 0
    try:
        teneva.optima_qtt(Y, 5)
        raised = False
    except ValueError:
        raised = True
    return check(raised != ok, f'shape {shape}: raised={raised}')


# ------------------------------------------------------------------ many modes / rank 1 without a dense reference

def _chain(Y, i):
    """Entry Y[i] and the entry of the chain of |cores| (rounding scale) by own left-to-right products."""
    v = np.ones((1, 1))
    a = np.ones((1, 1))
    for G, ik in zip(Y, i):
        v = v @ G[:, int(ik), :]
        a = a @ np.abs(G[:, int(ik), :])
    return float(v[0, 0]), float(a[0, 0])


@clause('C15.many_modes', funcs=('optima.optima_tt_beam', 'optima.optima_tt_max', 'optima.optima_tt'))
def many_modes(d, n, r, kind, seed, k, mag=0):
    """d up to a few hundred (more elements than int64 / float can count), any k: indices inside the bounds, the
    reported values equal the entries (own chain product), y_min <= y_max; for r = 1 additionally the max-modulus
    entry prod_k max_i |v_k[i]| is found exactly by optima_tt_beam (both directions), optima_tt_max and optima_tt."""
    shape = [int(n)] * d if isinstance(n, int) else [int(n[j % len(n)]) for j in range(d)]
    Y = _tt(shape, r, kind, seed, mag)
    snap = gen.snapshot(Y)
    best = None
    if r == 1:
        best = 1.
        for G in Y:
            best = best * float(np.abs(G).max())
        if not (np.isfinite(best) and (best == 0. or best > 1e-290)):
            return SKIP('max-modulus entry not representable')

    def is_best(i):
        v, a = _chain(Y, i)
        return abs(v) == best if kind in EXACT and best < 2. ** 53 else abs(v) >= best * (1. - 64. * d * EPS)

    def entry_ok(y, i):
        v, a = _chain(Y, i)
        return gen.close(y, v, a + 1e-300, c=64. * d)

    for l2r in (True, False):
        i = teneva.optima_tt_beam(Y, k, l2r=l2r)
        msg = _index_ok(i, shape)
        if msg:
            return FAIL(f'beam l2r={l2r}: {msg}')
        if r == 1 and not is_best(i):
            return FAIL(f'beam l2r={l2r}, k={k}: |entry| = {abs(_chain(Y, i)[0])!r} < max modulus {best!r}')
    i, y = teneva.optima_tt_max(Y, k)
    msg = _index_ok(i, shape)
    if msg:
        return FAIL('optima_tt_max: ' + msg)
    if not entry_ok(y, i):
        return FAIL(f'optima_tt_max: y = {y!r} != entry {_chain(Y, i)[0]!r}')
    if r == 1 and not is_best(i):
        return FAIL(f'optima_tt_max k={k}: |y| = {abs(y)!r} < max modulus {best!r}')
    i_min, y_min, i_max, y_max = teneva.optima_tt(Y, k)
    for nm, i, y in (('min', i_min, y_min), ('max', i_max, y_max)):
        msg = _index_ok(i, shape)
        if msg:
            return FAIL(f'optima_tt i_{nm}: {msg}')
        if not entry_ok(y, i):
            return FAIL(f'optima_tt: y_{nm} = {y!r} != entry {_chain(Y, i)[0]!r}')
    if not y_min <= y_max:
        return FAIL(f'optima_tt: y_min = {y_min!r} > y_max = {y_max!r}')
    if r == 1 and not is_best(i_max if abs(y_max) >= abs(y_min) else i_min):
        return FAIL(f'optima_tt k={k}: max(|y_min|, |y_max|) = {max(abs(y_min), abs(y_max))!r} < max modulus {best!r}')
    if gen.snapshot(Y) != snap:
        return FAIL('the argument was changed')
    return PASS


@clause('C15.optima_qtt.kron', funcs=('optima.optima_qtt', 'grid.ind_qtt_to_tt', 'act_one.tt_to_qtt'))
def optima_qtt_kron(d, q, seed, k, kind, rcap=None, mag=0):
    """Rank-1 tensor on [2^q]^d (q up to 10) whose mode vectors are Kronecker products of q two-vectors, i.e. the QTT
    copy has rank 1 as well (also under the cap r = 1): for every k the max-modulus one of optima_qtt's two answers is
    the true max-modulus entry prod max|.|, both values equal the entries at the (mapped-back) indices, ordered."""
    g = gen.rng('C15.kron', d, q, seed, kind)
    Y, best = [], 1.
    for _ in range(d):
        v = np.ones(1)
        for _ in range(q):
            w = g.integers(1, 4, size=2).astype(float) * g.choice([-1., 1.], size=2) if kind == 'int' else g.normal(size=2)
            if abs(w[0]) == abs(w[1]):                 # unique maximiser per bit (ties: see the small cases)
                w[1] = np.sign(w[1]) * (abs(w[0]) % 3 + 1)
            v = np.kron(v, w)
            best *= float(np.abs(w).max())
        Y.append(v.reshape(1, -1, 1))
    Y = _scaled(Y, mag)
    best *= 2. ** mag
    shape = [2 ** q] * d
    i_min, y_min, i_max, y_max = teneva.optima_qtt(Y, k, **_qtt_kw(None, rcap))
    for nm, i, y in (('min', i_min, y_min), ('max', i_max, y_max)):
        msg = _index_ok(i, shape)
        if msg:
            return FAIL(f'i_{nm}: {msg}')
        v = float(np.prod([Y[j][0, int(i[j]), 0] for j in range(d)]))
        if not gen.close(y, v, abs(v), c=64. * d):
            return FAIL(f'y_{nm} = {y!r} != entry {v!r} at {np.asarray(i).tolist()}')
    if not y_min <= y_max:
        return FAIL(f'y_min = {y_min!r} > y_max = {y_max!r}')
    top = max(abs(y_min), abs(y_max))
    ok = top == best if kind == 'int' else top >= best * (1. - 64. * d * q * EPS)
    return check(ok, f'k={k}: max(|y_min|, |y_max|) = {top!r} < max modulus {best!r}')


# ------------------------------------------------------------------ functional variant

def _func_coefs(n, seed, kind, fam):
    """Rank-1 coefficient tensor: Chebyshev coefficients c_k (length n_k) of the mode polynomials."""
    g = gen.rng('C15.func', n, seed, kind, fam)
    cs = []
    for nk in n:
        c = g.integers(-3, 4, size=nk).astype(float) if kind == 'int' else g.normal(size=nk)
        if not np.any(c[1:]):                # every mode polynomial depends on its variable (see ...constant_mode)
            c[-1] = 1.
        if fam == 'dominant':                # |c_0| > sum_{j>=1} |c_j|: no root in [-1, 1]
            c[0] = (1. if g.integers(2) else -1.) * (np.abs(c[1:]).sum() + 1. + abs(c[0]))
        cs.append(c)
    return cs


def _mode_max(c):
    """max |p| on [-1, 1] for the Chebyshev series c: derivative roots, end points, 2001-point grid."""
    Pc = np.polynomial.chebyshev
    cand = [-1., 1.]
    if len(c) > 2:
        dr = Pc.chebroots(Pc.chebder(c)) if np.any(Pc.chebder(c)) else []
        cand += [float(z.real) for z in np.atleast_1d(dr) if abs(z.imag) < 1e-9 and -1. <= z.real <= 1.]
    cand = np.concatenate([np.array(cand), np.linspace(-1., 1., 2001)])
    return float(np.abs(Pc.chebval(cand, c)).max())


def _func_check(x, cs):
    Pc = np.polynomial.chebyshev
    x = np.asarray(x)
    if x.shape != (len(cs),) or x.dtype.kind != 'f' or not np.all(np.isfinite(x)):
        return f'result {x!r} is not a finite point of dimension {len(cs)}'
    if not (np.all(x >= -1.) and np.all(x <= 1.)):
        return f'point {x.tolist()} outside [-1, 1]^d'
    val = abs(float(np.prod([Pc.chebval(x[k], cs[k]) for k in range(len(cs))])))
    best = float(np.prod([_mode_max(c) for c in cs]))
    if not val >= best * (1. - 1e-6):
        return f'|f(x)| = {val!r} < max over the cube {best!r} at x = {x.tolist()}'
    return None


def _func_tt(cs, rep='plain', mag=0):
    """The rank-1 coefficient tensor of the mode polynomials cs; rep = 'redundant': the same tensor stored with
    TT-ranks 2 (all-equal blocks, 2^(d-1) identical paths); mag: exact overall factor 2^mag on the coefficients."""
    d = len(cs)
    if rep == 'plain':
        A = [c.reshape(1, -1, 1).copy() for c in cs]
    else:
        A = []
        for j, c in enumerate(cs):
            r1, r2 = (1 if j == 0 else 2), (1 if j == d - 1 else 2)
            G = np.empty((r1, len(c), r2))
            G[:] = (c if j == 0 else c / 2.)[None, :, None]
            A.append(G)
    return _scaled(A, mag)


@clause('C15.optima_func.rank1', funcs=('optima_func.optima_func_tt_beam', 'optima_func._find_poly_max', 'optima_func._step_top_k'))
def optima_func_rank1(n, seed, kind, fam, k, k_loc=None, mag=0, rep='plain'):
    """Rank-1 coefficient tensor: the returned point is in [-1,1]^d and maximises |interpolant| (k = 1 for
    arbitrary mode polynomials; k > 1 for mode polynomials without roots in [-1, 1]); any k_loc >= 1, any overall
    scale of the coefficients, TT-rank-1 storage or a redundant rank-2 storage of the same tensor; ret_all: at most k
    rows inside the cube, row 0 = the answer; the argument is left unchanged."""
    if k > 1 and fam != 'dominant':
        return SKIP('k > 1 with roots inside the cube: see C15.optima_func.rank1.n2')
    cs = _func_coefs(n, seed, kind, fam)
    A = _func_tt(cs, rep, mag)
    snap = gen.snapshot(A)
    kw = {} if k_loc is None else dict(k_loc=k_loc)
    x = teneva.optima_func_tt_beam(A, k=k, **kw)
    msg = _func_check(x, cs)
    if msg:
        return FAIL(msg)
    X = teneva.optima_func_tt_beam(A, k=k, ret_all=True, **kw)
    if X.ndim != 2 or X.shape[1] != len(n) or not 1 <= X.shape[0] <= k or not np.array_equal(X[0], x) \
            or not np.all(np.abs(X) <= 1.):
        return FAIL(f'ret_all: shape {X.shape}, first row {X[0].tolist()} vs {x.tolist()}')
    if gen.snapshot(A) != snap:
        return FAIL('optima_func_tt_beam changed its argument')
    return PASS


@clause('C15.optima_func.rank1.n2', funcs=('optima_func.optima_func_tt_beam', 'optima_func._step_top_k'))
def optima_func_rank1_n2(n, c0, c1, seed, k):
    """First mode of size 2 with p_1 = c0 + c1 x, |c0| < |c1| (root inside the cube), k >= 3: the routine returns a
    maximiser of |interpolant| in [-1,1]^d."""
    cs = _func_coefs(n, seed, 'gauss', 'free')
    cs[0] = np.array([float(c0), float(c1)])
    A = [c.reshape(1, -1, 1).copy() for c in cs]
    x = teneva.optima_func_tt_beam(A, k=k)
    msg = _func_check(x, cs)
    return FAIL(msg) if msg else PASS


@clause('C15.optima_func.rank1.constant_mode', funcs=('optima_func.optima_func_tt_beam', 'optima_func._find_poly_max'))
def optima_func_rank1_constant_mode(n, mode, seed, k):
    """Rank-1 coefficient tensor whose factor in one mode is a non-zero constant (the function does not depend on
    that variable): the routine returns a maximiser of |interpolant| in [-1,1]^d."""
    cs = _func_coefs(n, seed, 'gauss', 'dominant')
    cs[mode] = np.concatenate([[2.5], np.zeros(n[mode] - 1)])
    A = [c.reshape(1, -1, 1).copy() for c in cs]
    x = teneva.optima_func_tt_beam(A, k=k)
    msg = _func_check(x, cs)
    return FAIL(msg) if msg else PASS


# ------------------------------------------------------------------ input FORMS (dtype / layout / container / NumPy numbers / call form)

EPS32 = float(np.finfo(np.float32).eps)
TT_FORMS = ('f32', 'i64', 'i32', 'imixed', 'mixed', 'F', 'V', 'ro', 'tuple', 'F+ro', 'f32+F', 'i64+V+tuple')


def _form_eps(form):
    """/tmp/base computes in the dtype of the cores: float32 cores -> float32 arithmetic (orthogonalize, get)."""
    return EPS32 if 'f32' in form.split('+') else EPS


def _form_tol(Yi, eps):
    return 256. * eps * len(Yi) * max(max(G.shape[0], G.shape[2]) for G in Yi) * float(gen.absdense(Yi).max())


def _form_entry_ok(y, D, A, i, eps):
    i = tuple(int(x) for x in np.asarray(i))
    return gen.close(float(y), D[i], A[i] + 1e-300, c=64. * eps / EPS)


@clause('C15.input_form.tt', funcs=('optima.optima_tt_beam', 'optima.optima_tt_max', 'optima.optima_tt'))
def input_form_tt(shape, r, kind, seed, form, kform, full, call='kw'):
    """optima_tt_beam / optima_tt_max / optima_tt on the SAME tensor passed in another input form (gen.tt_form: float32 /
    int64 / int32 / mixed dtypes, Fortran order, non-contiguous views, read-only arrays, tuple of cores), k as Python int /
    np.int64 / np.int32 / 0-d array (gen.num_form), optional arguments by keyword or positionally in the documented order.
    Reference: dense float64 image of what is passed.  Valid indices, reported values = entries, y_min <= y_max; full beam
    (k >= number of elements): the exact max-modulus entry, and (exact kinds) the exact minimum and maximum of optima_tt -
    integer cores must give the same answers as their float copy (optima_tt shifts the tensor by a constant tensor); ret_all
    rows valid; the argument is left unchanged."""
    Y0 = _tt(shape, r, kind, seed)
    Z, Yi = gen.tt_form(Y0, form)
    D, A = gen.dense(Yi), gen.absdense(Yi)
    eps = _form_eps(form)
    exact = kind in EXACT
    N = D.size
    k0 = N + 2 if full else max(1, min(2, N - 1))
    k = gen.num_form(k0, kform)
    snap = gen.snapshot(list(Z))
    m = np.abs(D).max()
    tol = _form_tol(Yi, eps)

    def is_max(v):
        return abs(float(v)) == m if exact else abs(float(v)) >= m - tol
    for l2r in (True, False):
        if call == 'pos':
            i = teneva.optima_tt_beam(Z, k, l2r)
            I = teneva.optima_tt_beam(Z, k, l2r, True)
        else:
            i = teneva.optima_tt_beam(Z, k=k, l2r=l2r)
            I = teneva.optima_tt_beam(Z, k=k, l2r=l2r, ret_all=True)
        msg = _index_ok(i, shape)
        if msg:
            return FAIL(f'beam l2r={l2r}: {msg}')
        if I.ndim != 2 or I.shape[1] != len(shape) or not 1 <= I.shape[0] <= k0 or not np.array_equal(I[0], i):
            return FAIL(f'beam l2r={l2r}: ret_all shape {I.shape} / first row {I[0].tolist()} vs {i.tolist()} (k={k0})')
        for row in I:
            msg = _index_ok(row, shape)
            if msg:
                return FAIL(f'beam l2r={l2r}, ret_all: {msg}')
        if full:
            if not is_max(D[tuple(i)]):
                return FAIL(f'beam l2r={l2r}: |D[{i.tolist()}]| = {abs(D[tuple(i)])!r} < max |D| = {m!r}')
            if I.shape[0] != N or len({tuple(row) for row in I.tolist()}) != N:
                return FAIL(f'beam l2r={l2r}: full beam holds {I.shape[0]} rows, expected {N} distinct ones')
    i, y = teneva.optima_tt_max(Z, k) if call == 'pos' else teneva.optima_tt_max(Z, k=k)
    msg = _index_ok(i, shape)
    if msg:
        return FAIL('optima_tt_max: ' + msg)
    if not _form_entry_ok(y, D, A, i, eps):
        return FAIL(f'optima_tt_max: y = {y!r} != D[{i.tolist()}] = {D[tuple(i)]!r}')
    if full and not is_max(y):
        return FAIL(f'optima_tt_max: |y| = {abs(float(y))!r} < max |D| = {m!r}')
    res = teneva.optima_tt(Z, k) if call == 'pos' else teneva.optima_tt(Z, k=k)
    i_min, y_min, i_max, y_max = res
    for nm, i, y in (('min', i_min, y_min), ('max', i_max, y_max)):
        msg = _index_ok(i, shape)
        if msg:
            return FAIL(f'optima_tt i_{nm}: {msg}')
        if not _form_entry_ok(y, D, A, i, eps):
            return FAIL(f'optima_tt: y_{nm} = {y!r} != D[{np.asarray(i).tolist()}] = {D[tuple(np.asarray(i))]!r}')
    if not y_min <= y_max:
        return FAIL(f'optima_tt: y_min = {y_min!r} > y_max = {y_max!r}')
    if full:
        if exact:
            if float(y_min) != D.min() or float(y_max) != D.max():
                return FAIL(f'optima_tt: (y_min, y_max) = ({y_min!r}, {y_max!r}) != true ({D.min()!r}, {D.max()!r})')
        elif not is_max(y_max if abs(float(y_max)) >= abs(float(y_min)) else y_min):
            return FAIL(f'optima_tt: max(|y_min|, |y_max|) < max |D| = {m!r}')
    if gen.snapshot(list(Z)) != snap:
        return FAIL('the argument was changed')
    return PASS


@clause('C15.input_form.qtt', funcs=('optima.optima_qtt', 'act_one.tt_to_qtt', 'grid.ind_qtt_to_tt'))
def input_form_qtt(d, q, r, kind, seed, form, nform, full, cap, call='kw'):
    """optima_qtt on [2^q]^d with the tensor in another input form and k / e / r as NumPy numbers (np.int64 / np.int32 /
    np.float64 / np.float32 / 0-d arrays), keyword or positional (Y, k, e, r) call.  cap = 0: non-binding e = 1e-13, r = 64;
    cap > 0: binding rank cap (structure only: valid indices, values = entries, ordered).  Full beam and no binding cap:
    exact minimum and maximum (exact kinds; Gaussian: the max-modulus entry within the float tolerance)."""
    shape = [2 ** q] * d
    Y0 = _tt(shape, r, kind, seed)
    if any(not np.any(G) for G in Y0):
        return SKIP('exactly-zero core')
    Z, Yi = gen.tt_form(Y0, form)
    D, A = gen.dense(Yi), gen.absdense(Yi)
    eps = _form_eps(form)
    N = D.size
    k0 = N + 1 if full else 3
    e0, r0 = (1e-13, 64) if not cap else (1e-13, int(cap))
    if nform == 'rfloat':                       # r is documented as (int, float)
        k, e, rr = k0, e0, float(r0)
    elif nform == 'np32':
        k, e, rr = np.int32(k0), np.float32(e0), np.int32(r0)
    elif nform == 'rf32':
        k, e, rr = np.int64(k0), np.float64(e0), np.float32(r0)
    else:
        k, e, rr = gen.num_form(k0, nform), gen.num_form(e0, nform), gen.num_form(r0, nform)
    snap = gen.snapshot(list(Z))
    res = teneva.optima_qtt(Z, k, e, rr) if call == 'pos' else teneva.optima_qtt(Z, k=k, e=e, r=rr)
    if gen.snapshot(list(Z)) != snap:
        return FAIL('optima_qtt changed its argument')
    i_min, y_min, i_max, y_max = res
    for nm, i, y in (('min', i_min, y_min), ('max', i_max, y_max)):
        msg = _index_ok(i, shape)
        if msg:
            return FAIL(f'i_{nm}: {msg}')
        if not _form_entry_ok(y, D, A, i, eps):
            return FAIL(f'y_{nm} = {y!r} != D[{np.asarray(i).tolist()}] = {D[tuple(np.asarray(i))]!r}')
    if not y_min <= y_max:
        return FAIL(f'y_min = {y_min!r} > y_max = {y_max!r}')
    if full and not cap:
        if kind in EXACT:
            if float(y_min) != D.min() or float(y_max) != D.max():
                return FAIL(f'(y_min, y_max) = ({y_min!r}, {y_max!r}) != true ({D.min()!r}, {D.max()!r})')
        else:
            top = max(abs(float(y_min)), abs(float(y_max)))
            if not top >= np.abs(D).max() - (1e-9 * np.linalg.norm(D) + _form_tol(Yi, eps)):
                return FAIL(f'max(|y_min|, |y_max|) = {top!r} < max |D| = {np.abs(D).max()!r}')
    return PASS


def _func_form(A, form):
    Z, Ai = gen.tt_form(A, form)
    return Z, [G.reshape(-1) for G in Ai]


@clause('C15.input_form.func', funcs=('optima_func.optima_func_tt_beam',))
def input_form_func(n, seed, fam, k, form, kform, call='kw'):
    """optima_func_tt_beam on a rank-1 coefficient tensor in another input form (float32 / Fortran order / views / read-only /
    tuple of cores), k and k_loc as NumPy integers, keyword or positional (A, k, k_loc, ret_all) call: the point lies in the
    cube and maximises |interpolant| of the float64 image of the coefficients (relative tolerance 1e-6 as in
    C15.optima_func.rank1); ret_all rows inside the cube, row 0 = the answer; the argument is left unchanged."""
    if k > 1 and fam != 'dominant':
        return SKIP('k > 1 with roots inside the cube')
    cs = _func_coefs(n, seed, 'int', fam)
    Z, csi = _func_form(_func_tt(cs), form)
    snap = gen.snapshot(list(Z))
    kk, kl = gen.num_form(int(k), kform), gen.num_form(2, kform)
    if call == 'pos':
        x = teneva.optima_func_tt_beam(Z, kk, kl, False)
        X = teneva.optima_func_tt_beam(Z, kk, kl, True)
    else:
        x = teneva.optima_func_tt_beam(Z, k=kk, k_loc=kl)
        X = teneva.optima_func_tt_beam(Z, k=kk, k_loc=kl, ret_all=True)
    msg = _func_check(x, csi)
    if msg:
        return FAIL(msg)
    if X.ndim != 2 or X.shape[1] != len(n) or not 1 <= X.shape[0] <= k or not np.array_equal(X[0], x) \
            or not np.all(np.abs(X) <= 1.):
        return FAIL(f'ret_all: shape {X.shape}, first row {X[0].tolist()} vs {x.tolist()}')
    if gen.snapshot(list(Z)) != snap:
        return FAIL('optima_func_tt_beam changed its argument')
    return PASS


@clause('C15.optima_func.rank1.integer_cores', funcs=('optima_func.optima_func_tt_beam',))
def optima_func_rank1_integer_cores(n, seed, fam, k, form):
    """POSSIBLE DEFECT: the rank-1 coefficient tensor stored in cores of INTEGER dtype (e.g. np.array([1, -2, 3]).reshape(1, -1, 1)):
    the routine returns a maximiser of |interpolant| in the cube, like for the float copy of the same cores.  (On the pinned
    tree: `G[:, 0, :] *= np.sqrt(2.)` on the copied integer cores -> UFuncTypeError.)"""
    if k > 1 and fam != 'dominant':
        return SKIP('k > 1 with roots inside the cube')
    cs = _func_coefs(n, seed, 'int', fam)
    Z, csi = _func_form(_func_tt(cs), form)
    x = teneva.optima_func_tt_beam(Z, k=k)
    msg = _func_check(x, csi)
    return FAIL(msg) if msg else PASS


# ------------------------------------------------------------------ case list

def cases(tier, seed):
    big = tier == 'thorough'
    g = gen.rng('C15.cases', seed)

    def s():
        return int(g.integers(1 << 30))

    shapes = [[2, 2], [3, 4], [1, 3], [4, 1], [2, 3, 2], [3, 1, 3], [4, 2, 3], [2, 2, 2, 2], [1, 1], [3, 2, 1, 2]]
    if big:
        shapes += [[5, 5], [2, 5, 3], [4, 4, 4], [3, 2, 2, 3], [1, 1, 1]]
    kinds = ('gauss', 'int', 'ties', 'signs', 'const', 'zero')
    for shape in shapes:
        N = int(np.prod(shape))
        for kind in kinds:
            for r in ((1, 2, 3, 4) if big else (1, 2, 3)):
                for sd in ((1, 2, 3) if big else (1, 2)):
                    for extra in (0, 3):
                        p = dict(shape=shape, r=r, kind=kind, seed=sd, extra=extra)
                        yield 'C15.beam.full', p
                        yield 'C15.max.full', p
                        yield 'C15.optima_tt.full', p
                    for k in sorted({1, 2, 3, max(1, N - 1), N + 1}):
                        yield 'C15.beam.valid', dict(shape=shape, r=r, kind=kind, seed=sd, k=k)
                        yield 'C15.optima_tt.valid', dict(shape=shape, r=r, kind=kind, seed=sd, k=k)
            for sd in ((1, 2, 3, 4) if big else (1, 2)):
                for k in sorted({1, 2, 3, max(1, N - 1), N}):
                    yield 'C15.rank1.max_modulus', dict(shape=shape, kind=kind, seed=sd, k=k)
    # rank 1, pruned beam: the known defect (Gaussian: about 2 % of the cases at k = 1)
    for (shape, sd, k) in (([4, 3, 4], 62, 1), ([4, 3, 4], 97, 2), ([3, 3, 3, 3], 63, 1), ([4, 4, 4, 4], 22, 1),
                           ([4, 4, 4, 4], 22, 2), ([3, 3, 3, 3, 3], 1, 1)):     # failing on the pinned tree
        yield 'C15.optima_tt.rank1.opposite', dict(shape=shape, kind='gauss', seed=sd, k=k)
    for shape in ([3, 3, 3, 3], [4, 4, 4, 4], [3, 3, 3, 3, 3], [2, 3], [3, 4, 2]):
        for sd in range(1, 41 if big else 21):
            for k in (1, 2):
                yield 'C15.optima_tt.rank1.opposite', dict(shape=shape, kind=('gauss', 'int')[sd % 5 == 0], seed=sd, k=k)
                yield 'C15.rank1.max_modulus', dict(shape=shape, kind=('gauss', 'int')[sd % 5 == 0], seed=sd, k=k)
    for rep in range(400 if big else 100):
        d = int(g.integers(2, 6))
        shape = [int(g.integers(2, 5)) for _ in range(d)]
        N = int(np.prod(shape))
        k = int(g.choice([1, 1, 2, 5]))
        if k >= N:
            k = 1
        yield 'C15.optima_tt.rank1.opposite', dict(shape=shape, kind=('gauss', 'gauss', 'int')[rep % 3], seed=s(), k=k)
        yield 'C15.rank1.max_modulus', dict(shape=shape, kind=('gauss', 'gauss', 'int')[rep % 3], seed=s(), k=k)
    # random full-beam cases
    for rep in range(400 if big else 100):
        d = int(g.integers(2, 5))
        shape = [int(g.integers(1, 5)) for _ in range(d)]
        p = dict(shape=shape, r=int(g.integers(1, 5)), kind=kinds[int(g.integers(4))], seed=s(), extra=int(g.integers(0, 4)))
        yield 'C15.beam.full', p
        yield 'C15.optima_tt.full', p
    # ---- parameter / regime coverage (audit): overall scale 2^mag (exact re-scaling, the integer kinds stay exact).
    # beam / max work on the stabilised orthogonalisation; optima_tt squares the shifted tensor (half the exponent range)
    sc_shapes = [[3, 4], [2, 3, 2], [2, 2, 2, 2]] + ([[4, 1, 3], [5, 5], [2, 2, 3, 2]] if big else [])
    for shape in sc_shapes:
        N = int(np.prod(shape))
        for kind in ('gauss', 'int', 'ties', 'signs', 'const', 'zero') if big else ('gauss', 'int', 'ties'):
            for r in ((1, 2, 3) if big else (1, 3)):
                for mag in ((-664, -332, -27, -13, 13, 27, 332, 664) if big else (-332, -27, 27, 332)):
                    p = dict(shape=shape, r=r, kind=kind, seed=1 + abs(mag) % 3, extra=0, mag=mag)
                    yield 'C15.beam.full', p
                    yield 'C15.max.full', p
                    yield 'C15.optima_tt.full', dict(p, mag=mag // 2)
                    for k in ((1, 2) if big else (2,)):
                        yield 'C15.beam.valid', dict(shape=shape, r=r, kind=kind, seed=1, k=k, mag=mag)
                        yield 'C15.optima_tt.valid', dict(shape=shape, r=r, kind=kind, seed=1, k=k, mag=mag // 2)
                    if r == 1:
                        for k in ((1, 2, N) if big else (1,)):
                            yield 'C15.rank1.max_modulus', dict(shape=shape, kind=kind, seed=2, k=k, mag=mag // 2)
    for kind in ('gauss', 'int'):                       # squares of the partial products beyond the double range
        for mag in (-664, 664):
            p = dict(shape=[3, 4], r=2, kind=kind, seed=3, extra=0, mag=mag)
            yield 'C15.beam.full', p
            yield 'C15.max.full', p
    # large mode sizes (> 255, >= 512) and more modes with a full beam
    lg_shapes = [[300, 2], [2, 520], [260, 3, 2], [2] * 10] + ([[520, 520], [2] * 12, [3] * 7, [1030, 2, 2]] if big else [])
    for shape in lg_shapes:
        for kind in ('gauss', 'int', 'ties'):
            for r in (1, 2):
                p = dict(shape=shape, r=r, kind=kind, seed=1, extra=0)
                yield 'C15.beam.full', p
                yield 'C15.max.full', p
                yield 'C15.optima_tt.full', p
                yield 'C15.beam.valid', dict(shape=shape, r=r, kind=kind, seed=1, k=3)
    # to_orth=False / p (the tensor is used as it is)
    for shape in ([2, 2], [3, 4], [4, 1], [2, 3, 2], [2, 2, 2, 2]) + (([3, 1, 3], [4, 2, 3], [5, 5]) if big else ()):
        for kind in kinds:
            for r in (1, 3):
                for p_ in (None, 0, 5, -3, 'stab'):
                    for k in ((1, 2, 0, -3) if big or kind in ('gauss', 'int') else (1, 0)):
                        for mag in ((0, -27, 332) if big else (0, 332) if p_ in (None, 'stab') and k < 2 else (0,)):
                            yield 'C15.beam.no_orth', dict(shape=shape, r=r, kind=kind, seed=1 + (k + r) % 2, k=k, p=p_, mag=mag)
    # DOUBTFUL (disabled): optima_tt_beam(to_orth=False) multiplies the boundary core of the CALLER's tensor by 2^(p/d)
    # in place (the undocumented parameters to_orth / p; `Q *= 2**p0` on a reshape view of Y[0] / Y[-1]).
    # yield 'C15.beam.no_orth', dict(shape=[3, 4], r=2, kind='gauss', seed=1, k=100, p=None, untouched=True)
    # ---- input FORMS (f4-forms): the same reference checks on tensors / numbers passed in another form
    fshp = [([3, 4], 2), ([2, 3, 2], 3), ([3, 2, 2, 2], 2), ([4, 1, 3], 1)] + ([([2, 2], 1), ([5, 5], 4), ([2, 3, 2, 2], 3)] if big else [])
    kfs = ('py', 'np64', 'np32', '0d')
    j = 0
    for (shape, r) in fshp:
        for form in TT_FORMS:
            ints = form.split('+')[0] in ('i64', 'i32', 'imixed')
            for kind in (('int', 'signs', 'ties') if ints else ('int', 'signs', 'gauss')):
                for full in (True, False):
                    if not big and not full and (j % 3):
                        j += 1
                        continue
                    j += 1
                    yield 'C15.input_form.tt', dict(shape=shape, r=r, kind=kind, seed=1 + j % 3, form=form, kform=kfs[j % 4], full=full,
                                                    call=('kw', 'pos')[j % 2])
    for sd in range(1, 13 if big else 7):            # integer cores, all entries of one sign, d = 3, 4: the shift by the constant tensor
        for form in ('i64', 'i32', 'imixed'):
            yield 'C15.input_form.tt', dict(shape=[[2, 3, 2], [2, 2, 2, 2], [3, 2, 2, 2]][sd % 3], r=1 + sd % 3, kind='signs', seed=sd, form=form,
                                            kform='np64', full=True, call='pos')
    j = 0
    for (d, q) in ((2, 2), (2, 3)) + (((3, 2), (2, 1)) if big else ()):
        for form in TT_FORMS:
            ints = form.split('+')[0] in ('i64', 'i32', 'imixed')
            for kind in (('int', 'ties') if ints else ('int', 'gauss')):
                for nform in ('py', 'np64', 'np32', '0d', 'rfloat', 'rf32'):
                    j += 1
                    if not big and j % 3:
                        continue
                    yield 'C15.input_form.qtt', dict(d=d, q=q, r=3, kind=kind, seed=1 + j % 2, form=form, nform=nform, full=bool(j % 4),
                                                     cap=(0, 0, 2, 1)[(j // 3) % 4], call=('kw', 'pos')[(j // 3) % 2])
    j = 0
    for n in ([3, 3], [2, 5], [3, 4, 2]) + (([5, 3, 4], [2, 2, 2, 2]) if big else ()):
        for form in ('f32', 'F', 'V', 'ro', 'tuple', 'f32+F+tuple'):
            for (fam, k) in (('free', 1), ('dominant', 1), ('dominant', 3)):
                j += 1
                yield 'C15.input_form.func', dict(n=n, seed=1 + j % 3, fam=fam, k=k, form=form, kform=kfs[j % 3], call=('kw', 'pos')[j % 2])
        for form in (('i64', 'i32', 'imixed') if big else ('i64', 'imixed')[:1 + (len(n) == 3)]):     # fails on the pinned tree (possible defect)
            for (fam, k) in (('free', 1), ('dominant', 3)):
                yield 'C15.optima_func.rank1.integer_cores', dict(n=n, seed=1, fam=fam, k=k, form=form)
    # many modes: d >= 63 (element count beyond int64), no dense reference
    for d in ((20, 64, 70, 200, 500) if big else (20, 70)):
        for n in ((2, 3, [2, 3, 1]) if big else (2, [2, 3, 1])):
            for r in (1, 2, 3):
                for kind in ('gauss', 'int'):
                    if kind == 'int' and r > 1 and d > 20:
                        continue                         # products of integer matrices beyond 2^53
                    for k in ((1, 3, 10) if r == 1 else (3,)):
                        for mag in ((0, -600, 600) if r == 1 and k == 3 and kind == 'gauss' else (0,)):
                            yield 'C15.many_modes', dict(d=d, n=n, r=r, kind=kind, seed=d + k, k=k, mag=mag)
    # quantised variant: accuracy e / rank cap r given explicitly
    for d, q in (((2, 2), (2, 3), (3, 2)) if big else ((2, 2), (2, 3))):
        for kind in ('gauss', 'int', 'ties'):
            for sd in ((1, 2, 3) if big else (1, 2)):
                for (e, rcap) in ((1e-14, None), (None, 1e12), (None, 64), (1e-12, 100), (1e-13, 16.)):   # not binding
                    yield 'C15.optima_qtt.full', dict(d=d, q=q, r=3, kind=kind, seed=sd, extra=0, e=e, rcap=rcap)
                for mag in (-200, -27, 27, 200):      # e is an ABSOLUTE accuracy per TT-core: scaled along with the cores
                    e = 1e-12 * 2. ** min(0, mag // d)
                    yield 'C15.optima_qtt.full', dict(d=d, q=q, r=3, kind=kind, seed=sd, extra=0, mag=mag, e=e)
                    yield 'C15.optima_qtt.full', dict(d=d, q=q, r=3, kind=kind, seed=sd, extra=0, mag=abs(mag))
                    yield 'C15.optima_qtt.capped.ordered', dict(d=d, q=q, r=3, kind=kind, seed=sd, k=2, mag=mag, e=e)
                for (e, rcap) in ((None, 1), (None, 2), (0.3, None), (0.9, 1), (None, 2.)):                # binding
                    for k in (1, 3, 100):
                        yield 'C15.optima_qtt.valid', dict(d=d, q=q, r=3, kind=kind, seed=sd, k=k, e=e, rcap=rcap)
    for sd in range(1, 61 if big else 21):
        for rcap in (1, 2):
            yield 'C15.optima_qtt.capped.ordered', dict(d=2, q=3, r=3, kind=('gauss', 'int')[sd % 4 == 0], seed=sd, k=(1, 3, 100)[sd % 3], rcap=rcap)
        yield 'C15.optima_qtt.capped.ordered', dict(d=2, q=2, r=3, kind='gauss', seed=sd, k=(1, 3, 100)[sd % 3], e=0.5)
    yield 'C15.optima_qtt.capped.ordered', dict(d=2, q=3, r=3, kind='gauss', seed=94, k=100, rcap=1)   # fails (finding)
    # quantised variant, large q (mode sizes 512, 1024; up to 2^30 elements): QTT-rank-1 tensors
    for d in (2, 3):
        for q in ((1, 2, 3, 5, 8, 9, 10) if big else (1, 9, 10) if d == 2 else (3, 10)):
            for kind in ('gauss', 'int'):
                for k in ((1, 2, 5) if big else (1, 3)):
                    for rcap in (None, 1):
                        yield 'C15.optima_qtt.kron', dict(d=d, q=q, seed=q + k, k=k, kind=kind, rcap=rcap)
                yield 'C15.optima_qtt.kron', dict(d=d, q=q, seed=q, k=2, kind=kind, mag=-30)    # stays clear of e = 1e-12
                yield 'C15.optima_qtt.kron', dict(d=d, q=q, seed=q, k=2, kind=kind, mag=60)
    # quantised variant
    for d in (1, 2, 3):
        for q in ((1, 2, 3) if big else (1, 2)):
            if d == 1 and q == 1 or d * q > 6:
                continue
            for kind in kinds:
                for r in (1, 3):
                    for sd in (1, 2):
                        if d >= 2:
                            for extra in (0, 5):
                                yield 'C15.optima_qtt.full', dict(d=d, q=q, r=r, kind=kind, seed=sd, extra=extra)
                            for k in (1, 2, 7):
                                yield 'C15.optima_qtt.valid', dict(d=d, q=q, r=r, kind=kind, seed=sd, k=k)
    for shape in ([2, 2], [4, 4, 4], [2, 4], [3, 3], [4, 4, 2], [6, 6], [8, 8], [5, 4], [2, 2, 2, 3]):
        yield 'C15.optima_qtt.reject', dict(shape=shape, seed=1)
    # functional variant
    fshapes = [[2, 2], [3, 3], [2, 5], [4, 2], [3, 4, 2], [2, 2, 2], [5, 3, 4]]
    if big:
        fshapes += [[6, 6], [2, 6, 2], [4, 4, 4]]
    for n in fshapes:
        for kind in ('gauss', 'int'):
            for sd in ((1, 2, 3, 4, 5, 6) if big else (1, 2, 3)):
                yield 'C15.optima_func.rank1', dict(n=n, seed=sd, kind=kind, fam='free', k=1)
                for k in (1, 2, 3, 10):
                    yield 'C15.optima_func.rank1', dict(n=n, seed=sd, kind=kind, fam='dominant', k=k)
    for rep in range(150 if big else 40):
        n = [int(g.integers(2, 7)) for _ in range(int(g.integers(2, 4)))]
        yield 'C15.optima_func.rank1', dict(n=n, seed=s(), kind=('gauss', 'int')[rep % 2], fam='free', k=1)
        yield 'C15.optima_func.rank1', dict(n=n, seed=s(), kind=('gauss', 'int')[rep % 2], fam='dominant',
                                            k=int(g.choice([2, 3, 10])))
    # functional variant: k_loc, overall scale of the coefficients, redundant rank-2 storage, more modes
    for n in ([2, 2], [3, 4, 2], [5, 3, 4], [3, 2, 4, 3, 2, 3]) + (([6, 6], [4, 4, 4], [2] * 8) if big else ()):
        for kind in ('gauss', 'int'):
            for sd in ((1, 2, 3) if big else (1,)):
                for k_loc in (1, 2, 5):
                    yield 'C15.optima_func.rank1', dict(n=n, seed=sd, kind=kind, fam='free', k=1, k_loc=k_loc)
                    for k in ((1, 3, 10) if big else (1, 3)):
                        yield 'C15.optima_func.rank1', dict(n=n, seed=sd, kind=kind, fam='dominant', k=k, k_loc=k_loc)
                for mag in (-100, -27, 27, 100):
                    yield 'C15.optima_func.rank1', dict(n=n, seed=sd, kind=kind, fam='free', k=1, mag=mag)
                    yield 'C15.optima_func.rank1', dict(n=n, seed=sd, kind=kind, fam='dominant', k=3, mag=mag)
                yield 'C15.optima_func.rank1', dict(n=n, seed=sd, kind=kind, fam='free', k=1, rep='redundant')
                for k in (1, 3):
                    yield 'C15.optima_func.rank1', dict(n=n, seed=sd, kind=kind, fam='dominant', k=k, rep='redundant')
    for n in ([1, 3], [3, 1], [2, 1, 3], [1, 1]):                  # a mode of size 1 is a constant mode
        for mode in [j for j in range(len(n)) if n[j] == 1]:
            for k in (1, 3):
                yield 'C15.optima_func.rank1.constant_mode', dict(n=n, mode=mode, seed=1, k=k)
    for n in ([2, 2], [3, 4], [4, 2, 3]):
        for mode in range(len(n)):
            for k in (1, 3):
                yield 'C15.optima_func.rank1.constant_mode', dict(n=n, mode=mode, seed=1, k=k)
    for n in ([2, 2], [2, 5], [2, 3, 2]):
        for (c0, c1) in ((1., -1.), (0.5, 2.), (0., 3.), (-1., 2.), (0.565651847104875, 2.6645741194157955)):
            for k in (3, 10):
                yield 'C15.optima_func.rank1.n2', dict(n=n, c0=c0, c1=c1, seed=1, k=k)
    for sd in range(1, 41 if big else 21):                        # Gaussian coefficients with the root inside
        gg = gen.rng('C15.n2', sd)
        c1 = float(gg.normal())
        c0 = float(gg.uniform(-1, 1)) * abs(c1)
        yield 'C15.optima_func.rank1.n2', dict(n=[2, 2 + sd % 4] + ([3] if sd % 2 else []), c0=c0, c1=c1, seed=sd, k=3)
