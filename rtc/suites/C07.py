"""C07 (bounded, T3): TT-ALS descends, is optimal per core, and ignores sample order.

Objective (derived from als._lstsq / als._optimize_core: every slice Q[:, j, :] of the core being updated solves
the ridge normal equations (A^T W A + lamb I) x = A^T W y over the samples that carry index j, A = rows
kron(left interface, right interface)):

    F(Y) = sum_s w_s (Y[I_s] - y_s)^2 + lamb * sum_k ||Y_k||_F^2          (w_s = 1 without weights)

and for the functional version (als_func._optimize_core solves one ridge system for the whole core)

    F(A) = sum_s (sum_j A[j] prod_k T_{j_k}(x~_{s,k}) - y_s)^2 + lamb * sum_k ||A_k||_F^2 ,  x~ = Chebyshev-scaled x.

Both are evaluated here by own einsum chains / numpy.polynomial.chebyshev (no teneva function in the oracle).
In constant-rank mode a sweep updates cores 0..d-2 (left to right) and d-1..1 (right to left): the core
updated last is core 1.

Clauses (als, index version):
* C07.als.constant_rank_shape     shapes and ranks of Y0 are kept, result well-formed and finite.
* C07.als.descent                 F after sweep t+1 <= F after sweep t (callback trajectory), F after sweep 1 <= F(Y0).
* C07.als.last_core_optimal       every trained slice of core 1 satisfies its normal equations given the other
                                  returned cores (relative residual 1e-10) and random perturbations do not lower F.
* C07.als.restart                 a+b sweeps == a sweeps, restart, b sweeps; every split of the total.
* C07.als.permutation             permuting the sample list (and weights) does not change the result.
* C07.als.duplicates_as_weights   listing sample s c_s times == weight c_s (duplicates anywhere in the list).
* C07.als.single_sample_slice     a slice covered by ONE sample at list position p >= 1: same result as with that
                                  sample listed elsewhere, and (slice of core 1) it is at its minimiser.
* C07.als.single_sample_slice_pos0  the same with p = 0 -- KNOWN DEFECT of the pinned tree (DESIGN section 7:
                                  `if not idx.any()` tests sample positions, the slice is never trained).
* C07.als.adaptive_ranks          r given, d >= 3, initial ranks <= r: same mode sizes, ranks <= r, finite.
* C07.als.missing_slice           a slice without sample -> ValueError (both modes) unless allow_skip_cores=True,
                                  then the untrained slice keeps its initial value and the rest is as specified.
* C07.als.info_stop               info['nswp'] == executed sweeps (callback calls); stop is 'nswp' after exactly
                                  nswp sweeps, 'e' / 'e_vld' when such a threshold is met, 'cb' right after the sweep at
                                  which the callback returned True (for every sweep); priority cb > e_vld > e > nswp.
Clauses (als_func, Chebyshev basis):
* C07.als_func.descent            shapes / ranks kept; F non-increasing over nswp = 1, 2, ... (no callback there).
* C07.als_func.last_core_optimal  core 1 satisfies the ridge normal equations of the whole core.
* C07.als_func.restart            a+b sweeps == a sweeps then b sweeps.
* C07.als_func.permutation        sample order does not matter.
* C07.als_func.info_stop          info['nswp'] / info['stop'] for nswp, e, e_vld; the result is the one of that many sweeps.

Clauses added by the parameter-coverage audit:
* C07.als.adaptive_use_stab       rank-adaptive mode with the documented flag use_stab=True: contract of adaptive_ranks.
* C07.als.adaptive_swap           rank-adaptive mode with allow_swap=True (validation data = multi-index 0, valid in any
                                  mode order): well-formed finite tensor, mode sizes a reordering of the original ones,
                                  ranks <= r, info, training data untouched.
* C07.als.adaptive_swap_vld       the same with general validation multi-indices and modes of different size.
* C07.als.adaptive_swap_no_vld    the same without validation data.
* C07.als.update_sol              update_sol=True (ridge-damped corrections): shapes / ranks kept, the weighted data misfit
                                  never increases from sweep to sweep, rejected together with r.
* C07.als.defaults                nswp / e / lamb / info left out: <= 50 sweeps, documented stop, objective with the
                                  documented lamb = 0.001 not above F(Y0), core 1 optimal, shared default info harmless.
* C07.als_func.update_sol / C07.als_func.defaults   the same for the functional version (a=-1, b=1, lamb=1e-3).
* C07.als.info_stop_no_vld / C07.als_func.info_stop_no_vld   (gap closure) a threshold for a stop criterion that cannot be
                                  evaluated: e_vld in {0, 1e-6, 1, 1e10} WITHOUT a complete validation set (none / only the
                                  points / only the values; accuracy_on_data documents the sentinel -1): never stop 'e_vld',
                                  sweep count, stop reason and tensor equal those of the call without e_vld (alone, with a
                                  huge e, with a stopping callback, nswp = 0; constant-rank and adaptive mode).
* C07.als.adaptive_lone_pair      (gap closure, input FORMS of the training list) rank-adaptive mode on SPARSE lists: a pair of
                                  neighbouring indices (i_k, i_k+1) - the unit of the two-core solve - covered by exactly ONE
                                  sample that stands first / last / in the middle / second (thorough: anywhere) in the list, at
                                  one bond (each in turn) or at all bonds, other pairs covered twice or once: contract of the
                                  adaptive mode; the same samples in another random order denote the same tensor (<= 1e5 eps
                                  kappa2, kappa2 = condition of the pair systems; observed <= 1.2e2 over 12000 cases); without
                                  truncation (r = full rank, e_adap <= 1e-12) the tensor changes when the lone value changes.
Every general clause takes an optional `opt` dictionary (see _problem / _als / _fproblem / _alsf): the same problem
at another absolute scale (y -> c y, cores of Y0 -> c^(1/d), lamb -> c^(2(d-1)/d) lamb; c = 1e-12 .. 1e12), y or Y0
alone scaled by 1e+-3 .. 1e+-12, nested-list / int8 / int32 / float32 argument forms, Fortran-ordered and
non-contiguous cores, keyword arguments that must be inert in the constant-rank mode (use_stab, allow_skip_cores
with complete data, swap_tol, e_adap, r_add) and log=True, weights with exact zeros, integer-typed weights; further
lamb in {1e-13 .. 1e6}, d = 5, 6 (8 thorough), mode sizes 12 (30 thorough), ranks 4, 5 on cores that cannot carry
them, single-sample slices with a weight vector; adaptive mode with e_adap in {1e-1, 1e-12}, r_add in {0, 2}, ragged
initial rank profiles, scaled data; als_func with own basis functions (fh: one function / a list of d functions).

Input FORMS (opt keys y0 / iform / yform / wform / num / call of _als, a0 / xform / yform / num / call of _alsf; the problem seen by
the oracles is the float64 image of what is passed): value-preserving forms - Y0 / A0 as tuple, read-only, Fortran-ordered,
non-contiguous cores; I as uint8 / int32 / Fortran-ordered / non-contiguous / read-only array or tuple of tuples; y as int64 array /
list of Python ints (integer-valued data) / view / read-only; w as float32 / view / read-only; nswp, e, e_vld, r, r_add, e_adap,
lamb (a, b, n_max) as np.int64 / np.float64, np.int32 / np.float32 (lamb a float32 value), 0-d arrays; nswp, e, info positionally -
run through shape, descent, last-core optimality, restart, permutation, duplicates, adaptive ranks, info_stop (als) and descent,
optimality, restart, permutation (als_func) with the unchanged tolerances; rounding forms - float32 cores everywhere / at even /
at odd positions: shape, adaptive ranks, info_stop, and last-core optimality (residual 1e-10 when core 1 is float64; the
unchanged library returns a float32 core for a float32 core of Y0, i.e. the float32 rounding of the minimiser: 1e-6 then).
C07.als.y0_integer_dtype (replay only, DOUBTFUL): an integer-dtype start raises in the constant-rank mode.

Samples: every general clause uses training lists in which the sample at position 0 is not the only sample of
any slice (single-sample slices at positions >= 1 do occur), so that the known defect is confined to its clause.
Tolerances: every core update solves ridge systems of condition kappa = (|A^T W A| + lamb) / lamb with a
backward-stable solver, so mathematically equal runs differ by a multiple of eps * kappa (kappa is computed here
from the initial and the final tensors): "same result" means <= 1e5 eps kappa for the denoted tensor and
<= 1e6 eps kappa for the cores; cases with kappa > 1e6 are SKIPped (conditioning rule).  Optimality uses the
relative residual of the normal equations (1e-10), descent a relative slack of 1e-10.
"""
import itertools
import numpy as np
from numpy.polynomial import chebyshev as _cheb
import teneva
from rtc.api import clause, PASS, FAIL, TRIVIAL, SKIP, check
from rtc import gen


BUDGET = (60, 600)
BOUNDS = ('als: d in 2..4 (5, 6; 8 thorough), n_k in 1..4 (12; 30 thorough), ranks 1..3 (4, 5 over-ranked), <= 80 samples '
          '(Gaussian values), lamb in 1e-4..1 (and 1e-10, 1e-7, 10, 1e3; 1e-13, 1e6 thorough), with / without weights '
          '(zeros, integer-typed), 4 sweeps (quick) / up to 8 (thorough); problem scale c in 1e-12..1e8 (1e12 thorough), '
          'y / Y0 scale 1e+-3..1e+-6 (1e+-12 thorough); list / int8 / int32 / float32 forms, F-ordered / non-contiguous '
          'cores, inert keyword arguments, log=True, default arguments; single-sample slice at every list position of '
          'lists with <= 14 samples for every mode (also weighted); adaptive mode: e_adap {1e-1,1e-3,1e-12}, r_add '
          '{0,1,2,1e4}, use_stab, allow_swap (3-5 modes of different size, 12 + 5 cases quick); update_sol; als_func: '
          'd in 2..4, n in 2..4 Chebyshev modes or own basis functions (monomials / cosines), 30..60 points; e_vld in '
          '{0,1e-6,1,1e10} without / with half a validation set (als: 5 shapes, both modes; als_func: 3 configurations); '
          'adaptive mode on sparse lists: a pair of neighbouring indices with ONE sample at list position first / last / middle / '
          'second (thorough: any), every bond of 4 shapes (13 thorough, d = 3..5), alone at one bond / at all bonds, other pairs '
          'covered 2x / 1x (+6 random samples), rank cap binding (r < n_0, n_d-1) or no truncation (r = full, e_adap 0 / 1e-14); input '
          'forms: 18 value-preserving combinations (tuple / read-only / F / view cores, uint8 / int32 / F / view / tuple indices, int '
          'values, float32 / view weights, NumPy-scalar / 0-d options, positional nswp / e / info) x 2 (4 thorough) shapes through 8 '
          'als clauses, 4 float32-core forms x 4 shapes through 4 clauses, 15 forms of als_func through 4 clauses (323 quick cases)')

ALS = ('als.als', 'als._optimize_core', 'als._lstsq', 'utils._info_appr')
ALSF = ('als_func.als_func', 'als_func._optimize_core', 'utils._info_appr')


# ----------------------------------------------------------------------------------------------- oracles

def _vals(Y, I):
    v = np.ones((len(I), 1))
    for k, G in enumerate(Y):
        v = np.einsum('sa,asb->sb', v, G[:, I[:, k], :])
    return v[:, 0]


def _obj(Y, I, y, lamb, w=None):
    r = _vals(Y, I) - y
    ww = 1.0 if w is None else w
    return float(np.sum(ww * r * r) + (lamb or 0.0) * sum(float(np.sum(G * G)) for G in Y))


def _interfaces(Y, I, k):
    m, d = len(I), len(Y)
    L = np.ones((m, 1))
    for q in range(k):
        L = np.einsum('sa,asb->sb', L, Y[q][:, I[:, q], :])
    R = np.ones((m, 1))
    for q in range(d - 1, k, -1):
        R = np.einsum('asb,sb->sa', Y[q][:, I[:, q], :], R)
    return L, R


def _slice_residuals(Y, I, y, lamb, w, k):
    """Relative residual of the per-slice normal equations of core k: {slice: residual}."""
    L, R = _interfaces(Y, I, k)
    ww = np.ones(len(I)) if w is None else w
    out = {}
    for j in range(Y[k].shape[1]):
        idx = np.where(I[:, k] == j)[0]
        if not len(idx):
            continue
        A = (L[idx][:, :, None] * R[idx][:, None, :]).reshape(len(idx), -1)
        x = Y[k][:, j, :].reshape(-1)
        W = ww[idx]
        grad = A.T @ (W * (A @ x - y[idx])) + lamb * x
        scale = np.abs(A.T) @ (W * (np.abs(A) @ np.abs(x) + np.abs(y[idx]))) + lamb * np.abs(x)
        out[j] = float(np.abs(grad).max() / max(scale.max(), 1e-300))
    return out


EPS = float(np.finfo(float).eps)
KAPPA_MAX = 1e6


def _kappa(Ys, I, lamb, w):
    """Largest condition number (|A^T W A| + lamb) / lamb of the per-slice ridge systems of all cores, evaluated at
    the given tensors (initial and final ones)."""
    ww = np.ones(len(I)) if w is None else np.asarray(w, dtype=float)
    kap = 1.0
    for Y in Ys:
        for k in range(len(Y)):
            L, R = _interfaces(Y, I, k)
            for j in range(Y[k].shape[1]):
                idx = np.where(I[:, k] == j)[0]
                if len(idx):
                    A = (L[idx][:, :, None] * R[idx][:, None, :]).reshape(len(idx), -1)
                    s = np.linalg.norm(np.sqrt(ww[idx])[:, None] * A, 2) ** 2
                    kap = max(kap, (s + lamb) / lamb)
    return float(kap)


def _same_result(Ya, Yb, kap, what):
    """"Same result up to rounding": every core update solves ridge systems of condition <= kap with a
    backward-stable solver, i.e. with relative error ~ eps * kap (in the weakly determined directions), so two
    mathematically equal runs may differ by a multiple of eps * kap (errors of early sweeps are propagated
    through the later ones).  Tolerance: 1e5 * eps * kap for the denoted tensor, 1e6 * eps * kap for the cores
    (observed over ~40000 random cases: <= 1.3e3 resp. <= 1.3e4).
    Returns a message or None."""
    if [G.shape for G in Ya] != [G.shape for G in Yb]:
        return f'{what}: core shapes differ {[G.shape for G in Ya]} vs {[G.shape for G in Yb]}'
    if not (gen.finite(Ya) and gen.finite(Yb)):
        return f'{what}: non-finite cores'
    A, B = gen.dense(Ya), gen.dense(Yb)
    dist, nrm = np.linalg.norm(A - B), np.linalg.norm(A)
    tol = 1e5 * EPS * kap
    if not dist <= tol * nrm + 1e-100:                  # floor: strong regularisation collapses both to ~0
        return f'{what}: denoted tensors differ, rel. {dist / max(nrm, 1e-300):.3e} > {tol:.1e} (kappa {kap:.1e})'
    sc = max(np.abs(G).max() for G in Ya)
    dcc = max(np.abs(P - Q).max() for P, Q in zip(Ya, Yb))
    tol = 1e6 * EPS * kap
    if not dcc <= tol * sc + 1e-100:
        return f'{what}: cores differ, rel. {dcc / max(sc, 1e-300):.3e} > {tol:.1e} (kappa {kap:.1e})'
    return None


def _nonfinite(*named):
    """Message if one of the (name, tensor) pairs - results of the library - has a non-finite entry, else None
    (checked BEFORE the conditioning rule: kappa is computed from these tensors, and a blown-up result must not
    be SKIPped as 'ill-conditioned')."""
    for what, Y in named:
        if not gen.finite(Y):
            return f'{what}: non-finite cores'
    return None


def _ill(kap):
    return SKIP(f'ill-conditioned case: ridge systems with condition {kap:.1e} > {KAPPA_MAX:.0e}')


# ----------------------------------------------------------------------------------------------- generators

def _front_safe(I):
    """Is the sample at position 0 accompanied by another sample in each of its slices?"""
    return all((I[1:, k] == I[0, k]).any() for k in range(I.shape[1]))


def _make_front_safe(I, g):
    """Reorder so that position 0 is safe (returns the permutation) or None if no sample qualifies."""
    if _front_safe(I):
        return np.arange(len(I))
    cand = [s for s in range(len(I)) if all(np.sum(I[:, k] == I[s, k]) >= 2 for k in range(I.shape[1]))]
    if not cand:
        return None
    s = cand[int(g.integers(len(cand)))]
    p = np.arange(len(I))
    p[0], p[s] = p[s], p[0]
    return p


def _trainset(n, m, seed, mult=1):
    """m random multi-indices plus `mult` samples for every slice of every mode, shuffled, position 0 safe."""
    g = gen.rng('C07trn', n, m, seed, mult)
    d = len(n)
    rows = [[int(g.integers(0, q)) for q in n] for _ in range(m)]
    for k in range(d):
        for j in range(n[k]):
            for _ in range(mult):
                row = [int(g.integers(0, q)) for q in n]
                row[k] = j
                rows.append(row)
    I = np.array(rows, dtype=int).reshape(-1, d)
    I = I[g.permutation(len(I))]
    p = _make_front_safe(I, g)
    if p is None:
        I = np.vstack([I, I[:1]])
    else:
        I = I[p]
    return I


def _problem(n, r, m, lamb, weighted, seed, mult=1, opt=None):
    """opt (all optional; see _als for the keys that only concern the call):
    c       equivalent rescaling of the whole problem: y -> c y, every core of Y0 -> c^(1/d) core and (see _lamb)
            lamb -> c^(2(d-1)/d) lamb; the objective is multiplied by c^2 and every iterate by c^(1/d) per core, so
            all clauses (incl. the conditioning rule) see the same problem at another absolute scale;
    yscale  factor on y only;  y0scale  factor on every core of Y0;
    wzero   every third weight is exactly zero (weighted problems);  f32  values y representable in float32."""
    opt = opt or {}
    I = _trainset(n, m, seed, mult)
    g = gen.rng('C07y', n, r, m, seed)
    y = g.normal(size=len(I))
    w = g.uniform(0.2, 3.0, size=len(I)) if weighted else None
    Y0 = gen.tt(n, r, seed, 'gauss')
    if w is not None and opt.get('wzero'):
        w[1::3] = 0.0
    c = float(opt.get('c', 1.0))
    y = y * (c * float(opt.get('yscale', 1.0)))
    f0 = c ** (1.0 / len(n)) * float(opt.get('y0scale', 1.0))
    if f0 != 1.0:
        Y0 = [G * f0 for G in Y0]
    if opt.get('form') == 'f32':
        y = y.astype(np.float32).astype(float)
    # input FORMS (see _als): the problem handed to the oracles is the float64 image of what _als passes
    if 'int' in str(opt.get('yform')):
        y = np.rint(3.0 * y)                    # integer-valued values (passed as int64 array / list of Python ints)
    if 'f32' in str(opt.get('yform')):
        y = y.astype(np.float32).astype(float)
    if w is not None and 'f32' in str(opt.get('wform')):
        w = w.astype(np.float32).astype(float)
    if opt.get('y0'):
        if any(t in opt['y0'] for t in ('i64', 'i32', 'imixed')):
            Y0 = [np.rint(3.0 * G) for G in Y0]
        Y0 = gen.tt_form(Y0, opt['y0'])[1]
    return I, y, w, Y0


def _lamb(lamb, d, opt):
    c = float((opt or {}).get('c', 1.0))
    return lamb * c ** (2.0 * (d - 1) / d) if c != 1.0 else lamb


def _layout(Y, order):
    if order == 'F':
        return [np.asfortranarray(G) for G in Y]
    if order == 'V':
        out = []
        for G in Y:
            big = np.full((2 * G.shape[0], 2 * G.shape[1], 2 * G.shape[2] + 1), 3.25)
            big[1::2, ::2, 1::2] = G
            out.append(big[1::2, ::2, 1::2])
        return out
    return Y


def _als(opt, I, y, Y0, **kw):
    """teneva.als with the argument forms / extra keyword arguments named in opt:
    form   'list' (I, y, I_vld, y_vld as nested Python lists), 'i32' (int32 indices), 'f32' (float32 values),
           'i8' (int8 indices);
    order  memory layout of the cores of Y0: 'F' or 'V' (non-contiguous views);
    wint   integer-typed weight vector (only used with integer-valued weights);
    y0     form of the cores of Y0 (gen.tt_form: 'f32', 'mixed' = cores 0, 2, .. float32, 'mixed1', 'ro', 'F', 'V', 'tuple', joined
           by '+'; float32 cores hold the float32 rounding of what _problem returned - _problem rounds first);
    iform  form of I (and I_vld) (gen.idx_form: 'i32', 'u8', 'F', 'V', 'ro', 'list', 'tuple' joined by '+');
    yform  form of y (and y_vld) (gen.val_form: 'int' / 'intlist' (integer-valued y only, else left as it is), 'f32', 'V', 'ro', 'list');
    wform  form of the weight vector ('f32', 'V', 'ro');
    num    'np64' / 'np32' / '0d': nswp, e, e_vld, r, r_add, e_adap, lamb, swap_tol as NumPy scalars / 0-d arrays (a value that is
           no float32 / int32 value goes as 64-bit scalar);
    call   'pos': nswp, e, info positionally in the documented order (als(I, y, Y0, nswp, e, info, ...));
    kw     extra keyword arguments of als (e.g. use_stab, log, allow_skip_cores, swap_tol, e_adap, r_add);
           output of log=True / the experimental options is swallowed."""
    opt = opt or {}
    form = opt.get('form')
    w = kw.get('w')
    Iv, yv = kw.get('I_vld'), kw.get('y_vld')
    if form == 'list':
        I, y = np.asarray(I).tolist(), np.asarray(y).tolist()
        if Iv is not None:
            kw['I_vld'], kw['y_vld'] = np.asarray(Iv).tolist(), np.asarray(yv).tolist()
    elif form in ('i32', 'i8'):
        I = np.asarray(I).astype(np.int32 if form == 'i32' else np.int8)
    elif form == 'f32':
        y = np.asarray(y).astype(np.float32)
    if w is not None and opt.get('wint'):
        kw['w'] = np.asarray(w).astype(int)
    Y0 = _layout(Y0, opt.get('order'))
    kw.update(opt.get('kw') or {})
    if opt.get('y0'):
        Y0 = gen.tt_form(Y0, opt['y0'])[0]
    if opt.get('iform'):
        I = gen.idx_form(I, opt['iform'])
        if kw.get('I_vld') is not None:
            kw['I_vld'] = gen.idx_form(kw['I_vld'], opt['iform'])
    if opt.get('yform'):
        def yf(v):
            v = np.asarray(v, dtype=float)
            spec = opt['yform']
            if 'int' in spec and not np.all(v == np.rint(v)):
                spec = '+'.join(t for t in spec.split('+') if t not in ('int', 'intlist'))
            return gen.val_form(v, spec)[0]
        y = yf(y)
        if kw.get('y_vld') is not None:
            kw['y_vld'] = yf(kw['y_vld'])
    if kw.get('w') is not None and opt.get('wform'):
        kw['w'] = np.asarray(gen.val_form(kw['w'], opt['wform'])[0])
    if opt.get('num'):
        kw = gen.num_kwargs(kw, opt['num'], ('nswp', 'e', 'e_vld', 'r', 'r_add', 'e_adap', 'lamb', 'swap_tol'))
    if opt.get('call') == 'pos':
        pos = (kw.pop('nswp', 50), kw.pop('e', 1.E-16), kw.pop('info', {}))
        inner = teneva.als
        if kw.get('log') or kw.get('allow_swap'):
            import contextlib, io
            with contextlib.redirect_stdout(io.StringIO()):
                return inner(I, y, Y0, *pos, **kw)
        return inner(I, y, Y0, *pos, **kw)
    if kw.get('log') or kw.get('allow_swap'):
        import contextlib, io
        with contextlib.redirect_stdout(io.StringIO()):
            return teneva.als(I, y, Y0, **kw)
    return teneva.als(I, y, Y0, **kw)


# ----------------------------------------------------------------------------------------------- als clauses

@clause('C07.als.constant_rank_shape', funcs=ALS)
def constant_rank_shape(n, r, m, lamb, weighted, nswp, seed, opt=None):
    """Constant-rank mode keeps the shapes and ranks of the initial approximation (r: int or rank profile)."""
    I, y, w, Y0 = _problem(n, r, m, lamb, weighted, seed, opt=opt)
    lamb = _lamb(lamb, len(n), opt)
    before = gen.snapshot(Y0)
    Y = _als(opt, I, y, Y0, nswp=nswp, e=None, lamb=lamb, w=w)
    msg = gen.wf(Y, n)
    if msg:
        return FAIL('not well-formed / other mode sizes: ' + msg)
    if [G.shape for G in Y] != [G.shape for G in Y0]:
        return FAIL(f'ranks changed: {[G.shape for G in Y0]} -> {[G.shape for G in Y]}')
    if not gen.finite(Y):
        return FAIL('non-finite cores')
    return check(gen.snapshot(Y0) == before, 'initial approximation was modified')


@clause('C07.als.descent', funcs=ALS)
def descent(n, r, m, lamb, weighted, nswp, seed, opt=None):
    """The regularised (weighted) objective never increases from sweep to sweep."""
    I, y, w, Y0 = _problem(n, r, m, lamb, weighted, seed, opt=opt)
    lamb = _lamb(lamb, len(n), opt)
    traj = [_obj(Y0, I, y, lamb, w)]

    def cb(Y, info, opts):
        traj.append(_obj(Y, I, y, lamb, w))

    Y = _als(opt, I, y, Y0, nswp=nswp, e=None, lamb=lamb, w=w, cb=cb)
    if len(traj) != nswp + 1:
        return FAIL(f'{len(traj) - 1} callback calls for {nswp} sweeps')
    if not abs(traj[-1] - _obj(Y, I, y, lamb, w)) <= 1e-12 * traj[-1]:
        return FAIL('returned tensor is not the one shown to the last callback')
    for t in range(nswp):
        if not traj[t + 1] <= traj[t] * (1 + 1e-10) + 1e-300:
            return FAIL(f'objective increased in sweep {t + 1}: {traj[t]:.15e} -> {traj[t + 1]:.15e}; trajectory {traj}')
    return PASS if traj[1] < traj[0] else TRIVIAL('no decrease at all')


@clause('C07.als.last_core_optimal', funcs=ALS)
def last_core_optimal(n, r, m, lamb, weighted, nswp, seed, opt=None):
    """The core updated last (core 1) is at the exact minimiser of F given the other cores."""
    I, y, w, Y0 = _problem(n, r, m, lamb, weighted, seed, opt=opt)
    lamb = _lamb(lamb, len(n), opt)
    Y = _als(opt, I, y, Y0, nswp=nswp, e=None, lamb=lamb, w=w)
    res = _slice_residuals([np.asarray(G, dtype=float) for G in Y], I, y, lamb, w, 1)
    # (a float32 core 1 of Y0 is returned as float32 array by the unchanged library: the minimiser rounded to float32)
    tol = 1e-6 if np.asarray(Y[1]).dtype == np.float32 and any(t in str((opt or {}).get('y0')) for t in ('f32', 'mixed1')) else 1e-10
    bad = {j: v for j, v in res.items() if not v <= tol}
    if bad:
        j = max(bad, key=bad.get)
        cnt = int(np.sum(I[:, 1] == j))
        return FAIL(f'slice {j} of core 1 ({cnt} samples, first at position {int(np.where(I[:, 1] == j)[0][0])}) '
                    f'violates its normal equations: relative residual {bad[j]:.3e}')
    g = gen.rng('C07pert', seed)
    F0 = _obj(Y, I, y, lamb, w)
    for eps in (1e-2, 1e-4):
        Z = [G.copy() for G in Y]
        Z[1] = Z[1] + eps * np.abs(Z[1]).max() * g.normal(size=Z[1].shape)
        F1 = _obj(Z, I, y, lamb, w)
        # (a float32 core 1 is the minimiser rounded to float32: the gradient there is of the order of the float32 rounding unit,
        # so a perturbation may lower F by that order; the threshold follows the tolerance of the normal-equation check above)
        if F1 < F0 * (1 - (1e-12 if tol == 1e-10 else 1e-6)):
            return FAIL(f'perturbing core 1 lowers the objective: {F0:.15e} -> {F1:.15e}')
    return PASS


@clause('C07.als.restart', funcs=ALS)
def restart(n, r, m, lamb, weighted, nswp, seed, opt=None):
    """a+b sweeps equal a sweeps followed by a restart for b sweeps, for every split of nswp."""
    I, y, w, Y0 = _problem(n, r, m, lamb, weighted, seed, opt=opt)
    lamb = _lamb(lamb, len(n), opt)
    Y = _als(opt, I, y, Y0, nswp=nswp, e=None, lamb=lamb, w=w)
    msg = _nonfinite((f'{nswp} sweeps', Y))
    if msg:
        return FAIL(msg)
    kap = _kappa([Y0, Y], I, lamb, w)
    if kap > KAPPA_MAX:
        return _ill(kap)
    for a in range(1, nswp):
        Ya = _als(opt, I, y, Y0, nswp=a, e=None, lamb=lamb, w=w)
        Yb = _als(opt, I, y, Ya, nswp=nswp - a, e=None, lamb=lamb, w=w)
        msg = _nonfinite((f'{a} sweeps', Ya), (f'{a} + {nswp - a} sweeps', Yb)) \
            or _same_result(Y, Yb, max(kap, _kappa([Ya], I, lamb, w)), f'{nswp} sweeps vs {a} + {nswp - a}')
        if msg:
            return FAIL(msg)
    return PASS if nswp > 1 else TRIVIAL('single sweep')


@clause('C07.als.permutation', funcs=ALS)
def permutation(n, r, m, lamb, weighted, nswp, seed, pseed, opt=None):
    """The result does not depend on the order of the training samples."""
    I, y, w, Y0 = _problem(n, r, m, lamb, weighted, seed, opt=opt)
    lamb = _lamb(lamb, len(n), opt)
    g = gen.rng('C07perm', pseed)
    p = g.permutation(len(I))
    q = _make_front_safe(I[p], g)
    if q is None:
        return SKIP('no order with a safe first sample')
    p = p[q]
    Y = _als(opt, I, y, Y0, nswp=nswp, e=None, lamb=lamb, w=w)
    Yp = _als(opt, I[p], y[p], Y0, nswp=nswp, e=None, lamb=lamb, w=None if w is None else w[p])
    msg = _nonfinite(('original order', Y), ('permuted order', Yp))
    if msg:
        return FAIL(msg)
    kap = _kappa([Y0, Y, Yp], I, lamb, w)
    if kap > KAPPA_MAX:
        return _ill(kap)
    msg = _same_result(Y, Yp, kap, 'original vs permuted sample order')
    return check(msg is None, msg)


@clause('C07.als.duplicates_as_weights', funcs=ALS)
def duplicates_as_weights(n, r, m, lamb, nswp, seed, opt=None):
    """Listing sample s c_s times (anywhere in the list) is the same as giving it the weight c_s."""
    I, y, _, Y0 = _problem(n, r, m, lamb, False, seed, opt=opt)
    lamb = _lamb(lamb, len(n), opt)
    g = gen.rng('C07dup', seed)
    c = g.integers(1, 4, size=len(I))
    rep = np.repeat(np.arange(len(I)), c)
    rep = rep[g.permutation(len(rep))]
    q = _make_front_safe(I[rep], g)
    if q is None:
        return SKIP('no order with a safe first sample')
    rep = rep[q]
    Yd = _als(opt, I[rep], y[rep], Y0, nswp=nswp, e=None, lamb=lamb)
    cw = c.astype(float)
    Yw = _als(opt, I, y, Y0, nswp=nswp, e=None, lamb=lamb, w=cw)
    msg = _nonfinite(('weights c_s', Yw), ('c_s-fold duplicates', Yd))
    if msg:
        return FAIL(msg)
    kap = _kappa([Y0, Yw, Yd], I, lamb, cw)
    if kap > KAPPA_MAX:
        return _ill(kap)
    msg = _same_result(Yw, Yd, kap, 'weights c_s vs c_s-fold duplicates')
    return check(msg is None, msg)


def _single_sample_case(n, seed, mode, pos):
    """Training list in which slice j of `mode` has exactly one sample, placed at list position `pos`; every
    other slice of every mode has >= 2 samples.  Also returns the same list with that sample moved elsewhere."""
    d = len(n)
    if n[mode] < 2:
        return None
    g = gen.rng('C07single', n, seed, mode)
    j = int(g.integers(0, n[mode]))
    others = [i for i in range(n[mode]) if i != j]
    rows = []
    for k in range(d):
        for i in range(n[k]):
            if (k, i) == (mode, j):
                continue
            for _ in range(2):
                row = [int(g.integers(0, q)) for q in n]
                row[mode] = others[int(g.integers(len(others)))]
                row[k] = i
                rows.append(row)
    single = [int(g.integers(0, q)) for q in n]
    single[mode] = j
    rest = np.array(rows, dtype=int).reshape(-1, d)
    rest = rest[g.permutation(len(rest))]
    y_rest = g.normal(size=len(rest))
    y_single = float(g.normal())
    w_rest = g.uniform(0.2, 3.0, size=len(rest))          # (drawn last: the unweighted cases keep their data)
    w_single = float(g.uniform(0.2, 3.0))
    pos = min(pos, len(rest))

    def place(p):
        I = np.vstack([rest[:p], np.array([single]), rest[p:]])
        y = np.concatenate([y_rest[:p], [y_single], y_rest[p:]])
        w = np.concatenate([w_rest[:p], [w_single], w_rest[p:]])
        return I, y, w

    other = len(rest) if pos != len(rest) else 1
    return place(pos), place(other), j, len(rest) + 1


def _single_sample(n, r, lamb, nswp, seed, mode, pos, weighted=False):
    case = _single_sample_case(n, seed, mode, pos)
    if case is None:
        return SKIP('mode of size 1')
    (I, y, w), (Io, yo, wo), j, total = case
    if not weighted:
        w = wo = None
    Y0 = gen.tt(n, r, seed, 'gauss')
    Y = teneva.als(I, y, Y0, nswp=nswp, e=None, lamb=lamb, w=w)
    Yo = teneva.als(Io, yo, Y0, nswp=nswp, e=None, lamb=lamb, w=wo)
    where = int(np.where((I[:, mode] == j))[0][0])
    if np.array_equal(Y[mode][:, j, :], Y0[mode][:, j, :]):
        return FAIL(f'slice {j} of mode {mode}, covered by the single sample at list position {where} of {total}, '
                    f'still has exactly its initial value after {nswp} sweeps: it was never trained')
    msg = _nonfinite((f'single sample at position {where}', Y), ('single sample listed elsewhere', Yo))
    if msg:
        return FAIL(msg)
    kap = _kappa([Y0, Yo], Io, lamb, wo)
    if kap > KAPPA_MAX:
        return _ill(kap)
    msg = _same_result(Yo, Y, kap, f'single sample of slice {j} of mode {mode} at position {where} of {total} vs at '
                                   f'position {int(np.where(Io[:, mode] == j)[0][0])}')
    if msg:
        return FAIL(msg)
    if mode == 1:
        res = _slice_residuals(Y, I, y, lamb, w, 1)
        if not res[j] <= 1e-10:
            return FAIL(f'slice {j} of core 1 (single sample at position {where}) is not at its minimiser: {res[j]:.3e}')
    return PASS


@clause('C07.als.single_sample_slice', funcs=ALS)
def single_sample_slice(n, r, lamb, nswp, seed, mode, pos, weighted=False):
    """Slice covered by a single sample at list position pos >= 1: order-independent and optimal
    (weighted: with a weight vector - one weight per slice system)."""
    if pos < 1:
        return SKIP('position 0 belongs to C07.als.single_sample_slice_pos0')
    return _single_sample(n, r, lamb, nswp, seed, mode, pos, weighted)


@clause('C07.als.single_sample_slice_pos0', funcs=('als.als', 'als._optimize_core'))
def single_sample_slice_pos0(n, r, lamb, nswp, seed, mode, weighted=False):
    """Slice covered by a single sample at list position 0 (known defect of the pinned tree)."""
    return _single_sample(n, r, lamb, nswp, seed, mode, 0, weighted)


def _pairset(n, m, seed):
    """Every pair of adjacent slices (i_k, i_{k+1}) is covered (the two-core solve of the adaptive mode)."""
    g = gen.rng('C07pair', n, m, seed)
    d = len(n)
    rows = [[int(g.integers(0, q)) for q in n] for _ in range(m)]
    for k in range(d - 1):
        for a in range(n[k]):
            for b in range(n[k + 1]):
                for _ in range(2):
                    row = [int(g.integers(0, q)) for q in n]
                    row[k], row[k + 1] = a, b
                    rows.append(row)
    I = np.array(rows, dtype=int).reshape(-1, d)
    return I[g.permutation(len(I))]


def _adaptive_setup(n, r0, r, m, weighted, seed, kind, opt=None):
    opt = opt or {}
    I = _pairset(n, m, seed)
    g = gen.rng('C07ad', n, r0, r, seed)
    if kind == 'lowrank':
        y = _vals(gen.tt(n, 2, seed + 1, 'gauss'), I)
    else:
        y = g.normal(size=len(I))
    w = g.uniform(0.2, 3.0, size=len(I)) if weighted else None
    Y0 = gen.tt(n, r0, seed, 'gauss')
    y = y * float(opt.get('yscale', 1.0))
    if opt.get('y0scale'):
        Y0 = [G * float(opt['y0scale']) for G in Y0]
    return I, y, w, Y0


def _adaptive_result(Y, Y0, info, shape, r, nswp):
    msg = gen.wf(Y, shape)
    if msg:
        return 'not well-formed / other mode sizes: ' + msg
    rk = [G.shape[2] for G in Y[:-1]]
    if max(rk) > r:
        return f'ranks {rk} exceed r = {r} (initial {[G.shape[2] for G in Y0[:-1]]})'
    if not gen.finite(Y):
        return 'non-finite cores'
    if info['nswp'] != nswp or info['stop'] != 'nswp':
        return f"info nswp/stop {info['nswp']}/{info['stop']}"
    return None


@clause('C07.als.adaptive_ranks', funcs=('als.als', 'als._optimize_core_adaptive', 'svd.matrix_skeleton'))
def adaptive_ranks(n, r0, r, r_add, m, lamb, weighted, nswp, seed, kind, opt=None):
    """Rank-adaptive mode (d >= 3, initial ranks <= r; r0: int or rank profile): mode sizes kept, all ranks <= r,
    finite.  opt: yscale / y0scale, argument forms and extra keyword arguments (e_adap, ...) as in _als."""
    I, y, w, Y0 = _adaptive_setup(n, r0, r, m, weighted, seed, kind, opt)
    info = {}
    Y = _als(opt, I, y, Y0, nswp=nswp, e=None, info=info, r=r, r_add=r_add, lamb=lamb, w=w)
    msg = _adaptive_result(Y, Y0, info, n, r, nswp)
    return check(msg is None, msg)


# DOUBTFUL (disabled: replay_only, no case is generated; see the report of the input-form audit).  An initial approximation whose
# cores have an INTEGER dtype (the same tensor as its float64 copy) makes the constant-rank mode raise UFuncTypeError (the updated
# core is written into an int64 copy of the core - the solution would be truncated - and teneva.sub, called through accuracy(),
# multiplies an int64 core in place by -1.); the rank-adaptive mode accepts it.  Whether an integer-dtype list of cores is a
# "TT-tensor" in the sense of the docstring ("Y0 (list): TT-tensor") is not settled by the property text.
@clause('C07.als.y0_integer_dtype', funcs=('als.als', 'als._optimize_core'), replay_only=True)
def y0_integer_dtype(n, r, m, lamb, nswp, seed, form='i64'):
    """als started from integer-valued cores of dtype int64 / int32 returns what it returns for their float64 copy."""
    I, y, w, Y0 = _problem(n, r, m, lamb, False, seed, opt={'y0': form})
    Yf = teneva.als(I, y, Y0, nswp=nswp, e=None, lamb=lamb)
    try:
        Yi = teneva.als(I, y, gen.tt_form(Y0, form)[0], nswp=nswp, e=None, lamb=lamb)
    except Exception as e:
        return FAIL(f'integer-dtype start ({form}) raises {type(e).__name__}: {e}; the float64 copy of the same tensor is accepted')
    msg = gen.wf(Yi, n) or _nonfinite(('integer-dtype start', Yi))
    if msg:
        return FAIL(msg)
    kap = _kappa([Y0, Yf], I, lamb, None)
    if kap > KAPPA_MAX:
        return _ill(kap)
    msg = _same_result(Yf, Yi, kap, f'float64 start vs the same start as {form}')
    return check(msg is None, msg)


def _lone_pair_case(n, seed, bond, lone, cover, m):
    """Sparse training list for the rank-adaptive mode (two-core solves, one ridge system per pair (i_k, i_k+1) of neighbouring
    indices): ONE sample - the lone one - is the only sample of the list with its index pair at `bond` (lone = 'one') or at
    EVERY bond (lone = 'all'; then no other sample shares any neighbouring pair with it); every other pair of every bond gets
    `cover` samples (cover = 1: a list in which most pairs are covered once) plus m random ones; every single slice of every
    mode is covered.  Returns (rest rows shuffled, lone row) or None if the mode sizes leave no room."""
    d = len(n)
    bonds = [bond] if lone == 'one' else list(range(d - 1))
    if d < 3 or not 0 <= bond < d - 1 or any(n[q] * n[q + 1] < 2 for q in bonds) or (lone == 'all' and min(n) < 2):
        return None
    g = gen.rng('C07lone', n, seed, bond, lone, cover, m)
    single = [int(g.integers(0, q)) for q in n]

    def clash(row):
        return any(row[q] == single[q] and row[q + 1] == single[q + 1] for q in bonds)

    def draw(fix):
        for _ in range(400):
            row = [int(g.integers(0, q)) for q in n]
            for k, v in fix.items():
                row[k] = v
            if not clash(row):
                return row
        return None

    rows = []
    for q in range(d - 1):
        for a in range(n[q]):
            for b in range(n[q + 1]):
                if q in bonds and (a, b) == (single[q], single[q + 1]):
                    continue
                for _ in range(cover):
                    row = draw({q: a, q + 1: b})
                    if row is not None:
                        rows.append(row)
    for _ in range(m):
        row = draw({})
        if row is not None:
            rows.append(row)
    rest = np.array(rows, dtype=int).reshape(-1, d)
    if len(rest) < 2:
        return None
    rest = rest[g.permutation(len(rest))]
    full = np.vstack([rest, [single]])
    if any(len(np.unique(full[:, k])) != n[k] for k in range(d)):
        return None
    return rest, np.array(single, dtype=int)


def _kappa2(Ys, I, lamb, w):
    """Largest condition number (|A^T W A| + lamb) / lamb of the ridge systems of the TWO-core solves (one system per pair
    (i_k, i_k+1) that carries samples, A = rows kron(left interface of core k, right interface of core k+1)), evaluated at
    the given tensors."""
    ww = np.ones(len(I)) if w is None else np.asarray(w, dtype=float)
    kap = 1.0
    for Y in Ys:
        for k in range(len(Y) - 1):
            L, _ = _interfaces(Y, I, k)
            _, R = _interfaces(Y, I, k + 1)
            key = I[:, k] * Y[k + 1].shape[1] + I[:, k + 1]
            for v in np.unique(key):
                idx = np.where(key == v)[0]
                A = (L[idx][:, :, None] * R[idx][:, None, :]).reshape(len(idx), -1)
                sn = np.linalg.norm(np.sqrt(ww[idx])[:, None] * A, 2) ** 2
                kap = max(kap, (sn + lamb) / lamb)
    return float(kap)


def _place(rest, y_rest, w_rest, single, y_single, w_single, p):
    I = np.vstack([rest[:p], single[None, :], rest[p:]])
    y = np.concatenate([y_rest[:p], [y_single], y_rest[p:]])
    w = None if w_rest is None else np.concatenate([w_rest[:p], [w_single], w_rest[p:]])
    return I, y, w


LONE_TOL = 1e5          # "same tensor" in the adaptive mode: <= LONE_TOL * eps * kappa2 (relative, Frobenius)
LONE_DEV = 1e-6         # "another tensor": max-norm change > LONE_DEV * (1 + max|tensor|) after the lone value moved by >= 5


@clause('C07.als.adaptive_lone_pair', funcs=('als.als', 'als._optimize_core_adaptive', 'als._lstsq'))
def adaptive_lone_pair(n, r0, r, lamb, nswp, seed, bond, lone, pos, cover=2, m=0, weighted=False, kind='noise', e_adap=None,
                       opt=None):
    """Rank-adaptive mode on a SPARSE training list: some pair of neighbouring indices is covered by exactly one sample, and
    that sample stands at list position pos (0 = first, -1 = last, -2 = middle, else the position itself).  (a) contract of the
    adaptive mode (mode sizes, ranks <= r, finite, info); (b) the result does not depend on the sample order: the same samples in
    another random order with the lone sample at another position (never 0: with cover = 2 no sample that is alone in a pair
    then stands first) denote the same tensor, ranks included; (c) when nothing is truncated (r >= the largest rank any unfolding can have and
    e_adap <= 1e-12; a binding rank cap may legitimately cut the lone sample's own rank-one component off) the lone sample
    takes part in the fit: its pair's block of the two-core solve is determined by its value alone, so a value moved by >= 5
    gives another tensor (lone = 'all': the sample shares no neighbouring pair with any other sample - a run that skips
    single-sample pairs does not see it at all).  e_adap: None = the library's default 1e-3."""
    case = _lone_pair_case(n, seed, bond, lone, cover, m)
    if case is None:
        return SKIP('no such training list for these mode sizes')
    rest, single = case
    g = gen.rng('C07loney', n, seed, bond, lone)
    nr = len(rest)
    if kind == 'lowrank':
        Yt = gen.tt(n, 2, seed + 1, 'gauss')
        y_rest, y_single = _vals(Yt, rest), float(_vals(Yt, single[None, :])[0])
    else:
        y_rest, y_single = g.normal(size=nr), float(g.normal())
    w_rest, w_single = (g.uniform(0.2, 3.0, size=nr), float(g.uniform(0.2, 3.0))) if weighted else (None, None)
    p = {0: 0, -1: nr, -2: nr // 2}.get(pos, min(max(pos, 0), nr))
    q = 1 + nr // 3
    q = q + 1 if q == p else q
    q = min(q, nr) if min(q, nr) != p else max(1, nr - 1)
    if q == p or q == 0:
        return SKIP('list too short for two different positions')
    Y0 = gen.tt(n, r0, seed, 'gauss')

    perm = g.permutation(nr)            # the reference order: everything else reshuffled too

    def run(where, ys, shuffled=False):
        sel = perm if shuffled else np.arange(nr)
        I, y, w = _place(rest[sel], y_rest[sel], None if w_rest is None else w_rest[sel], single, ys, w_single, where)
        info = {}
        Y = _als(opt, I, y, Y0, nswp=nswp, e=None, info=info, r=r, lamb=lamb, w=w, **ekw)
        return Y, info, I, y, w

    ekw = {} if e_adap is None else dict(e_adap=e_adap)
    Ya, ia, I, y, w = run(p, y_single)
    Yb, ib, Ib, yb, wb = run(q, y_single, shuffled=True)
    tag = f'lone sample {single.tolist()} (only one with its pair at ' + \
          (f'bond {bond}' if lone == 'one' else 'every bond') + f') at position {p} of {nr + 1}'
    for what, Y, info in ((tag, Ya, ia), (f'the same samples reshuffled, the lone sample at position {q}', Yb, ib)):
        msg = _adaptive_result(Y, Y0, info, n, r, nswp)
        if msg:
            return FAIL(f'{what}: {msg}')
    kap = _kappa2([Y0, Ya, Yb], I, lamb, w)
    if kap > KAPPA_MAX:
        return _ill(kap)
    ra, rb = [G.shape[2] for G in Ya[:-1]], [G.shape[2] for G in Yb[:-1]]
    A, B = gen.dense(Ya), gen.dense(Yb)
    dist, nrm = float(np.linalg.norm(A - B)), float(np.linalg.norm(B))
    tol = LONE_TOL * EPS * kap
    if not dist <= tol * nrm + 1e-100:
        return FAIL(f'{tag}: the result differs from the one for the same samples reshuffled with the lone sample at position {q}: relative '
                    f'distance of the denoted tensors {dist / max(nrm, 1e-300):.3e} > {tol:.1e} (kappa {kap:.1e}; ranks {ra} vs {rb})')
    if ra != rb:
        return FAIL(f'{tag}: ranks {ra}, with the lone sample at position {q}: {rb}')
    d = len(n)
    rfull = max(min(int(np.prod(n[:k + 1])), int(np.prod(n[k + 1:]))) for k in range(d - 1))
    if not (r >= rfull and e_adap is not None and e_adap <= 1e-12):
        return PASS
    delta = 5.0 + abs(y_single)
    Yc, ic, _, _, _ = run(p, y_single + delta)
    msg = _adaptive_result(Yc, Y0, ic, n, r, nswp)
    if msg:
        return FAIL(f'{tag}, value changed by {delta:.2f}: {msg}')
    dev = float(np.abs(gen.dense(Yc) - A).max())
    if not dev > LONE_DEV * (1.0 + float(np.abs(A).max())):
        return FAIL(f'{tag}: changing its value from {y_single:.4f} to {y_single + delta:.4f} changes the result by {dev:.3e} '
                    f'only: the sample takes no part in the fit')
    return PASS


@clause('C07.als.adaptive_use_stab', funcs=('als.als', 'als._optimize_core_adaptive', 'transformation.orthogonalize'), replay_only=True)
def adaptive_use_stab(n, r0, r, m, lamb, nswp, seed, kind):
    """Rank-adaptive mode with the documented flag use_stab=True ("the rank-adaptive method will use additional
    stabilization of the cores"): same contract as C07.als.adaptive_ranks."""
    I, y, w, Y0 = _adaptive_setup(n, r0, r, m, False, seed, kind)
    info = {}
    Y = teneva.als(I, y, Y0, nswp=nswp, e=None, info=info, r=r, lamb=lamb, use_stab=True)
    msg = _adaptive_result(Y, Y0, info, n, r, nswp)
    return check(msg is None, msg)


def _swap_run(n, r0, r, m, lamb, nswp, seed, kind, vld):
    import contextlib, io
    I, y, w, Y0 = _adaptive_setup(n, r0, r, m, False, seed, kind)
    if kind == 'linked':                # first and last mode strongly coupled: reordering the modes lowers the ranks
        y = np.sin(I[:, 0] * (1.0 + I[:, -1])) + 0.1 * I[:, 1]
    kw = {}
    if vld:
        gv = gen.rng('C07swv', seed)
        kw['I_vld'] = np.stack([gv.integers(0, k if vld == 'random' else 1, size=9) for k in n], axis=1)
        kw['y_vld'] = gv.normal(size=9)
    info, out = {}, io.StringIO()
    before = gen.snapshot((I, y))
    try:
        with contextlib.redirect_stdout(out):
            Y = teneva.als(I, y, Y0, nswp=nswp, e=None, info=info, r=r, lamb=lamb, allow_swap=True, **kw)
    except Exception as ex:
        swaps = out.getvalue().count('DEBUG | idxs')
        return FAIL(f'{type(ex).__name__}: {ex} (after {swaps} mode swaps, validation data: {vld})')
    swaps = out.getvalue().count('DEBUG | idxs')
    if gen.snapshot((I, y)) != before:
        return FAIL('the training data of the caller were modified')
    shape = [G.shape[1] for G in Y]
    if sorted(shape) != sorted(n):
        return FAIL(f'mode sizes {shape} are not a reordering of {n}')
    msg = _adaptive_result(Y, Y0, info, shape, r, nswp)
    if msg:
        return FAIL(msg)
    return PASS if swaps else TRIVIAL('no mode swap happened')


@clause('C07.als.adaptive_swap', funcs=('als.als', 'als._optimize_core_adaptive'), replay_only=True)
def adaptive_swap(n, r0, r, m, lamb, nswp, seed, kind):
    """Rank-adaptive mode with allow_swap=True: a well-formed finite tensor whose mode sizes are a reordering of
    the original ones, ranks <= r, info as specified, training data untouched.  (Validation data are given and
    consist of the multi-index 0 only, which is valid for every order of the modes - see the two clauses below.)"""
    return _swap_run(n, r0, r, m, lamb, nswp, seed, kind, 'zeros')


@clause('C07.als.adaptive_swap_vld', funcs=('als.als',), replay_only=True)
def adaptive_swap_vld(n, r0, r, m, lamb, nswp, seed, kind):
    """The same with general validation multi-indices (modes of different size)."""
    return _swap_run(n, r0, r, m, lamb, nswp, seed, kind, 'random')


@clause('C07.als.adaptive_swap_no_vld', funcs=('als.als',), replay_only=True)
def adaptive_swap_no_vld(n, r0, r, m, lamb, nswp, seed, kind):
    """The same without validation data (I_vld / y_vld are optional)."""
    return _swap_run(n, r0, r, m, lamb, nswp, seed, kind, None)


@clause('C07.als.update_sol', funcs=('als.als', 'als._optimize_core', 'als._lstsq'))
def update_sol(n, r, m, lamb, weighted, nswp, seed):
    """update_sol (constant rank only): every core update adds the ridge-damped correction
    argmin_D ||A (x + D) - y||_W^2 + lamb ||D||^2, so shapes / ranks are kept and the (weighted) data misfit
    sum_s w_s (Y[I_s] - y_s)^2 never increases from sweep to sweep; together with r it is rejected."""
    I, y, w, Y0 = _problem(n, r, m, lamb, weighted, seed)
    traj = [_obj(Y0, I, y, 0.0, w)]

    def cb(Y, info, opts):
        traj.append(_obj(Y, I, y, 0.0, w))

    info = {}
    Y = teneva.als(I, y, Y0, nswp=nswp, e=None, info=info, lamb=lamb, w=w, cb=cb, update_sol=True)
    msg = gen.wf(Y, n)
    if msg or [G.shape for G in Y] != [G.shape for G in Y0] or not gen.finite(Y):
        return FAIL(f'shapes {[G.shape for G in Y]} vs initial {[G.shape for G in Y0]} / non-finite ({msg})')
    if info['nswp'] != nswp or info['stop'] != 'nswp' or len(traj) != nswp + 1:
        return FAIL(f"info nswp/stop {info['nswp']}/{info['stop']}, {len(traj) - 1} callback calls")
    for t in range(nswp):
        if not traj[t + 1] <= traj[t] * (1 + 1e-10) + 1e-300:
            return FAIL(f'data misfit increased in sweep {t + 1}: {traj}')
    if len(n) >= 3:
        try:
            teneva.als(I, y, Y0, nswp=1, e=None, lamb=lamb, r=r + 1, update_sol=True)
            return FAIL('update_sol together with r was accepted')
        except AssertionError:
            pass
    return PASS if traj[-1] < traj[0] else TRIVIAL('no decrease at all')


@clause('C07.als.defaults', funcs=('als.als', 'utils._info_appr'))
def als_defaults(n, r, m, seed, form):
    """All optional arguments left out (nswp=50, e=1e-16, lamb=0.001, shared default info): at most 50 sweeps,
    stop 'nswp' after exactly 50 or 'e' with a reported value <= 1e-16, the documented objective (lamb = 0.001)
    does not increase compared with Y0 and core 1 is at its minimiser; a second call through the shared default
    info dictionary gives the same tensor as a call with a fresh one."""
    import inspect
    I, y, _, Y0 = _problem(n, r, m, 0.001, False, seed)
    default = inspect.signature(teneva.als).parameters['info'].default
    saved = dict(default) if isinstance(default, dict) else None
    try:
        Ya = _als({'form': form}, I, y, Y0)
        shared = dict(default) if saved is not None else None
        fresh = {}
        Yb = _als({'form': form}, I, y, Y0, info=fresh)
    finally:
        if saved is not None:
            default.clear()
            default.update(saved)
    msg = gen.wf(Yb, n)
    if msg or [G.shape for G in Yb] != [G.shape for G in Y0] or not gen.finite(Yb):
        return FAIL(f'shapes {[G.shape for G in Yb]} vs initial {[G.shape for G in Y0]} / non-finite ({msg})')
    if any(not np.array_equal(P, Q) for P, Q in zip(Ya, Yb)):
        return FAIL('call through the shared default info dictionary differs from the call with a fresh one')
    if shared is not None:
        for key in ('nswp', 'stop'):
            if shared.get(key) != fresh.get(key):
                return FAIL(f'info[{key!r}]: shared default {shared.get(key)!r} vs fresh {fresh.get(key)!r}')
    if fresh['stop'] == 'nswp':
        if fresh['nswp'] != 50:
            return FAIL(f"stop 'nswp' after {fresh['nswp']} sweeps, default nswp is 50")
    elif fresh['stop'] == 'e':
        if not (1 <= fresh['nswp'] <= 50 and 0 <= fresh['e'] <= 1e-16):
            return FAIL(f"stop 'e' after {fresh['nswp']} sweeps with e = {fresh['e']}, default threshold 1e-16")
    else:
        return FAIL(f"stop {fresh['stop']!r} with default arguments")
    F0, F1 = _obj(Y0, I, y, 0.001), _obj(Yb, I, y, 0.001)
    if not F1 <= F0 * (1 + 1e-10):
        return FAIL(f'objective with the default lamb = 0.001 increased: {F0:.15e} -> {F1:.15e}')
    res = _slice_residuals(Yb, I, y, 0.001, None, 1)
    bad = {j: v for j, v in res.items() if not v <= 1e-10}
    if bad:
        return FAIL(f'core 1 is not at the minimiser for the default lamb = 0.001: relative residuals {bad}')
    return PASS


@clause('C07.als.missing_slice', funcs=('als.als', 'als._optimize_core'))
def missing_slice(n, r, m, lamb, nswp, seed, mode, adaptive):
    """A slice without training sample: ValueError unless allow_skip_cores=True (then it keeps its value)."""
    if n[mode] < 2:
        return SKIP('mode of size 1')
    if adaptive:
        If = _pairset(n, m, seed)
        yf = gen.rng('C07missy', seed).normal(size=len(If))
        Y0 = gen.tt(n, r, seed, 'gauss')
    else:
        If, yf, _, Y0 = _problem(n, r, m, lamb, False, seed, mult=2)
    g = gen.rng('C07miss', seed, mode)
    j = int(g.integers(0, n[mode]))
    keep = If[:, mode] != j
    I, y = If[keep], yf[keep]
    for k in range(len(n)):
        for i in range(n[k]):
            if (k, i) != (mode, j) and not (I[:, k] == i).any():
                return SKIP('removing the slice uncovered another one')
    if not _front_safe(I):
        I, y = np.vstack([I, I[:1]]), np.concatenate([y, y[:1]])
    kw = dict(r=r + 1) if adaptive else {}
    try:
        teneva.als(I, y, Y0, nswp=nswp, e=None, lamb=lamb, **kw)
        return FAIL(f'no ValueError although slice {j} of mode {mode} has no sample')
    except ValueError:
        pass
    try:                                    # complete data -> no error
        teneva.als(If, yf, Y0, nswp=1, e=None, lamb=lamb, **kw)
    except ValueError as ex:
        return FAIL(f'ValueError although every slice has a sample: {ex}')
    if adaptive:
        return PASS
    Y = teneva.als(I, y, Y0, nswp=nswp, e=None, lamb=lamb, allow_skip_cores=True)
    msg = gen.wf(Y, n)
    if msg or [G.shape for G in Y] != [G.shape for G in Y0]:
        return FAIL(f'allow_skip_cores: result shapes {[G.shape for G in Y]} ({msg})')
    if not np.array_equal(Y[mode][:, j, :], Y0[mode][:, j, :]):
        return FAIL('allow_skip_cores: the slice without data was changed')
    if len(n) >= 2:
        res = _slice_residuals(Y, I, y, lamb, None, 1)
        bad = {i: v for i, v in res.items() if not v <= 1e-10}
        if bad:
            return FAIL(f'allow_skip_cores: trained slices of core 1 not optimal: {bad}')
    return PASS


@clause('C07.als.info_stop', funcs=('als.als', 'utils._info_appr'))
def info_stop(n, r, m, lamb, nswp, seed, adaptive, opt=None):
    """info['nswp'] is the executed sweep count, info['stop'] a documented reason; callback stops the run."""
    if adaptive:
        I = _pairset(n, m, seed)
        y = gen.rng('C07is', seed).normal(size=len(I))
        Y0 = gen.tt(n, r, seed, 'gauss')
        kw0 = dict(r=r + 1, lamb=lamb)
    else:
        I, y, _, Y0 = _problem(n, r, m, lamb, False, seed)
        kw0 = dict(lamb=lamb)
    gv = gen.rng('C07vld', seed)
    I_vld = np.stack([gv.integers(0, k, size=7) for k in n], axis=1)
    y_vld = gv.normal(size=7)

    def run(cb_at=None, **kw):
        calls, info = [], {}

        def cb(Y, info_, opts):
            calls.append(dict(nswp=info_['nswp'], e=info_['e'], e_vld=info_['e_vld']))
            return True if cb_at is not None and info_['nswp'] == cb_at else None

        Y = _als(opt, I, y, Y0, info=info, cb=cb, **kw0, **kw)
        return Y, info, calls

    def expect(tag, info, calls, stop, sweeps):
        if info.get('stop') != stop or info.get('nswp') != sweeps or len(calls) != sweeps:
            return (f"{tag}: stop {info.get('stop')!r}, info['nswp'] {info.get('nswp')}, {len(calls)} executed "
                    f"sweeps; expected {stop!r} after {sweeps}")
        return None

    for k in range(1, nswp + 1):
        Y, info, calls = run(nswp=k, e=None)
        msg = expect(f'nswp={k}', info, calls, 'nswp', k)
        if msg:
            return FAIL(msg)
    Y, info, calls = run(nswp=0, e=None)
    if info['stop'] != 'nswp' or info['nswp'] != len(calls):
        return FAIL(f"nswp=0: stop {info['stop']!r}, info['nswp'] {info['nswp']} but {len(calls)} executed sweeps")
    for s in range(1, nswp + 1):
        Y, info, calls = run(cb_at=s, nswp=nswp, e=None)
        msg = expect(f'callback True at sweep {s}', info, calls, 'cb', s)
        if msg:
            return FAIL(msg)
        Y, info, calls = run(cb_at=s, nswp=nswp, e=1e+10, I_vld=I_vld, y_vld=y_vld)
        msg = expect(f'callback True at sweep {s} together with e', info, calls, 'cb' if s == 1 else 'e', 1)
        if msg:
            return FAIL(msg)
    # thresholds from the reported trajectory (just above the value of sweep s, not reached earlier)
    Y, info, traj = run(nswp=nswp, e=None, I_vld=I_vld, y_vld=y_vld)
    if info['e_vld'] != traj[-1]['e_vld'] or info['e'] != traj[-1]['e']:
        return FAIL('final info differs from the info shown to the last callback')
    if not all(np.isfinite(t[key]) for t in traj for key in ('e', 'e_vld')):
        return FAIL(f"non-finite reported e / e_vld (no threshold can be placed): {[(t['e'], t['e_vld']) for t in traj]}")
    for s in range(1, nswp + 1):
        e_s = traj[s - 1]['e']
        if e_s > 0 and all(t['e'] > e_s * 1.001 for t in traj[:s - 1]):
            Y, info, calls = run(nswp=nswp, e=e_s * 1.0001)
            msg = expect(f'e just above the value of sweep {s}', info, calls, 'e', s)
            if msg:
                return FAIL(msg)
            if not 0 <= info['e'] <= e_s * 1.0001:
                return FAIL(f"stop 'e' with reported e {info['e']}")
            Y, info, calls = run(nswp=s, e=e_s * 1.0001)           # both hold at sweep s: 'e' has priority
            msg = expect(f'e and nswp both at sweep {s}', info, calls, 'e', s)
            if msg:
                return FAIL(msg)
            Y, info, calls = run(nswp=nswp, e=e_s * 0.9999)
            if info['stop'] == 'e' and info['nswp'] <= s:
                return FAIL(f"e just below the value of sweep {s}: stopped with 'e' after {info['nswp']}")
    Y, info, calls = run(nswp=nswp, e=None, e_vld=1e+10, I_vld=I_vld, y_vld=y_vld)
    if info['stop'] != 'e_vld' or info['nswp'] != len(calls):
        return FAIL(f"huge e_vld: stop {info['stop']!r}, info['nswp'] {info['nswp']}, {len(calls)} executed sweeps")
    Y, info, calls = run(nswp=nswp, e=1e+10, e_vld=1e+10, I_vld=I_vld, y_vld=y_vld)
    if info['stop'] != 'e_vld':
        return FAIL(f"e and e_vld both met: stop {info['stop']!r}, expected 'e_vld'")
    return PASS


@clause('C07.als.info_stop_no_vld', funcs=('als.als', 'utils._info_appr', 'data.accuracy_on_data'))
def info_stop_no_vld(n, r, m, lamb, nswp, seed, adaptive, e_vld, vld, opt=None):
    """A threshold for a stop criterion that CANNOT be evaluated: e_vld is given but there is no (complete) validation
    set (vld = 'none': neither I_vld nor y_vld; 'I' / 'y': only one of the two - accuracy_on_data documents -1 then).
    "The error on the validation dataset" does not exist, so the run can never end with stop 'e_vld': the executed
    sweeps (callback calls), info['nswp'], info['stop'] and the returned tensor are those of the same call without
    e_vld, for every e_vld >= 0, alone and together with e (huge / None), a stopping callback and nswp = 0."""
    if adaptive:
        I = _pairset(n, m, seed)
        y = gen.rng('C07is', seed).normal(size=len(I))
        Y0 = gen.tt(n, r, seed, 'gauss')
        kw0 = dict(r=r + 1, lamb=lamb)
    else:
        I, y, _, Y0 = _problem(n, r, m, lamb, False, seed)
        kw0 = dict(lamb=lamb)
    gv = gen.rng('C07vld', seed)
    I_vld = np.stack([gv.integers(0, k, size=7) for k in n], axis=1)
    y_vld = gv.normal(size=7)
    part = {'none': {}, 'I': dict(I_vld=I_vld), 'y': dict(y_vld=y_vld)}[vld]

    def run(cb_at=None, **kw):
        calls, info = [], {}

        def cb(Y, info_, opts):
            calls.append(info_['nswp'])
            return True if cb_at is not None and info_['nswp'] == cb_at else None

        Y = _als(opt, I, y, Y0, info=info, cb=cb, **kw0, **kw)
        return Y, info, calls

    def same(tag, kw, cb_at=None):
        """The call with e_vld (and the partial validation data) against the same call without them."""
        Yr, ir, cr = run(cb_at=cb_at, **kw)
        Yv, iv, cv = run(cb_at=cb_at, e_vld=e_vld, **part, **kw)
        if iv.get('stop') == 'e_vld':
            return (f"{tag}: stop 'e_vld' after {iv.get('nswp')} sweeps although there is no validation error "
                    f"(e_vld = {e_vld}, validation data: {vld}); without e_vld: {ir.get('stop')!r} after {ir.get('nswp')}")
        if iv.get('nswp') != len(cv):
            return f"{tag}: info['nswp'] {iv.get('nswp')} but {len(cv)} executed sweeps"
        if (iv.get('stop'), iv.get('nswp')) != (ir.get('stop'), ir.get('nswp')):
            return (f"{tag}: stop {iv.get('stop')!r} after {iv.get('nswp')} sweeps with the inert e_vld = {e_vld} "
                    f"(validation data: {vld}), {ir.get('stop')!r} after {ir.get('nswp')} without")
        if [G.shape for G in Yv] != [G.shape for G in Yr] or any(not np.array_equal(P, Q) for P, Q in zip(Yv, Yr)):
            return f'{tag}: the returned tensor differs from the one of the same call without e_vld'
        return None

    msg = same(f'nswp={nswp}, e=None', dict(nswp=nswp, e=None))
    if msg:
        return FAIL(msg)
    Y, info, calls = run(nswp=nswp, e=None, e_vld=e_vld, **part)
    if info['stop'] != 'nswp' or info['nswp'] != nswp or len(calls) != nswp:
        return FAIL(f"nswp={nswp}, e=None, e_vld={e_vld} without validation data ({vld}): stop {info['stop']!r}, "
                    f"info['nswp'] {info['nswp']}, {len(calls)} executed sweeps; expected 'nswp' after {nswp}")
    for tag, kw, cb_at in (('huge e', dict(nswp=nswp, e=1e+10), None), ('nswp=0', dict(nswp=0, e=None), None),
                           ('callback True at sweep 1', dict(nswp=nswp, e=None), 1),
                           (f'callback True at sweep {nswp}', dict(nswp=nswp + 1, e=None), nswp)):
        msg = same(tag, kw, cb_at)
        if msg:
            return FAIL(msg)
    Y, info, calls = run(nswp=nswp, e=1e+10, e_vld=e_vld, **part)
    if info['stop'] != 'e' or info['nswp'] != 1:
        return FAIL(f"huge e together with e_vld={e_vld} without validation data: stop {info['stop']!r} after {info['nswp']}")
    if nswp >= 2:
        Y, info, calls = run(cb_at=nswp - 1, nswp=nswp, e=None, e_vld=e_vld, **part)
        if info['stop'] != 'cb' or info['nswp'] != nswp - 1 or len(calls) != nswp - 1:
            return FAIL(f"callback True at sweep {nswp - 1} with e_vld={e_vld} without validation data: stop {info['stop']!r} "
                        f"after {info['nswp']} ({len(calls)} executed sweeps)")
    return PASS


# ----------------------------------------------------------------------------------------------- als_func

def _design(X, a, b, nmodes):
    Xs = (X - (b + a) / 2.0) * (2.0 / (b - a))
    return [_cheb.chebvander(Xs[:, k], nmodes - 1) for k in range(X.shape[1])]       # each (m, n)


def _fvals(A, H):
    v = np.ones((H[0].shape[0], 1))
    for G, h in zip(A, H):
        v = np.einsum('sa,sj,ajb->sb', v, h, G)
    return v[:, 0]


def _fobj(A, H, y, lamb):
    r = _fvals(A, H) - y
    return float(np.sum(r * r) + lamb * sum(float(np.sum(G * G)) for G in A))


def _fkappa(As, H, lamb):
    """Largest condition number (|D^T D| + lamb) / lamb of the whole-core ridge systems of als_func."""
    m, d = H[0].shape[0], len(H)
    kap = 1.0
    for A in As:
        Ls = [np.ones((m, 1))]
        for q in range(d - 1):
            Ls.append(np.einsum('sa,sj,ajb->sb', Ls[-1], H[q], A[q]))
        Rs = [np.ones((m, 1))]
        for q in range(d - 1, 0, -1):
            Rs.append(np.einsum('sj,ajb,sb->sa', H[q], A[q], Rs[-1]))
        Rs = Rs[::-1]
        for k in range(d):
            D = (Ls[k][:, :, None, None] * H[k][:, None, :, None] * Rs[k][:, None, None, :]).reshape(m, -1)
            kap = max(kap, (np.linalg.norm(D, 2) ** 2 + lamb) / lamb)
    return float(kap)


def _basis(kind, k, nm):
    """Own basis functions for the fh argument: x (1-D, m points) -> array [nm, m]."""
    if kind == 'mono' or (kind == 'mixed' and k % 2 == 0):
        return lambda x: np.vstack([np.asarray(x, dtype=float) ** j for j in range(nm)])
    return lambda x: np.vstack([np.cos(j * np.asarray(x, dtype=float)) for j in range(nm)])


def _fproblem(d, nm, r, m, seed, box, opt=None):
    """opt: yscale (factor on y), fh ('mono': one monomial basis function for all modes; 'mixed': a list of d
    functions, monomials / cosines alternating) - then a, b are unused and the design matrices are the own ones."""
    opt = opt or {}
    g = gen.rng('C07f', d, nm, r, m, seed)
    a, b = box
    X = g.uniform(a + 1e-9 * (b - a), b - 1e-9 * (b - a), size=(m, d))
    y = g.normal(size=m) * float(opt.get('yscale', 1.0))
    A0 = gen.tt([nm] * d, r, seed, 'gauss')
    if 'int' in str(opt.get('yform')):
        y = np.rint(3.0 * y)
    if opt.get('a0'):
        A0 = gen.tt_form(A0, opt['a0'])[1]      # (float64 image of the form that _alsf passes)
    if opt.get('fh'):
        H = [_basis(opt['fh'], k, nm)(X[:, k]).T for k in range(d)]
    else:
        H = _design(X, a, b, nm)
    return X, y, A0, H


def _alsf(opt, X, y, A0, box, **kw):
    """teneva.als_func with the forms named in opt: form 'list' (X, y as nested lists), fh (see _fproblem),
    order ('F' / 'V' layout of the cores), kw (extra keyword arguments; output of log=True is swallowed)."""
    opt = opt or {}
    d, nm = len(A0), A0[0].shape[1]
    if opt.get('fh') == 'mono':
        kw['fh'] = _basis('mono', 0, nm)
    elif opt.get('fh') == 'mixed':
        kw['fh'] = [_basis('mixed', k, nm) for k in range(d)]
    if opt.get('form') == 'list':
        X, y = np.asarray(X).tolist(), np.asarray(y).tolist()
    A0 = _layout(A0, opt.get('order'))
    kw.update(opt.get('kw') or {})
    # input FORMS: a0 (gen.tt_form spec of the cores of A0), xform ('F' / 'V' / 'ro' / 'list' layout of the point array), yform
    # (gen.val_form spec of y), num ('np64' / 'np32' / '0d': a, b, nswp, e, e_vld, lamb, n_max as NumPy scalars), call='pos'
    # (a, b, nswp, e, info positionally in the documented order)
    if opt.get('a0'):
        A0 = gen.tt_form(A0, opt['a0'])[0]
    if opt.get('xform'):
        X = np.array(X, dtype=float)
        for t in opt['xform'].split('+'):
            if t == 'F':
                X = np.asfortranarray(X)
            elif t == 'V':
                big = np.full((2 * X.shape[0], 2 * X.shape[1] + 1), 0.125)
                big[::2, 1::2] = X
                X = big[::2, 1::2]
            elif t == 'ro':
                X.flags.writeable = False
            elif t == 'list':
                X = X.tolist()
    if opt.get('yform'):
        v = np.asarray(y, dtype=float)
        spec = opt['yform']
        if 'int' in spec and not np.all(v == np.rint(v)):
            spec = '+'.join(t for t in spec.split('+') if t not in ('int', 'intlist'))
        y = gen.val_form(v, spec)[0]
    a, b = box[0], box[1]
    if opt.get('num'):
        kw = gen.num_kwargs(kw, opt['num'], ('nswp', 'e', 'e_vld', 'lamb', 'n_max'))
        if opt['num'] != '0d':      # (an ndarray a / b is documented as the list of per-dimension bounds of length d: no 0-d form)
            a, b = gen.num_kwargs({'a': a, 'b': b}, opt['num'], ('a', 'b')).values()
    args = (a, b)
    if opt.get('call') == 'pos':
        args = (a, b, kw.pop('nswp', 50), kw.pop('e', 1.E-16), kw.pop('info', {}))
    if kw.get('log'):
        import contextlib, io
        with contextlib.redirect_stdout(io.StringIO()):
            return teneva.als_func(X, y, A0, *args, **kw)
    return teneva.als_func(X, y, A0, *args, **kw)


@clause('C07.als_func.descent', funcs=ALSF)
def f_descent(d, nm, r, m, lamb, nswp, seed, box, opt=None):
    """als_func keeps shapes / ranks and F(A after t+1 sweeps) <= F(A after t sweeps) <= ... <= F(A0)."""
    X, y, A0, H = _fproblem(d, nm, r, m, seed, box, opt)
    before = gen.snapshot((X, y, A0))
    traj = [_fobj(A0, H, y, lamb)]
    for t in range(1, nswp + 1):
        info = {}
        A = _alsf(opt, X, y, A0, box, nswp=t, e=None, info=info, lamb=lamb)
        msg = gen.wf(A, [nm] * d)
        if msg or [G.shape for G in A] != [G.shape for G in A0]:
            return FAIL(f'{t} sweeps: shapes {[G.shape for G in A]} vs initial {[G.shape for G in A0]} {msg or ""}')
        if not gen.finite(A):
            return FAIL('non-finite cores')
        if info['nswp'] != t or info['stop'] != 'nswp':
            return FAIL(f"nswp={t}: info nswp/stop {info['nswp']}/{info['stop']}")
        traj.append(_fobj(A, H, y, lamb))
    if gen.snapshot((X, y, A0)) != before:
        return FAIL('arguments were modified')
    for t in range(nswp):
        if not traj[t + 1] <= traj[t] * (1 + 1e-10):
            return FAIL(f'objective increased in sweep {t + 1}: {traj}')
    return PASS


@clause('C07.als_func.last_core_optimal', funcs=ALSF)
def f_last_core_optimal(d, nm, r, m, lamb, nswp, seed, box, opt=None):
    """Core 1 (updated last) satisfies the ridge normal equations of the whole core."""
    X, y, A0, H = _fproblem(d, nm, r, m, seed, box, opt)
    A = _alsf(opt, X, y, A0, box, nswp=nswp, e=None, lamb=lamb)
    L = np.ones((m, 1))
    L = np.einsum('sa,sj,ajb->sb', L, H[0], A[0])
    R = np.ones((m, 1))
    for q in range(d - 1, 1, -1):
        R = np.einsum('sj,ajb,sb->sa', H[q], A[q], R)
    D = (L[:, :, None, None] * H[1][:, None, :, None] * R[:, None, None, :]).reshape(m, -1)
    x = A[1].reshape(-1)
    grad = D.T @ (D @ x - y) + lamb * x
    scale = np.abs(D.T) @ (np.abs(D) @ np.abs(x) + np.abs(y)) + lamb * np.abs(x)
    if scale.max() == 0:
        return TRIVIAL('regularisation collapsed the approximation to zero')
    rel = float(np.abs(grad).max() / scale.max())
    return check(rel <= 1e-10, f'core 1 violates the normal equations: relative residual {rel:.3e}')


@clause('C07.als_func.restart', funcs=ALSF)
def f_restart(d, nm, r, m, lamb, nswp, seed, box, opt=None):
    """a+b sweeps equal a sweeps then b sweeps from the result."""
    X, y, A0, H = _fproblem(d, nm, r, m, seed, box, opt)
    A = _alsf(opt, X, y, A0, box, nswp=nswp, e=None, lamb=lamb)
    msg = _nonfinite((f'{nswp} sweeps', A))
    if msg:
        return FAIL(msg)
    kap = _fkappa([A0, A], H, lamb)
    if kap > KAPPA_MAX:
        return _ill(kap)
    for a_ in range(1, nswp):
        Aa = _alsf(opt, X, y, A0, box, nswp=a_, e=None, lamb=lamb)
        Ab = _alsf(opt, X, y, Aa, box, nswp=nswp - a_, e=None, lamb=lamb)
        msg = _nonfinite((f'{a_} sweeps', Aa), (f'{a_} + {nswp - a_} sweeps', Ab)) \
            or _same_result(A, Ab, max(kap, _fkappa([Aa], H, lamb)), f'{nswp} sweeps vs {a_} + {nswp - a_}')
        if msg:
            return FAIL(msg)
    return PASS if nswp > 1 else TRIVIAL('single sweep')


@clause('C07.als_func.permutation', funcs=ALSF)
def f_permutation(d, nm, r, m, lamb, nswp, seed, box, pseed, opt=None):
    """The result does not depend on the order of the training points."""
    X, y, A0, H = _fproblem(d, nm, r, m, seed, box, opt)
    p = gen.rng('C07fperm', pseed).permutation(m)
    A = _alsf(opt, X, y, A0, box, nswp=nswp, e=None, lamb=lamb)
    Ap = _alsf(opt, X[p], y[p], A0, box, nswp=nswp, e=None, lamb=lamb)
    msg = _nonfinite(('original order', A), ('permuted order', Ap))
    if msg:
        return FAIL(msg)
    kap = _fkappa([A0, A, Ap], H, lamb)
    if kap > KAPPA_MAX:
        return _ill(kap)
    msg = _same_result(A, Ap, kap, 'original vs permuted order')
    return check(msg is None, msg)


@clause('C07.als_func.info_stop', funcs=ALSF)
def f_info_stop(d, nm, r, m, lamb, nswp, seed, box):
    """info['nswp'] / info['stop'] for nswp, e and e_vld stops; the result is the one of that many sweeps."""
    X, y, A0, H = _fproblem(d, nm, r, m, seed, box)
    g = gen.rng('C07fv', seed)
    Xv = g.uniform(box[0] + 1e-9 * (box[1] - box[0]), box[1] - 1e-9 * (box[1] - box[0]), size=(6, d))
    yv = g.normal(size=6)
    ref = {t: teneva.als_func(X, y, A0, box[0], box[1], nswp=t, e=None, lamb=lamb) for t in range(1, nswp + 1)}

    def same(A, t, tag):
        if any(not np.array_equal(P, Q) for P, Q in zip(A, ref[t])):
            return f"{tag}: result is not the tensor after info['nswp'] = {t} sweeps"
        return None

    info = {}
    A = teneva.als_func(X, y, A0, box[0], box[1], nswp=nswp, e=1e+10, info=info, lamb=lamb)
    if info['stop'] != 'e' or info['nswp'] != 1 or not 0 <= info['e'] <= 1e+10:
        return FAIL(f"huge e: stop {info['stop']!r} after {info['nswp']} (e = {info['e']})")
    msg = same(A, 1, 'huge e')
    if msg:
        return FAIL(msg)
    info = {}
    A = teneva.als_func(X, y, A0, box[0], box[1], nswp=nswp, e=None, info=info, lamb=lamb, X_vld=Xv, y_vld=yv)
    if info['stop'] != 'nswp' or info['nswp'] != nswp:
        return FAIL(f"validation data without threshold: stop {info['stop']!r} after {info['nswp']}")
    own = np.linalg.norm(_fvals(A, _design(Xv, box[0], box[1], nm)) - yv) / np.linalg.norm(yv)
    if not abs(info['e_vld'] - own) <= 1e-9 * (1 + own):
        return FAIL(f"reported e_vld {info['e_vld']:.12e} != own evaluation {own:.12e}")
    info = {}
    A = teneva.als_func(X, y, A0, box[0], box[1], nswp=nswp, e=1e+10, info=info, lamb=lamb, X_vld=Xv, y_vld=yv,
                        e_vld=1e+10)
    if info['stop'] != 'e_vld' or info['nswp'] < 1:
        return FAIL(f"huge e_vld and e: stop {info['stop']!r} after {info['nswp']}")
    msg = same(A, info['nswp'], 'huge e_vld')
    if msg:
        return FAIL(msg)
    info = {}
    A = teneva.als_func(X, y, A0, box[0], box[1], nswp=0, e=None, info=info, lamb=lamb)
    if info['stop'] != 'nswp' or info['nswp'] not in (0, 1):
        return FAIL(f"nswp=0: stop {info['stop']!r} after {info['nswp']}")
    if info['nswp'] == 1:
        msg = same(A, 1, 'nswp=0')
        if msg:
            return FAIL(msg)
    return PASS


@clause('C07.als_func.info_stop_no_vld', funcs=ALSF)
def f_info_stop_no_vld(d, nm, r, m, lamb, nswp, seed, box, e_vld, vld):
    """als_func with a threshold e_vld but without a (complete) validation set (vld = 'none', 'X': only X_vld, 'y': only
    y_vld): no validation error exists, so the stop reason is never 'e_vld'; info['nswp'] / info['stop'] and the
    returned tensor are those of the same call without e_vld (nswp sweeps / one sweep with e=None, one sweep with a
    huge e)."""
    X, y, A0, H = _fproblem(d, nm, r, m, seed, box)
    g = gen.rng('C07fv', seed)
    Xv = g.uniform(box[0] + 1e-9 * (box[1] - box[0]), box[1] - 1e-9 * (box[1] - box[0]), size=(6, d))
    yv = g.normal(size=6)
    part = {'none': {}, 'X': dict(X_vld=Xv), 'y': dict(y_vld=yv)}[vld]
    for tag, kw, stop, sweeps in ((f'nswp={nswp}, e=None', dict(nswp=nswp, e=None), 'nswp', nswp),
                                  ('nswp=1, e=None', dict(nswp=1, e=None), 'nswp', 1),
                                  ('huge e', dict(nswp=nswp, e=1e+10), 'e', 1)):
        ir, iv = {}, {}
        Ar = teneva.als_func(X, y, A0, box[0], box[1], info=ir, lamb=lamb, **kw)
        Av = teneva.als_func(X, y, A0, box[0], box[1], info=iv, lamb=lamb, e_vld=e_vld, **part, **kw)
        if (ir.get('stop'), ir.get('nswp')) != (stop, sweeps):
            return FAIL(f"{tag} (no e_vld): stop {ir.get('stop')!r} after {ir.get('nswp')}; expected {stop!r} after {sweeps}")
        if (iv.get('stop'), iv.get('nswp')) != (stop, sweeps):
            return FAIL(f"{tag}, e_vld={e_vld} without validation data ({vld}): stop {iv.get('stop')!r} after "
                        f"{iv.get('nswp')} sweeps; expected {stop!r} after {sweeps}")
        if [G.shape for G in Av] != [G.shape for G in Ar] or any(not np.array_equal(P, Q) for P, Q in zip(Av, Ar)):
            return FAIL(f'{tag}: the returned tensor differs from the one of the same call without e_vld')
    return PASS


@clause('C07.als_func.defaults', funcs=ALSF)
def f_defaults(d, nm, r, m, seed):
    """Optional arguments left out (a=-1, b=1, nswp=50, e=1e-16, lamb=1e-3, shared default info): shapes kept,
    documented stop, the documented objective does not increase and core 1 solves its ridge system."""
    import inspect
    X, y, A0, H = _fproblem(d, nm, r, m, seed, [-1.0, 1.0])
    default = inspect.signature(teneva.als_func).parameters['info'].default
    saved = dict(default) if isinstance(default, dict) else None
    try:
        Aa = teneva.als_func(X, y, A0)
        fresh = {}
        A = teneva.als_func(X, y, A0, info=fresh)
    finally:
        if saved is not None:
            default.clear()
            default.update(saved)
    msg = gen.wf(A, [nm] * d)
    if msg or [G.shape for G in A] != [G.shape for G in A0] or not gen.finite(A):
        return FAIL(f'shapes {[G.shape for G in A]} vs initial {[G.shape for G in A0]} / non-finite ({msg})')
    if any(not np.array_equal(P, Q) for P, Q in zip(Aa, A)):
        return FAIL('call through the shared default info dictionary differs from the call with a fresh one')
    if fresh['stop'] == 'nswp':
        if fresh['nswp'] != 50:
            return FAIL(f"stop 'nswp' after {fresh['nswp']} sweeps, default nswp is 50")
    elif fresh['stop'] == 'e':
        if not (1 <= fresh['nswp'] <= 50 and 0 <= fresh['e'] <= 1e-16):
            return FAIL(f"stop 'e' after {fresh['nswp']} sweeps with e = {fresh['e']}")
    else:
        return FAIL(f"stop {fresh['stop']!r} with default arguments")
    F0, F1 = _fobj(A0, H, y, 1e-3), _fobj(A, H, y, 1e-3)
    if not F1 <= F0 * (1 + 1e-10):
        return FAIL(f'objective with the default lamb = 1e-3 on the default box [-1, 1] increased: {F0:.15e} -> {F1:.15e}')
    return PASS


@clause('C07.als_func.update_sol', funcs=ALSF)
def f_update_sol(d, nm, r, m, lamb, nswp, seed, box):
    """update_sol: ridge-damped corrections - shapes kept, the data misfit never increases over nswp = 1, 2, ..."""
    X, y, A0, H = _fproblem(d, nm, r, m, seed, box)
    traj = [_fobj(A0, H, y, 0.0)]
    for t in range(1, nswp + 1):
        info = {}
        A = teneva.als_func(X, y, A0, box[0], box[1], nswp=t, e=None, info=info, lamb=lamb, update_sol=True)
        msg = gen.wf(A, [nm] * d)
        if msg or [G.shape for G in A] != [G.shape for G in A0] or not gen.finite(A):
            return FAIL(f'{t} sweeps: shapes {[G.shape for G in A]} vs initial {[G.shape for G in A0]} {msg or ""}')
        if info['nswp'] != t or info['stop'] != 'nswp':
            return FAIL(f"nswp={t}: info nswp/stop {info['nswp']}/{info['stop']}")
        traj.append(_fobj(A, H, y, 0.0))
    for t in range(nswp):
        if not traj[t + 1] <= traj[t] * (1 + 1e-10):
            return FAIL(f'data misfit increased in sweep {t + 1}: {traj}')
    return PASS


# ----------------------------------------------------------------------------------------------- cases

SHAPES = [[2, 2], [3, 4], [4, 1], [1, 3], [2, 3, 2], [3, 3, 3], [4, 1, 3], [1, 2, 4], [2, 2, 2, 2], [3, 2, 1, 3],
          [2, 4, 3, 2]]
LAMBS = [1e-4, 1e-3, 1e-2, 1e-1, 1.0, 3e-2]


OUTSIDE_PROPERTY = False        # clauses about flags the property does not quantify over (see the comments in cases())


def cases(tier, seed):
    big = tier == 'thorough'
    g = gen.rng('C07', seed)
    shapes = list(SHAPES)
    for _ in range(30 if big else 8):
        d = int(g.integers(2, 5))
        shapes.append([int(x) for x in g.integers(1, 5, size=d)])
    k = 0
    for n in shapes:
        for r in (1, 2, 3):
            for rep in range(8 if big else 3):
                k += 1
                lamb = LAMBS[k % 6]
                base = dict(n=n, r=r, m=int(g.integers(0, 60)), lamb=lamb, weighted=bool(k % 2),
                            nswp=(8 if rep % 3 == 2 else 4) if big else 4, seed=int(g.integers(1 << 30)))
                yield 'C07.als.constant_rank_shape', base
                yield 'C07.als.descent', base
                yield 'C07.als.last_core_optimal', dict(base, nswp=1 + k % 4)
                yield 'C07.als.restart', dict(base, nswp=4)
                yield 'C07.als.permutation', dict(base, pseed=int(g.integers(1 << 30)))
                nw = {q: v for q, v in base.items() if q != 'weighted'}
                yield 'C07.als.duplicates_as_weights', dict(nw, m=int(g.integers(0, 25)))
                if len(n) >= 3 and r <= 2:
                    yield 'C07.als.adaptive_ranks', dict(
                        n=n, r0=r, r=r + (k % 3), r_add=(10000, 1)[k % 2], m=int(g.integers(0, 30)), lamb=lamb,
                        weighted=bool((k // 2) % 2), nswp=2 + k % 2, seed=int(g.integers(1 << 30)),
                        kind=('noise', 'lowrank')[(k // 3) % 2])
                for mode in range(len(n)):
                    yield 'C07.als.missing_slice', dict(n=n, r=r, m=int(g.integers(0, 30)), lamb=lamb, nswp=2,
                                                        seed=int(g.integers(1 << 30)), mode=mode,
                                                        adaptive=bool(len(n) >= 3 and (k + mode) % 2))
        if len(n) >= 3:
            for prof in ([1, 3] + [2] * (len(n) - 2) + [1], [1] + [1 + q % 3 for q in range(len(n) - 1)] + [1]):
                base = dict(n=n, r=prof, m=int(g.integers(0, 60)), lamb=LAMBS[k % 6], weighted=bool(k % 2), nswp=3,
                            seed=int(g.integers(1 << 30)))
                for cid in ('constant_rank_shape', 'descent', 'last_core_optimal', 'restart'):
                    yield 'C07.als.' + cid, base
        yield 'C07.als.info_stop', dict(n=n, r=2, m=int(g.integers(5, 40)), lamb=LAMBS[k % 6], nswp=3,
                                        seed=int(g.integers(1 << 30)), adaptive=False)
        if len(n) >= 3:
            yield 'C07.als.info_stop', dict(n=n, r=2, m=int(g.integers(5, 40)), lamb=LAMBS[k % 6], nswp=3,
                                            seed=int(g.integers(1 << 30)), adaptive=True)
    # single-sample slices: every list position, every mode
    for n in ([2, 2], [3, 2], [2, 3, 2], [2, 2, 2, 2], [3, 3]) + (([3, 2, 3], [4, 2], [2, 2, 3, 2]) if big else ()):
        total = 2 * (sum(n) - 1) + 1          # list length: 2 samples per other slice + the single one
        for mode in range(len(n)):
            for rep in range(4 if big else 2):
                sd = int(g.integers(1 << 30))
                lamb = LAMBS[(mode + rep) % 3 + 1]
                if rep < (3 if big else 1):
                    yield 'C07.als.single_sample_slice_pos0', dict(n=n, r=2, lamb=lamb, nswp=3, seed=sd, mode=mode)
                for pos in range(1, total):
                    yield 'C07.als.single_sample_slice', dict(n=n, r=2, lamb=lamb, nswp=3, seed=sd, mode=mode, pos=pos)
    # ------------------------------------------------------------ parameter / regime coverage (own generator)
    g2 = gen.rng('C07cov', seed)

    def sd():
        return int(g2.integers(1 << 30))

    cov = [[2, 2], [3, 4], [2, 3, 2], [4, 1, 3], [2, 2, 2, 2]] + ([[1, 3], [3, 3, 3], [3, 2, 1, 3]] if big else [])
    reps = 3 if big else 1
    six = ('constant_rank_shape', 'descent', 'last_core_optimal', 'restart')
    k = 0
    # (A) the same problem at another absolute scale (y, Y0 and lamb rescaled consistently): every clause
    for n in cov:
        for c in (1e-12, 1e-8, 1e4, 1e8) + ((1e-4, 1e12) if big else ()):
            for rep in range(reps):
                k += 1
                base = dict(n=n, r=1 + k % 3, m=int(g2.integers(0, 40)), lamb=LAMBS[k % 6], weighted=bool(k % 2),
                            nswp=3, seed=sd(), opt={'c': c})
                for cid in six:
                    yield 'C07.als.' + cid, base
                yield 'C07.als.permutation', dict(base, pseed=sd())
                yield 'C07.als.duplicates_as_weights', {q: v for q, v in dict(base, m=int(g2.integers(0, 20))).items()
                                                        if q != 'weighted'}
    three = ('constant_rank_shape', 'descent', 'last_core_optimal')
    # (B) data and start of very different size (lamb fixed): shape, descent, optimality
    for n in cov[:4]:
        for o in ({'yscale': 1e-6}, {'yscale': 1e6}, {'y0scale': 1e-3}, {'y0scale': 1e3}) + \
                (({'yscale': 1e-12}, {'yscale': 1e12}, {'yscale': 1e5, 'y0scale': 1e-3}) if big else ()):
            for rep in range(reps):
                k += 1
                base = dict(n=n, r=1 + k % 3, m=int(g2.integers(0, 40)), lamb=LAMBS[k % 6], weighted=bool(k % 2),
                            nswp=3, seed=sd(), opt=o)
                for cid in three:
                    yield 'C07.als.' + cid, base
    # (C) argument forms (nested lists, narrow integer / float dtypes, Fortran-ordered and non-contiguous cores),
    # (D) keyword arguments that must be inert in the constant-rank mode, log=True
    forms = [{'form': 'list'}, {'form': 'i32'}, {'form': 'i8'}, {'form': 'f32'}, {'order': 'F'}, {'order': 'V'},
             {'kw': {'use_stab': True}}, {'kw': {'log': True}}, {'kw': {'allow_skip_cores': True}},
             {'kw': {'swap_tol': 0, 'e_adap': 0.5, 'r_add': 0}}]
    for n in (cov if big else ([3, 4], [2, 3, 2])):
        for o in forms:
            k += 1
            base = dict(n=n, r=2, m=int(g2.integers(0, 40)), lamb=LAMBS[k % 6], weighted=bool(k % 2), nswp=3,
                        seed=sd(), opt=o)
            yield 'C07.als.descent', base
            yield 'C07.als.last_core_optimal', base
            if 'kw' not in o:
                yield 'C07.als.permutation', dict(base, pseed=sd())
    for n in ([3, 4], [2, 3, 2]):
        for o in (({'form': 'list'}, {'form': 'i32'}) if big else ({'form': 'list'},)):
            yield 'C07.als.info_stop', dict(n=n, r=2, m=int(g2.integers(5, 40)), lamb=LAMBS[k % 6], nswp=3, seed=sd(),
                                            adaptive=len(n) >= 3 and o['form'] == 'list', opt=o)
    # (E) regularisation far outside 1e-4 .. 1
    for n in cov[:3] + ([cov[4]] if big else []):
        for lamb in (1e-10, 1e-7, 10.0, 1e3) + ((1e-13, 1e6) if big else ()):
            for rep in range(reps):
                k += 1
                base = dict(n=n, r=1 + k % 3, m=int(g2.integers(0, 40)), lamb=lamb, weighted=bool(k % 2), nswp=3,
                            seed=sd())
                for cid in three:
                    yield 'C07.als.' + cid, base
    # (F) weights that vanish for a third of the samples; integer-typed weights
    for n in cov[:3]:
        for rep in range(reps):
            k += 1
            base = dict(n=n, r=2, m=int(g2.integers(10, 40)), lamb=LAMBS[k % 6], weighted=True, nswp=3, seed=sd(),
                        opt={'wzero': True})
            yield 'C07.als.descent', base
            yield 'C07.als.last_core_optimal', base
            yield 'C07.als.duplicates_as_weights', dict(n=n, r=2, m=int(g2.integers(0, 20)), lamb=LAMBS[k % 6], nswp=3,
                                                        seed=sd(), opt={'wint': True})
    # (G) more modes, larger modes (few samples per slice), ranks far beyond what the cores can carry
    for n, r in (([2, 2, 2, 2, 2], 2), ([2, 1, 2, 2, 1, 2], 2), ([12, 3], 2), ([2, 12, 2], 3), ([2, 2], 5), ([3, 1, 3], 4)) + \
            ((([2] * 8, 2), ([30, 2], 2), ([3, 20, 3], 2), ([1, 1, 1], 3)) if big else ()):
        for rep in range(reps):
            k += 1
            base = dict(n=n, r=r, m=int(g2.integers(0, 30)), lamb=LAMBS[k % 6], weighted=bool(k % 2), nswp=3, seed=sd())
            for cid in six:
                yield 'C07.als.' + cid, base
    # (H) single-sample slices with a weight vector
    for n in ([3, 2], [2, 3, 2]) + (([2, 2], [3, 3]) if big else ()):
        total = 2 * (sum(n) - 1) + 1
        for mode in range(len(n)):
            s0 = sd()
            yield 'C07.als.single_sample_slice_pos0', dict(n=n, r=2, lamb=LAMBS[mode % 3 + 1], nswp=3, seed=s0, mode=mode,
                                                           weighted=True)
            for pos in range(1, total):
                yield 'C07.als.single_sample_slice', dict(n=n, r=2, lamb=LAMBS[mode % 3 + 1], nswp=3, seed=s0, mode=mode,
                                                          pos=pos, weighted=True)
    # (I) rank-adaptive mode: truncation threshold, growth limit, rank profiles, scales, forms, flags
    ad = [dict(opt={'kw': {'e_adap': 1e-1}}), dict(opt={'kw': {'e_adap': 1e-12}}), dict(r_add=0), dict(r_add=2),
          dict(opt={'yscale': 1e-6}), dict(opt={'yscale': 1e6}), dict(opt={'y0scale': 1e-4}), dict(opt={'form': 'list'}),
          dict(opt={'order': 'V'}), dict(opt={'kw': {'log': True}}), dict(opt={'kw': {'allow_skip_cores': True}})]
    for n in ([2, 3, 2], [3, 3, 3], [2, 2, 2, 2]) + (([4, 1, 3], [2, 3, 4, 2, 2]) if big else ()):
        for j, extra in enumerate(ad):
            for rep in range(reps):
                k += 1
                r0 = ([1, 2] + [1] * (len(n) - 2) + [1]) if j % 4 == 3 else 1 + k % 2
                p = dict(n=n, r0=r0, r=2 + k % 3, r_add=10000, m=int(g2.integers(0, 30)), lamb=LAMBS[k % 6],
                         weighted=bool(k % 2), nswp=2 + k % 2, seed=sd(), kind=('noise', 'lowrank')[k % 2])
                p.update(extra)
                yield 'C07.als.adaptive_ranks', p
        # OUTSIDE C07 (kept for replay, not yielded): the flags use_stab / allow_swap are not among the dimensions the property
        # quantifies over.  Observations recorded in DESIGN.md: als(r=.., use_stab=True) raises AttributeError for every input;
        # als(r=.., allow_swap=True) without validation data raises TypeError; two non-commuting swaps permute I_vld wrongly.
        for rep in range(reps if OUTSIDE_PROPERTY else 0):
            yield 'C07.als.adaptive_use_stab', dict(n=n, r0=2, r=3, m=int(g2.integers(0, 30)), lamb=1e-3, nswp=2,
                                                    seed=sd(), kind='lowrank')
    for n in ([2, 3, 4], [3, 3, 3], [2, 3, 4, 5]) + (([3, 2, 4, 2, 3],) if big else ()):
        for kind in ('noise', 'lowrank', 'linked'):
            for rep in range(4 * reps if OUTSIDE_PROPERTY else 0):
                yield 'C07.als.adaptive_swap', dict(n=n, r0=2, r=3, m=int(g2.integers(0, 40)), lamb=1e-3, nswp=3,
                                                    seed=sd(), kind=kind)
        if OUTSIDE_PROPERTY:
            yield 'C07.als.adaptive_swap_no_vld', dict(n=n, r0=2, r=3, m=10, lamb=1e-3, nswp=2, seed=sd(), kind='linked')
    for sw_kind, sw_seed in (('linked', 45), ('linked', 68), ('lowrank', 78), ('noise', 3), ('linked', 4)) + \
            (tuple(('linked', 100 + q) for q in range(40)) if big else ()):
        if OUTSIDE_PROPERTY:
            yield 'C07.als.adaptive_swap_vld', dict(n=[2, 3, 4], r0=2, r=3, m=sw_seed % 40, lamb=1e-3, nswp=3, seed=sw_seed,
                                                    kind=sw_kind)
        if OUTSIDE_PROPERTY:
            yield 'C07.als.adaptive_swap', dict(n=[2, 3, 4], r0=2, r=3, m=sw_seed % 40, lamb=1e-3, nswp=3, seed=sw_seed,
                                                kind=sw_kind)             # (seeds 45, 68, 78: two successive swaps)
    # (J) update_sol, (K) defaults
    for n in cov[:4]:
        for rep in range(reps):
            k += 1
            yield 'C07.als.update_sol', dict(n=n, r=1 + k % 3, m=int(g2.integers(0, 40)), lamb=LAMBS[k % 6],
                                             weighted=bool(k % 2), nswp=4, seed=sd())
    for n, form in (([3, 4], None), ([2, 3, 2], 'list'), ([2, 2, 2, 2], None)):
        yield 'C07.als.defaults', dict(n=n, r=2, m=int(g2.integers(5, 40)), seed=sd(), form=form)
    # (L) functional version: own basis functions (one function / a list of d functions), scales, forms
    for (d, nm, r) in ((2, 3, 2), (3, 3, 2), (3, 2, 3)) + (((4, 3, 2), (2, 4, 1)) if big else ()):
        for o in ({'fh': 'mono'}, {'fh': 'mixed'}, {'yscale': 1e-6}, {'yscale': 1e6}, {'form': 'list'}, {'order': 'V'},
                  {'kw': {'log': True}}, {'kw': {'thr_pow': 0.0}}):
            for rep in range(reps):
                k += 1
                base = dict(d=d, nm=nm, r=r, m=int(g2.integers(30, 61)), lamb=LAMBS[1 + k % 5], nswp=3, seed=sd(),
                            box=[[-1.0, 1.0], [0.0, 0.5]][k % 2], opt=o)
                yield 'C07.als_func.descent', base
                yield 'C07.als_func.last_core_optimal', dict(base, nswp=1 + k % 3)
                if 'fh' in o or big:
                    yield 'C07.als_func.restart', base
                    yield 'C07.als_func.permutation', dict(base, pseed=sd())
        yield 'C07.als_func.update_sol', dict(d=d, nm=nm, r=r, m=40, lamb=LAMBS[1 + k % 5], nswp=3, seed=sd(),
                                              box=[-1.0, 1.0])
        yield 'C07.als_func.defaults', dict(d=d, nm=nm, r=r, m=40, seed=sd())
    # (N) input FORMS: Y0 with float32 / mixed float32-float64 / read-only / F-ordered / non-contiguous cores or as a tuple, I as
    # uint8 / Fortran-ordered / non-contiguous / read-only / tuple, y as int64 array / list of Python ints / view / read-only, w as
    # float32 / view / read-only, every numeric option as NumPy scalar / 0-d array, nswp / e / info positionally
    gf = gen.rng('C07forms', seed)

    def sf():
        return int(gf.integers(1 << 30))

    exact = [{'y0': 'tuple'}, {'y0': 'ro'}, {'y0': 'F+ro+tuple'}, {'y0': 'V+ro'}, {'iform': 'u8+F'}, {'iform': 'V+ro'},
             {'iform': 'tuple'}, {'iform': 'i32+F+ro'}, {'yform': 'int'}, {'yform': 'intlist'}, {'yform': 'V+ro'},
             {'wform': 'f32'}, {'wform': 'V+ro'}, {'num': 'np64'}, {'num': 'np32'}, {'num': '0d'}, {'call': 'pos'},
             {'y0': 'ro+tuple', 'iform': 'u8+V', 'yform': 'int+ro', 'wform': 'f32+V', 'num': 'np32', 'call': 'pos'}]
    rounded = [{'y0': 'f32'}, {'y0': 'mixed'}, {'y0': 'mixed1+V'}, {'y0': 'f32+tuple', 'num': 'np32', 'call': 'pos'}]
    flambs = (0.0625, 0.5, 0.001953125, 0.01)           # (the first three are float32 values: they go as np.float32 with 'np32')
    fsh = [[3, 4], [2, 3, 2], [4, 1, 3], [2, 2, 2, 2]] + ([[2, 2], [3, 3, 3], [1, 3]] if big else [])
    for j, o in enumerate(exact):
        for q, n in enumerate(fsh):
            if not big and (j + q) % 2:
                continue
            k += 1
            base = dict(n=n, r=1 + k % 3, m=int(gf.integers(0, 40)), lamb=flambs[k % 4], weighted=bool(k % 2) or 'wform' in o,
                        nswp=3, seed=sf(), opt=o)
            yield 'C07.als.constant_rank_shape', base
            yield 'C07.als.descent', base
            yield 'C07.als.last_core_optimal', dict(base, nswp=1 + k % 3)
            yield 'C07.als.restart', base
            yield 'C07.als.permutation', dict(base, pseed=sf())
            if (j + q) % 4 < 2 or big:
                yield 'C07.als.duplicates_as_weights', {u: v for u, v in dict(base, m=int(gf.integers(0, 25))).items() if u != 'weighted'}
            if len(n) >= 3:
                yield 'C07.als.adaptive_ranks', dict(n=n, r0=1 + k % 2, r=2 + k % 2, r_add=(10000, 1)[k % 2], m=int(gf.integers(0, 30)),
                                                     lamb=flambs[k % 4], weighted=bool(k % 2) or 'wform' in o, nswp=2,
                                                     seed=sf(), kind=('noise', 'lowrank')[k % 2], opt=o)
            if q == j % 2 or big:
                yield 'C07.als.info_stop', dict(n=n, r=2, m=int(gf.integers(5, 40)), lamb=flambs[k % 4], nswp=3, seed=sf(),
                                                adaptive=len(n) >= 3 and bool(k % 2), opt=o)
    for j, o in enumerate(rounded):
        for q, n in enumerate(fsh):
            k += 1
            base = dict(n=n, r=1 + k % 3, m=int(gf.integers(0, 40)), lamb=flambs[k % 4], weighted=bool(k % 2), nswp=3, seed=sf(), opt=o)
            yield 'C07.als.constant_rank_shape', base
            yield 'C07.als.last_core_optimal', dict(base, nswp=1 + k % 3)
            if len(n) >= 3:
                yield 'C07.als.adaptive_ranks', dict(n=n, r0=1 + k % 2, r=2 + k % 2, r_add=(10000, 1)[k % 2], m=int(gf.integers(0, 30)),
                                                     lamb=flambs[k % 4], weighted=bool(k % 2), nswp=2, seed=sf(),
                                                     kind=('noise', 'lowrank')[k % 2], opt=o)
            if q == j % 4 or big:
                yield 'C07.als.info_stop', dict(n=n, r=2, m=int(gf.integers(5, 40)), lamb=flambs[k % 4], nswp=3, seed=sf(),
                                                adaptive=False, opt=o)
    fexact = [{'a0': 'tuple'}, {'a0': 'ro'}, {'a0': 'F+ro+tuple'}, {'a0': 'V'}, {'xform': 'F'}, {'xform': 'V+ro'}, {'yform': 'int'},
              {'yform': 'intlist'}, {'yform': 'V+ro'}, {'num': 'np64'}, {'num': 'np32'}, {'num': '0d'}, {'call': 'pos'},
              {'a0': 'ro+tuple', 'xform': 'F+ro', 'yform': 'int+ro', 'num': 'np32', 'call': 'pos'}, {'a0': 'mixed'}]
    for j, o in enumerate(fexact):
        for q, (d, nm, r) in enumerate(((2, 3, 2), (3, 3, 2), (3, 2, 3)) + (((4, 3, 2), (2, 4, 1)) if big else ())):
            if not big and (j + q) % 3:
                continue
            k += 1
            base = dict(d=d, nm=nm, r=r, m=int(gf.integers(30, 61)), lamb=flambs[k % 4], nswp=3, seed=sf(),
                        box=[[-1.0, 1.0], [0.0, 0.5]][k % 2], opt=o)
            yield 'C07.als_func.descent', base
            yield 'C07.als_func.last_core_optimal', dict(base, nswp=1 + k % 3)
            if o.get('a0') != 'mixed':
                yield 'C07.als_func.restart', base
                yield 'C07.als_func.permutation', dict(base, pseed=sf())
    # (M) a threshold for a stop criterion that cannot be evaluated: e_vld without a (complete) validation set
    evs = (0.0, 1e-6, 1.0, 1e+10)
    for n in ([2, 2], [3, 4], [2, 3, 2], [4, 1, 3], [2, 2, 2, 2]) + (([1, 3], [3, 3, 3], [3, 2, 1, 3]) if big else ()):
        for vld in ('none', 'I', 'y'):
            for ad in ((False, True) if len(n) >= 3 else (False,)):
                for e_vld in (evs if big else (evs[k % 4], evs[(k + 2) % 4]) if vld == 'none' else (evs[(k + 1) % 4],)):
                    k += 1
                    p = dict(n=n, r=2, m=int(g2.integers(5, 40)), lamb=LAMBS[k % 6], nswp=2 + k % 3, seed=sd(), adaptive=ad,
                             e_vld=e_vld, vld=vld)
                    if k % 5 == 0:
                        p['opt'] = {'form': 'list'}
                    yield 'C07.als.info_stop_no_vld', p
    for (d, nm, r) in ((2, 3, 2), (3, 3, 2), (3, 2, 3)) + (((4, 3, 2), (2, 4, 1)) if big else ()):
        for vld in ('none', 'X', 'y'):
            for e_vld in (evs if big else (evs[k % 4], evs[(k + 2) % 4]) if vld == 'none' else (evs[(k + 1) % 4],)):
                k += 1
                yield 'C07.als_func.info_stop_no_vld', dict(d=d, nm=nm, r=r, m=int(g2.integers(30, 61)), lamb=LAMBS[1 + k % 5],
                                                            nswp=2 + k % 3, seed=sd(), box=[[-1.0, 1.0], [0.0, 0.5]][k % 2],
                                                            e_vld=e_vld, vld=vld)
    # (N) rank-adaptive mode on sparse training lists: a pair of neighbouring indices covered by ONE sample that stands first /
    # last / in the middle / second in the list; at one bond (every bond in turn) or at all bonds; other pairs covered twice
    # (or once: cover = 1) (+ random samples); with a binding rank cap and the default e_adap (order independence) and without
    # any truncation (r = full rank, e_adap = 1e-14: order independence + sensitivity to the lone value)
    g4 = gen.rng('C07lone', seed)
    k = 0
    # (with r >= n_0 the left factor of the FIRST two-core solve of a sweep spans the whole space whatever its blocks are and all
    # later solves start afresh - the result is then insensitive to that solve; so the capped cases keep r < n_0, n_d-1)
    for n in ([3, 3, 3], [4, 3, 4], [4, 2, 3], [3, 2, 2, 3]) + \
            (([2, 2, 2], [2, 3, 2], [3, 2, 2], [2, 2, 2, 2], [2, 3, 2, 2], [3, 3, 2, 3], [3, 2, 2, 2, 3], [2, 1, 3], [3, 4, 3])
             if big else ()):
        d = len(n)
        rfull = max(min(int(np.prod(n[:q + 1])), int(np.prod(n[q + 1:]))) for q in range(d - 1))
        for bond in range(d - 1):
            for lone in ('one', 'all'):
                for pos in (0, -1, -2, 1):
                    for full in (False, True):
                        for rep in range(3 if big else 1):
                            k += 1
                            if not big and pos == 1 and (k + bond) % 2:
                                continue
                            rcap = max(1, min(2 + k % 2, min(n[0], n[-1]) - 1))
                            p = dict(n=n, r0=min(1 + k % 2, rcap), r=rcap, lamb=LAMBS[k % 6], nswp=1 + k % 3,
                                     seed=int(g4.integers(1 << 30)), bond=bond, lone=lone, pos=pos,
                                     cover=1 if k % 5 == 0 else 2, m=(0, 0, 6)[k % 3], weighted=bool((k // 2) % 2),
                                     kind=('noise', 'lowrank')[(k // 3) % 2])
                            if full:
                                p.update(r=rfull, e_adap=(1e-14, 0.0)[k % 2])
                            elif k % 7 == 0:
                                p.update(e_adap=1e-1)
                            yield 'C07.als.adaptive_lone_pair', p
    for rep in range(400 if big else 0):        # random: any position of the lone sample
        n = [int(x) for x in g4.integers(2, 4, size=int(g4.integers(3, 5)))]
        yield 'C07.als.adaptive_lone_pair', dict(
            n=n, r0=int(g4.integers(1, 3)), r=int(g4.integers(2, 5)), lamb=LAMBS[rep % 6], nswp=int(g4.integers(1, 4)),
            seed=int(g4.integers(1 << 30)), bond=int(g4.integers(0, len(n) - 1)), lone=('one', 'all')[rep % 2],
            pos=int(g4.integers(0, 40)), cover=int(g4.integers(1, 3)), m=int(g4.integers(0, 10)), weighted=bool(rep % 3 == 0),
            kind=('noise', 'lowrank')[(rep // 2) % 2])
    # functional version
    k = 0
    for d in (2, 3, 4):
        for nm in (2, 3, 4):
            for r in (1, 2, 3):
                for rep in range(6 if big else 2):
                    k += 1
                    base = dict(d=d, nm=nm, r=r, m=int(g.integers(30, 61)), lamb=LAMBS[1 + k % 5],
                                nswp=(6 if rep % 3 == 2 else 3), seed=int(g.integers(1 << 30)),
                                box=[[-1.0, 1.0], [-5.0, 6.0], [0.0, 0.5]][k % 3])
                    yield 'C07.als_func.descent', base
                    yield 'C07.als_func.last_core_optimal', dict(base, nswp=1 + k % 3)
                    yield 'C07.als_func.restart', base
                    yield 'C07.als_func.permutation', dict(base, pseed=int(g.integers(1 << 30)))
                    if rep == 0:
                        yield 'C07.als_func.info_stop', base
