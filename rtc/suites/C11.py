"""C11 (bounded, T3): degenerate but valid inputs yield well-formed finite tensors, never NaN.

Every clause calls the real routine on members of the degenerate input families and checks the *statement*:
the result is a well-formed TT-tensor (gen.wf: list of 3-D float cores, boundary ranks 1, matching bonds,
the expected mode sizes) with finite entries (gen.finite); scalars are finite; the undefined relative accuracy
is the sentinel -1.  Values are not compared (that is C01-C07).

Families (`_tt`): gauss / int (baseline), rank1, over (bonds larger than a core can carry), rankdef (TT-ranks r,
all unfoldings of rank 1), const (constant data), cancel (X - X with non-zero cores), and the exactly-zero
tensors zero_all / zero_first / zero_mid / zero_last (one or all cores zero), const0 = teneva.const(n, 0.),
mul0 = teneva.mul(Y, 0.).  Shapes: gen.shapes (d = 2..4, mode sizes 1..4, incl. all ones).

Clauses:
  C11.truncate.wf              truncate, e x rank cap x orth x use_stab x is_eigh  (is_eigh with an exactly-zero
                               core is the known defect -> own clause)
  C11.truncate.zero_tensor     KNOWN DEFECT (svd.matrix_svd inverts w = 0): truncate(is_eigh=True) of exactly-zero tensors
  C11.truncate.zero_tensor.cancel  same defect reached through exact cancellation (X - X, integer cores, over-ranked)
  C11.orthogonalize.wf         orthogonalize (all pivots, both stab flags), orthogonalize_left / _right (every i)
  C11.svd.wf                   svd of zero / constant / rank-1 / low-rank arrays; svd_matrix
  C11.matrix_factor.wf         matrix_svd / matrix_skeleton on rank-deficient non-zero matrices (factors finite, rank >= 1)
  C11.tt_to_qtt.wf             tt_to_qtt / qtt_to_tt on the non-zero families;  C11.qtt_to_tt.wf on all families
  C11.tt_to_qtt.zero_tensor    KNOWN DEFECT (same root cause): tt_to_qtt of a tensor with an exactly-zero core, n >= 4
  C11.arith.wf                 add / sub / mul / outer incl. scalar operands, and the scalars of the results
  C11.add_many.wf              add_many with zero summands, scalars, small trunc_freq (partial sums non-zero)
  C11.add_many.zero_tensor     KNOWN DEFECT (same root cause): add_many of exactly-zero tensors
  C11.scalars.finite           norm (both flags), sum, mean, mul_scalar (both flags), erank
  C11.accuracy.sentinel        accuracy(., zero reference) == -1; otherwise finite and >= 0
  C11.show.accepts             show accepts every well-formed tensor, ValueError on malformed ones
  C11.cross.wf                 cross with a zero / constant oracle
  C11.als.wf                   als (fixed rank and rank-adaptive) on constant / zero data with repeated samples
  C11.anova.wf                 anova orders 1, 2 on constant data, order 1 on zero data
  C11.anova.zero_data          KNOWN DEFECT (same root cause via add_many): anova(order=2) of zero data
  C11.anova_func.wf            ANOVA_func / anova_func on constant data, zero data without rounding
  C11.anova_func.zero_data     KNOWN DEFECT (same root cause via truncate): anova_func of zero data with rounding
  C11.func.wf                  func_int / func_gets (Chebyshev and sine) of the families

Parameter-coverage additions (audit of families x routines x flags):
  families pad0 (rank 2 embedded in larger bonds by zero blocks), dupcol (every bond carries its columns twice),
  tiny / huge (norm about 1e-40 / 1e+40) run through truncate (all 8 flag combinations), orthogonalize, scalars, show,
  accuracy (finite and >= 0 against a zero first argument), arith, tt_to_qtt, func
  C11.truncate.zero_flags      exactly-zero tensors x all 8 flag combinations x (e, rank cap) x shapes incl. mode size 1, d = 2, d = 4
  C11.tt_to_qtt.zero_flags     tt_to_qtt(e, r) of exactly-zero tensors (incl. cancellation, q = 1) and back
  C11.add_many.zero_flags      add_many(e, r, trunc_freq) with exactly-zero partial sums (X + (-X), zero tensors, 0. scalars)
  C11.cross.degenerate         cross of one-hot / zero-slice / +-1 / single-active-mode oracles under every stop criterion
                               (nswp = 0, nswp, e, validation data, m budgets that interrupt a sweep at every core)
  C11.cross.dr_grid            (gap closure) cross for every pair 0 <= dr_min <= dr_max <= 3 and (4,4), (2,5), (5,5) of the rank-growth
                               parameters against the number of spare rows r_left*n - r_right of the unfoldings (dr_min / dr_max at or
                               above it: mode size 2 with rank 1, d = 2, mode size 1, ranks grown to n - 1, saturated, over-ranked),
                               8 oracles (zero, constant, sum, product, one-hot, zero-slice, +-1, one active mode), 1..3 sweeps
  C11.als.flags                als with lamb=None, weights, allow_skip_cores with unsampled slices, update_sol, rank-adaptive
                               with lamb=None / weights / r_add = 1 / allow_swap, on zero / constant / one-hot / zero-slice data
  C11.anova.class_flags        ANOVA.cores(rel_noise) twice on one object, r above the mode sizes, constant and zero data
  C11.forms.tt_input / C11.forms.cross / C11.forms.als   (input FORMS) every family (17 + 4) handed over with float32 / alternating
                               float32-float64 / Fortran-ordered / non-contiguous / read-only cores or as a tuple through truncate
                               (8 flag combinations x 2 settings), orthogonalize (every pivot, both flags), orthogonalize_left /
                               _right, add / sub / mul / outer and the scalars (argument untouched); cross on the 6 degenerate
                               oracles x 4 stop criteria with the start in these forms, nswp / m / e / dr_min / dr_max / k0 as NumPy
                               scalars / 0-d arrays, oracle values returned as list / float32 / integer array, validation data as
                               uint8 / int32 / F / view / tuple / float32; als on zero / constant / one-hot / zero-slice data with
                               the start / the index array / the values (int64 array, list of ints, float32) / the weights / the
                               numeric options in other forms, fixed-rank and adaptive
  C11.scalars.many_modes       (gap closure) scalars of degenerate tensors with MORE ENTRIES THAN int64 CAN COUNT (2^63 .. 5^130: [2]*63,
                               [2]*64, [2]*65, [4]*32, [16]*16, [3]*41, [65536]*4, d up to 130, modes of size 1 mixed in, ragged): 14
                               families (zero tensors with all / first / middle / last core zero and const(n, 0.), exact cancellation
                               X - X, constant, rank 1, rank-deficient, over-ranked, zero-padded and duplicated bonds, generic signed /
                               non-negative); sum, mean (default, norm=False, explicit P), mul_scalar, norm (both flags), erank are
                               finite and agree with EXACT rational arithmetic on the dyadic core chain (64 d eps of the chain of
                               moduli; exactly 0 for a zero core), accuracy: sentinel -1 against a zero reference, 1/2 against 2Y, 1 for
                               the zero tensor against Y.  Stands on its own (no other teneva routine in the reference).
"""
import contextlib, io, math
import numpy as np
import teneva
from rtc.api import clause, PASS, FAIL, TRIVIAL, SKIP, check
from rtc import gen

BUDGET = (100, 800)
BOUNDS = ('shapes gen.shapes(d<=4, n<=4) incl. mode size 1 and d=2; 17 families (11 non-zero incl. zero-padded, duplicated bonds, norm 1e-40 / 1e+40; 6 exactly-zero); '
          'ranks 1..4 (+3 over-ranked); truncate: e in {1e-10,1e-2,10}, cap in {1e12,1,2}, all 8 flag combinations; '
          'all pivots; qtt: d<=4, q<=3; cross/als/anova: d=2..4, zero / constant / one-hot / zero-slice data, full / repeated / sparse samples, '
          'every stop criterion of cross (6 budgets m), 9 option sets of als, zero tensors x all truncate flags x 4 (e, cap); '
          'cross (dr_min, dr_max) in all 13 pairs {0<=a<=b<=3, (4,4), (2,5), (5,5)} x 8 shapes (n<=4, d<=4; thorough 14, n<=5, d<=6) x start ranks 1..3; '
          'scalars of tensors with 2^63 .. 5^130 entries: 13 shapes (thorough 18: d = 16..130, n = 2..16, 256, with modes of size 1, ragged) + '
          '[65536]*4 (+ [2^21]*3) x 14 degenerate families x ranks 2..3 (1..3), exact rational reference; input forms: 21 families x '
          '9 core forms (f32 / mixed / F / view / read-only / tuple) x 8 shapes (one in eight quick) through 35+ routine calls, cross '
          '14 forms x 6 oracles x 6 shapes, als 17 forms x 4 data kinds x 6 shapes (one in four quick; 380 quick cases)')

NONZERO = ('gauss', 'int', 'rank1', 'over', 'rankdef', 'const', 'cancel')
ZERO = ('zero_all', 'zero_first', 'zero_mid', 'zero_last', 'const0', 'mul0')
FAMS = NONZERO + ZERO
# parameter-coverage additions (non-zero): pad0 = a rank-2 tensor embedded in bonds of size r by zero blocks (exact
# zero singular values next to non-zero ones, no zero core); tiny / huge = generic tensors of norm about 1e-40 / 1e+40
# (well-formedness is scale-free: catches thresholds that are absolute); dupcol = every bond carries each column twice
EXTRA = ('pad0', 'tiny', 'huge', 'dupcol')


def _tt(shape, fam, r, seed):
    shape = [int(k) for k in shape]
    d = len(shape)
    if fam in ('gauss', 'int'):
        return gen.tt(shape, r, seed, fam)
    if fam == 'rank1':
        return gen.tt(shape, 1, seed, 'gauss')
    if fam == 'over':
        return gen.tt(shape, r + 3, seed, 'gauss')
    if fam == 'rankdef':
        Y = gen.tt(shape, 1, seed, 'gauss')
        rr = [1] + [r] * (d - 1) + [1]
        return [np.array(np.broadcast_to(G, (rr[k], G.shape[1], rr[k + 1]))) for k, G in enumerate(Y)]
    if fam == 'const':
        return gen.tt(shape, r, seed, 'ones', scale=1.5)
    if fam == 'pad0':
        Y = gen.tt(shape, min(2, r), seed, 'gauss')
        rr = [1] + [max(2, r) + 1] * (d - 1) + [1]
        Z = [np.zeros((rr[k], shape[k], rr[k + 1])) for k in range(d)]
        for G, H in zip(Y, Z):
            H[:G.shape[0], :, :G.shape[2]] = G
        return Z
    if fam in ('tiny', 'huge'):
        return gen.tt(shape, r, seed, 'gauss', scale=(1e-40 if fam == "tiny" else 1e40) ** (1. / d))
    if fam == 'dupcol':
        Y = gen.tt(shape, r, seed, 'gauss')
        return [np.concatenate([G, G], axis=2) if k < d - 1 else G for k, G in
                enumerate([np.concatenate([0.5 * G, 0.5 * G], axis=0) if k > 0 else G for k, G in enumerate(Y)])]
    if fam == 'cancel':
        X = gen.tt(shape, r, seed, 'int')
        return teneva.sub(X, X)
    if fam == 'zero_all':
        return gen.tt(shape, r, seed, 'zero')
    if fam in ('zero_first', 'zero_mid', 'zero_last'):
        Y = gen.tt(shape, r, seed, 'gauss')
        k = {'zero_first': 0, 'zero_mid': d // 2, 'zero_last': d - 1}[fam]
        Y[k] = np.zeros_like(Y[k])
        return Y
    if fam == 'const0':
        return teneva.const(shape, 0.)
    if fam == 'mul0':
        return teneva.mul(gen.tt(shape, r, seed, 'gauss'), 0.)
    raise ValueError(fam)


def _has_zero_core(Y):
    return any(not np.any(G) for G in Y)


def _is_zero_tensor(Y):
    """Exactly zero as a tensor: a zero core, or (integer cores, tiny shapes) every entry exactly 0."""
    return _has_zero_core(Y) or (int(np.prod([G.shape[1] for G in Y])) <= 4096 and not np.any(gen.dense(Y)))


def _bad(Z, shape, what):
    """None if Z is a well-formed finite TT-tensor with mode sizes `shape`, else a message."""
    msg = gen.wf(Z, shape)
    if msg:
        return f'{what}: not well-formed: {msg}'
    if not gen.finite(Z):
        k = [i for i, G in enumerate(Z) if not np.all(np.isfinite(G))]
        return f'{what}: non-finite entries in cores {k}'
    return None


def _finite_scalar(v):
    return isinstance(v, (int, float, np.integer, np.floating)) and bool(np.isfinite(v))


# ------------------------------------------------------------------ truncate

def _truncate_case(shape, fam, r, seed, e, rcap, orth, use_stab, is_eigh):
    Y = _tt(shape, fam, r, seed)
    Z = teneva.truncate(Y, e, rcap, orth=orth, use_stab=use_stab, is_eigh=is_eigh)
    return Y, _bad(Z, shape, f'truncate(e={e}, r={rcap}, orth={orth}, use_stab={use_stab}, is_eigh={is_eigh})')


@clause('C11.truncate.wf', funcs=('transformation.truncate', 'svd.matrix_svd', 'svd.matrix_skeleton'))
def truncate_wf(shape, fam, r, seed, e, rcap, orth, use_stab, is_eigh):
    """truncate returns a well-formed finite tensor of the same mode sizes (all flags; the eigen-mode on a tensor
    with an exactly-zero core is evaluated by C11.truncate.zero_tensor)."""
    if is_eigh and (fam == 'cancel' or _is_zero_tensor(_tt(shape, fam, r, seed))):
        return SKIP('exactly-zero tensor in eigen mode: C11.truncate.zero_tensor[.cancel]')
    Y, msg = _truncate_case(shape, fam, r, seed, e, rcap, orth, use_stab, is_eigh)
    return FAIL(msg) if msg else PASS


@clause('C11.truncate.zero_tensor', funcs=('transformation.truncate', 'svd.matrix_svd'))
def truncate_zero_tensor(shape, fam, r, seed, e, orth, use_stab):
    """truncate (default eigen mode) of an exactly-zero tensor (const(n, 0.), mul(Y, 0.), a zero first / middle /
    last core) returns a well-formed finite tensor."""
    Y, msg = _truncate_case(shape, fam, r, seed, e, 1.E+12, orth, use_stab, True)
    if not _has_zero_core(Y):
        return SKIP('no exactly-zero core')
    return FAIL(msg) if msg else PASS


@clause('C11.truncate.zero_tensor.cancel', funcs=('transformation.truncate', 'svd.matrix_svd'))
def truncate_zero_cancel(shape, r, seed, e, use_stab):
    """truncate (default eigen mode) of X - X with integer cores (exactly zero by cancellation, no zero core;
    the orthogonalisation may or may not leave an exactly-zero last core) returns a well-formed finite tensor."""
    Y, msg = _truncate_case(shape, 'cancel', r, seed, e, 1.E+12, True, use_stab, True)
    return FAIL(msg) if msg else PASS


@clause('C11.truncate.zero_flags', funcs=('transformation.truncate', 'svd.matrix_svd', 'svd.matrix_skeleton'))
def truncate_zero_flags(shape, fam, r, seed, e, rcap, orth, use_stab, is_eigh):
    """truncate of an exactly-zero tensor (all zero families incl. exact cancellation) for every flag combination,
    accuracy and rank cap, also with modes of size 1, d = 2 and d = 4: well-formed and finite."""
    Y, msg = _truncate_case(shape, fam, r, seed, e, rcap, orth, use_stab, is_eigh)
    if not _is_zero_tensor(Y):
        return SKIP('not an exactly-zero tensor')
    return FAIL(msg) if msg else PASS


# ------------------------------------------------------------------ orthogonalisation

@clause('C11.orthogonalize.wf', funcs=('transformation.orthogonalize', 'transformation.orthogonalize_left',
                                       'transformation.orthogonalize_right'))
def orthogonalize_wf(shape, fam, r, seed):
    """orthogonalize for every pivot and both stab flags, orthogonalize_left / _right for every position."""
    Y = _tt(shape, fam, r, seed)
    d = len(shape)
    for k in list(range(d)) + [None]:
        for stab in (False, True):
            out = teneva.orthogonalize(Y, k, use_stab=stab)
            if stab:
                if not (isinstance(out, tuple) and len(out) == 2):
                    return FAIL('use_stab=True does not return a pair')
                Z, p = out
                if not _finite_scalar(p):
                    return FAIL(f'power factor p = {p!r}')
            else:
                Z = out
            msg = _bad(Z, shape, f'orthogonalize(k={k}, use_stab={stab})')
            if msg:
                return FAIL(msg)
    for i in range(d - 1):
        msg = _bad(teneva.orthogonalize_left(Y, i), shape, f'orthogonalize_left(i={i})')
        if msg:
            return FAIL(msg)
    for i in range(1, d):
        msg = _bad(teneva.orthogonalize_right(Y, i), shape, f'orthogonalize_right(i={i})')
        if msg:
            return FAIL(msg)
    return PASS


# ------------------------------------------------------------------ TT-SVD

def _array(shape, kind, seed):
    g = gen.rng('C11.array', shape, kind, seed)
    if kind == 'zero':
        return np.zeros(shape)
    if kind == 'const':
        return np.full(shape, -2.5)
    if kind == 'rank1':
        A = np.ones(shape)
        for k, n in enumerate(shape):
            sh = [1] * len(shape)
            sh[k] = n
            A = A * g.normal(size=n).reshape(sh)
        return A
    if kind == 'lowrank':
        return gen.dense(gen.tt(list(shape), 2, seed, 'int'))
    if kind == 'onehot':
        A = np.zeros(shape)
        A[tuple(int(g.integers(n)) for n in shape)] = 3.
        return A
    if kind == 'gauss':
        return g.normal(size=shape)
    raise ValueError(kind)


@clause('C11.svd.wf', funcs=('svd.svd', 'svd.matrix_skeleton'))
def svd_wf(shape, kind, seed, e, rcap):
    """TT-SVD of zero / constant / rank-1 / low-rank / one-hot arrays is well-formed and finite."""
    A = _array(tuple(shape), kind, seed)
    msg = _bad(teneva.svd(A, e, rcap), shape, f'svd(e={e}, r={rcap})')
    return FAIL(msg) if msg else PASS


@clause('C11.svd_matrix.wf', funcs=('svd.svd_matrix', 'svd.svd'))
def svd_matrix_wf(q, kind, seed, e, rcap):
    """svd_matrix of a zero / constant / identity / rank-1 / random 2^q x 2^q matrix: q cores of mode size 4."""
    n = 2 ** q
    if kind == 'eye':
        A = np.eye(n)
    else:
        A = _array((n, n), kind, seed)
    msg = _bad(teneva.svd_matrix(A, e, rcap), [4] * q, f'svd_matrix(e={e}, r={rcap})')
    return FAIL(msg) if msg else PASS


@clause('C11.matrix_factor.wf', funcs=('svd.matrix_svd', 'svd.matrix_skeleton'))
def matrix_factor_wf(m, n, rank, seed, e, rcap):
    """matrix_svd / matrix_skeleton of a non-zero m x n matrix of the given (deficient) rank: finite factors
    U [m, q], V [q, n] with 1 <= q <= min(m, n, cap) (all give_to / rel variants of the skeleton)."""
    g = gen.rng('C11.matrix', m, n, rank, seed)
    A = g.integers(-3, 4, size=(m, rank)).astype(float) @ g.integers(-3, 4, size=(rank, n)).astype(float)
    if not np.any(A):
        return SKIP('zero matrix drawn')
    outs = [('matrix_svd', teneva.matrix_svd(A, e, rcap))]
    for give_to in ('m', 'l', 'r'):
        for rel in (False, True):
            outs.append((f'matrix_skeleton({give_to},{rel})', teneva.matrix_skeleton(A, e, rcap, rel=rel, give_to=give_to)))
    for name, (U, V) in outs:
        if U.ndim != 2 or V.ndim != 2 or U.shape[0] != m or V.shape[1] != n or U.shape[1] != V.shape[0]:
            return FAIL(f'{name}: shapes {U.shape} {V.shape}')
        if not 1 <= U.shape[1] <= min(m, n, max(1, int(rcap))):
            return FAIL(f'{name}: rank {U.shape[1]}')
        if not (np.all(np.isfinite(U)) and np.all(np.isfinite(V))):
            return FAIL(f'{name}: non-finite factor')
    return PASS


# ------------------------------------------------------------------ QTT

@clause('C11.tt_to_qtt.wf', funcs=('act_one.tt_to_qtt', 'act_one.qtt_to_tt', 'core.core_tt_to_qtt', 'core.core_qtt_to_tt'))
def tt_to_qtt_wf(d, q, fam, r, seed, e, rcap):
    """tt_to_qtt gives d*q well-formed finite cores of mode size 2, qtt_to_tt maps them back to [2^q]^d
    (tensors with an exactly-zero core: C11.tt_to_qtt.zero_tensor)."""
    shape = [2 ** q] * d
    Y = _tt(shape, fam, r, seed)
    if _has_zero_core(Y):
        return SKIP('exactly-zero core: C11.tt_to_qtt.zero_tensor')
    Z = teneva.tt_to_qtt(Y, e, rcap)
    msg = _bad(Z, [2] * (d * q), f'tt_to_qtt(e={e}, r={rcap})')
    if msg:
        return FAIL(msg)
    msg = _bad(teneva.qtt_to_tt(Z, q), shape, 'qtt_to_tt(tt_to_qtt)')
    return FAIL(msg) if msg else PASS


@clause('C11.tt_to_qtt.zero_tensor', funcs=('act_one.tt_to_qtt', 'core.core_tt_to_qtt', 'svd.matrix_svd'))
def tt_to_qtt_zero(d, q, fam, r, seed):
    """tt_to_qtt of a tensor with an exactly-zero core is well-formed and finite."""
    shape = [2 ** q] * d
    Y = _tt(shape, fam, r, seed)
    if not _has_zero_core(Y):
        return SKIP('no exactly-zero core')
    msg = _bad(teneva.tt_to_qtt(Y), [2] * (d * q), 'tt_to_qtt')
    return FAIL(msg) if msg else PASS


@clause('C11.tt_to_qtt.zero_flags', funcs=('act_one.tt_to_qtt', 'core.core_tt_to_qtt', 'svd.matrix_svd'))
def tt_to_qtt_zero_flags(d, q, fam, r, seed, e, rcap):
    """tt_to_qtt with explicit accuracy / rank cap of a tensor with an exactly-zero core (or zero by cancellation),
    and the way back through qtt_to_tt: well-formed and finite."""
    shape = [2 ** q] * d
    Y = _tt(shape, fam, r, seed)
    if not _is_zero_tensor(Y):
        return SKIP('not an exactly-zero tensor')
    Z = teneva.tt_to_qtt(Y, e, rcap)
    msg = _bad(Z, [2] * (d * q), f'tt_to_qtt(e={e}, r={rcap})') or _bad(teneva.qtt_to_tt(Z, q), shape, 'qtt_to_tt(tt_to_qtt)')
    return FAIL(msg) if msg else PASS


@clause('C11.qtt_to_tt.wf', funcs=('act_one.qtt_to_tt', 'core.core_qtt_to_tt'))
def qtt_to_tt_wf(d, q, fam, r, seed):
    """qtt_to_tt of any family member of shape [2]^(d*q) is a well-formed finite tensor of shape [2^q]^d."""
    Y = _tt([2] * (d * q), fam, r, seed)
    msg = _bad(teneva.qtt_to_tt(Y, q), [2 ** q] * d, 'qtt_to_tt')
    return FAIL(msg) if msg else PASS


# ------------------------------------------------------------------ arithmetic and scalars

def _scalars(Y, what):
    vals = {'norm': teneva.norm(Y), 'sum': teneva.sum(Y), 'mean': teneva.mean(Y),
            'mul_scalar': teneva.mul_scalar(Y, Y), 'erank': teneva.erank(Y)}
    v, p = teneva.norm(Y, use_stab=True)
    vals['norm.stab.v'], vals['norm.stab.p'] = v, p
    v, p = teneva.mul_scalar(Y, Y, use_stab=True)
    vals['mul_scalar.stab.v'], vals['mul_scalar.stab.p'] = v, p
    for k, v in vals.items():
        if not _finite_scalar(v):
            return f'{k}({what}) = {v!r}'
    if vals['norm'] < 0 or vals['erank'] <= 0:
        return f'norm {vals["norm"]!r} / erank {vals["erank"]!r} out of range'
    return None


@clause('C11.scalars.finite', funcs=('act_one.norm', 'act_one.sum', 'act_one.mean', 'act_two.mul_scalar', 'props.erank'))
def scalars_finite(shape, fam, r, seed):
    """norm (plain and stabilised), sum, mean, mul_scalar (plain and stabilised), erank are finite numbers."""
    msg = _scalars(_tt(shape, fam, r, seed), fam)
    return FAIL(msg) if msg else PASS


# -- tensors with more entries than an integer type can count (gap closure: the element count prod(n) >= 2^63) ----------

MANY_FAMS = ('pos', 'signed', 'rank1', 'const', 'rankdef', 'over', 'pad0', 'dupcol', 'cancel',
             'zero_all', 'zero_first', 'zero_mid', 'zero_last', 'const0')


def _many_shape(d, nk, mix):
    """mode sizes: 'uniform' [nk]*d; 'ones' the same with a mode of size 1 after every third mode (same element count);
    'ragged' nk, nk+1, nk, ... ; 'lead1' / 'tail1' a mode of size 1 in front / at the end."""
    if mix == 'uniform':
        return [nk] * d
    if mix == 'ones':
        out = []
        for k in range(d):
            out.append(nk)
            if k % 3 == 2:
                out.append(1)
        return out
    if mix == 'ragged':
        return [nk + k % 2 for k in range(d)]
    if mix == 'lead1':
        return [1] + [nk] * d
    if mix == 'tail1':
        return [nk] * d + [1]
    raise ValueError(mix)


def _many_cores(shape, fam, r, seed):
    """Integer cores K_k (int64 arrays) and power-of-two denominators q_k: the tensor is the chain of K_k / q_k, every
    entry exactly representable, per-mode growth of the sums close to 1 so that d = 130 modes stay far from over- / underflow."""
    d = len(shape)
    g = gen.rng('C11.many', shape[:4], d, fam, r, seed)

    def pw2(x):                       # smallest power of two >= x
        return 1 << max(0, int(np.ceil(np.log2(max(1, x)))))
    rr = [1] + [r] * (d - 1) + [1]
    if fam in ('rank1', 'const', 'rankdef'):
        rr = [1] * (d + 1)
    if fam == 'over':                 # bonds larger than the neighbouring cores can carry
        rr = [1] + [r + 3] * (d - 1) + [1]
    K, q = [], []
    for k, n in enumerate(shape):
        a, b = rr[k], rr[k + 1]
        if fam in ('pos', 'over', 'pad0', 'dupcol', 'cancel') or fam.startswith('zero'):
            G = g.integers(0, 5, size=(a, n, b))
            G[0, 0, 0] = 4
        elif fam == 'signed':
            G = g.integers(-4, 5, size=(a, n, b))
        elif fam == 'rank1':
            G = g.integers(1, 8, size=(1, n, 1))
        elif fam in ('const', 'rankdef'):
            G = np.full((1, n, 1), 4) if fam == 'const' else g.integers(1, 8, size=(1, n, 1))
        elif fam == 'const0':
            G = np.zeros((1, n, 1), dtype=np.int64)
        else:
            raise ValueError(fam)
        K.append(G.astype(np.int64))
        q.append(4 if fam in ('rank1', 'const', 'rankdef') else pw2(2 * max(a, b) * (1 if fam == 'signed' else 1)))
    if fam == 'const':
        K[0] = K[0] * 3                                  # the constant 3 (cores 4/4 = 1, first core 12/4)
    if fam == 'rankdef':                                 # TT-ranks r, all unfoldings of rank 1
        rr = [1] + [r] * (d - 1) + [1]
        K = [np.array(np.broadcast_to(G, (rr[k], G.shape[1], rr[k + 1]))) for k, G in enumerate(K)]
        q = [4 * pw2(r)] * d
    if fam == 'pad0':                                    # the bonds embedded in larger ones by zero blocks
        Z = []
        for k, G in enumerate(K):
            H = np.zeros((G.shape[0] + (2 if k > 0 else 0), G.shape[1], G.shape[2] + (2 if k < d - 1 else 0)), dtype=np.int64)
            H[(1 if k > 0 else 0):(1 if k > 0 else 0) + G.shape[0], :, :G.shape[2]] = G
            Z.append(H)
        K = Z
    if fam == 'dupcol':                                  # every bond carries each column twice
        K = [np.concatenate([G, G], axis=2) if k < d - 1 else G for k, G in
             enumerate([np.concatenate([G, G], axis=0) if k > 0 else G for k, G in enumerate(K)])]
        q = [2 * x for x in q]
    if fam == 'cancel':                                  # X - X by block cores: exactly zero, no zero core
        Z = []
        for k, G in enumerate(K):
            a, n, b = G.shape
            if k == 0:
                H = np.concatenate([G, G], axis=2)
            elif k == d - 1:
                H = np.concatenate([G, -G], axis=0)
            else:
                H = np.zeros((2 * a, n, 2 * b), dtype=np.int64)
                H[:a, :, :b] = G
                H[a:, :, b:] = G
            Z.append(H)
        K = Z
    if fam.startswith('zero'):
        for k in {'zero_all': range(d), 'zero_first': [0], 'zero_mid': [d // 2], 'zero_last': [d - 1]}[fam]:
            K[k] = np.zeros_like(K[k])
    return K, q


def _int_chain(mats):
    """exact product of a chain of integer matrices (object arrays of Python ints), first 1 x r, last r x 1"""
    v = mats[0]
    for Mx in mats[1:]:
        v = v.dot(Mx)
    assert v.shape == (1, 1)
    return int(v[0, 0])


def _many_exact(K, q):
    """exact sum S and sum of squares Q of the tensor chain(K_k / q_k), and the same for the chain of |K_k| (the scale of
    the rounding error of any evaluation order): Fractions."""
    from fractions import Fraction
    den = 1
    for x in q:
        den *= int(x)
    out = []
    for KK in (K, [np.abs(G) for G in K]):
        mats_s, mats_q = [], []
        for G in KK:
            assert G.shape[1] * int(np.abs(G).max(initial=0)) ** 2 < 2 ** 62          # the int64 sums below are exact
            mats_s.append(G.sum(axis=1).astype(object))
            mats_q.append(np.einsum('aib,cid->acbd', G, G).reshape(G.shape[0] ** 2, G.shape[2] ** 2).astype(object))
        out += [Fraction(_int_chain(mats_s), den), Fraction(_int_chain(mats_q), den * den)]
    return out          # S, Q, Sabs, Qabs


@clause('C11.scalars.many_modes', funcs=('act_one.norm', 'act_one.sum', 'act_one.mean', 'act_two.mul_scalar', 'props.erank',
                                         'act_two.accuracy'))
def scalars_many_modes(d, nk, mix, fam, r, seed):
    """Scalars of degenerate tensors whose NUMBER OF ENTRIES exceeds every integer type (2^63 .. 5^130 entries: QTT-like
    [2]*63 / *64 / *65, [4]*32, [16]*16, [3]*41, [65536]*4, modes of size 1 mixed in): zero tensors (all / one zero core,
    const(n, 0.)), exact cancellation X - X, constant, rank-1, rank-deficient, over-ranked, zero-padded and duplicated bonds.
    sum, mean (default, norm=False, explicit uniform P), mul_scalar and norm (plain and stabilised), erank are FINITE and agree
    with exact rational arithmetic on the core chain (dyadic cores) within 64 d eps of the chain of moduli (exactly 0 for a
    tensor with a zero core); accuracy against a zero reference is the sentinel -1, accuracy(Y, 2Y) is 1/2, accuracy(0, Y) is 1.
    The case is skipped if an exact value or its modulus bound lies outside [1e-280, 1e280] (a legitimate over- / underflow)."""
    from fractions import Fraction
    shape = _many_shape(d, nk, mix)
    dd = len(shape)
    K, q = _many_cores(shape, fam, r, seed)
    Y = [G.astype(float) / float(x) for G, x in zip(K, q)]
    if fam == 'const0':
        Y = teneva.const(shape, 0.)
        if _bad(Y, shape, 'const(n, 0.)'):
            return FAIL(_bad(Y, shape, 'const(n, 0.)'))
    S, Q, Sa, Qa = _many_exact(K, q)
    N = 1
    for n in shape:
        N *= int(n)
    if N < 2 ** 62:
        return SKIP('fewer than 2^62 entries: covered by C11.scalars.finite')
    for v in (Sa, Qa, Sa / N, Qa / N):
        if v != 0 and not (Fraction(10) ** -280 <= v <= Fraction(10) ** 280):
            return SKIP(f'modulus bound {float(v) if v < Fraction(10) ** 300 else "huge"} outside [1e-280, 1e280]')
    zero = fam.startswith('zero') or fam == 'const0'
    tol = Fraction(64 * dd * float(np.finfo(float).eps))
    snap = gen.snapshot(Y)
    what = f'{fam} tensor, {dd} modes {shape[:4]}.., {N} entries'

    def near(got, want, scale, name):
        if not _finite_scalar(got):
            return f'{name}({what}) = {got!r}, exact value {float(want)!r}'
        if zero:
            return None if got == 0 else f'{name}({what}) = {got!r}, the tensor has an exactly-zero core'
        if abs(Fraction(float(got)) - want) > tol * scale:
            return f'{name}({what}) = {got!r}, exact value {float(want)!r} (chain of moduli {float(scale)!r})'
        return None

    P = [np.full(n, 1.0 / n) for n in shape]
    msg = (near(teneva.sum(Y), S, Sa, 'sum') or near(teneva.mean(Y), S / N, Sa / N, 'mean')
           or near(teneva.mean(Y, norm=False), S, Sa, 'mean(norm=False)')
           or near(teneva.mean(Y, P), S / N, Sa / N, 'mean(P uniform)')
           or near(teneva.mul_scalar(Y, Y), Q, Qa, 'mul_scalar(Y, Y)'))
    if msg:
        return FAIL(msg)
    nr = teneva.norm(Y)
    if not (_finite_scalar(nr) and nr >= 0):
        return FAIL(f'norm({what}) = {nr!r}')
    msg = near(float(nr) ** 2, Q, Qa + Q, 'norm^2')
    if msg:
        return FAIL(msg)
    v, p = teneva.mul_scalar(Y, Y, use_stab=True)
    z, pz = teneva.norm(Y, use_stab=True)
    for name, x in (('mul_scalar.stab.v', v), ('mul_scalar.stab.p', p), ('norm.stab.v', z), ('norm.stab.p', pz)):
        if not _finite_scalar(x):
            return FAIL(f'{name}({what}) = {x!r}')
    if float(p) != int(p) or float(2 * pz) != int(2 * pz):
        return FAIL(f'stabilised powers {p!r}, {pz!r} are not (half-)integers')
    two = lambda t: Fraction(2) ** int(t) if t >= 0 else Fraction(1, 2 ** int(-t))
    msg = near(0.0 if zero and v == 0 else float(Fraction(float(v)) * two(p)), Q, Qa, 'mul_scalar(use_stab) v * 2^p') \
        or near(0.0 if zero and z == 0 else float(Fraction(float(z)) ** 2 * two(2 * pz)), Q, Qa + Q, 'norm(use_stab)^2 * 2^(2p)')
    if msg:
        return FAIL(msg)
    er = teneva.erank(Y)
    rk = [1] + [G.shape[2] for G in Y]
    sz = sum(shape[k] * rk[k] * rk[k + 1] for k in range(dd))
    a, b = sum(shape[1:dd - 1]), shape[0] * rk[0] + shape[-1] * rk[-1]
    want = (math.sqrt(b * b + 4 * a * sz) - b) / (2 * a)
    if not (_finite_scalar(er) and abs(er - want) <= 1e-12 * want):
        return FAIL(f'erank({what}) = {er!r}, from the definition {want!r}')
    # relative accuracy: sentinel against a zero reference, 1/2 against 2Y, 1 for the zero tensor against Y
    Z0 = [np.zeros((1, n, 1)) for n in shape]
    Y2 = [G.copy() for G in Y]
    Y2[dd // 2] = 2.0 * Y2[dd // 2]
    w = teneva.accuracy(Y, Z0)
    if not (_finite_scalar(w) and w == -1):
        return FAIL(f'accuracy({what}, zero tensor) = {w!r}, expected the sentinel -1')
    w, w0 = teneva.accuracy(Y, Y2), teneva.accuracy(Z0, Y)
    if zero:
        if not (_finite_scalar(w) and w == -1 and _finite_scalar(w0) and w0 == -1):
            return FAIL(f'accuracy({what}, 2 * itself) = {w!r}, accuracy(zero tensor, itself) = {w0!r}: expected the sentinel -1')
    elif Q == 0:                                  # zero by cancellation: the computed norm need not be exactly 0
        if not (_finite_scalar(w) and _finite_scalar(w0)):
            return FAIL(f'accuracy({what}, 2 * itself) = {w!r}, accuracy(zero tensor, itself) = {w0!r}')
    else:
        cond = float(Qa / Q) if Qa / Q < 10 ** 300 else float('inf')                   # cancellation inside <Y - 2Y, Y - 2Y>
        slack = 1e3 * dd * float(np.finfo(float).eps) * 9 * cond + 1e-12
        if not (_finite_scalar(w) and abs(w - 0.5) <= slack):
            return FAIL(f'accuracy({what}, 2 * itself) = {w!r}, expected 0.5')
        if not (_finite_scalar(w0) and abs(w0 - 1.0) <= slack):
            return FAIL(f'accuracy(zero tensor, {what}) = {w0!r}, expected 1')
    if gen.snapshot(Y) != snap:
        return FAIL('argument cores were modified')
    return PASS


@clause('C11.arith.wf', funcs=('act_two.add', 'act_two.sub', 'act_two.mul', 'act_two.outer', 'act_many.outer_many'))
def arith_wf(shape, fam1, fam2, r, seed):
    """add / sub / mul (tensor and scalar operands) keep the mode sizes, outer / outer_many concatenate them;
    all results well-formed and finite with finite scalars."""
    Y1, Y2 = _tt(shape, fam1, r, seed), _tt(shape, fam2, max(1, r - 1), seed + 1)
    shape = list(shape)
    outs = [('add', teneva.add(Y1, Y2), shape), ('sub', teneva.sub(Y1, Y2), shape), ('mul', teneva.mul(Y1, Y2), shape),
            ('add(Y,c)', teneva.add(Y1, 2.5), shape), ('add(0,Y)', teneva.add(0, Y1), shape),
            ('sub(Y,c)', teneva.sub(Y1, 1.5), shape), ('sub(Y,0.)', teneva.sub(Y1, 0.), shape),
            ('mul(Y,0.)', teneva.mul(Y1, 0.), shape), ('mul(-2,Y)', teneva.mul(-2, Y1), shape),
            ('outer', teneva.outer(Y1, Y2), shape + shape),
            ('outer_many', teneva.outer_many([Y1, Y2, Y1]), shape * 3)]
    for name, Z, shp in outs:
        msg = _bad(Z, shp, f'{name}[{fam1},{fam2}]') or _scalars(Z, name)
        if msg:
            return FAIL(msg)
    v = teneva.mul_scalar(Y1, Y2)
    w, p = teneva.mul_scalar(Y1, Y2, use_stab=True)
    if not (_finite_scalar(v) and _finite_scalar(w) and _finite_scalar(p)):
        return FAIL(f'mul_scalar({fam1},{fam2}) = {v!r} / ({w!r}, {p!r})')
    return PASS


@clause('C11.accuracy.sentinel', funcs=('act_two.accuracy', 'act_one.norm'))
def accuracy_sentinel(shape, fam, zfam, r, seed):
    """accuracy(Y, Z) with an exactly-zero reference Z is the sentinel -1 (not NaN / inf); with a non-zero
    reference it is a finite number >= 0; accuracy(Y, Y) is finite."""
    Y = _tt(shape, fam, r, seed)
    Z = _tt(shape, zfam, max(1, r - 1), seed + 7)
    v = teneva.accuracy(Y, Z)
    if not (_finite_scalar(v) and v == -1):
        return FAIL(f'accuracy({fam}, {zfam}) = {v!r}, expected the sentinel -1')
    if fam in NONZERO + EXTRA and fam != 'cancel':
        w = teneva.accuracy(Z, Y)
        if not (_finite_scalar(w) and w >= 0):
            return FAIL(f'accuracy({zfam}, {fam}) = {w!r}')
        w = teneva.accuracy(Y, Y)
        if not (_finite_scalar(w) and (w >= 0 or w == -1)):
            return FAIL(f'accuracy(Y, Y) = {w!r}')
    return PASS


# ------------------------------------------------------------------ add_many

def _summands(shape, fams, r, seed):
    out = []
    for j, f in enumerate(fams):
        out.append(float(f) if isinstance(f, (int, float)) else _tt(shape, f, r, seed + j))
    return out


@clause('C11.add_many.wf', funcs=('act_many.add_many', 'transformation.truncate'))
def add_many_wf(shape, fams, r, seed, e, rcap, trunc_freq):
    """add_many of summands whose partial sums are non-zero tensors (zero summands and scalars in between are
    allowed) is well-formed and finite."""
    S = _summands(shape, fams, r, seed)
    msg = _bad(teneva.add_many(S, e, rcap, trunc_freq), shape, f'add_many({fams}, trunc_freq={trunc_freq})')
    return FAIL(msg) if msg else PASS


@clause('C11.add_many.zero_tensor', funcs=('act_many.add_many', 'transformation.truncate', 'svd.matrix_svd'))
def add_many_zero(shape, fams, r, seed, trunc_freq):
    """add_many of exactly-zero tensors is a well-formed finite tensor."""
    S = _summands(shape, fams, r, seed)
    msg = _bad(teneva.add_many(S, trunc_freq=trunc_freq), shape, f'add_many({fams})')
    return FAIL(msg) if msg else PASS


@clause('C11.add_many.zero_flags', funcs=('act_many.add_many', 'transformation.truncate', 'svd.matrix_svd'))
def add_many_zero_flags(shape, fams, r, seed, e, rcap, trunc_freq):
    """add_many with explicit accuracy / rank cap / truncation frequency of summands whose partial sums ARE exactly
    zero at some point (zero tensors, X + (-X), 0. scalars): well-formed and finite."""
    S = []
    for j, f in enumerate(fams):
        if f == 'neg_prev':
            S.append(teneva.mul(S[-1], -1.))
        else:
            S.append(float(f) if isinstance(f, (int, float)) else _tt(shape, f, r, seed + j))
    msg = _bad(teneva.add_many(S, e, rcap, trunc_freq), shape, f'add_many({fams}, e={e}, r={rcap}, trunc_freq={trunc_freq})')
    return FAIL(msg) if msg else PASS


# ------------------------------------------------------------------ show

@clause('C11.show.accepts', funcs=('vis.show', 'props.erank'))
def show_accepts(shape, fam, r, seed, bad):
    """show prints a description for every well-formed tensor of the families and raises ValueError for a
    malformed one (not a list, empty, non-array core, 2-D / 4-D core, bond mismatch, boundary rank != 1)."""
    Y = _tt(shape, fam, r, seed)
    d = len(Y)
    if bad == 'ok':
        pass
    elif bad == 'tuple':
        Y = tuple(Y)
    elif bad == 'empty':
        Y = []
    elif bad == 'none':
        Y = None
    elif bad == 'core_list':
        Y[d // 2] = Y[d // 2].tolist()
    elif bad == 'core_2d':
        Y[-1] = Y[-1][:, :, 0]
    elif bad == 'core_4d':
        Y[0] = Y[0][..., None]
    elif bad == 'bond':
        G = Y[d - 1]
        Y[d - 1] = np.concatenate([G, G], axis=0)
    elif bad == 'first_rank':
        Y[0] = np.concatenate([Y[0], Y[0]], axis=0)
    elif bad == 'last_rank':
        Y[-1] = np.concatenate([Y[-1], Y[-1]], axis=2)
    else:
        raise ValueError(bad)
    buf = io.StringIO()
    try:
        with contextlib.redirect_stdout(buf):
            teneva.show(Y)
        raised = False
    except ValueError:
        raised = True
    if bad == 'ok':
        if raised:
            return FAIL(f'show rejects a well-formed tensor [{fam}]')
        text = buf.getvalue()
        if 'nan' in text.lower() or 'inf' in text.lower() or not text.strip():
            return FAIL(f'show printed {text!r}')
        return PASS
    return check(raised, f'show accepted a malformed tensor ({bad})')


# ------------------------------------------------------------------ cross / als / anova

@clause('C11.cross.wf', funcs=('cross.cross', 'utils._maxvol', 'maxvol.maxvol', 'maxvol.maxvol_rect'))
def cross_wf(shape, c, r0, dr_min, dr_max, nswp, seed, with_cache):
    """cross with the oracle f = c (c = 0: zero tensor) returns a well-formed finite tensor; info values finite."""
    Y0 = gen.tt(shape, r0, seed, 'gauss')
    info = {}
    Y = teneva.cross(lambda I: np.full(len(I), float(c)), Y0, nswp=nswp, dr_min=dr_min, dr_max=dr_max, info=info,
                     cache={} if with_cache else None, log=False)
    msg = _bad(Y, shape, f'cross(f={c})')
    if msg:
        return FAIL(msg)
    for k in ('e', 'e_vld', 'r'):
        if not _finite_scalar(info[k]):
            return FAIL(f'info[{k}] = {info[k]!r}')
    return PASS


def _oracle(shape, kind, seed):
    """degenerate oracles for cross / data for als: 'onehot' (one non-zero entry), 'zero_slice' (rank-1, one index of
    every mode gives zero), 'sign' (entries +-1 of a rank-1 tensor), 'axis' (depends on the first mode only)"""
    g = gen.rng('C11.oracle', shape, kind, seed)
    if kind == 'onehot':
        hot = np.array([int(g.integers(n)) for n in shape])
        return lambda I: 3. * np.all(np.asarray(I) == hot, axis=1)
    vs = [g.normal(size=n) for n in shape]
    if kind == 'zero_slice':
        for v in vs:
            v[int(g.integers(len(v)))] = 0.
    elif kind == 'sign':
        vs = [np.sign(v) + (v == 0) for v in vs]
    elif kind == 'axis':
        vs = [vs[0]] + [np.ones(n) for n in shape[1:]]
    return lambda I: np.prod([v[np.asarray(I)[:, k]] for k, v in enumerate(vs)], axis=0)


@clause('C11.cross.degenerate', funcs=('cross.cross', 'utils._maxvol', 'maxvol.maxvol', 'maxvol.maxvol_rect'))
def cross_degenerate(shape, kind, stop, r0, dr_min, dr_max, seed, with_cache, budget=None):
    """cross of degenerate non-constant oracles (one-hot, rank-1 with zero slices, +-1 entries, one active mode)
    under every stop criterion (nswp = 0 pre-iteration only, nswp, m budget - a list of budgets so that the
    algorithm is interrupted at different cores in the middle of a sweep, with growing ranks -, e, validation
    data): well-formed finite tensor, finite info values."""
    f = _oracle(shape, kind, seed)
    Y0 = gen.tt(shape, r0, seed, 'gauss')
    info = {}
    I_vld = gen.all_indices(shape)
    kw = {'nswp0': dict(nswp=0), 'nswp': dict(nswp=3), 'm': dict(m=budget or 3 * int(np.sum(shape)) + 5),
          'e': dict(e=1e-6, nswp=6), 'vld': dict(I_vld=I_vld, y_vld=f(I_vld) + 3.5, e_vld=1e-3, nswp=4)}[stop]      # reference data never all zero
    Y = teneva.cross(f, Y0, dr_min=dr_min, dr_max=dr_max, info=info, cache={} if with_cache else None, log=False, **kw)
    msg = _bad(Y, shape, f'cross({kind}, {stop})')
    if msg:
        return FAIL(msg)
    for k in ('e', 'e_vld', 'r'):
        if not _finite_scalar(info[k]):
            return FAIL(f'info[{k}] = {info[k]!r}')
    return PASS


@clause('C11.cross.dr_grid', funcs=('cross.cross', 'cross._iter', 'utils._maxvol', 'maxvol.maxvol', 'maxvol.maxvol_rect'))
def cross_dr_grid(shape, kind, r0, dr_min, dr_max, nswp, seed, with_cache):
    """cross for every pair 0 <= dr_min <= dr_max of the rank-growth parameters ("dr_min should be no bigger than
    dr_max" is the only documented restriction), in particular with dr_min / dr_max at or ABOVE the number of spare
    rows r_left * n - r_right of an unfolding: mode size 2 with rank 1, d = 2, mode size 1, ranks that have grown to
    n - 1 during earlier sweeps, saturated and over-ranked cores.  Oracles: zero, constant, sum(i) + 1, prod(i + 1) and the
    degenerate ones of _oracle.  The result is a well-formed finite tensor with finite dense export and finite info."""
    if kind == 'zero':
        f = lambda I: np.zeros(len(I))
    elif kind == 'const':
        f = lambda I: np.full(len(I), 3.)
    elif kind == 'sum':
        f = lambda I: np.sum(np.asarray(I), axis=1) + 1.
    elif kind == 'prod':
        f = lambda I: np.prod(np.asarray(I) + 1., axis=1)
    else:
        f = _oracle(shape, kind, seed)
    Y0 = gen.tt(shape, r0, seed, 'gauss')
    info = {}
    what = f'cross({kind}, shape {shape}, rank-{r0} start, dr_min={dr_min}, dr_max={dr_max}, nswp={nswp})'
    try:
        Y = teneva.cross(f, Y0, nswp=nswp, dr_min=dr_min, dr_max=dr_max, info=info, cache={} if with_cache else None, log=False)
    except ValueError as ex:
        return FAIL(f'{what} raises ValueError: {ex}')
    msg = _bad(Y, shape, what)
    if msg:
        return FAIL(msg)
    if not np.all(np.isfinite(gen.dense(Y))):
        return FAIL(f'{what}: dense export not finite')
    for k in ('e', 'e_vld', 'r'):
        if not _finite_scalar(info[k]):
            return FAIL(f'{what}: info[{k}] = {info[k]!r}')
    if info.get('nswp') != nswp and info.get('stop') == 'nswp':
        return FAIL(f"{what}: stop 'nswp' after {info.get('nswp')} sweeps")
    return PASS


# ------------------------------------------------------------------ input FORMS of the degenerate families

def _form_tt(shape, fam, r, seed, form):
    """Member of a degenerate family in the input form `form` (gen.tt_form: f32 / mixed / F / V / ro / tuple ...)."""
    return gen.tt_form(_tt(shape, fam, r, seed), form)[0]


@clause('C11.forms.tt_input', funcs=('transformation.truncate', 'transformation.orthogonalize', 'transformation.orthogonalize_left',
                                     'transformation.orthogonalize_right', 'act_two.add', 'act_two.sub', 'act_two.mul',
                                     'act_two.outer', 'act_one.norm', 'act_one.sum', 'act_one.mean', 'act_two.mul_scalar',
                                     'props.erank', 'svd.matrix_svd', 'svd.matrix_skeleton'))
def forms_tt_input(shape, fam, r, seed, form):
    """The degenerate tensor handed over with float32 / mixed float32-float64 cores, Fortran-ordered, non-contiguous or read-only
    cores, or as a tuple of cores: truncate (orth, use_stab; eigen mode only off the exactly-zero tensors, see
    C11.truncate.zero_tensor), orthogonalize (every pivot, both stab flags), orthogonalize_left / _right, add / sub / mul / outer
    return well-formed finite tensors, the scalars are finite, and the argument is left untouched."""
    Y, image = gen.tt_form(_tt(shape, fam, r, seed), form)
    if not gen.finite(image):
        return SKIP('the float32 rounding of this member is not finite (outside the quantifier)')
    if fam == 'huge' and any(t in form for t in ('f32', 'mixed')):
        # DOUBTFUL (see the report): finite float32 cores of modulus 1e20 denote a tensor with entries ~ 1e40 beyond the float32
        # range; the library multiplies float32 cores in float32 (overflow -> norm() = 0.0, OverflowError with use_stab=True)
        return SKIP('float32 cores whose tensor entries exceed the float32 range')
    before = gen.snapshot(list(Y))
    shape, d = list(shape), len(shape)
    zero = fam == 'cancel' or _is_zero_tensor(image)       # (the float32 rounding of the family 'tiny' has exactly-zero cores)
    outs = []
    for (e, rcap) in ((1e-10, 1.E+12), (1e-2, 2)):
        for orth in (True, False):
            for stab in (False, True):
                for eigh in ((False,) if zero else (False, True)):
                    outs.append((f'truncate(e={e}, r={rcap}, orth={orth}, use_stab={stab}, is_eigh={eigh})',
                                 teneva.truncate(Y, e, rcap, orth=orth, use_stab=stab, is_eigh=eigh), shape))
    for k in list(range(d)) + [None]:
        outs.append((f'orthogonalize(k={k})', teneva.orthogonalize(Y, k), shape))
        Z, p = teneva.orthogonalize(Y, k, use_stab=True)
        if not _finite_scalar(p):
            return FAIL(f'orthogonalize(k={k}, use_stab=True): power factor {p!r}')
        outs.append((f'orthogonalize(k={k}, use_stab=True)', Z, shape))
    for i in range(d - 1):
        outs.append((f'orthogonalize_left(i={i})', teneva.orthogonalize_left(Y, i), shape))
    for i in range(1, d):
        outs.append((f'orthogonalize_right(i={i})', teneva.orthogonalize_right(Y, i), shape))
    Y2 = _tt(shape, 'gauss', max(1, r - 1), seed + 1)
    outs += [('add(Y,Y2)', teneva.add(Y, Y2), shape), ('add(Y2,Y)', teneva.add(Y2, Y), shape), ('sub(Y,Y2)', teneva.sub(Y, Y2), shape),
             ('sub(Y,Y)', teneva.sub(Y, Y), shape), ('mul(Y,Y2)', teneva.mul(Y, Y2), shape), ('mul(Y,0.)', teneva.mul(Y, 0.), shape),
             ('add(Y,2.5)', teneva.add(Y, 2.5), shape), ('outer(Y,Y2)', teneva.outer(Y, Y2), shape + shape)]
    for name, Z, shp in outs:
        msg = _bad(Z, shp, f'{name} [{fam}, {form}]')
        if msg:
            return FAIL(msg)
    msg = _scalars(Y, f'{fam}, {form}')
    if msg:
        return FAIL(msg)
    return check(gen.snapshot(list(Y)) == before, f'the argument ({form}) was modified')


@clause('C11.forms.cross', funcs=('cross.cross', 'cross._func_eval', 'utils._maxvol', 'maxvol.maxvol', 'maxvol.maxvol_rect'))
def forms_cross(shape, kind, r0, dr_min, dr_max, stop, seed, with_cache, form):
    """cross on a degenerate oracle (zero / constant / one-hot / zero-slice / +-1 / one active mode) in other input forms: form =
    {y0: gen.tt_form spec of the start, num: 'np64' / 'np32' / '0d' for nswp, m, e, dr_min, dr_max, k0, ret: the oracle returns a
    'list' / a 'f32' array / an 'int' array (integer-valued oracles), vform: gen.idx_form | gen.val_form spec of validation data}:
    well-formed finite tensor of the original shape, finite info values."""
    f0 = _oracle(shape, kind, seed) if kind not in ('zero', 'const') else (lambda I: np.full(len(I), 0. if kind == 'zero' else -2.5))
    ret = form.get('ret')

    def f(I):
        y = np.asarray(f0(I), dtype=float)
        if ret == 'list':
            return y.tolist()
        if ret == 'f32':
            return y.astype(np.float32)
        if ret == 'int' and np.all(y == np.rint(y)):
            return np.rint(y).astype(np.int64)
        return y

    Y0 = gen.tt_form(gen.tt(shape, r0, seed, 'gauss'), form.get('y0') or '')[0]
    kw = dict(dr_min=dr_min, dr_max=dr_max, k0=50)
    kw.update({'nswp0': dict(nswp=0), 'nswp': dict(nswp=2), 'e': dict(e=1e-3, nswp=3), 'm': dict(m=3 * sum(shape) + 1)}[stop])
    if form.get('vform'):
        I = gen.all_indices(shape)
        fi, _, fy = form['vform'].partition('|')
        kw.update(I_vld=gen.idx_form(I, fi), y_vld=gen.val_form(np.asarray(f0(I), dtype=float) + 1.5, fy)[0], e_vld=1e-3)   # + 1.5: never the zero vector (a zero validation vector gives e_vld = inf, outside the property)
    if form.get('num'):
        kw = gen.num_kwargs(kw, form['num'], ('nswp', 'm', 'e', 'e_vld', 'dr_min', 'dr_max', 'k0'))
    info = {}
    Y = teneva.cross(f, Y0, info=info, cache={} if with_cache else None, log=False, **kw)
    msg = _bad(Y, shape, f'cross({kind}, {stop}, {form})')
    if msg:
        return FAIL(msg)
    for k in ('e', 'e_vld', 'r'):
        if not _finite_scalar(info[k]):
            return FAIL(f'info[{k}] = {info[k]!r}')
    return PASS


@clause('C11.forms.als', funcs=('als.als',))
def forms_als(shape, kind, r0, how, adaptive, seed, form):
    """als (fixed rank, rank-adaptive with cap `adaptive`) on zero / constant / one-hot / zero-slice data with repeated samples in
    other input forms: form = {y0: gen.tt_form spec of the start, iform: gen.idx_form spec of I, yform: gen.val_form spec of y
    ('int' only for integer-valued data), wform: weights given in that form, num: nswp, lamb, r, e as NumPy scalars}:
    well-formed finite tensor of the original shape, finite info values."""
    I = _samples(shape, how, seed)
    if kind in ('zero', 'const'):
        y = np.full(len(I), 0. if kind == 'zero' else -2.)
    else:
        y = np.asarray(_oracle(shape, kind, seed)(I), dtype=float)
    Y0 = gen.tt_form(gen.tt(shape, r0, seed, 'gauss'), form.get('y0') or '')[0]
    kw = dict(nswp=2, lamb=0.0625, e=None)
    if adaptive:
        kw['r'] = adaptive
    if form.get('wform'):
        kw['w'] = np.asarray(gen.val_form(0.5 + gen.rng('C11.forms.w', seed).uniform(size=len(I)), form['wform'])[0])
    spec = form.get('yform') or ''
    if 'int' in spec and not np.all(y == np.rint(y)):
        spec = '+'.join(t for t in spec.split('+') if t not in ('int', 'intlist'))
    if form.get('num'):
        kw = gen.num_kwargs(kw, form['num'], ('nswp', 'lamb', 'r'))
    info = {}
    Y = teneva.als(gen.idx_form(I, form.get('iform') or ''), gen.val_form(y, spec)[0], Y0, info=info, log=False, **kw)
    msg = _bad(Y, shape, f'als({kind}, r={adaptive or None}, {form})')
    if msg:
        return FAIL(msg)
    for k in ('e', 'e_vld', 'r'):
        if not _finite_scalar(info[k]):
            return FAIL(f'info[{k}] = {info[k]!r}')
    return PASS


def _samples(shape, how, seed):
    g = gen.rng('C11.samples', shape, how, seed)
    I = gen.all_indices(shape)
    if how == 'full':
        return I
    if how == 'rep':                       # every multi-index twice plus a few more copies, shuffled
        J = np.vstack([I, I, I[g.integers(len(I), size=5)]])
        return J[g.permutation(len(J))]
    if how == 'sparse':                    # random subset (with repetitions) in which every mode index occurs
        rows = [I[g.integers(len(I))] for _ in range(max(shape) * 2)]
        for k, n in enumerate(shape):
            for i in range(n):
                row = I[g.integers(len(I))].copy()
                row[k] = i
                rows.append(row)
        return np.array(rows)
    raise ValueError(how)


@clause('C11.als.wf', funcs=('als.als',))
def als_wf(shape, c, r0, how, adaptive, nswp, seed):
    """als on constant (c) or zero data with repeated samples, fixed rank and rank-adaptive (adaptive = cap or 0)."""
    I = _samples(shape, how, seed)
    y = np.full(len(I), float(c))
    Y0 = gen.tt(shape, r0, seed, 'gauss')
    info = {}
    Y = teneva.als(I, y, Y0, nswp=nswp, info=info, r=(adaptive or None), log=False)
    msg = _bad(Y, shape, f'als(y={c}, r={adaptive or None})')
    if msg:
        return FAIL(msg)
    for k in ('e', 'e_vld', 'r'):
        if not _finite_scalar(info[k]):
            return FAIL(f'info[{k}] = {info[k]!r}')
    return PASS


@clause('C11.als.flags', funcs=('als.als',))
def als_flags(shape, kind, variant, how, seed):
    """als on zero / constant / one-hot / zero-slice data with repeated samples under the non-default options:
    lamb=None (plain least squares on rank-deficient systems), weights w, w + lamb, allow_skip_cores with slices
    that have no sample, rank-adaptive with lamb=None / weights / r_add=1 / allow_swap, update_sol."""
    I = _samples(shape, how, seed)
    if kind in ('zero', 'const'):
        y = np.full(len(I), 0. if kind == 'zero' else -2.5)
    else:
        y = _oracle(shape, kind, seed)(I)
    Y0 = gen.tt(shape, 2, seed, 'gauss')
    w = 0.5 + gen.rng('C11.als.w', seed).uniform(size=len(I))
    kw = {'lamb_none': dict(lamb=None), 'w': dict(w=w, lamb=None), 'w_lamb': dict(w=w, lamb=1e-2),
          'skip_cores': dict(allow_skip_cores=True), 'ad_lamb_none': dict(r=3, lamb=None),
          'ad_w': dict(r=3, w=w, lamb=None), 'ad_r_add': dict(r=4, r_add=1, e_adap=0.),
          'ad_swap': dict(r=3, allow_swap=True, I_vld=I, y_vld=y + 1.), 'update_sol': dict(update_sol=True)}[variant]
    if variant == 'skip_cores':
        keep = np.ones(len(I), dtype=bool)
        for k, n in enumerate(shape):
            if n > 1:
                keep &= I[:, k] != n - 1        # the last index of every mode is never sampled
        I, y = I[keep], y[keep]
        if len(I) == 0:
            return SKIP('no sample left')
    info = {}
    try:
        with contextlib.redirect_stdout(io.StringIO()):
            Y = teneva.als(I, y, Y0, nswp=2, info=info, log=False, **kw)
    except IndexError as e:
        if variant != 'ad_swap':
            raise
        # reported separately (not a degeneracy issue, generic data hit it too): after two swaps that do not commute
        # als permutes the validation indices in the wrong order and get_many indexes a mode out of range
        return SKIP(f'experimental allow_swap: wrong permutation of the validation indices after two swaps ({e})')
    shp = list(shape)
    if variant == 'ad_swap' and 'rearrange' in info:
        shp = [shape[k] for k in info['rearrange']]
    msg = _bad(Y, shp, f'als({kind}, {variant})')
    if msg:
        return FAIL(msg)
    for k in ('e', 'e_vld', 'r'):
        if not _finite_scalar(info[k]):
            return FAIL(f'info[{k}] = {info[k]!r}')
    return PASS


@clause('C11.anova.class_flags', funcs=('anova.ANOVA', 'anova.anova', 'act_many.add_many'))
def anova_class_flags(shape, c, order, r, rel_noise, how, seed):
    """ANOVA(...).cores with rel_noise (noise relative to max |y|: exactly 0 for zero data), called twice on the
    same object, and ranks above the mode sizes, on constant / zero data: well-formed and finite."""
    I = _samples(shape, how, seed)
    y = np.full(len(I), float(c))
    A = teneva.ANOVA(I, y, order, seed=seed)
    for rep in range(2):
        msg = _bad(A.cores(r, rel_noise=rel_noise), shape, f'ANOVA(y={c}, order={order}).cores(r={r}, rel_noise={rel_noise}) #{rep}')
        if msg:
            return FAIL(msg)
    return PASS


def _anova_case(shape, c, order, r, noise, how, seed):
    I = _samples(shape, how, seed)
    y = np.full(len(I), float(c))
    Y = teneva.anova(I, y, r=r, order=order, noise=noise, seed=seed)
    return _bad(Y, shape, f'anova(y={c}, order={order}, r={r}, noise={noise})')


@clause('C11.anova.wf', funcs=('anova.anova', 'act_many.add_many'))
def anova_wf(shape, c, order, r, noise, how, seed):
    """anova of constant data (orders 1 and 2) and of zero data (order 1) is well-formed and finite."""
    if order == 2 and c == 0:
        return SKIP('zero data, order 2: C11.anova.zero_data')
    msg = _anova_case(shape, c, order, r, noise, how, seed)
    return FAIL(msg) if msg else PASS


@clause('C11.anova.zero_data', funcs=('anova.anova', 'act_many.add_many', 'transformation.truncate', 'svd.matrix_svd'))
def anova_zero_data(shape, r, noise, how, seed):
    """anova(order=2) of exactly-zero data is well-formed and finite."""
    msg = _anova_case(shape, 0., 2, r, noise, how, seed)
    return FAIL(msg) if msg else PASS


def _anova_func_case(d, n, c, m, lamb, e, seed, via_class):
    g = gen.rng('C11.anova_func', d, n, m, seed)
    X = g.uniform(-1., 1., size=(m, d))
    X[m // 2] = X[0]                        # a repeated sample
    y = np.full(m, float(c))
    if via_class:
        Y = teneva.ANOVA_func(X, y, n, -1., 1., lamb).cores(e)
    else:
        Y = teneva.anova_func(X, y, n, -1., 1., lamb, e)
    return _bad(Y, [n] * d, f'anova_func(y={c}, n={n}, lamb={lamb}, e={e})')


@clause('C11.anova_func.wf', funcs=('anova_func.anova_func', 'anova_func.ANOVA_func'))
def anova_func_wf(d, n, c, m, lamb, e, seed, via_class):
    """ANOVA_func / anova_func on constant data (any e) and zero data without rounding (e=None)."""
    if c == 0 and e is not None:
        return SKIP('zero data with rounding: C11.anova_func.zero_data')
    msg = _anova_func_case(d, n, c, m, lamb, e, seed, via_class)
    return FAIL(msg) if msg else PASS


@clause('C11.anova_func.zero_data', funcs=('anova_func.anova_func', 'transformation.truncate', 'svd.matrix_svd'))
def anova_func_zero(d, n, m, lamb, e, seed):
    """anova_func of exactly-zero data (with the default rounding) is well-formed and finite."""
    msg = _anova_func_case(d, n, 0., m, lamb, e, seed, False)
    return FAIL(msg) if msg else PASS


# ------------------------------------------------------------------ Chebyshev / sine transforms

@clause('C11.func.wf', funcs=('func.func_int', 'func.func_gets'))
def func_wf(shape, fam, r, seed, kind, m):
    """func_int and func_gets (same grid and a new grid of size m) of every family member with n_k >= 2."""
    Y = _tt(shape, fam, r, seed)
    A = teneva.func_int(Y, kind)
    msg = _bad(A, shape, f'func_int({kind})')
    if msg:
        return FAIL(msg)
    msg = _bad(teneva.func_gets(A, None, kind), shape, f'func_gets({kind})')
    if msg:
        return FAIL(msg)
    msg = _bad(teneva.func_gets(A, m, kind), [m] * len(shape), f'func_gets({kind}, m={m})')
    return FAIL(msg) if msg else PASS


# ------------------------------------------------------------------ case list

def cases(tier, seed):
    big = tier == 'thorough'
    g = gen.rng('C11.cases', seed)

    def s():
        return int(g.integers(1 << 30))

    shapes = gen.shapes(dmax=4, nmax=4)
    if big:
        shapes = shapes + [[5, 1, 5], [2, 6, 2, 1, 3], [1, 1, 7], [6, 6]]
    ranks = (1, 2, 4) if big else (2, 4)
    flags = [(o, st, eg) for o in (True, False) for st in (False, True) for eg in (True, False)]
    # truncate: systematic over shapes x families x flags with one (e, cap) each, rotating
    ecs = [(1e-10, 1e12), (1e-2, 2), (10., 1e12), (1e-10, 1)]
    j = 0
    for shape in shapes:
        for fam in FAMS:
            for r in ranks:
                for (o, st, eg) in flags:
                    if eg and (fam in ZERO or fam == 'cancel'):
                        continue
                    for (e, rc) in (ecs if big else [ecs[j % 4], ecs[(j + 1) % 4]]):
                        yield 'C11.truncate.wf', dict(shape=shape, fam=fam, r=r, seed=1 + j % 3, e=e, rcap=rc, orth=o,
                                                      use_stab=st, is_eigh=eg)
                    j += 1
    # the known defect: a small fixed list (every zero family, both orth / stab flags)
    for shape in ([3, 4], [2, 3, 2]):
        for fam in ZERO:
            for (o, st) in ((True, False), (True, True), (False, False)):
                yield 'C11.truncate.zero_tensor', dict(shape=shape, fam=fam, r=2, seed=1, e=1e-10, orth=o, use_stab=st)
    for shape in ([2, 2], [2, 3], [3, 4], [2, 3, 2]):
        for r in (2, 4):
            for sd in (1, 2, 3):
                yield 'C11.truncate.zero_tensor.cancel', dict(shape=shape, r=r, seed=sd, e=1e-10, use_stab=(sd == 2))
    for shape in shapes:
        for fam in FAMS:
            for r in ranks:
                yield 'C11.orthogonalize.wf', dict(shape=shape, fam=fam, r=r, seed=2)
                yield 'C11.scalars.finite', dict(shape=shape, fam=fam, r=r, seed=3)
                for bad in (('ok',) if r != ranks[0] else ('ok', 'tuple', 'empty', 'none', 'core_list', 'core_2d',
                                                            'core_4d', 'bond', 'first_rank', 'last_rank')):
                    yield 'C11.show.accepts', dict(shape=shape, fam=fam, r=r, seed=4, bad=bad)
            for zf in ZERO:
                yield 'C11.accuracy.sentinel', dict(shape=shape, fam=fam, zfam=zf, r=2, seed=5)
    for shape in shapes:
        for f1 in FAMS:
            for f2 in (FAMS if big else ('gauss', 'rank1', 'over', 'cancel', 'zero_all', 'const0', 'mul0')):
                yield 'C11.arith.wf', dict(shape=shape, fam1=f1, fam2=f2, r=2, seed=6)
    # TT-SVD
    arr_shapes = shapes + [[2], [5], [1]] if big else shapes[:12] + [[3]]
    for shape in arr_shapes:
        for kind in ('zero', 'const', 'rank1', 'lowrank', 'onehot', 'gauss'):
            for (e, rc) in ((1e-10, 1e12), (0., 1e12), (1e3, 1e12), (1e-10, 1), (1e-10, 2)):
                yield 'C11.svd.wf', dict(shape=shape, kind=kind, seed=7, e=e, rcap=rc)
    for q in (1, 2, 3, 4) if big else (1, 2, 3):
        for kind in ('zero', 'const', 'eye', 'rank1', 'gauss'):
            for (e, rc) in ((1e-10, 1e12), (0., 1e12), (1e3, 1e12), (1e-10, 1)):
                yield 'C11.svd_matrix.wf', dict(q=q, kind=kind, seed=8, e=e, rcap=rc)
    for m in (1, 2, 3, 5):
        for n in (1, 2, 4, 6):
            for rank in (1, 2):
                for (e, rc) in ((1e-10, 1e12), (0., 1e12), (1e3, 1e12), (1e-10, 1)):
                    for rep in range(3 if big else 1):
                        yield 'C11.matrix_factor.wf', dict(m=m, n=n, rank=rank, seed=rep if rep == 0 else s(), e=e, rcap=rc)
    # QTT
    for d in (1, 2, 3):
        for q in (1, 2, 3):
            if d * q > (9 if big else 6) or d * q < 2:
                continue
            for fam in FAMS:
                for r in (1, 3):
                    yield 'C11.qtt_to_tt.wf', dict(d=d, q=q, fam=fam, r=r, seed=9)
                    if d >= 2 and fam in NONZERO:
                        for (e, rc) in ((1e-12, 100), (1e-2, 100), (1e-12, 1), (0., 2)):
                            yield 'C11.tt_to_qtt.wf', dict(d=d, q=q, fam=fam, r=r, seed=9, e=e, rcap=rc)
    for (d, q) in ((2, 2), (2, 3), (3, 2)):
        for fam in ZERO:
            yield 'C11.tt_to_qtt.zero_tensor', dict(d=d, q=q, fam=fam, r=2, seed=9)
    # add_many
    lists = [['gauss', 'zero_all', 'const0'], ['rank1', 'cancel', 'mul0', 'int'], ['gauss'] + ['int'] * 4, ['gauss', 1.5, 0.],
             ['const', 'const', 'zero_last'], ['over', 'rankdef'], ['rankdef'] * 4, ['gauss'], ['rank1', 0]]
    for shape in (shapes if big else shapes[:12]):
        for fams in lists:
            for (e, rc, tf) in ((1e-10, 1e12, 15), (1e-10, 1e12, 1), (1e-2, 2, 2)):
                yield 'C11.add_many.wf', dict(shape=shape, fams=fams, r=2, seed=10, e=e, rcap=rc, trunc_freq=tf)
    for shape in ([3, 4], [2, 3, 2]):
        for fams in (['const0', 'const0'], ['mul0', 'zero_all', 'zero_first'], ['zero_last'], [0., 'const0']):
            for tf in (15, 1):
                yield 'C11.add_many.zero_tensor', dict(shape=shape, fams=fams, r=2, seed=10, trunc_freq=tf)
    # cross / als / anova
    fit_shapes = [[2, 2], [3, 4], [3, 4, 3], [1, 3, 1], [4, 1, 2], [1, 1], [2, 2, 2, 2]]
    for shape in fit_shapes:
        for c in (0., 2.5):
            for r0 in (1, 2):
                for (a, b) in ((0, 0), (1, 1), (0, 2)):
                    yield 'C11.cross.wf', dict(shape=shape, c=c, r0=r0, dr_min=a, dr_max=b, nswp=2, seed=11,
                                               with_cache=(a == 1))
            for r0 in (1, 2):
                for how in ('full', 'rep'):
                    for adaptive in (0, 3):
                        yield 'C11.als.wf', dict(shape=shape, c=c, r0=r0, how=how, adaptive=adaptive, nswp=2, seed=12)
            for order in (1, 2):
                for r in (2, 3):
                    for noise in (0., 1e-10):
                        for how in ('full', 'rep', 'sparse'):
                            if order == 2 and c == 0:
                                if how == 'full' and shape in ([3, 4], [3, 4, 3]):
                                    yield 'C11.anova.zero_data', dict(shape=shape, r=r, noise=noise, how=how, seed=13)
                            else:
                                yield 'C11.anova.wf', dict(shape=shape, c=c, order=order, r=r, noise=noise, how=how, seed=13)
    for d in (2, 3):
        for n in (2, 3, 5):
            for c in (0., 2.5):
                for lamb in (1e-7, 1.):
                    for e in (None, 1e-8):
                        if c == 0 and e is not None:
                            if lamb == 1e-7:
                                yield 'C11.anova_func.zero_data', dict(d=d, n=n, m=20, lamb=lamb, e=e, seed=14)
                        else:
                            for via in (False, True):
                                yield 'C11.anova_func.wf', dict(d=d, n=n, c=c, m=20, lamb=lamb, e=e, seed=14, via_class=via)
    fshapes = [sh for sh in shapes if min(sh) >= 2]
    for shape in fshapes:
        for fam in FAMS:
            for kind in ('cheb', 'sin'):
                yield 'C11.func.wf', dict(shape=shape, fam=fam, r=2, seed=15, kind=kind, m=2 + len(fam) % 4)
    # ---- parameter-coverage additions ------------------------------------------------------------------------
    xshapes = shapes if big else [[2, 2], [4, 3], [3, 1, 2], [2, 3, 2], [1, 3, 3, 3], [2, 2, 2, 2], [1, 1, 1]]
    j = 0
    for shape in xshapes:
        for fam in EXTRA:
            for r in (2, 4) if big else (3,):
                for (o, st, eg) in flags:
                    for (e, rc) in (ecs if big else [ecs[j % 4]]):
                        yield 'C11.truncate.wf', dict(shape=shape, fam=fam, r=r, seed=1 + j % 3, e=e, rcap=rc, orth=o,
                                                      use_stab=st, is_eigh=eg)
                    j += 1
                yield 'C11.orthogonalize.wf', dict(shape=shape, fam=fam, r=r, seed=2)
                yield 'C11.scalars.finite', dict(shape=shape, fam=fam, r=r, seed=3)
                yield 'C11.show.accepts', dict(shape=shape, fam=fam, r=r, seed=4, bad='ok')
            for zf in ('zero_all', 'zero_last', 'const0'):
                yield 'C11.accuracy.sentinel', dict(shape=shape, fam=fam, zfam=zf, r=2, seed=5)
            for f2 in (('gauss', 'zero_all', 'rankdef') + EXTRA) if big else ('gauss', fam):
                yield 'C11.arith.wf', dict(shape=shape, fam1=fam, fam2=f2, r=2, seed=6)
                if big:
                    yield 'C11.arith.wf', dict(shape=shape, fam1=f2, fam2=fam, r=3, seed=6)
            if min(shape) >= 2:
                for kind in ('cheb', 'sin'):
                    yield 'C11.func.wf', dict(shape=shape, fam=fam, r=2, seed=15, kind=kind, m=2 + len(fam) % 4)
        # exactly-zero tensors: every flag combination of truncate x accuracy x rank cap (mode size 1, d = 2, d = 4)
        for fam in ZERO + ('cancel',):
            for r in (2, 4) if big else (3,):
                for (o, st, eg) in flags:
                    for (e, rc) in (ecs if big else [ecs[j % 4], ecs[(j + 2) % 4]]):
                        yield 'C11.truncate.zero_flags', dict(shape=shape, fam=fam, r=r, seed=1 + j % 3, e=e, rcap=rc,
                                                              orth=o, use_stab=st, is_eigh=eg)
                    j += 1
    for (d, q) in ((2, 1), (2, 2), (2, 3), (3, 2), (4, 1)) + (((3, 3), (4, 2)) if big else ()):
        for fam in EXTRA:
            for r in (1, 3):
                for (e, rc) in ((1e-12, 100), (1e-2, 100), (1e-12, 1), (0., 2)):
                    yield 'C11.tt_to_qtt.wf', dict(d=d, q=q, fam=fam, r=r, seed=9, e=e, rcap=rc)
        for fam in ZERO + ('cancel',):
            for (e, rc) in ((1e-12, 100), (1e-2, 2), (0., 1), (1e3, 1e12)):
                yield 'C11.tt_to_qtt.zero_flags', dict(d=d, q=q, fam=fam, r=2, seed=9, e=e, rcap=rc)
    zlists = [['const0', 'const0'], ['gauss', 'neg_prev'], ['int', 'neg_prev', 'int', 'neg_prev'], ['zero_mid', 0., 'mul0'],
              ['rank1', 'neg_prev', 'zero_all'], ['cancel', 'cancel', 0], ['pad0', 'neg_prev', 'tiny']]
    for shape in (xshapes if big else xshapes[:5]):
        for fams in zlists:
            for (e, rc, tf) in ((1e-10, 1e12, 15), (1e-10, 1e12, 1), (1e-2, 2, 2), (10., 1, 1)):
                yield 'C11.add_many.zero_flags', dict(shape=shape, fams=fams, r=2, seed=10, e=e, rcap=rc, trunc_freq=tf)
    k = 0
    for shape in ([3, 4], [3, 4, 3], [4, 1, 2], [2, 2, 2, 2]) + (([1, 3, 1], [5, 2, 3, 2]) if big else ()):
        for kind in ('onehot', 'zero_slice', 'sign', 'axis'):
            for stop in ('nswp0', 'nswp', 'm', 'e', 'vld'):
                for (r0, a, b) in (((1, 1, 1), (2, 0, 0), (2, 0, 2), (1, 2, 2)) if big else ((1 + k % 2, k % 3 % 2, k % 3),)):
                    yield 'C11.cross.degenerate', dict(shape=shape, kind=kind, stop=stop, r0=r0, dr_min=min(a, b),
                                                       dr_max=b, seed=11 + k % 2, with_cache=(k % 2 == 1))
                    k += 1
    for shape in ([3, 4], [3, 4, 3], [4, 1, 2], [2, 2, 2, 2]):
        for kind in ('zero_slice', 'sign', 'onehot', 'axis') if big else ('zero_slice', 'sign'):
            for budget in (5, 9, 14, 20, 27, 35, 45, 60, 80) if big else (5, 12, 20, 30, 45, 70):
                yield 'C11.cross.degenerate', dict(shape=shape, kind=kind, stop='m', r0=1, dr_min=1, dr_max=1 + budget % 2,
                                                   seed=11, with_cache=(budget % 3 == 0), budget=budget)
    # rank-growth parameters against the number of spare rows of the unfoldings: every pair 0 <= dr_min <= dr_max <= 3 and
    # (4, 4), (2, 5), (5, 5) x small / QTT-like / d = 2 / mode-size-1 shapes x start ranks 1, 2, 3 (over-ranked)
    drs = [(a, b) for b in range(4) for a in range(b + 1)] + [(4, 4), (2, 5), (5, 5)]
    kinds = ('zero', 'const', 'sum', 'prod', 'onehot', 'zero_slice', 'sign', 'axis')
    k = 0
    for shape in ([2, 2], [2, 3], [3, 2, 2], [2, 2, 2, 2], [1, 2, 1], [4, 3], [2, 1, 2], [3, 3, 3]) + \
            (([5, 4, 3], [2] * 6, [3, 2], [1, 1], [2, 5, 2], [4, 4, 4, 4]) if big else ()):
        for r0 in (1, 2, 3):
            for (a, b) in drs:
                for kind in (kinds if big else (kinds[k % 8],)):
                    if big or (r0 < 3 and (a >= 2 or k % 3 == 0)) or (r0 == 3 and a >= 2 and k % 2):
                        yield 'C11.cross.dr_grid', dict(shape=shape, kind=kind, r0=r0, dr_min=a, dr_max=b, nswp=1 + k % 3,
                                                        seed=11 + k % 4, with_cache=(k % 5 == 0))
                    k += 1
    for shape in ([3, 4], [4, 2, 3], [1, 3, 1], [2, 2, 2, 2]) + (([3, 4, 3], [4, 1, 2]) if big else ()):
        for kind in ('zero', 'const', 'onehot', 'zero_slice'):
            for variant in ('lamb_none', 'w', 'w_lamb', 'skip_cores', 'ad_lamb_none', 'ad_w', 'ad_r_add', 'ad_swap',
                            'update_sol'):
                for how in (('full', 'rep', 'sparse') if big else ('rep',)):
                    yield 'C11.als.flags', dict(shape=shape, kind=kind, variant=variant, how=how, seed=12)
    for shape in fit_shapes:
        for c in (0., 2.5):
            for order in (1, 2):
                for r in (2, 5):
                    for rel_noise in (0., 1e-3):
                        yield 'C11.anova.class_flags', dict(shape=shape, c=c, order=order, r=r, rel_noise=rel_noise,
                                                            how='rep', seed=13)
    # ---- gap closure: scalars of degenerate tensors with >= 2^63 entries (the element count overflows int64 / wraps to 0) ----
    many = [(63, 2, 'uniform'), (64, 2, 'uniform'), (32, 4, 'uniform'), (65, 2, 'uniform'), (16, 16, 'uniform'), (41, 3, 'uniform'),
            (64, 2, 'ones'), (70, 2, 'lead1'), (64, 2, 'tail1'), (40, 3, 'ragged'), (130, 2, 'uniform'), (100, 3, 'uniform'),
            (28, 5, 'uniform')] + ([(130, 5, 'uniform'), (128, 2, 'uniform'), (96, 4, 'ones'), (22, 8, 'ragged'), (8, 256, 'uniform')] if big else [])
    k = 0
    for j, (d_, nk_, mix) in enumerate(many):
        for fam in MANY_FAMS:
            k += 1
            if big or j < 2 or k % 4 == 0 or (fam in ('zero_mid', 'const') and j % 2) or (fam in ('const0', 'rank1') and not j % 2):
                for r in ((1, 2, 3) if big else (2 + k % 2,)):
                    for sd in range(2 if big else 1):
                        yield 'C11.scalars.many_modes', dict(d=d_, nk=nk_, mix=mix, fam=fam, r=r, seed=sd)
    for (d_, nk_) in ((4, 65536),) + (((3, 1 << 21),) if big else ()):          # few modes of huge size: 2^64 / 2^63 entries
        for fam in ('rank1', 'const', 'const0') + (('zero_all', 'zero_last', 'pos', 'signed') if nk_ < 1 << 20 else ()):
            yield 'C11.scalars.many_modes', dict(d=d_, nk=nk_, mix='uniform', fam=fam, r=1, seed=0)
    # random part
    for rep in range(600 if big else 150):
        shape = shapes[int(g.integers(len(shapes)))]
        fam = FAMS[int(g.integers(len(FAMS)))]
        o, st, eg = flags[int(g.integers(len(flags)))]
        if eg and (fam in ZERO or fam == 'cancel'):
            eg = False
        e, rc = ecs[int(g.integers(len(ecs)))]
        yield 'C11.truncate.wf', dict(shape=shape, fam=fam, r=int(g.integers(1, 5)), seed=s(), e=e, rcap=rc, orth=o,
                                      use_stab=st, is_eigh=eg)
        yield 'C11.orthogonalize.wf', dict(shape=shape, fam=fam, r=int(g.integers(1, 5)), seed=s())
    # ---- input FORMS of the degenerate families (own generator): float32 / mixed float32-float64 / Fortran-ordered /
    # non-contiguous / read-only cores, the core list as tuple; cross / als additionally with NumPy-scalar options, oracle
    # values returned as list / float32 / integer array, index data as uint8 / int32 / F / view / tuple, integer-typed values
    gf = gen.rng('C11.forms', seed)

    def sf():
        return int(gf.integers(1 << 30))

    tforms = ['f32', 'mixed', 'mixed1+V', 'F', 'V', 'ro', 'tuple', 'F+ro+tuple', 'f32+V+ro+tuple']
    fshapes = [[2, 2], [4, 3], [3, 1, 2], [2, 2, 2], [4, 2, 3], [1, 3, 3], [2, 3, 4, 2], [1, 1]] + ([[3] + [1] * 2 + [2], [5, 1, 5], [6, 6]] if big else [])
    k = 0
    for fi, fam in enumerate(FAMS + EXTRA):
        for ti, form in enumerate(tforms):
            for si, shape in enumerate(fshapes):
                k += 1
                if big or (fi + ti + si) % 8 == 0:
                    yield 'C11.forms.tt_input', dict(shape=shape, fam=fam, r=(2, 4, 1)[k % 3], seed=sf(), form=form)
    cforms = [{'y0': 'f32'}, {'y0': 'mixed'}, {'y0': 'V+ro+tuple'}, {'y0': 'F+ro'}, {'num': 'np64'}, {'num': 'np32'}, {'num': '0d'},
              {'ret': 'list'}, {'ret': 'f32'}, {'ret': 'int'}, {'vform': 'u8+F|f32'}, {'vform': 'i32+V+ro|V'}, {'vform': 'tuple|list'},
              {'y0': 'f32+tuple', 'num': 'np32', 'ret': 'int', 'vform': 'i32+F|f32'}]
    kinds = ('zero', 'const', 'onehot', 'zero_slice', 'sign', 'axis')
    stops = ('nswp0', 'nswp', 'e', 'm')
    cshapes = [[2, 2], [3, 4], [3, 1, 2], [2, 3, 2], [2, 2, 2, 2], [1, 3]] + ([[4, 4, 4], [5, 1, 5]] if big else [])
    for ci, form in enumerate(cforms):
        for qi, kind in enumerate(kinds):
            for si, shape in enumerate(cshapes):
                k += 1
                if big or (ci + qi + si) % 4 == 0:
                    a, b = ((1, 1), (0, 0), (1, 2), (0, 2))[k % 4]
                    yield 'C11.forms.cross', dict(shape=shape, kind=kind, r0=1 + k % 3, dr_min=a, dr_max=b, stop=stops[(k // 4) % 4],
                                                  seed=sf(), with_cache=bool(k % 2), form=form)
    aforms = [{'y0': 'f32'}, {'y0': 'mixed'}, {'y0': 'mixed1+V'}, {'y0': 'V+ro+tuple'}, {'y0': 'F+ro'}, {'iform': 'u8+F'},
              {'iform': 'i32+V+ro'}, {'iform': 'tuple'}, {'yform': 'int'}, {'yform': 'intlist'}, {'yform': 'f32'}, {'yform': 'V+ro'},
              {'wform': 'f32+V'}, {'num': 'np64'}, {'num': 'np32'}, {'num': '0d'},
              {'y0': 'f32+tuple', 'iform': 'u8+V', 'yform': 'int+ro', 'wform': 'f32', 'num': 'np32'}]
    for ai, form in enumerate(aforms):
        for qi, kind in enumerate(('zero', 'const', 'onehot', 'zero_slice')):
            for si, shape in enumerate(cshapes):
                k += 1
                if big or (ai + qi + si) % 4 == 0:
                    yield 'C11.forms.als', dict(shape=shape, kind=kind, r0=1 + k % 2, how=('rep', 'full', 'sparse')[k % 3],
                                                adaptive=(3 if (len(shape) >= 3 and k % 2) else 0), seed=sf(), form=form)
