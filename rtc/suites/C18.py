"""C18 (bounded, T3): grid index <-> point maps round-trip exactly and clamp to the box.

Covered clauses of the statement, all against exact rational arithmetic (`fractions.Fraction` of the
floating-point inputs) or plain counting:

* ind_to_poi: endpoints (uniform 0 -> a, n-1 -> b; Chebyshev 0 -> b, n-1 -> a) and range inside [a, b], both
  within 2 ulp of max(|a|,|b|) (grid points may leave the box by an ulp; no slack on indices); every node within
  a scale-aware tolerance of the exact node; nodes strictly monotone.
* round trip poi_to_ind(ind_to_poi(i)) == i for EVERY index, n = 2..40 (quick) / 2..64 (thorough), over 12 / 30
  boxes of many magnitudes and offsets; boxes are restricted by the stated conditioning rule
  (|a|+|b|)/(b-a) <= 1e10 (otherwise the nodes are not representable; such boxes return SKIP).
* nearest node in the grid parameter t: |I - t| <= 1/2 + slack, slack derived from the rounding of the scaled
  coordinate (interval evaluation of arccos for the Chebyshev grid); points at cell boundaries +- small offsets,
  random points, boundary and outside points (clamped to 0 / n-1, including +-1e300 and 1 ulp outside).
* poi_scale: affine onto [0,1], [-1,1], given limits, with clipping (results never leave the target interval).
* scalar == per-dimension options (bitwise), list == ndarray options, single point == batch row (bitwise, shape).
* grid_flat: every multi-index exactly once, first index fastest, all shapes with <= 4 modes of size <= 4;
  scalar argument; integer dtype.
* grid_prep_opt / grid_prep_opts: broadcasting, kinds, reps; ValueError iff the documented list/ndarray options
  have inconsistent lengths or d cannot be recovered; the maps reject inconsistent a / b / n.
* cdf_getter: right-continuous step function count(x_i <= t)/len, at / between / below / above the sample,
  ties, scalar and array argument, argument untouched.
"""
import itertools
import math
from fractions import Fraction as Fr
import numpy as np
import teneva
from rtc.api import clause, PASS, FAIL, TRIVIAL, SKIP, check
from rtc import gen


BUDGET = (100, 600)
BOUNDS = ('boxes: 12 (quick) / 30 (thorough) with magnitudes 1e-300..1e300, offsets up to 1e9 box widths (conditioning rule (|a|+|b|)/(b-a) <= 1e10); n = 2..40 / '
          '2..64 exhaustive indices, d = 1..3; nearest-node: all cell boundaries +- {0, 1e-9, 1e-3, 0.25} cells + 64 '
          'random points per case; grid_flat: all 340 shapes with <= 4 modes of size <= 4; cdf: samples of 1..40 '
          'values with ties')

EPS = np.finfo(float).eps

BOXES_QUICK = [(-1.0, 1.0), (0.0, 1.0), (-3.7, 12.1), (1e6, 1e6 + 1), (-1e-3, 2e-3), (5.0, 5.0000001),
               (-1e8, 1e8), (1e-300, 2e-300), (-1e300, 1e300), (0.1, 0.3), (-7e-9, -6e-9), (123456.789, 123456.79)]
BOXES_MORE = [(1e6, 1e6 + 1e-3), (-2.0, -1.0), (0.0, 1e-9), (-1e9 - 2.5, -1e9), (1.0, 3.0), (-math.pi, math.pi),
              (0.0, 2 * math.pi), (1e100, 3e100), (-5e-324 * 2 ** 60, 5e-324 * 2 ** 61), (0.3, 0.30000001),
              (-1.0, 1e9), (-1e-12, 1e12), (7.0, 7.5), (2.0 ** 20, 2.0 ** 20 + 3), (-0.7, 0.9), (1e-8, 1.0),
              (-123.0, -1e-5), (1.0 / 3, 2.0 / 3)]


def _boxes(tier):
    return BOXES_QUICK + (BOXES_MORE if tier == 'thorough' else [])


def _cond(a, b):
    """conditioning rule: the box must be resolvable by doubles"""
    return a < b and math.isfinite(b - a) and (abs(a) + abs(b)) / (b - a) <= 1e10


def _ulp(a, b):
    return float(np.spacing(max(abs(a), abs(b))))


def _node_exact(i, a, b, n, kind):
    """exact node as (float value, error bound)"""
    a_, b_ = Fr(a), Fr(b)
    if kind == 'uni':
        x = a_ + Fr(i, n - 1) * (b_ - a_)
        return float(x), 8 * EPS * (abs(a) + abs(b))
    c = math.cos(math.pi * i / (n - 1))
    x = c * (b - a) / 2 + (b + a) / 2
    return x, 8 * EPS * (abs(a) + abs(b))


@clause('C18.ind_to_poi.nodes', funcs=('grid.ind_to_poi',))
def nodes(a, b, n, kind):
    """Endpoints, range inside the box (2 ulp of the larger bound), node values, strict monotonicity."""
    if not _cond(a, b):
        return SKIP('box not resolvable')
    I = np.arange(n).reshape(-1, 1)
    X = teneva.ind_to_poi(I, a, b, n, kind)
    if X.shape != (n, 1) or X.dtype.kind != 'f':
        return FAIL(f'shape {X.shape} dtype {X.dtype}')
    x = X[:, 0]
    u = 2 * _ulp(a, b)
    first, last = (a, b) if kind == 'uni' else (b, a)
    if not abs(x[0] - first) <= u:
        return FAIL(f'index 0 -> {x[0]!r}, expected {first!r} ({(x[0] - first) / u * 2:.1f} ulp)')
    if not abs(x[-1] - last) <= u:
        return FAIL(f'index n-1 -> {x[-1]!r}, expected {last!r} ({(x[-1] - last) / u * 2:.1f} ulp)')
    if not (x.min() >= a - u and x.max() <= b + u):
        return FAIL(f'range [{x.min()!r}, {x.max()!r}] leaves [{a!r}, {b!r}]')
    for i in range(n):
        w, tol = _node_exact(i, a, b, n, kind)
        if not abs(x[i] - w) <= tol:
            return FAIL(f'node {i}: {x[i]!r} vs exact {w!r}')
    dx = np.diff(x)
    if not (np.all(dx > 0) if kind == 'uni' else np.all(dx < 0)):
        return FAIL('nodes not strictly monotone')
    return PASS


@clause('C18.roundtrip.exhaustive', funcs=('grid.ind_to_poi', 'grid.poi_to_ind', 'grid.poi_scale'))
def roundtrip(a, b, n, kind):
    """poi_to_ind(ind_to_poi(i)) == i for every index; batch and single-point calling forms."""
    if not _cond(a, b):
        return SKIP('box not resolvable')
    I = np.arange(n).reshape(-1, 1)
    X = teneva.ind_to_poi(I, a, b, n, kind)
    J = teneva.poi_to_ind(X, a, b, n, kind)
    if J.shape != I.shape or J.dtype.kind not in 'iu':
        return FAIL(f'shape {J.shape} dtype {J.dtype}')
    if not np.array_equal(I, J):
        k = int(np.flatnonzero(I[:, 0] != J[:, 0])[0])
        return FAIL(f'index {k} -> point {X[k, 0]!r} -> index {int(J[k, 0])}')
    for k in {0, n - 1, n // 2}:
        x1 = teneva.ind_to_poi([k], a, b, n, kind)
        j1 = teneva.poi_to_ind(x1, a, b, n, kind)
        if x1.shape != (1,) or j1.shape != (1,) or x1[0] != X[k, 0] or j1[0] != k:
            return FAIL(f'single point form: index {k} -> {x1} -> {j1}')
    return PASS


@clause('C18.roundtrip.multidim', funcs=('grid.ind_to_poi', 'grid.poi_to_ind', 'grid.grid_prep_opts'))
def roundtrip_multidim(boxes, n, kind):
    """Per-dimension a, b, n (lists): the round trip holds for the full index grid of a d-dimensional box."""
    a = [float(x[0]) for x in boxes]
    b = [float(x[1]) for x in boxes]
    if not all(_cond(x, y) for x, y in zip(a, b)):
        return SKIP('box not resolvable')
    I = gen.all_indices(n)
    X = teneva.ind_to_poi(I, a, b, n, kind)
    if X.shape != I.shape:
        return FAIL(f'shape {X.shape}')
    for k in range(len(n)):          # column k must only depend on (a_k, b_k, n_k)
        col = teneva.ind_to_poi(I[:, k:k + 1], a[k], b[k], n[k], kind)[:, 0]
        if not np.array_equal(col, X[:, k]):
            return FAIL(f'column {k} differs from the one-dimensional map with (a_k, b_k, n_k)')
    J = teneva.poi_to_ind(X, np.array(a), np.array(b), np.array(n), kind)
    if not np.array_equal(I, J):
        k = int(np.flatnonzero((I != J).any(axis=1))[0])
        return FAIL(f'{I[k].tolist()} -> {X[k].tolist()} -> {J[k].tolist()}')
    return PASS


def _t_interval(x, a, b, n, kind):
    """enclosure [lo, hi] of the real grid parameter t of the point x as the function may see it"""
    a_, b_, x_ = Fr(a), Fr(b), Fr(x)
    if kind == 'uni':
        t = float((x_ - a_) / (b_ - a_) * (n - 1))
        s = 8 * EPS * (n - 1) * max(1.0, abs(t) / (n - 1))
        return t - s, t + s
    u = float((2 * x_ - a_ - b_) / (b_ - a_))
    du = 8 * EPS * (abs(a) + abs(b) + abs(x)) / (b - a) + 8 * EPS
    lo = math.acos(max(-1.0, min(1.0, u + du))) / math.pi * (n - 1)
    hi = math.acos(max(-1.0, min(1.0, u - du))) / math.pi * (n - 1)
    s = 8 * EPS * (n - 1)
    return lo - s, hi + s


def _check_nearest(x, i, a, b, n, kind):
    if not (0 <= i <= n - 1):
        return f'index {i} outside [0, {n - 1}] for point {x!r}'
    if x <= a:
        want = 0 if kind == 'uni' else n - 1
        return None if i == want else f'point {x!r} <= a={a!r} -> index {i}, expected boundary index {want}'
    if x >= b:
        want = n - 1 if kind == 'uni' else 0
        return None if i == want else f'point {x!r} >= b={b!r} -> index {i}, expected boundary index {want}'
    lo, hi = _t_interval(x, a, b, n, kind)
    if i < lo - 0.5 or i > hi + 0.5:
        return f'point {x!r}: index {i} is not a nearest node, grid parameter t in [{lo!r}, {hi!r}]'
    return None


@clause('C18.poi_to_ind.nearest', funcs=('grid.poi_to_ind', 'grid.poi_scale'))
def nearest(a, b, n, kind, seed):
    """Every point goes to a nearest node in the grid parameter; outside / boundary points clamp; single == batch."""
    if not _cond(a, b):
        return SKIP('box not resolvable')
    g = gen.rng('C18n', a, b, n, kind, seed)
    w = b - a
    pts = [a, b, float(np.nextafter(a, -np.inf)), float(np.nextafter(b, np.inf)), float(np.nextafter(a, np.inf)),
           float(np.nextafter(b, -np.inf)), a - w, b + w, a - 0.01 * w, b + 0.01 * w, (a + b) / 2]
    if abs(a) < 1e299 and abs(b) < 1e299:
        pts += [-1e300, 1e300]
    for k in range(n - 1):                   # cell boundaries in the grid parameter
        for off in (0.0, 1e-9, -1e-9, 1e-3, -1e-3, 0.25, -0.25):
            t = k + 0.5 + off
            if kind == 'uni':
                pts.append(a + t / (n - 1) * w)
            else:
                pts.append(math.cos(math.pi * t / (n - 1)) * w / 2 + (a + b) / 2)
    pts += list(g.uniform(a, b, size=64)) if math.isfinite(w) else []
    pts += list(a + w * g.uniform(-0.5, 1.5, size=16))
    X = np.array([float(p) for p in pts if math.isfinite(p)]).reshape(-1, 1)
    snap = X.copy()
    I = teneva.poi_to_ind(X, a, b, n, kind)
    if not np.array_equal(X, snap):
        return FAIL('argument modified')
    if I.shape != X.shape or I.dtype.kind not in 'iu':
        return FAIL(f'shape {I.shape} dtype {I.dtype}')
    for x, i in zip(X[:, 0], I[:, 0]):
        msg = _check_nearest(float(x), int(i), a, b, n, kind)
        if msg:
            return FAIL(msg)
    for k in range(0, len(X), max(1, len(X) // 12)):
        one = teneva.poi_to_ind(X[k], a, b, n, kind)
        if one.shape != (1,) or one[0] != I[k, 0]:
            return FAIL(f'single point {X[k, 0]!r} -> {one}, batch -> {I[k, 0]}')
    return PASS


@clause('C18.poi_scale.kinds', funcs=('grid.poi_scale',))
def poi_scale_kinds(a, b, lim, seed):
    """uni -> [0,1], cheb -> [-1,1], [a_new, b_new] -> these limits: exact affine map within a scale-aware
    tolerance, clipped (never outside the target interval, outside points exactly on its boundary)."""
    if not _cond(a, b):
        return SKIP('box not resolvable')
    g = gen.rng('C18s', a, b, lim, seed)
    w = b - a
    xs = np.array([a, b, (a + b) / 2, a - w, b + w, a - 1e-3 * w, b + 1e-3 * w] + list(g.uniform(a, b, size=24))
                  + list(a + w * g.uniform(-1, 2, size=8))).reshape(-1, 1)
    for kind, (lo, hi) in (('uni', (0.0, 1.0)), ('cheb', (-1.0, 1.0)), (list(lim), (float(lim[0]), float(lim[1])))):
        S = teneva.poi_scale(xs, a, b, kind)
        if S.shape != xs.shape or S.dtype.kind != 'f':
            return FAIL(f'{kind}: shape {S.shape} dtype {S.dtype}')
        if not (S.min() >= lo and S.max() <= hi):
            return FAIL(f'{kind}: result [{S.min()!r}, {S.max()!r}] leaves [{lo}, {hi}]')
        for x, s in zip(xs[:, 0], S[:, 0]):
            fx, fa, fb = Fr(float(x)), Fr(a), Fr(b)
            ex = Fr(lo) + (fx - fa) / (fb - fa) * (Fr(hi) - Fr(lo))
            ex = min(max(ex, Fr(lo)), Fr(hi))
            if isinstance(kind, list):
                scale = (abs(x) * abs(lo - hi) + abs(a * hi) + abs(b * lo)) / w
            elif kind == 'cheb':
                scale = (abs(x) + abs(a) + abs(b)) / w
            else:
                scale = max(abs(float(ex)), EPS)
            if not abs(s - float(ex)) <= 16 * EPS * scale + 1e-300:
                return FAIL(f'{kind}: point {x!r} -> {s!r}, exact {float(ex)!r} (scale {scale:.3e})')
            if (x <= a - 1e-3 * w and s != lo) or (x >= b + 1e-3 * w and s != hi):
                return FAIL(f'{kind}: outside point {x!r} -> {s!r} not on the boundary of [{lo}, {hi}]')
    try:
        teneva.poi_scale(xs, a, b, 'nonsense-kind')
        return FAIL('unknown kind accepted')
    except ValueError:
        pass
    return PASS


@clause('C18.options.interchangeable', funcs=('grid.ind_to_poi', 'grid.poi_to_ind', 'grid.poi_scale',
                                              'grid.grid_prep_opt', 'grid.grid_prep_opts'))
def options_interchangeable(a, b, n, d, kind, seed):
    """Scalar options == per-dimension lists == ndarrays (bitwise); a single point == the row of a batch."""
    g = gen.rng('C18o', a, b, n, d, kind, seed)
    m = 9
    I = g.integers(0, n, size=(m, d))
    X = a + (b - a) * g.uniform(-0.2, 1.2, size=(m, d))
    forms = [(a, b, n), ([a] * d, [b] * d, [n] * d), (np.full(d, a), np.full(d, b), np.full(d, n)),
             (a, [b] * d, n), ([a] * d, b, float(n)), (a, b, np.full(d, n))]
    ref = None
    for fa, fb, fn in forms:
        P = teneva.ind_to_poi(I, fa, fb, fn, kind)
        J = teneva.poi_to_ind(X, fa, fb, fn, kind)
        S = teneva.poi_scale(X, fa, fb, kind)
        T = teneva.poi_scale(X, fa, fb, [-2.0, 3.0])
        if ref is None:
            ref = (P, J, S, T)
            continue
        for nm, u, v in zip(('ind_to_poi', 'poi_to_ind', 'poi_scale', 'poi_scale limits'), ref, (P, J, S, T)):
            if u.shape != v.shape or not np.array_equal(u, v):
                return FAIL(f'{nm}: option form {(type(fa).__name__, type(fb).__name__, type(fn).__name__)} differs '
                            f'from scalars')
    P, J, S, T = ref
    if P.shape != (m, d) or J.shape != (m, d) or S.shape != (m, d):
        return FAIL(f'batch shapes {P.shape} {J.shape} {S.shape}')
    for k in range(m):
        for arg_i, arg_x in ((I[k], X[k]), (I[k].tolist(), X[k].tolist())):
            p = teneva.ind_to_poi(arg_i, a, [b] * d, n, kind)
            j = teneva.poi_to_ind(arg_x, [a] * d, b, n, kind)
            s = teneva.poi_scale(arg_x, a, b, kind)
            if p.shape != (d,) or j.shape != (d,) or s.shape != (d,):
                return FAIL(f'single point shapes {p.shape} {j.shape} {s.shape}')
            if not (np.array_equal(p, P[k]) and np.array_equal(j, J[k]) and np.array_equal(s, S[k])):
                return FAIL(f'single point {k} differs from batch row')
    # list-of-lists batch == ndarray batch
    if not np.array_equal(teneva.ind_to_poi(I.tolist(), a, b, n, kind), P):
        return FAIL('list batch differs from ndarray batch (ind_to_poi)')
    if not np.array_equal(teneva.poi_to_ind(X.tolist(), a, b, n, kind), J):
        return FAIL('list batch differs from ndarray batch (poi_to_ind)')
    return PASS


@clause('C18.options.prep', funcs=('grid.grid_prep_opt', 'grid.grid_prep_opts'))
def options_prep(d, reps):
    """grid_prep_opt / grid_prep_opts: scalar -> constant vector of length d of the requested kind; vectors
    kept; None stays None; reps -> [reps, d] with equal rows; d recovered from any vector option."""
    rp = None if reps == 0 else reps
    shp = (d,) if rp is None else (rp, d)
    for val, kind in ((3, int), (3.0, int), (2.5, float), (-1, float), (0, int)):
        o = teneva.grid_prep_opt(val, d, kind, rp)
        if not isinstance(o, np.ndarray) or o.shape != shp or o.dtype.kind != ('i' if kind is int else 'f') \
                or not np.all(o == kind(val)):
            return FAIL(f'grid_prep_opt({val}, {d}, {kind.__name__}, {rp}) = {o!r}')
    vec = [0.5 * k - 1 for k in range(d)]
    for form in (vec, np.array(vec)):
        o = teneva.grid_prep_opt(form, d, float, rp)
        if o.shape != shp or not np.all(o == np.array(vec)):
            return FAIL(f'vector option changed: {o!r}')
        o = teneva.grid_prep_opt(form, None, float, rp)
        if o.shape != shp or not np.all(o == np.array(vec)):
            return FAIL(f'vector option without d changed: {o!r}')
    if teneva.grid_prep_opt(None, d) is not None:
        return FAIL('None not kept')
    nvec = [k + 2 for k in range(d)]
    for kw in (dict(a=-1.0, b=vec, n=5), dict(a=vec, b=7.0, n=nvec), dict(a=-1, b=3, n=np.array(nvec)),
               dict(a=np.array(vec), b=None, n=None), dict(a=1.0, b=2.0, n=3, d=d), dict(a=vec, b=vec, n=nvec, d=d)):
        A, B, N = teneva.grid_prep_opts(reps=rp, **kw)
        for nm, o, src, kd in (('a', A, kw.get('a'), 'f'), ('b', B, kw.get('b'), 'f'), ('n', N, kw.get('n'), 'i')):
            if src is None:
                if o is not None:
                    return FAIL(f'{nm}=None not kept for {kw}')
                continue
            want = np.array(src, dtype=float) if not isinstance(src, (int, float)) else np.full(d, float(src))
            if not isinstance(o, np.ndarray) or o.shape != shp or o.dtype.kind != kd or not np.all(o == want):
                return FAIL(f'grid_prep_opts({kw}, reps={rp}): {nm} = {o!r}')
    return PASS


@clause('C18.options.reject', funcs=('grid.grid_prep_opts', 'grid.grid_prep_opt', 'grid.ind_to_poi',
                                     'grid.poi_to_ind', 'grid.poi_scale'))
def options_reject(d, d2):
    """Inconsistent lengths of the list / ndarray options (d vs d2 != d) and an unrecoverable d raise ValueError;
    consistent ones do not; the maps reject inconsistent a, b (and n for ind_to_poi) with ValueError."""
    if d == d2:
        return SKIP('equal lengths')
    u, v = [0.0] * d, [1.0] * d2
    bad = [dict(a=u, b=v), dict(a=u, n=[3] * d2), dict(b=np.array(v), n=np.array([3] * d)), dict(a=u, d=d2),
           dict(n=[3] * d, d=d2), dict(a=u, b=[1.0] * d, n=[4] * d2), dict(a=0.0, b=1.0, n=3), dict(a=0.0, d=0),
           dict(a=1.0, b=np.array(v), n=[3] * d), dict(a=0.0, d=-1)]
    for kw in bad:
        try:
            r = teneva.grid_prep_opts(**kw)
        except ValueError:
            continue
        return FAIL(f'grid_prep_opts({kw}) accepted: {r}')
    good = [dict(a=u, b=[1.0] * d, n=[3] * d), dict(a=u, d=d), dict(a=0.0, b=1.0, n=3, d=d), dict(a=None, b=None, n=None)]
    for kw in good:
        try:
            teneva.grid_prep_opts(**kw)
        except ValueError as e:
            return FAIL(f'grid_prep_opts({kw}) rejected: {e}')
    for sc in (3, 2.5):
        for dd in (None, 0, -2):
            try:
                r = teneva.grid_prep_opt(sc, dd)
            except ValueError:
                continue
            return FAIL(f'grid_prep_opt({sc}, {dd}) accepted: {r}')
    I = np.zeros((2, d), dtype=int)
    X = np.full((2, d), 0.5)
    for nm, call in (('ind_to_poi a', lambda: teneva.ind_to_poi(I, [0.0] * d2, 1.0, 4)),
                     ('ind_to_poi b', lambda: teneva.ind_to_poi(I, 0.0, np.ones(d2), 4)),
                     ('ind_to_poi n', lambda: teneva.ind_to_poi(I, 0.0, 1.0, [4] * d2)),
                     ('ind_to_poi single', lambda: teneva.ind_to_poi(I[0], 0.0, [1.0] * d2, 4)),
                     ('poi_to_ind a', lambda: teneva.poi_to_ind(X, [0.0] * d2, 1.0, 4)),
                     ('poi_to_ind b', lambda: teneva.poi_to_ind(X, 0.0, [1.0] * d2, 4, 'cheb')),
                     ('poi_scale a', lambda: teneva.poi_scale(X, [0.0] * d2, 1.0)),
                     ('poi_scale b', lambda: teneva.poi_scale(X[0], 0.0, [1.0] * d2, 'cheb')),
                     ('poi_scale lim', lambda: teneva.poi_scale(X, 0.0, [1.0] * d2, [0.0, 2.0]))):
        try:
            r = call()
        except ValueError:
            continue
        return FAIL(f'{nm}: inconsistent option length accepted, result shape {np.shape(r)}')
    return PASS


@clause('C18.poi_to_ind.reject_n_length', funcs=('grid.poi_to_ind',))
def poi_to_ind_reject_n(d, d2):
    """poi_to_ind: a grid-size option n whose length d2 differs from the dimension d of the points is rejected (any
    exception counts: n is not routed through grid_prep_opts there).  Isolated from C18.options.reject because on the
    pinned tree a one-dimensional point set (d = 1) is silently broadcast against a longer n."""
    if d == d2:
        return SKIP('equal lengths')
    X = np.full((2, d), 0.5)
    for nm, call in (('batch, list n', lambda: teneva.poi_to_ind(X, 0.0, 1.0, [4] * d2)),
                     ('batch, cheb', lambda: teneva.poi_to_ind(X, 0.0, 1.0, [4] * d2, 'cheb')),
                     ('single point, ndarray n', lambda: teneva.poi_to_ind(X[0], 0.0, 1.0, np.array([4] * d2)))):
        try:
            r = call()
        except Exception:
            continue
        return FAIL(f'{nm}: points of dimension {d} with n of length {d2} accepted, result shape {np.shape(r)}')
    return PASS


@clause('C18.grid_flat.enumeration', funcs=('grid.grid_flat',))
def grid_flat_enumeration(d, nmax):
    """All shapes with d modes of size 1..nmax: integer array [prod n, d], row j is the multi-index with flat
    position j in first-index-fastest order, hence every multi-index exactly once; list and ndarray argument."""
    for n in itertools.product(range(1, nmax + 1), repeat=d):
        n = list(n)
        for arg in (n, np.array(n)):
            I = teneva.grid_flat(arg)
            N = int(np.prod(n))
            if not isinstance(I, np.ndarray) or I.shape != (N, d) or I.dtype.kind not in 'iu':
                return FAIL(f'n={n}: shape {getattr(I, "shape", None)} dtype {getattr(I, "dtype", None)}')
            for j in (range(N) if N <= 64 else list(range(0, N, 7)) + [N - 1]):
                rest, want = j, []
                for k in n:
                    want.append(rest % k)
                    rest //= k
                if I[j].tolist() != want:
                    return FAIL(f'n={n}: row {j} is {I[j].tolist()}, first-index-fastest order gives {want}')
            if len({tuple(r) for r in I.tolist()}) != N or I.min() < 0 or np.any(I.max(axis=0) != np.array(n) - 1):
                return FAIL(f'n={n}: not a bijection onto the index set')
    return PASS


@clause('C18.grid_flat.scalar', funcs=('grid.grid_flat',))
def grid_flat_scalar(n):
    """Scalar argument (int, float, NumPy scalars): the 1D grid 0..n-1."""
    for arg in (n, float(n), np.int64(n), np.float64(n), np.int32(n)):
        I = teneva.grid_flat(arg)
        if not isinstance(I, np.ndarray) or I.shape != (n,) or I.dtype.kind not in 'iu' or I.tolist() != list(range(n)):
            return FAIL(f'grid_flat({arg!r}) = {I!r}')
    return PASS


@clause('C18.cdf_getter.step', funcs=('stat.cdf_getter',))
def cdf_step(m, ties, seed, as_list):
    """cdf(t) == count(x_i <= t)/m at the sample points, between them, below and above; scalar and array
    argument give the same values; monotone, right-continuous; the sample is not modified."""
    g = gen.rng('C18c', m, ties, seed)
    x = g.integers(-5, 6, size=m).astype(float) if ties else g.normal(size=m) * 10.0 ** int(g.integers(-3, 4))
    arg = x.tolist() if as_list else x.copy()
    snap = gen.snapshot(arg)
    cdf = teneva.cdf_getter(arg)
    if gen.snapshot(arg) != snap:
        return FAIL('sample modified (sorted in place?)')
    xs = np.sort(x)
    ts = list(xs) + [float(np.nextafter(v, np.inf)) for v in xs] + [float(np.nextafter(v, -np.inf)) for v in xs]
    ts += list((xs[:-1] + xs[1:]) / 2) + [xs[0] - 1.0, xs[-1] + 1.0, -1e300, 1e300, -np.inf, np.inf]
    ts = np.array(ts, dtype=float)
    want = np.array([np.count_nonzero(x <= t) / m for t in ts])
    got = cdf(ts)
    if not isinstance(got, np.ndarray) or got.shape != ts.shape:
        return FAIL(f'array input -> {type(got).__name__} shape {np.shape(got)}')
    if not np.all(np.abs(got - want) <= 2 * EPS):
        k = int(np.argmax(np.abs(got - want)))
        return FAIL(f't={ts[k]!r}: cdf {got[k]!r}, count(x<=t)/m = {want[k]!r}')
    for t, w in list(zip(ts, want))[:: max(1, len(ts) // 25)]:
        s = cdf(float(t))
        if np.ndim(s) != 0 or not abs(float(s) - w) <= 2 * EPS:
            return FAIL(f'scalar input t={t!r}: {s!r} vs {w!r}')
    o = np.argsort(ts, kind='stable')
    if np.any(np.diff(got[o]) < 0):
        return FAIL('not monotone')
    if not (got.min() >= 0 and got.max() <= 1) or cdf(-np.inf) != 0 or cdf(xs[-1]) != 1:
        return FAIL('range: cdf(-inf) != 0 or cdf(max) != 1')
    return PASS


def cases(tier, seed):
    big = tier == 'thorough'
    g = gen.rng('C18', seed)

    def rs():
        return int(g.integers(1 << 30))

    nmax = 64 if big else 40
    boxes = _boxes(tier)
    for a, b in boxes:
        for kind in ('uni', 'cheb'):
            for n in range(2, nmax + 1):
                yield 'C18.ind_to_poi.nodes', dict(a=a, b=b, n=n, kind=kind)
                yield 'C18.roundtrip.exhaustive', dict(a=a, b=b, n=n, kind=kind)
            for n in (2, 3, 4, 5, 8, 17, 40) + ((63, 64) if big else ()):
                for rep in range(2 if big else 1):
                    yield 'C18.poi_to_ind.nearest', dict(a=a, b=b, n=n, kind=kind, seed=rs())
        for lim in ([0.0, 1.0], [-2.0, 3.0], [10, 20], [-1e-3, 1e5], [5.0, 5.5]):
            yield 'C18.poi_scale.kinds', dict(a=a, b=b, lim=lim, seed=rs())
    # random boxes: magnitude and offset drawn log-uniformly (seeded part)
    for rep in range(40 if big else 12):
        w = 10.0 ** float(g.uniform(-12, 12))
        off = float(g.choice([-1, 1])) * w * 10.0 ** float(g.uniform(-3, 8))
        a, b = off, off + w
        for kind in ('uni', 'cheb'):
            n = int(g.integers(2, nmax + 1))
            yield 'C18.ind_to_poi.nodes', dict(a=a, b=b, n=n, kind=kind)
            yield 'C18.roundtrip.exhaustive', dict(a=a, b=b, n=n, kind=kind)
            yield 'C18.poi_to_ind.nearest', dict(a=a, b=b, n=n, kind=kind, seed=rs())
        yield 'C18.poi_scale.kinds', dict(a=a, b=b, lim=[float(g.normal()), float(g.normal()) + 4.0], seed=rs())
    for kind in ('uni', 'cheb'):
        for k in range(len(boxes) - 2):
            for n in ([2, 3, 4], [7, 2, 5], [16, 9], [40], [3, 3, 3]):
                yield 'C18.roundtrip.multidim', dict(boxes=[list(boxes[k + j]) for j in range(len(n))], n=n, kind=kind)
        for d in (1, 2, 3, 5):
            for a, b in boxes[:8]:
                for n in (2, 7, 33):
                    yield 'C18.options.interchangeable', dict(a=a, b=b, n=n, d=d, kind=kind, seed=rs())
    for d in range(1, 7):
        for reps in (0, 1, 4):
            yield 'C18.options.prep', dict(d=d, reps=reps)
        for d2 in range(1, 7):
            if d2 != d:
                yield 'C18.options.reject', dict(d=d, d2=d2)
                yield 'C18.poi_to_ind.reject_n_length', dict(d=d, d2=d2)
    for d in (1, 2, 3, 4):
        yield 'C18.grid_flat.enumeration', dict(d=d, nmax=4)
    if big:
        yield 'C18.grid_flat.enumeration', dict(d=5, nmax=3)
        yield 'C18.grid_flat.enumeration', dict(d=2, nmax=12)
    for n in (1, 2, 3, 7, 64):
        yield 'C18.grid_flat.scalar', dict(n=n)
    for m in (1, 2, 3, 5, 8, 13, 40):
        for ties in (False, True):
            for rep in range(6 if big else 2):
                yield 'C18.cdf_getter.step', dict(m=m, ties=ties, seed=rs(), as_list=bool(rep % 2))
