"""C18 (bounded, T3): grid index <-> point maps round-trip exactly and clamp to the box.

Covered clauses of the statement, all against exact rational arithmetic (`fractions.Fraction` of the
floating-point inputs) or plain counting:

* ind_to_poi: endpoints (uniform 0 -> a, n-1 -> b; Chebyshev 0 -> b, n-1 -> a) and range inside [a, b], both
  within 2 ulp of max(|a|,|b|) (grid points may leave the box by an ulp; no slack on indices); every node within
  a scale-aware tolerance of the exact node; nodes strictly monotone.
* round trip poi_to_ind(ind_to_poi(i)) == i for EVERY index, n = 2..40 (quick) / 2..64 (thorough), over 12 / 30
  boxes of many magnitudes and offsets; boxes are restricted by the stated conditioning rule
  (|a|+|b|)/(b-a) <= 1e10 (otherwise the nodes are not representable; such boxes return SKIP).
* nearest node in the grid parameter t: |I - t| <= 1/2 + slack, slack derived from the rounding of the scaled
  coordinate (interval evaluation of arccos for the Chebyshev grid); points at cell boundaries +- small offsets,
  random points, boundary and outside points (clamped to 0 / n-1, including +-1e300 and 1 ulp outside).
* poi_scale: affine onto [0,1], [-1,1], given limits, with clipping (results never leave the target interval).
* scalar == per-dimension options (bitwise), list == ndarray options, single point == batch row (bitwise, shape).
* grid_flat: every multi-index exactly once, first index fastest, all shapes with <= 4 modes of size <= 4;
  scalar argument; integer dtype.
* grid_prep_opt / grid_prep_opts: broadcasting, kinds, reps; ValueError iff the documented list/ndarray options
  have inconsistent lengths or d cannot be recovered; the maps reject inconsistent a / b / n.
* cdf_getter: right-continuous step function count(x_i <= t)/len, at / between / below / above the sample,
  ties, scalar and array argument, argument untouched.

Parameter-coverage extension (every parameter / documented input form of the anchored functions):
* C18.large_n.maps: grids of 257 .. 2^40 + 1 nodes (past 8 / 16 / 32-bit integers): endpoints, exact nodes, range,
  monotonicity, round trip and nearest node at boundary / middle / random indices (all indices up to n = 2^17 + 1);
  conditioning rule cond(box) (n-1) <= 1e13 (uniform), cond(box) (n-1)^2 <= 1e13 (Chebyshev, node spacing at the ends).
* C18.multidim.mixed: d = 1..12 (100 thorough) with DIFFERENT a, b, n per dimension (lists / ndarrays / mixed, n as
  floats), m = 1, m = d, m > d rows, inside / boundary / outside points: every entry of ind_to_poi, poi_to_ind,
  poi_scale (all three kinds) against the exact reference of its own column.
* C18.options.dtypes: int / int-list / int-ndarray / float32-ndarray / NumPy-scalar bounds, float / int16 / int32 n,
  indices of dtype int8 .. uint64, integer-valued points and limits: bitwise equal to the float64 call.
* C18.grid_flat.large: modes >= 256, >= 2^16 rows, many modes, size-1 modes, narrow integer ndarray argument; every row.
* C18.cdf_getter.forms: integer / float32 / constant / two-valued / sorted / reverse-sorted samples, scales 1e-300 ..
  1e300, large samples; Python / NumPy scalar, one-element and unsorted array queries.
* C18.cdf_confidence.band: the documented Dvoretzky-Kiefer-Wolfowitz band (default and explicit alpha), clipping.
* more cases for the older clauses: boxes at the edge of the conditioning rule (offset 1e8 width 1/16, offset 1e300),
  boxes with a zero bound; limits of magnitude 1e-300 .. 1e100, with an offset, integer, negative; points just inside
  the box.  The map onto given limits is evaluated by the library through products of bounds and limits: cases whose
  products overflow (or underflow so much that the target interval is not resolved) return SKIP (`_lim_ok`), gradual
  underflow enters the tolerance (`_lim_under`); the exact-boundary requirement for outside points applies once the
  exact image is outside by more than the tolerance.
* the same argument OBJECTS for several calls: C18.repeat.same_objects - every grid / stat function three times with the
  same point / index / option / sample objects (single point and batch; options as float64 / platform-int ndarrays - the
  dtypes the library converts to, so that its prepared option IS the caller's array -, lists, scalars, float32 / int32,
  float n, mixed, non-contiguous views): arguments bit-identical after every call, every answer bit-identical to a call
  with fresh equal arguments, earlier results untouched (`gen.repeat_calls`); C18.session.shared_options - a loop over
  all indices of a grid with ONE set of option objects: exact nodes, round trip (single list / array points, batches),
  nearest node of arbitrary points and poi_scale against the exact reference for the first and for every later call.
* Disabled DOUBTFUL cases (subnormal box widths, over- / underflowing products, cancellation of offset limits on offset
  boxes) are documented above `cases`.
"""
import itertools
import math
from fractions import Fraction as Fr
import numpy as np
import teneva
from rtc.api import clause, PASS, FAIL, TRIVIAL, SKIP, check
from rtc import gen


BUDGET = (100, 600)
BOUNDS = ('boxes: 12 (quick) / 30 (thorough) with magnitudes 1e-300..1e300, offsets up to 1e9 box widths (conditioning rule (|a|+|b|)/(b-a) <= 1e10); n = 2..40 / '
          '2..64 exhaustive indices, d = 1..3; nearest-node: all cell boundaries +- {0, 1e-9, 1e-3, 0.25} cells + 64 '
          'random points per case; grid_flat: all 340 shapes with <= 4 modes of size <= 4; cdf: samples of 1..40 '
          'values with ties; extension: +6 / +14 boxes at the edge of the conditioning rule or with a zero bound '
          '(n = 2, 3, 17, 40), limits 1e-300..1e100 / offset / integer; large grids n = 257..2^40+1 (18 quick / 858 '
          'thorough, all indices up to n = 2^17+1, else ~60 indices + ~120 points); per-dimension distinct (a, b, n) '
          'with d = 1..12 (quick) / 1..100 (thorough), m in {1, d, 7}, list / ndarray / mixed options; option, index '
          'and point dtypes int8..uint64 / float32 on 5 integer boxes, n = 2..300 (70000 thorough); grid_flat with '
          'modes up to 70000 and up to 2^18 (quick 2^16) rows, every row; cdf sample forms (int, float32, constant, '
          'two-valued, sorted, scales 1e-300..1e300, m up to 4096 / 100000); DKW band m = 1..1000 / 100000, '
          'alpha = default, 1e-300..1; repeated calls with the same argument objects: 10 functions x 7 option forms x '
          '{single point, batch} (d = 1..3, thorough 6) three calls each; sessions of 4 (6) boxes sets x 7 forms x 2 kinds over all '
          'indices with shared option objects')

EPS = np.finfo(float).eps

BOXES_QUICK = [(-1.0, 1.0), (0.0, 1.0), (-3.7, 12.1), (1e6, 1e6 + 1), (-1e-3, 2e-3), (5.0, 5.0000001),
               (-1e8, 1e8), (1e-300, 2e-300), (-1e300, 1e300), (0.1, 0.3), (-7e-9, -6e-9), (123456.789, 123456.79)]
BOXES_MORE = [(1e6, 1e6 + 1e-3), (-2.0, -1.0), (0.0, 1e-9), (-1e9 - 2.5, -1e9), (1.0, 3.0), (-math.pi, math.pi),
              (0.0, 2 * math.pi), (1e100, 3e100), (-5e-324 * 2 ** 60, 5e-324 * 2 ** 61), (0.3, 0.30000001),
              (-1.0, 1e9), (-1e-12, 1e12), (7.0, 7.5), (2.0 ** 20, 2.0 ** 20 + 3), (-0.7, 0.9), (1e-8, 1.0),
              (-123.0, -1e-5), (1.0 / 3, 2.0 / 3)]


# boxes at the edge of the conditioning rule (offset 1e8 .. 1e300 with a narrow width), with a zero bound
BOXES_EXTRA = [(1e8, 1e8 + 0.0625), (-1e8 - 1.0, -1e8), (1.0, 1.00000001), (0.0, 1e-300), (-1e-300, 0.0),
               (1e300, 1.0000001e300)]
BOXES_EXTRA_MORE = [(-1e300, -0.9999999e300), (1e8, 1e8 + 1.0), (2.0 ** 52, 2.0 ** 52 + 2.0 ** 20), (0.0, 1e300),
                    (-2.0 ** -1000, 2.0 ** -1001), (1e-8, 1e-8 + 1e-16), (-1e16, 1.0), (4.0e-308, 9.0e-308)]


def _boxes(tier):
    return BOXES_QUICK + (BOXES_MORE if tier == 'thorough' else [])


def _cond(a, b):
    """conditioning rule: the box must be resolvable by doubles"""
    return a < b and math.isfinite(b - a) and (abs(a) + abs(b)) / (b - a) <= 1e10


def _ulp(a, b):
    return float(np.spacing(max(abs(a), abs(b))))


def _node_exact(i, a, b, n, kind):
    """exact node as (float value, error bound)"""
    a_, b_ = Fr(a), Fr(b)
    if kind == 'uni':
        x = a_ + Fr(i, n - 1) * (b_ - a_)
        return float(x), 8 * EPS * (abs(a) + abs(b))
    c = math.cos(math.pi * i / (n - 1))
    x = c * (b - a) / 2 + (b + a) / 2
    return x, 8 * EPS * (abs(a) + abs(b))


@clause('C18.ind_to_poi.nodes', funcs=('grid.ind_to_poi',))
def nodes(a, b, n, kind):
    """Endpoints, range inside the box (2 ulp of the larger bound), node values, strict monotonicity."""
    if not _cond(a, b):
        return SKIP('box not resolvable')
    I = np.arange(n).reshape(-1, 1)
    X = teneva.ind_to_poi(I, a, b, n, kind)
    if X.shape != (n, 1) or X.dtype.kind != 'f':
        return FAIL(f'shape {X.shape} dtype {X.dtype}')
    x = X[:, 0]
    u = 2 * _ulp(a, b)
    first, last = (a, b) if kind == 'uni' else (b, a)
    if not abs(x[0] - first) <= u:
        return FAIL(f'index 0 -> {x[0]!r}, expected {first!r} ({(x[0] - first) / u * 2:.1f} ulp)')
    if not abs(x[-1] - last) <= u:
        return FAIL(f'index n-1 -> {x[-1]!r}, expected {last!r} ({(x[-1] - last) / u * 2:.1f} ulp)')
    if not (x.min() >= a - u and x.max() <= b + u):
        return FAIL(f'range [{x.min()!r}, {x.max()!r}] leaves [{a!r}, {b!r}]')
    for i in range(n):
        w, tol = _node_exact(i, a, b, n, kind)
        if not abs(x[i] - w) <= tol:
            return FAIL(f'node {i}: {x[i]!r} vs exact {w!r}')
    dx = np.diff(x)
    if not (np.all(dx > 0) if kind == 'uni' else np.all(dx < 0)):
        return FAIL('nodes not strictly monotone')
    return PASS


@clause('C18.roundtrip.exhaustive', funcs=('grid.ind_to_poi', 'grid.poi_to_ind', 'grid.poi_scale'))
def roundtrip(a, b, n, kind):
    """poi_to_ind(ind_to_poi(i)) == i for every index; batch and single-point calling forms."""
    if not _cond(a, b):
        return SKIP('box not resolvable')
    I = np.arange(n).reshape(-1, 1)
    X = teneva.ind_to_poi(I, a, b, n, kind)
    J = teneva.poi_to_ind(X, a, b, n, kind)
    if J.shape != I.shape or J.dtype.kind not in 'iu':
        return FAIL(f'shape {J.shape} dtype {J.dtype}')
    if not np.array_equal(I, J):
        k = int(np.flatnonzero(I[:, 0] != J[:, 0])[0])
        return FAIL(f'index {k} -> point {X[k, 0]!r} -> index {int(J[k, 0])}')
    for k in {0, n - 1, n // 2}:
        x1 = teneva.ind_to_poi([k], a, b, n, kind)
        j1 = teneva.poi_to_ind(x1, a, b, n, kind)
        if x1.shape != (1,) or j1.shape != (1,) or x1[0] != X[k, 0] or j1[0] != k:
            return FAIL(f'single point form: index {k} -> {x1} -> {j1}')
    return PASS


@clause('C18.roundtrip.multidim', funcs=('grid.ind_to_poi', 'grid.poi_to_ind', 'grid.grid_prep_opts'))
def roundtrip_multidim(boxes, n, kind):
    """Per-dimension a, b, n (lists): the round trip holds for the full index grid of a d-dimensional box."""
    a = [float(x[0]) for x in boxes]
    b = [float(x[1]) for x in boxes]
    if not all(_cond(x, y) for x, y in zip(a, b)):
        return SKIP('box not resolvable')
    I = gen.all_indices(n)
    X = teneva.ind_to_poi(I, a, b, n, kind)
    if X.shape != I.shape:
        return FAIL(f'shape {X.shape}')
    for k in range(len(n)):          # column k must only depend on (a_k, b_k, n_k)
        col = teneva.ind_to_poi(I[:, k:k + 1], a[k], b[k], n[k], kind)[:, 0]
        if not np.array_equal(col, X[:, k]):
            return FAIL(f'column {k} differs from the one-dimensional map with (a_k, b_k, n_k)')
    J = teneva.poi_to_ind(X, np.array(a), np.array(b), np.array(n), kind)
    if not np.array_equal(I, J):
        k = int(np.flatnonzero((I != J).any(axis=1))[0])
        return FAIL(f'{I[k].tolist()} -> {X[k].tolist()} -> {J[k].tolist()}')
    return PASS


def _t_interval(x, a, b, n, kind):
    """enclosure [lo, hi] of the real grid parameter t of the point x as the function may see it"""
    a_, b_, x_ = Fr(a), Fr(b), Fr(x)
    if kind == 'uni':
        t = float((x_ - a_) / (b_ - a_) * (n - 1))
        s = 8 * EPS * (n - 1) * max(1.0, abs(t) / (n - 1))
        return t - s, t + s
    u = float((2 * x_ - a_ - b_) / (b_ - a_))
    du = 8 * EPS * (abs(a) + abs(b) + abs(x)) / (b - a) + 8 * EPS
    lo = math.acos(max(-1.0, min(1.0, u + du))) / math.pi * (n - 1)
    hi = math.acos(max(-1.0, min(1.0, u - du))) / math.pi * (n - 1)
    s = 8 * EPS * (n - 1)
    return lo - s, hi + s


def _check_nearest(x, i, a, b, n, kind):
    if not (0 <= i <= n - 1):
        return f'index {i} outside [0, {n - 1}] for point {x!r}'
    if x <= a:
        want = 0 if kind == 'uni' else n - 1
        return None if i == want else f'point {x!r} <= a={a!r} -> index {i}, expected boundary index {want}'
    if x >= b:
        want = n - 1 if kind == 'uni' else 0
        return None if i == want else f'point {x!r} >= b={b!r} -> index {i}, expected boundary index {want}'
    lo, hi = _t_interval(x, a, b, n, kind)
    if i < lo - 0.5 or i > hi + 0.5:
        return f'point {x!r}: index {i} is not a nearest node, grid parameter t in [{lo!r}, {hi!r}]'
    return None


@clause('C18.poi_to_ind.nearest', funcs=('grid.poi_to_ind', 'grid.poi_scale'))
def nearest(a, b, n, kind, seed):
    """Every point goes to a nearest node in the grid parameter; outside / boundary points clamp; single == batch."""
    if not _cond(a, b):
        return SKIP('box not resolvable')
    g = gen.rng('C18n', a, b, n, kind, seed)
    w = b - a
    pts = [a, b, float(np.nextafter(a, -np.inf)), float(np.nextafter(b, np.inf)), float(np.nextafter(a, np.inf)),
           float(np.nextafter(b, -np.inf)), a - w, b + w, a - 0.01 * w, b + 0.01 * w, (a + b) / 2]
    if abs(a) < 1e299 and abs(b) < 1e299:
        pts += [-1e300, 1e300]
    for k in range(n - 1):                   # cell boundaries in the grid parameter
        for off in (0.0, 1e-9, -1e-9, 1e-3, -1e-3, 0.25, -0.25):
            t = k + 0.5 + off
            if kind == 'uni':
                pts.append(a + t / (n - 1) * w)
            else:
                pts.append(math.cos(math.pi * t / (n - 1)) * w / 2 + (a + b) / 2)
    pts += list(g.uniform(a, b, size=64)) if math.isfinite(w) else []
    pts += list(a + w * g.uniform(-0.5, 1.5, size=16))
    X = np.array([float(p) for p in pts if math.isfinite(p)]).reshape(-1, 1)
    snap = X.copy()
    I = teneva.poi_to_ind(X, a, b, n, kind)
    if not np.array_equal(X, snap):
        return FAIL('argument modified')
    if I.shape != X.shape or I.dtype.kind not in 'iu':
        return FAIL(f'shape {I.shape} dtype {I.dtype}')
    for x, i in zip(X[:, 0], I[:, 0]):
        msg = _check_nearest(float(x), int(i), a, b, n, kind)
        if msg:
            return FAIL(msg)
    for k in range(0, len(X), max(1, len(X) // 12)):
        one = teneva.poi_to_ind(X[k], a, b, n, kind)
        if one.shape != (1,) or one[0] != I[k, 0]:
            return FAIL(f'single point {X[k, 0]!r} -> {one}, batch -> {I[k, 0]}')
    return PASS


def _lim_prods(a, b, lim):
    m = max(abs(a), abs(b), b - a)
    return [abs(Fr(u) * Fr(v)) for u in (a, b, 3 * m) for v in (float(lim[0]), float(lim[1]), float(lim[1]) - float(lim[0]))]


def _lim_under(a, b, lim):
    """absolute error of the map onto given limits that is caused by gradual underflow of the products of box bounds
    and limits through which it is evaluated (0.0 if every product is zero or a normal double)"""
    if all(p == 0 or p >= Fr(1e-306) for p in _lim_prods(a, b, lim)):
        return 0.0
    return 4 * 5e-324 / (b - a)


def _lim_ok(a, b, lim):
    """conditioning rule for given limits: no product of a box bound and a limit overflows, and the error caused by
    underflowing products stays below 1e-6 of the target interval"""
    return all(p <= Fr(1e307) for p in _lim_prods(a, b, lim)) \
        and _lim_under(a, b, lim) <= 1e-6 * (float(lim[1]) - float(lim[0]))


@clause('C18.poi_scale.kinds', funcs=('grid.poi_scale',))
def poi_scale_kinds(a, b, lim, seed):
    """uni -> [0,1], cheb -> [-1,1], [a_new, b_new] -> these limits: exact affine map within a scale-aware
    tolerance, clipped (never outside the target interval, outside points exactly on its boundary)."""
    if not _cond(a, b):
        return SKIP('box not resolvable')
    if not _lim_ok(a, b, lim):
        return SKIP('products of box bounds and limits leave the normal double range')
    under = _lim_under(a, b, lim)
    g = gen.rng('C18s', a, b, lim, seed)
    w = b - a
    xs = np.array([a, b, (a + b) / 2, a - w, b + w, a - 1e-3 * w, b + 1e-3 * w] + list(g.uniform(a, b, size=24))
                  + list(a + w * g.uniform(-1, 2, size=8))
                  + [a + 1e-6 * w, b - 1e-6 * w, a + 1e-10 * w, b - 1e-10 * w]).reshape(-1, 1)     # just inside the box
    for kind, (lo, hi) in (('uni', (0.0, 1.0)), ('cheb', (-1.0, 1.0)), (list(lim), (float(lim[0]), float(lim[1])))):
        S = teneva.poi_scale(xs, a, b, kind)
        if S.shape != xs.shape or S.dtype.kind != 'f':
            return FAIL(f'{kind}: shape {S.shape} dtype {S.dtype}')
        if not (S.min() >= lo and S.max() <= hi):
            return FAIL(f'{kind}: result [{S.min()!r}, {S.max()!r}] leaves [{lo}, {hi}]')
        for x, s in zip(xs[:, 0], S[:, 0]):
            fx, fa, fb = Fr(float(x)), Fr(a), Fr(b)
            exu = Fr(lo) + (fx - fa) / (fb - fa) * (Fr(hi) - Fr(lo))
            ex = min(max(exu, Fr(lo)), Fr(hi))
            if isinstance(kind, list):
                scale = (abs(x) * abs(lo - hi) + abs(a * hi) + abs(b * lo)) / w
            elif kind == 'cheb':
                scale = (abs(x) + abs(a) + abs(b)) / w
            else:
                scale = max(abs(float(ex)), EPS)
            tol = 16 * EPS * scale + 1e-300 + (under if isinstance(kind, list) else 0.0)
            if not abs(s - float(ex)) <= tol:
                return FAIL(f'{kind}: point {x!r} -> {s!r}, exact {float(ex)!r} (scale {scale:.3e})')
            # outside points sit exactly on the boundary (as soon as the exact image is outside by more than the
            # rounding of the evaluation, which matters for offset limits on offset boxes only)
            if (x <= a - 1e-3 * w and exu < Fr(lo) - Fr(tol) and s != lo) \
                    or (x >= b + 1e-3 * w and exu > Fr(hi) + Fr(tol) and s != hi):
                return FAIL(f'{kind}: outside point {x!r} -> {s!r} not on the boundary of [{lo}, {hi}]')
    try:
        teneva.poi_scale(xs, a, b, 'nonsense-kind')
        return FAIL('unknown kind accepted')
    except ValueError:
        pass
    return PASS


@clause('C18.options.interchangeable', funcs=('grid.ind_to_poi', 'grid.poi_to_ind', 'grid.poi_scale',
                                              'grid.grid_prep_opt', 'grid.grid_prep_opts'))
def options_interchangeable(a, b, n, d, kind, seed):
    """Scalar options == per-dimension lists == ndarrays (bitwise); a single point == the row of a batch."""
    g = gen.rng('C18o', a, b, n, d, kind, seed)
    m = 9
    I = g.integers(0, n, size=(m, d))
    X = a + (b - a) * g.uniform(-0.2, 1.2, size=(m, d))
    forms = [(a, b, n), ([a] * d, [b] * d, [n] * d), (np.full(d, a), np.full(d, b), np.full(d, n)),
             (a, [b] * d, n), ([a] * d, b, float(n)), (a, b, np.full(d, n))]
    ref = None
    for fa, fb, fn in forms:
        P = teneva.ind_to_poi(I, fa, fb, fn, kind)
        J = teneva.poi_to_ind(X, fa, fb, fn, kind)
        S = teneva.poi_scale(X, fa, fb, kind)
        T = teneva.poi_scale(X, fa, fb, [-2.0, 3.0])
        if ref is None:
            ref = (P, J, S, T)
            continue
        for nm, u, v in zip(('ind_to_poi', 'poi_to_ind', 'poi_scale', 'poi_scale limits'), ref, (P, J, S, T)):
            if u.shape != v.shape or not np.array_equal(u, v):
                return FAIL(f'{nm}: option form {(type(fa).__name__, type(fb).__name__, type(fn).__name__)} differs '
                            f'from scalars')
    P, J, S, T = ref
    if P.shape != (m, d) or J.shape != (m, d) or S.shape != (m, d):
        return FAIL(f'batch shapes {P.shape} {J.shape} {S.shape}')
    for k in range(m):
        for arg_i, arg_x in ((I[k], X[k]), (I[k].tolist(), X[k].tolist())):
            p = teneva.ind_to_poi(arg_i, a, [b] * d, n, kind)
            j = teneva.poi_to_ind(arg_x, [a] * d, b, n, kind)
            s = teneva.poi_scale(arg_x, a, b, kind)
            if p.shape != (d,) or j.shape != (d,) or s.shape != (d,):
                return FAIL(f'single point shapes {p.shape} {j.shape} {s.shape}')
            if not (np.array_equal(p, P[k]) and np.array_equal(j, J[k]) and np.array_equal(s, S[k])):
                return FAIL(f'single point {k} differs from batch row')
    # list-of-lists batch == ndarray batch
    if not np.array_equal(teneva.ind_to_poi(I.tolist(), a, b, n, kind), P):
        return FAIL('list batch differs from ndarray batch (ind_to_poi)')
    if not np.array_equal(teneva.poi_to_ind(X.tolist(), a, b, n, kind), J):
        return FAIL('list batch differs from ndarray batch (poi_to_ind)')
    return PASS


@clause('C18.options.prep', funcs=('grid.grid_prep_opt', 'grid.grid_prep_opts'))
def options_prep(d, reps):
    """grid_prep_opt / grid_prep_opts: scalar -> constant vector of length d of the requested kind; vectors
    kept; None stays None; reps -> [reps, d] with equal rows; d recovered from any vector option."""
    rp = None if reps == 0 else reps
    shp = (d,) if rp is None else (rp, d)
    for val, kind in ((3, int), (3.0, int), (2.5, float), (-1, float), (0, int)):
        o = teneva.grid_prep_opt(val, d, kind, rp)
        if not isinstance(o, np.ndarray) or o.shape != shp or o.dtype.kind != ('i' if kind is int else 'f') \
                or not np.all(o == kind(val)):
            return FAIL(f'grid_prep_opt({val}, {d}, {kind.__name__}, {rp}) = {o!r}')
    vec = [0.5 * k - 1 for k in range(d)]
    for form in (vec, np.array(vec)):
        o = teneva.grid_prep_opt(form, d, float, rp)
        if o.shape != shp or not np.all(o == np.array(vec)):
            return FAIL(f'vector option changed: {o!r}')
        o = teneva.grid_prep_opt(form, None, float, rp)
        if o.shape != shp or not np.all(o == np.array(vec)):
            return FAIL(f'vector option without d changed: {o!r}')
    if teneva.grid_prep_opt(None, d) is not None:
        return FAIL('None not kept')
    nvec = [k + 2 for k in range(d)]
    for kw in (dict(a=-1.0, b=vec, n=5), dict(a=vec, b=7.0, n=nvec), dict(a=-1, b=3, n=np.array(nvec)),
               dict(a=np.array(vec), b=None, n=None), dict(a=1.0, b=2.0, n=3, d=d), dict(a=vec, b=vec, n=nvec, d=d)):
        A, B, N = teneva.grid_prep_opts(reps=rp, **kw)
        for nm, o, src, kd in (('a', A, kw.get('a'), 'f'), ('b', B, kw.get('b'), 'f'), ('n', N, kw.get('n'), 'i')):
            if src is None:
                if o is not None:
                    return FAIL(f'{nm}=None not kept for {kw}')
                continue
            want = np.array(src, dtype=float) if not isinstance(src, (int, float)) else np.full(d, float(src))
            if not isinstance(o, np.ndarray) or o.shape != shp or o.dtype.kind != kd or not np.all(o == want):
                return FAIL(f'grid_prep_opts({kw}, reps={rp}): {nm} = {o!r}')
    return PASS


@clause('C18.options.reject', funcs=('grid.grid_prep_opts', 'grid.grid_prep_opt', 'grid.ind_to_poi',
                                     'grid.poi_to_ind', 'grid.poi_scale'))
def options_reject(d, d2):
    """Inconsistent lengths of the list / ndarray options (d vs d2 != d) and an unrecoverable d raise ValueError;
    consistent ones do not; the maps reject inconsistent a, b (and n for ind_to_poi) with ValueError."""
    if d == d2:
        return SKIP('equal lengths')
    u, v = [0.0] * d, [1.0] * d2
    bad = [dict(a=u, b=v), dict(a=u, n=[3] * d2), dict(b=np.array(v), n=np.array([3] * d)), dict(a=u, d=d2),
           dict(n=[3] * d, d=d2), dict(a=u, b=[1.0] * d, n=[4] * d2), dict(a=0.0, b=1.0, n=3), dict(a=0.0, d=0),
           dict(a=1.0, b=np.array(v), n=[3] * d), dict(a=0.0, d=-1)]
    for kw in bad:
        try:
            r = teneva.grid_prep_opts(**kw)
        except ValueError:
            continue
        return FAIL(f'grid_prep_opts({kw}) accepted: {r}')
    good = [dict(a=u, b=[1.0] * d, n=[3] * d), dict(a=u, d=d), dict(a=0.0, b=1.0, n=3, d=d), dict(a=None, b=None, n=None)]
    for kw in good:
        try:
            teneva.grid_prep_opts(**kw)
        except ValueError as e:
            return FAIL(f'grid_prep_opts({kw}) rejected: {e}')
    for sc in (3, 2.5):
        for dd in (None, 0, -2):
            try:
                r = teneva.grid_prep_opt(sc, dd)
            except ValueError:
                continue
            return FAIL(f'grid_prep_opt({sc}, {dd}) accepted: {r}')
    I = np.zeros((2, d), dtype=int)
    X = np.full((2, d), 0.5)
    for nm, call in (('ind_to_poi a', lambda: teneva.ind_to_poi(I, [0.0] * d2, 1.0, 4)),
                     ('ind_to_poi b', lambda: teneva.ind_to_poi(I, 0.0, np.ones(d2), 4)),
                     ('ind_to_poi n', lambda: teneva.ind_to_poi(I, 0.0, 1.0, [4] * d2)),
                     ('ind_to_poi single', lambda: teneva.ind_to_poi(I[0], 0.0, [1.0] * d2, 4)),
                     ('poi_to_ind a', lambda: teneva.poi_to_ind(X, [0.0] * d2, 1.0, 4)),
                     ('poi_to_ind b', lambda: teneva.poi_to_ind(X, 0.0, [1.0] * d2, 4, 'cheb')),
                     ('poi_scale a', lambda: teneva.poi_scale(X, [0.0] * d2, 1.0)),
                     ('poi_scale b', lambda: teneva.poi_scale(X[0], 0.0, [1.0] * d2, 'cheb')),
                     ('poi_scale lim', lambda: teneva.poi_scale(X, 0.0, [1.0] * d2, [0.0, 2.0]))):
        try:
            r = call()
        except ValueError:
            continue
        return FAIL(f'{nm}: inconsistent option length accepted, result shape {np.shape(r)}')
    return PASS


@clause('C18.poi_to_ind.reject_n_length', funcs=('grid.poi_to_ind',))
def poi_to_ind_reject_n(d, d2):
    """poi_to_ind: a grid-size option n whose length d2 differs from the dimension d of the points is rejected (any
    exception counts: n is not routed through grid_prep_opts there).  Isolated from C18.options.reject because on the
    pinned tree a one-dimensional point set (d = 1) is silently broadcast against a longer n."""
    if d == d2:
        return SKIP('equal lengths')
    X = np.full((2, d), 0.5)
    for nm, call in (('batch, list n', lambda: teneva.poi_to_ind(X, 0.0, 1.0, [4] * d2)),
                     ('batch, cheb', lambda: teneva.poi_to_ind(X, 0.0, 1.0, [4] * d2, 'cheb')),
                     ('single point, ndarray n', lambda: teneva.poi_to_ind(X[0], 0.0, 1.0, np.array([4] * d2)))):
        try:
            r = call()
        except Exception:
            continue
        return FAIL(f'{nm}: points of dimension {d} with n of length {d2} accepted, result shape {np.shape(r)}')
    return PASS


@clause('C18.grid_flat.enumeration', funcs=('grid.grid_flat',))
def grid_flat_enumeration(d, nmax):
    """All shapes with d modes of size 1..nmax: integer array [prod n, d], row j is the multi-index with flat
    position j in first-index-fastest order, hence every multi-index exactly once; list and ndarray argument."""
    for n in itertools.product(range(1, nmax + 1), repeat=d):
        n = list(n)
        for arg in (n, np.array(n)):
            I = teneva.grid_flat(arg)
            N = int(np.prod(n))
            if not isinstance(I, np.ndarray) or I.shape != (N, d) or I.dtype.kind not in 'iu':
                return FAIL(f'n={n}: shape {getattr(I, "shape", None)} dtype {getattr(I, "dtype", None)}')
            for j in (range(N) if N <= 64 else list(range(0, N, 7)) + [N - 1]):
                rest, want = j, []
                for k in n:
                    want.append(rest % k)
                    rest //= k
                if I[j].tolist() != want:
                    return FAIL(f'n={n}: row {j} is {I[j].tolist()}, first-index-fastest order gives {want}')
            if len({tuple(r) for r in I.tolist()}) != N or I.min() < 0 or np.any(I.max(axis=0) != np.array(n) - 1):
                return FAIL(f'n={n}: not a bijection onto the index set')
    return PASS


@clause('C18.grid_flat.scalar', funcs=('grid.grid_flat',))
def grid_flat_scalar(n):
    """Scalar argument (int, float, NumPy scalars): the 1D grid 0..n-1."""
    for arg in (n, float(n), np.int64(n), np.float64(n), np.int32(n)):
        I = teneva.grid_flat(arg)
        if not isinstance(I, np.ndarray) or I.shape != (n,) or I.dtype.kind not in 'iu' or I.tolist() != list(range(n)):
            return FAIL(f'grid_flat({arg!r}) = {I!r}')
    return PASS


@clause('C18.cdf_getter.step', funcs=('stat.cdf_getter',))
def cdf_step(m, ties, seed, as_list):
    """cdf(t) == count(x_i <= t)/m at the sample points, between them, below and above; scalar and array
    argument give the same values; monotone, right-continuous; the sample is not modified."""
    g = gen.rng('C18c', m, ties, seed)
    x = g.integers(-5, 6, size=m).astype(float) if ties else g.normal(size=m) * 10.0 ** int(g.integers(-3, 4))
    arg = x.tolist() if as_list else x.copy()
    snap = gen.snapshot(arg)
    cdf = teneva.cdf_getter(arg)
    if gen.snapshot(arg) != snap:
        return FAIL('sample modified (sorted in place?)')
    xs = np.sort(x)
    ts = list(xs) + [float(np.nextafter(v, np.inf)) for v in xs] + [float(np.nextafter(v, -np.inf)) for v in xs]
    ts += list((xs[:-1] + xs[1:]) / 2) + [xs[0] - 1.0, xs[-1] + 1.0, -1e300, 1e300, -np.inf, np.inf]
    ts = np.array(ts, dtype=float)
    want = np.array([np.count_nonzero(x <= t) / m for t in ts])
    got = cdf(ts)
    if not isinstance(got, np.ndarray) or got.shape != ts.shape:
        return FAIL(f'array input -> {type(got).__name__} shape {np.shape(got)}')
    if not np.all(np.abs(got - want) <= 2 * EPS):
        k = int(np.argmax(np.abs(got - want)))
        return FAIL(f't={ts[k]!r}: cdf {got[k]!r}, count(x<=t)/m = {want[k]!r}')
    for t, w in list(zip(ts, want))[:: max(1, len(ts) // 25)]:
        s = cdf(float(t))
        if np.ndim(s) != 0 or not abs(float(s) - w) <= 2 * EPS:
            return FAIL(f'scalar input t={t!r}: {s!r} vs {w!r}')
    o = np.argsort(ts, kind='stable')
    if np.any(np.diff(got[o]) < 0):
        return FAIL('not monotone')
    if not (got.min() >= 0 and got.max() <= 1) or cdf(-np.inf) != 0 or cdf(xs[-1]) != 1:
        return FAIL('range: cdf(-inf) != 0 or cdf(max) != 1')
    return PASS


# ---------------------------------------------------------------------------------------------------------------------
# parameter-coverage extension: large grids, per-dimension options with distinct values, option / index / point
# dtypes, large flat grids, sample forms of the empirical CDF, the confidence band
# ---------------------------------------------------------------------------------------------------------------------

def _cond_n(a, b, n, kind):
    """conditioning rule for large grids: neighbouring nodes must stay resolvable after the scaling of the point
    (uniform: spacing (b-a)/(n-1); Chebyshev: spacing (b-a)/2 (pi/(n-1))^2 / 2 at the ends of the box)"""
    if not _cond(a, b):
        return False
    c = (abs(a) + abs(b)) / (b - a)
    return c * (n - 1) <= 1e13 if kind == 'uni' else c * float(n - 1) ** 2 <= 1e13


def _node_ref(i, a, b, n, kind):
    """exact node (float value, error bound) for any grid size (Python integers / Fractions; argument reduction of
    the cosine to [0, pi/2])"""
    if kind == 'uni':
        return float(Fr(a) + Fr(i, n - 1) * (Fr(b) - Fr(a))), 8 * EPS * (abs(a) + abs(b))
    if 2 * i == n - 1:
        c = 0.0
    elif 2 * i < n - 1:
        c = math.cos(math.pi * float(Fr(i, n - 1)))
    else:
        c = -math.cos(math.pi * float(Fr(n - 1 - i, n - 1)))
    return c * (b - a) / 2 + (b + a) / 2, 8 * EPS * (abs(a) + abs(b))


def _scale_msg(x, s, a, b, lo, hi, how, under=0.0):
    """poi_scale reference for one point: exact affine map onto [lo, hi] with clipping; how = 'uni' | 'cheb' | 'lim'
    selects the scale of the tolerance (rounding model of a direct evaluation); under = _lim_under(a, b, limits)."""
    w = b - a
    exu = Fr(lo) + (Fr(x) - Fr(a)) / (Fr(b) - Fr(a)) * (Fr(hi) - Fr(lo))
    ex = float(min(max(exu, Fr(lo)), Fr(hi)))
    if how == 'lim':
        scale = (abs(x) * abs(lo - hi) + abs(a * hi) + abs(b * lo)) / w
    elif how == 'cheb':
        scale = (abs(x) + abs(a) + abs(b)) / w
    else:
        scale = max(abs(ex), EPS)
    if not (lo <= s <= hi):
        return f'point {x!r} -> {s!r} outside [{lo}, {hi}]'
    tol = 16 * EPS * scale + 1e-300 + (under if how == 'lim' else 0.0)
    if not abs(s - ex) <= tol:
        return f'point {x!r} -> {s!r}, exact {ex!r} (scale {scale:.3e})'
    if (x <= a - 1e-3 * w and exu < Fr(lo) - Fr(tol) and s != lo) or (x >= b + 1e-3 * w and exu > Fr(hi) + Fr(tol) and s != hi):
        return f'outside point {x!r} -> {s!r} not on the boundary of [{lo}, {hi}]'
    return None


@clause('C18.large_n.maps', funcs=('grid.ind_to_poi', 'grid.poi_to_ind', 'grid.poi_scale'))
def large_n_maps(a, b, n, kind, seed):
    """Large grids (n up to 2^40 + 1, beyond 32-bit integers): endpoints, exact node values, range, strict
    monotonicity, round trip and nearest node on boundary / middle / random indices and cells (all indices when
    n <= 2^17 + 1); integer result dtype wide enough for n."""
    if not _cond_n(a, b, n, kind):
        return SKIP('grid not resolvable')
    g = gen.rng('C18L', a, b, n, kind, seed)
    idx = {0, 1, 2, 3, n - 4, n - 3, n - 2, n - 1, n // 2 - 1, n // 2, n // 2 + 1, (n - 1) // 3, 2 * (n - 1) // 3,
           255, 256, 257, 65535, 65536, 2 ** 31 - 1, 2 ** 31, 2 ** 32, 2 ** 32 + 1}
    idx |= {int(v) for v in g.integers(0, n, size=40)}
    idx = sorted(i for i in idx if 0 <= i <= n - 1)
    I = np.array(idx, dtype=np.int64).reshape(-1, 1)
    X = teneva.ind_to_poi(I, a, b, n, kind)
    if X.shape != I.shape or X.dtype.kind != 'f':
        return FAIL(f'shape {X.shape} dtype {X.dtype}')
    x = X[:, 0]
    u = 2 * _ulp(a, b)
    first, last = (a, b) if kind == 'uni' else (b, a)
    if not (abs(x[0] - first) <= u and abs(x[-1] - last) <= u):
        return FAIL(f'endpoints {x[0]!r}, {x[-1]!r}, expected {first!r}, {last!r}')
    if not (x.min() >= a - u and x.max() <= b + u):
        return FAIL(f'range [{x.min()!r}, {x.max()!r}] leaves [{a!r}, {b!r}]')
    for i, v in zip(idx, x):
        w_, tol = _node_ref(i, a, b, n, kind)
        if not abs(v - w_) <= tol:
            return FAIL(f'node {i}: {v!r} vs exact {w_!r}')
    dx = np.diff(x)
    if not (np.all(dx > 0) if kind == 'uni' else np.all(dx < 0)):
        return FAIL('sampled nodes not strictly monotone')
    J = teneva.poi_to_ind(X, a, b, n, kind)
    if J.shape != I.shape or J.dtype.kind not in 'iu':
        return FAIL(f'shape {J.shape} dtype {J.dtype}')
    if not np.array_equal(I, J):
        k = int(np.flatnonzero(I[:, 0] != J[:, 0])[0])
        return FAIL(f'index {idx[k]} -> point {x[k]!r} -> index {int(J[k, 0])}')
    for k in (0, len(idx) // 2, len(idx) - 1):                # single-point form, list of a Python integer
        x1 = teneva.ind_to_poi([idx[k]], a, b, n, kind)
        j1 = teneva.poi_to_ind(x1, a, b, n, kind)
        if x1.shape != (1,) or j1.shape != (1,) or x1[0] != x[k] or int(j1[0]) != idx[k]:
            return FAIL(f'single point form: index {idx[k]} -> {x1} -> {j1}')
    if n <= 2 ** 17 + 1:                                       # every index: round trip, range, monotonicity
        A = np.arange(n).reshape(-1, 1)
        XA = teneva.ind_to_poi(A, a, b, n, kind)
        JA = teneva.poi_to_ind(XA, a, b, n, kind)
        if not np.array_equal(A, JA):
            k = int(np.flatnonzero(A[:, 0] != JA[:, 0])[0])
            return FAIL(f'index {k} -> point {XA[k, 0]!r} -> index {int(JA[k, 0])}')
        dx = np.diff(XA[:, 0])
        if not (np.all(dx > 0) if kind == 'uni' else np.all(dx < 0)):
            return FAIL('nodes not strictly monotone')
        if not (XA.min() >= a - u and XA.max() <= b + u):
            return FAIL(f'range [{XA.min()!r}, {XA.max()!r}] leaves [{a!r}, {b!r}]')
        t = np.arange(n) / (n - 1)                             # all nodes against the direct definition
        ref = (1 - t) * a + t * b if kind == 'uni' else np.cos(np.pi * t) * (b - a) / 2 + (b + a) / 2
        err = np.abs(XA[:, 0] - ref)
        if not np.all(err <= 8 * EPS * (abs(a) + abs(b))):
            k = int(np.argmax(err))
            return FAIL(f'node {k}: {XA[k, 0]!r} vs direct formula {ref[k]!r}')
    w = b - a
    pts = [a, b, float(np.nextafter(a, -np.inf)), float(np.nextafter(b, np.inf)), a - w, b + w, (a + b) / 2]
    cells = [k for k in idx if k < n - 1]
    cells = cells[:8] + cells[len(cells) // 2 - 3: len(cells) // 2 + 3] + cells[-8:]
    for k in cells:
        for off in (0.0, 1e-3, -1e-3, 0.25, -0.25):
            t = k + 0.5 + off
            if kind == 'uni':
                pts.append(a + t / (n - 1) * w)
            else:
                pts.append(math.cos(math.pi * t / (n - 1)) * w / 2 + (a + b) / 2)
    pts += list(a + w * g.uniform(-0.2, 1.2, size=12))
    P = np.array([float(p) for p in pts if math.isfinite(p)]).reshape(-1, 1)
    K = teneva.poi_to_ind(P, a, b, n, kind)
    if K.shape != P.shape or K.dtype.kind not in 'iu':
        return FAIL(f'shape {K.shape} dtype {K.dtype}')
    for p, k in zip(P[:, 0], K[:, 0]):
        msg = _check_nearest(float(p), int(k), a, b, n, kind)
        if msg:
            return FAIL(msg)
    return PASS


@clause('C18.multidim.mixed', funcs=('grid.ind_to_poi', 'grid.poi_to_ind', 'grid.poi_scale', 'grid.grid_prep_opts',
                                      'grid.grid_prep_opt'))
def multidim_mixed(boxes, n, kind, m, form, seed):
    """d-dimensional batches (m = 1, m = d, m > d rows) with DIFFERENT a, b, n in every dimension given as lists /
    ndarrays / a mixture: every entry against the exact one-dimensional reference of its own column — node values,
    nearest node with clamping for inside / boundary / outside points, round trip, poi_scale onto [0,1], [-1,1] and
    given limits; single point (1-D list) == first row."""
    a = [float(x[0]) for x in boxes]
    b = [float(x[1]) for x in boxes]
    d = len(n)
    if not all(_cond_n(x, y, k, kind) for x, y, k in zip(a, b, n)):
        return SKIP('grid not resolvable')
    g = gen.rng('C18M', boxes, n, kind, m, form, seed)
    if form == 'list':
        A, B, N = list(a), list(b), list(n)
    elif form == 'array':
        A, B, N = np.array(a), np.array(b), np.array(n)
    else:
        A, B, N = np.array(a), list(b), [float(k) for k in n]
    I = np.stack([g.integers(0, k, size=m) for k in n], axis=1)
    I[0] = [(0 if (k % 2) else n[k] - 1) for k in range(d)]        # boundary indices in the first row
    U = g.uniform(-0.3, 1.3, size=(m, d))
    X = np.array(a) + (np.array(b) - np.array(a)) * U
    for k in range(d):                                              # boundary / far outside points, all columns differ
        r = (k + int(seed)) % m
        X[r, k] = [a[k], b[k], a[k] - 3 * (b[k] - a[k]), b[k] + 3 * (b[k] - a[k]),
                   float(np.nextafter(a[k], -np.inf)), float(np.nextafter(b[k], np.inf))][k % 6]
    X = np.where(np.isfinite(X), X, np.array(a))
    snap_i, snap_x = I.copy(), X.copy()
    P = teneva.ind_to_poi(I, A, B, N, kind)
    J = teneva.poi_to_ind(X, A, B, N, kind)
    R = teneva.poi_to_ind(P, A, B, N, kind)
    if not (np.array_equal(I, snap_i) and np.array_equal(X, snap_x)):
        return FAIL('argument modified')
    if P.shape != (m, d) or J.shape != (m, d) or P.dtype.kind != 'f' or J.dtype.kind not in 'iu':
        return FAIL(f'shapes {P.shape} {J.shape} dtypes {P.dtype} {J.dtype}')
    if not np.array_equal(R, I):
        r, k = [int(v[0]) for v in np.nonzero(R != I)]
        return FAIL(f'round trip: row {r} column {k}: {int(I[r, k])} -> {P[r, k]!r} -> {int(R[r, k])}')
    for r in range(m):
        for k in range(d):
            w_, tol = _node_ref(int(I[r, k]), a[k], b[k], n[k], kind)
            if not abs(P[r, k] - w_) <= tol:
                return FAIL(f'ind_to_poi row {r} column {k}: index {int(I[r, k])} -> {P[r, k]!r}, exact {w_!r} for '
                            f'(a, b, n) = ({a[k]!r}, {b[k]!r}, {n[k]})')
            msg = _check_nearest(float(X[r, k]), int(J[r, k]), a[k], b[k], n[k], kind)
            if msg:
                return FAIL(f'poi_to_ind row {r} column {k} (a, b, n) = ({a[k]!r}, {b[k]!r}, {n[k]}): {msg}')
    lim = [float(g.normal()), float(g.normal()) + 4.0]
    for how, arg, (lo, hi) in (('uni', 'uni', (0.0, 1.0)), ('cheb', 'cheb', (-1.0, 1.0)), ('lim', lim, tuple(lim))):
        S = teneva.poi_scale(X, A, B, arg)
        if S.shape != (m, d) or S.dtype.kind != 'f':
            return FAIL(f'poi_scale {how}: shape {S.shape} dtype {S.dtype}')
        ok = [how != 'lim' or _lim_ok(a[k], b[k], lim) for k in range(d)]
        under = [_lim_under(a[k], b[k], lim) if how == 'lim' else 0.0 for k in range(d)]
        for r in range(m):
            for k in range(d):
                if not ok[k]:
                    continue
                msg = _scale_msg(float(X[r, k]), float(S[r, k]), a[k], b[k], lo, hi, how, under[k])
                if msg:
                    return FAIL(f'poi_scale {how} row {r} column {k} (a, b) = ({a[k]!r}, {b[k]!r}): {msg}')
        s1 = teneva.poi_scale(X[0].tolist(), A, B, arg)
        if s1.shape != (d,) or not np.array_equal(s1, S[0]):
            return FAIL(f'poi_scale {how}: single point differs from batch row')
    p1 = teneva.ind_to_poi(I[0].tolist(), A, B, N, kind)
    j1 = teneva.poi_to_ind(X[0].tolist(), A, B, N, kind)
    if p1.shape != (d,) or j1.shape != (d,) or not np.array_equal(p1, P[0]) or not np.array_equal(j1, J[0]):
        return FAIL('single point (list) differs from batch row')
    return PASS


@clause('C18.options.dtypes', funcs=('grid.ind_to_poi', 'grid.poi_to_ind', 'grid.poi_scale', 'grid.grid_prep_opt',
                                      'grid.grid_prep_opts'))
def options_dtypes(a, b, n, d, kind, seed):
    """Integer-valued bounds given as Python ints / int lists / int and float32 ndarrays / NumPy floats, n as float /
    float list / int32 ndarray, indices of narrow integer dtypes, integer-valued points given as ints, integer
    limits: all bitwise equal to the all-float64 call."""
    g = gen.rng('C18t', a, b, n, d, kind, seed)
    fa, fb = float(a), float(b)
    m = 6
    I = g.integers(0, n, size=(m, d))
    I[0, :] = n - 1
    X = fa + (fb - fa) * g.uniform(-0.2, 1.2, size=(m, d))
    Xi = g.integers(int(a) - 2, int(b) + 3, size=(m, d))
    ref = (teneva.ind_to_poi(I, fa, fb, n, kind), teneva.poi_to_ind(X, fa, fb, n, kind),
           teneva.poi_scale(X, fa, fb, kind), teneva.poi_scale(X, fa, fb, [-2.0, 3.0]))
    forms = [(int(a), int(b), n), ([int(a)] * d, [int(b)] * d, [n] * d),
             (np.full(d, int(a)), np.full(d, int(b)), np.full(d, n, dtype=np.int32)),
             (np.float64(a), np.float64(b), float(n)), (fa, fb, np.full(d, float(n))),
             (np.full(d, a, dtype=np.float32), np.full(d, b, dtype=np.float32), [float(n)] * d),
             (int(a), [fb] * d, np.full(d, n, dtype=np.int16 if n < 2 ** 15 else np.int64))]
    for fa_, fb_, fn_ in forms:
        got = (teneva.ind_to_poi(I, fa_, fb_, fn_, kind), teneva.poi_to_ind(X, fa_, fb_, fn_, kind),
               teneva.poi_scale(X, fa_, fb_, kind), teneva.poi_scale(X, fa_, fb_, [-2, 3]))
        for nm, u, v in zip(('ind_to_poi', 'poi_to_ind', 'poi_scale', 'poi_scale limits'), ref, got):
            if u.shape != v.shape or u.dtype.kind != v.dtype.kind or not np.array_equal(u, v):
                return FAIL(f'{nm}: options {(type(fa_).__name__, type(fb_).__name__, type(fn_).__name__)} '
                            f'({getattr(fa_, "dtype", "")}, {getattr(fn_, "dtype", "")}) differ from float64 scalars')
    dts = [np.int32, np.uint64, np.uint32] + [dt for dt in (np.int16, np.uint16, np.uint8, np.int8) if n - 1 <= np.iinfo(dt).max]
    for dt in dts:
        P = teneva.ind_to_poi(I.astype(dt), fa, fb, n, kind)
        if P.dtype.kind != 'f' or not np.array_equal(P, ref[0]):
            k = int(np.flatnonzero((P != ref[0]).any(axis=1))[0]) if P.shape == ref[0].shape else -1
            return FAIL(f'ind_to_poi: indices of dtype {np.dtype(dt).name} differ from int64 indices (row {k}: '
                        f'{I[k].tolist()} -> {P[k].tolist() if k >= 0 else P.shape})')
    Jf = teneva.poi_to_ind(Xi.astype(float), fa, fb, n, kind)
    Sf = teneva.poi_scale(Xi.astype(float), fa, fb, kind)
    for nm, arg in (('int64 ndarray', Xi), ('int32 ndarray', Xi.astype(np.int32)), ('list of ints', Xi.tolist())):
        Ji = teneva.poi_to_ind(arg, a, b, n, kind)
        Si = teneva.poi_scale(arg, a, b, kind)
        if Ji.dtype.kind not in 'iu' or Si.dtype.kind != 'f' or not np.array_equal(Ji, Jf) or not np.array_equal(Si, Sf):
            return FAIL(f'integer-valued points as {nm} differ from the float64 points')
    for r in range(m):                      # integer points against the exact reference
        for k in range(d):
            msg = _check_nearest(float(Xi[r, k]), int(Jf[r, k]), fa, fb, n, kind)
            if msg:
                return FAIL(msg)
    return PASS


@clause('C18.grid_flat.large', funcs=('grid.grid_flat',))
def grid_flat_large(n, form):
    """Large modes (>= 256, >= 2^16 elements), many modes, modes of size 1 in between: EVERY row against the closed
    form (j // prod(n[:k])) % n[k]; list / int64 / int32 / int16 ndarray argument; integer result wide enough."""
    arg = list(n) if form == 'list' else np.array(n, dtype=form)
    I = teneva.grid_flat(arg)
    d, N = len(n), math.prod(n)
    if not isinstance(I, np.ndarray) or I.shape != (N, d) or I.dtype.kind not in 'iu':
        return FAIL(f'shape {getattr(I, "shape", None)} dtype {getattr(I, "dtype", None)}')
    j = np.arange(N, dtype=np.int64)
    stride = 1
    for k in range(d):
        want = (j // stride) % n[k]
        if not np.array_equal(I[:, k].astype(np.int64), want) or I[:, k].min() < 0:
            r = int(np.flatnonzero(I[:, k].astype(np.int64) != want)[0])
            return FAIL(f'row {r} column {k}: {int(I[r, k])}, first-index-fastest order gives {int(want[r])}')
        stride *= n[k]
    return PASS


@clause('C18.cdf_getter.forms', funcs=('stat.cdf_getter',))
def cdf_forms(m, form, scale, seed):
    """Sample forms: integer list / integer ndarray / float32 ndarray, all values equal, two distinct values,
    ascending / descending order, tiny and huge scales, large samples; query forms: Python float, NumPy scalar,
    one-element array, unsorted array with repeats.  cdf(t) == count(x_i <= t)/m exactly as counted."""
    g = gen.rng('C18f', m, form, scale, seed)
    if form in ('int_list', 'int_array'):
        x = g.integers(-4, 5, size=m)
        arg = x.tolist() if form == 'int_list' else x.copy()
    elif form == 'float32':
        x = (g.normal(size=m) * scale).astype(np.float32)
        arg = x.copy()
    elif form == 'all_equal':
        x = np.full(m, float(g.normal()) * scale)
        arg = x.copy()
    elif form == 'two_values':
        x = np.where(g.uniform(size=m) < 0.3, -scale, scale * (1 + EPS))
        arg = x.tolist()
    else:
        x = g.normal(size=m) * scale
        x = np.sort(x) if form == 'ascending' else np.sort(x)[::-1].copy() if form == 'descending' else x
        arg = x.copy()
    snap = gen.snapshot(arg)
    cdf = teneva.cdf_getter(arg)
    if gen.snapshot(arg) != snap:
        return FAIL('sample modified (sorted in place?)')
    x64 = np.asarray(x, dtype=float)
    xs = np.sort(x64)
    if m > 64:
        xs_q = xs[np.unique(np.r_[0, 1, m - 2, m - 1, g.integers(0, m, size=48)])]
    else:
        xs_q = xs
    big = float(np.finfo(float).max)
    ts = np.r_[xs_q, np.nextafter(xs_q, np.inf), np.nextafter(xs_q, -np.inf), xs_q[:-1] / 2 + xs_q[1:] / 2,
               xs[0] - abs(xs[0]) - scale, xs[-1] + abs(xs[-1]) + scale, -big, big, -np.inf, np.inf, 0.0]
    ts = ts[g.permutation(len(ts))]
    ts = np.r_[ts, ts[:5]]                                        # unsorted, with repeats
    want = np.array([np.count_nonzero(x64 <= t) / m for t in ts])
    got = cdf(ts)
    if not isinstance(got, np.ndarray) or got.shape != ts.shape or got.dtype.kind != 'f':
        return FAIL(f'array input -> {type(got).__name__} shape {np.shape(got)}')
    if not np.all(np.abs(got - want) <= 2 * EPS):
        k = int(np.argmax(~(np.abs(got - want) <= 2 * EPS)))
        return FAIL(f't={ts[k]!r}: cdf {got[k]!r}, count(x<=t)/m = {want[k]!r}')
    for k in range(0, len(ts), max(1, len(ts) // 12)):
        for q in (float(ts[k]), np.float64(ts[k])):
            s = cdf(q)
            if np.ndim(s) != 0 or not abs(float(s) - want[k]) <= 2 * EPS:
                return FAIL(f'scalar input t={q!r} ({type(q).__name__}): {s!r} vs {want[k]!r}')
        s = cdf(ts[k:k + 1])
        if np.shape(s) != (1,) or not abs(float(s[0]) - want[k]) <= 2 * EPS:
            return FAIL(f'one-element array input t={ts[k]!r}: {s!r} vs {want[k]!r}')
    if not (cdf(xs[-1]) == 1 and cdf(float(np.nextafter(xs[0], -np.inf))) == 0):
        return FAIL('cdf(max) != 1 or cdf(below min) != 0')
    return PASS


@clause('C18.cdf_confidence.band', funcs=('stat.cdf_confidence',))
def cdf_band(m, alpha, kind, seed):
    """Dvoretzky-Kiefer-Wolfowitz band as documented: lower / upper = clip(x -+ eps, 0, 1) with
    eps = sqrt(ln(2/alpha) / (2 m)), alpha = 0.05 by default (alpha = 0 in the params means: default);
    lower <= x <= upper inside [0, 1]; the argument is not modified."""
    g = gen.rng('C18b', m, alpha, kind, seed)
    if kind == 'cdf':
        x = np.arange(1, m + 1) / m
    elif kind == 'edge':
        x = np.sort(np.r_[0.0, 1.0, g.uniform(size=max(0, m - 2))])[:m]
    else:
        x = np.sort(g.uniform(size=m))
    al = 0.05 if alpha == 0 else alpha
    eps = math.sqrt(math.log(2.0 / al) / (2 * m))
    snap = x.copy()
    r = teneva.cdf_confidence(x) if alpha == 0 else teneva.cdf_confidence(x, alpha)
    if not np.array_equal(x, snap):
        return FAIL('argument modified')
    if not (isinstance(r, tuple) and len(r) == 2):
        return FAIL(f'result {type(r).__name__}')
    lo, hi = r
    if np.shape(lo) != (m,) or np.shape(hi) != (m,):
        return FAIL(f'shapes {np.shape(lo)} {np.shape(hi)}')
    wl = np.array([min(max(v - eps, 0.0), 1.0) for v in x])
    wh = np.array([min(max(v + eps, 0.0), 1.0) for v in x])
    if not (np.all(np.abs(lo - wl) <= 4 * EPS) and np.all(np.abs(hi - wh) <= 4 * EPS)):
        k = int(np.argmax(~((np.abs(lo - wl) <= 4 * EPS) & (np.abs(hi - wh) <= 4 * EPS))))
        return FAIL(f'x={x[k]!r}: band [{lo[k]!r}, {hi[k]!r}], expected [{wl[k]!r}, {wh[k]!r}] (eps {eps!r})')
    if not (np.all(lo >= 0) and np.all(hi <= 1) and np.all(lo <= x) and np.all(x <= hi)):
        return FAIL('band leaves [0, 1] or does not contain the empirical CDF')
    if alpha != 0:
        r2 = teneva.cdf_confidence(x, alpha=alpha)
        if not (np.array_equal(r2[0], lo) and np.array_equal(r2[1], hi)):
            return FAIL('keyword alpha differs from positional alpha')
    return PASS


# ---------------------------------------------------------------------------------------------------------------------
# the same argument OBJECTS used for more than one call (state must not be carried from one call to the next)
# ---------------------------------------------------------------------------------------------------------------------

OPT_FORMS = ('native', 'list', 'scalar', 'narrow', 'floatn', 'mixed', 'view')


def _opt_objects(form, a, b, n):
    """(A, B, N): the options a, b (floats) and n (ints), given as lists of length d, in one of the documented forms.
    'native' = float64 / platform-int ndarrays, i.e. exactly the dtypes the library converts to (np.asanyarray then
    returns the caller's own object); 'view' = non-contiguous views of these dtypes."""
    d = len(n)
    if form == 'native':
        return np.array(a, dtype=float), np.array(b, dtype=float), np.array([int(k) for k in n])
    if form == 'list':
        return [float(x) for x in a], [float(x) for x in b], [int(k) for k in n]
    if form == 'scalar':
        return float(a[0]), float(b[0]), int(n[0])
    if form == 'narrow':
        return np.array(a, dtype=np.float32), np.array(b, dtype=np.float32), np.array(n, dtype=np.int32)
    if form == 'floatn':
        return np.array(a, dtype=float), np.array(b, dtype=float), np.array(n, dtype=float)
    if form == 'mixed':
        return np.array(a, dtype=float), [float(x) for x in b], np.array([int(k) for k in n])
    if form == 'view':
        A, B, N = np.zeros(2 * d), np.zeros(2 * d), np.zeros(2 * d, dtype=int)
        A[::2], B[::2], N[::2] = a, b, n
        return A[::2], B[::2], N[::2]
    raise ValueError(form)


REPEAT_FNS = ('ind_to_poi', 'poi_to_ind', 'poi_scale', 'poi_scale_lim', 'grid_prep_opt', 'grid_prep_opts', 'grid_flat',
              'cdf_getter', 'cdf_closure', 'cdf_confidence')


@clause('C18.repeat.same_objects', funcs=('grid.ind_to_poi', 'grid.poi_to_ind', 'grid.poi_scale', 'grid.grid_prep_opt',
                                           'grid.grid_prep_opts', 'grid.grid_flat', 'stat.cdf_getter', 'stat.cdf_confidence'))
def repeat_same_objects(fn, d, m, form, kind, seed):
    """Every grid function called three times WITH THE SAME ARGUMENT OBJECTS (m = 0: a single point / 1-D argument,
    m > 0: a batch of m rows; options in the form `form`): every call leaves every argument bit-identical and returns
    bit for bit the answer of a call with equal but fresh arguments; no result is changed by a later call
    (`gen.repeat_calls`)."""
    g = gen.rng('C18r', fn, d, m, form, kind, seed)
    uni = form == 'scalar'
    n = [int(g.integers(2, 12))] * d if uni else [int(x) for x in g.integers(2, 12, size=d)]
    a = [float(np.round(g.uniform(-5, 1), 3))] * d if uni else [float(x) for x in np.round(g.uniform(-5, 1, size=d), 3)]
    b = [a[k] + float(np.round(g.uniform(0.5, 7), 3)) for k in range(d)] if not uni else [a[0] + 2.5] * d
    A, B, N = _opt_objects(form, a, b, n)
    shp = (d,) if m == 0 else (m, d)
    X = np.array(a) + (np.array(b) - np.array(a)) * g.uniform(-0.2, 1.2, size=shp)
    I = np.stack([g.integers(0, k, size=shp[:-1]) for k in n], axis=-1)
    if fn == 'ind_to_poi':
        calls = [(teneva.ind_to_poi, [I, A, B, N, kind]), (teneva.ind_to_poi, [I.tolist(), A, B, N, kind])]
    elif fn == 'poi_to_ind':
        calls = [(teneva.poi_to_ind, [X, A, B, N, kind]), (teneva.poi_to_ind, [X.tolist(), A, B, N, kind])]
    elif fn == 'poi_scale':
        calls = [(teneva.poi_scale, [X, A, B, kind]), (teneva.poi_scale, [X.tolist(), A, B, kind])]
    elif fn == 'poi_scale_lim':
        calls = [(teneva.poi_scale, [X, A, B, [-2.0, 3.0]]), (teneva.poi_scale, [X.tolist(), A, B, [0.5, 4.0]])]
    elif fn == 'grid_prep_opt':
        rp = None if m == 0 else m
        calls = [(teneva.grid_prep_opt, [A, d, float, rp]), (teneva.grid_prep_opt, [N, d, int, rp]),
                 (teneva.grid_prep_opt, [B, d, float, rp])]
        if form != 'scalar':                # d can only be recovered from a vector option
            calls.append((teneva.grid_prep_opt, [N, None, int, rp]))
    elif fn == 'grid_prep_opts':
        rp = None if m == 0 else m
        calls = [(teneva.grid_prep_opts, [A, B, N, d, rp]), (teneva.grid_prep_opts, [A, None, N, d, rp]),
                 (teneva.grid_prep_opts, [None, B, N, d, rp])]
    elif fn == 'grid_flat':
        calls = [(teneva.grid_flat, [N])]
    elif fn in ('cdf_getter', 'cdf_closure', 'cdf_confidence'):
        x = g.normal(size=max(1, d * (m + 1)))
        x = {'native': x, 'list': x.tolist(), 'narrow': x.astype(np.float32), 'view': np.repeat(x, 2)[::2]}.get(form, np.sort(x))
        ts = np.r_[np.asarray(x, dtype=float)[:4], g.normal(size=5), -np.inf, np.inf]
        if fn == 'cdf_getter':
            calls = [(lambda x_, t_: teneva.cdf_getter(x_)(t_), [x, ts]), (lambda x_, t_: teneva.cdf_getter(x_)(t_), [x, float(ts[0])])]
        elif fn == 'cdf_closure':
            calls = [(teneva.cdf_getter(x), [ts]), (teneva.cdf_getter(x), [float(ts[1])])]
        else:
            y = np.sort(g.uniform(size=len(ts)))
            calls = [(teneva.cdf_confidence, [y]), (teneva.cdf_confidence, [y, 0.1])]
    else:
        raise ValueError(fn)
    for j, (f, args) in enumerate(calls):
        _, msg = gen.repeat_calls(f, args, times=3, what=f'{fn} (call form {j}, options as {form}, {"single point" if m == 0 else f"batch of {m}"})')
        if msg:
            return FAIL(msg)
    return PASS


@clause('C18.session.shared_options', funcs=('grid.ind_to_poi', 'grid.poi_to_ind', 'grid.poi_scale', 'grid.grid_prep_opts',
                                              'grid.grid_prep_opt'))
def session_shared_options(boxes, n, kind, form, seed):
    """A loop over a grid that keeps ONE set of option objects (a, b, n in the form `form`) for all its calls: for every
    index (single points given as lists and as arrays, and batches) index -> point is the exact node, point -> index
    returns the index, arbitrary points go to a nearest node / the boundary index, poi_scale is the exact affine map -
    for the FIRST and for every LATER call alike - and the option objects are bit-identical after every call."""
    a = [float(x[0]) for x in boxes]
    b = [float(x[1]) for x in boxes]
    d = len(n)
    if form == 'scalar':
        a, b, n = [a[0]] * d, [b[0]] * d, [n[0]] * d
    if not all(_cond_n(x, y, k, kind) for x, y, k in zip(a, b, n)):
        return SKIP('grid not resolvable')
    A, B, N = _opt_objects(form, a, b, n)
    if form == 'narrow':                    # the reference uses the values the narrow arrays really hold
        a, b = [float(x) for x in A], [float(x) for x in B]
        if not all(_cond_n(x, y, k, kind) for x, y, k in zip(a, b, n)):
            return SKIP('grid not resolvable')
    snap = gen.snapshot([A, B, N])
    g = gen.rng('C18S', boxes, n, kind, form, seed)
    calls = 0

    def unchanged(what, arg=None, argsnap=None):
        if arg is not None and gen.snapshot(arg) != argsnap:
            return f'call #{calls} ({what}) changed its point / index argument: now {arg!r}'
        return None if gen.snapshot([A, B, N]) == snap else \
            f'call #{calls} ({what}) changed the caller\'s option objects: now a={A!r}, b={B!r}, n={N!r}'

    for i in range(max(n)):
        I = [min(i, k - 1) for k in n]
        for arg in (I, np.array(I)):
            calls += 1
            asnap = gen.snapshot(arg)
            x = teneva.ind_to_poi(arg, A, B, N, kind)
            msg = unchanged('ind_to_poi, single index', arg, asnap)
            if msg:
                return FAIL(msg)
            if x.shape != (d,):
                return FAIL(f'call #{calls}: ind_to_poi single index -> shape {x.shape}')
            for k in range(d):
                w_, tol = _node_ref(I[k], a[k], b[k], n[k], kind)
                if not abs(x[k] - w_) <= tol:
                    return FAIL(f'call #{calls}: ind_to_poi({I}) coordinate {k} = {x[k]!r}, exact node {w_!r} of (a, b, n) = '
                                f'({a[k]!r}, {b[k]!r}, {n[k]})')
        for nm, arg in (('single point (array)', x), ('single point (list)', x.tolist()), ('batch', np.array([x, x]))):
            calls += 1
            asnap = gen.snapshot(arg)
            J = teneva.poi_to_ind(arg, A, B, N, kind)
            msg = unchanged('poi_to_ind, ' + nm, arg, asnap)
            if msg:
                return FAIL(msg)
            rows = J.tolist() if nm == 'batch' else [J.tolist()]
            if J.dtype.kind not in 'iu' or any(row != I for row in rows):
                return FAIL(f'call #{calls}: round trip of {I} ({nm}) gives {J.tolist()}')
    for t in range(6):
        x = [float(a[k] + (b[k] - a[k]) * g.uniform(-0.3, 1.3)) for k in range(d)]
        for nm, arg in (('list', x), ('array', np.array(x))):
            calls += 1
            asnap = gen.snapshot(arg)
            J = teneva.poi_to_ind(arg, A, B, N, kind)
            msg = unchanged('poi_to_ind, query point', arg, asnap)
            if msg:
                return FAIL(msg)
            for k in range(d):
                msg = _check_nearest(x[k], int(J[k]), a[k], b[k], n[k], kind)
                if msg:
                    return FAIL(f'call #{calls} (query point as {nm}), coordinate {k} with (a, b, n) = ({a[k]!r}, {b[k]!r}, {n[k]}): {msg}')
        calls += 1
        arg = np.array(x)
        S = teneva.poi_scale(arg, A, B, kind)
        msg = unchanged('poi_scale', arg, gen.snapshot(np.array(x)))
        if msg:
            return FAIL(msg)
        lo, hi = (0.0, 1.0) if kind == 'uni' else (-1.0, 1.0)
        for k in range(d):
            msg = _scale_msg(x[k], float(S[k]), a[k], b[k], lo, hi, kind)
            if msg:
                return FAIL(f'call #{calls}: poi_scale coordinate {k}: {msg}')
    return PASS


# ---------------------------------------------------------------------------------------------------------------------
# DOUBTFUL — disabled (not registered, not yielded).  Inputs inside the quantifier ("any magnitude and offset", "given
# limits") for which the pinned tree returns wrong values, but only through over- / underflow at the ends of the double
# range or through cancellation in the formula of the limits map; reported, not decided.  To enable: decorate with
# @clause('C18.poi_scale.limits_conditioning', funcs=('grid.poi_scale',)) / @clause('C18.roundtrip.subnormal_width', ...)
# and yield DOUBTFUL_LIMITS / DOUBTFUL_BOXES from cases().
#  D1 box of subnormal width (b - a < 1.1e-308), Chebyshev: poi_scale forms 2 / (b - a) = inf -> scaled points +-1 / NaN,
#     poi_to_ind(ind_to_poi(i)) = [0, 0, 0, 4, 4] for (a, b, n) = (1e-310, 3e-310, 5).
#  D2 |bound * limit| > 1.8e308: poi_scale(0.0, -1e300, 1e300, [-1e8, 1e8]) = -0.0 is right but 5e299 -> 1e8 (exact 5e7);
#     poi_scale(0.0, -8.9e307, 8.9e307, [-2, 3]) = 3.0 (exact 0.5).
#  D3 offset limits on an offset box: (x (a' - b') + a b' - b a') / (a - b) cancels; error about
#     eps (|a b'| + |b a'|) / (b - a) instead of eps (cond(box) (b' - a') + |a'| + |b'|):
#     poi_scale(b, a=1e6, b=1e6 + 1e-3, [1e6, 1e6 + 1]) = 1e6 + 0.929 (exact 1e6 + 1), the quarter point -> + 0.197.
#     C18.poi_scale.kinds accepts this (its tolerance models the rounding of that formula).
#  D4 |bound * limit| < 2.2e-308: poi_scale(2e-300, 1e-300, 2e-300, [0, 1e-300]) = -0.0 (exact 1e-300).
DOUBTFUL_BOXES = [(1e-310, 3e-310), (0.0, 1e-308), (-4e-309, 4e-309)]
DOUBTFUL_LIMITS = [(1e6, 1e6 + 1e-3, [1e6, 1e6 + 1]), (5.0, 5.0000001, [1e6, 1e6 + 1]), (-1e300, 1e300, [-1e8, 1e8]),
                   (-8.9e307, 8.9e307, [-2.0, 3.0]), (1e-300, 2e-300, [0, 1e-300])]


def doubtful_limits_conditioning(a, b, lim):
    """poi_scale onto given limits within the error a well-conditioned evaluation a' + (x-a)/(b-a) (b'-a') attains:
    16 eps ((|a| + |b| + |x|) / (b - a) (b' - a') + |a'| + |b'|)."""
    lo, hi = float(lim[0]), float(lim[1])
    w = b - a
    for x in (a, a + w / 4, a + w / 2, b, b + w / 1000):
        s = float(teneva.poi_scale(np.array([[x]]), a, b, list(lim))[0, 0])
        ex = float(min(max(Fr(lo) + (Fr(x) - Fr(a)) / (Fr(b) - Fr(a)) * (Fr(hi) - Fr(lo)), Fr(lo)), Fr(hi)))
        tol = 16 * EPS * ((abs(a) + abs(b) + abs(x)) / w * (hi - lo) + abs(lo) + abs(hi)) + 1e-300
        if not abs(s - ex) <= tol:
            return FAIL(f'point {x!r} -> {s!r}, exact {ex!r}, tolerance {tol:.3e}')
    return PASS


def doubtful_subnormal_width(a, b, n, kind):
    """round trip on boxes of subnormal width"""
    I = np.arange(n).reshape(-1, 1)
    J = teneva.poi_to_ind(teneva.ind_to_poi(I, a, b, n, kind), a, b, n, kind)
    return check(np.array_equal(I, J), f'{J.ravel().tolist()}')


def cases(tier, seed):
    big = tier == 'thorough'
    g = gen.rng('C18', seed)

    def rs():
        return int(g.integers(1 << 30))

    nmax = 64 if big else 40
    boxes = _boxes(tier)
    for a, b in boxes:
        for kind in ('uni', 'cheb'):
            for n in range(2, nmax + 1):
                yield 'C18.ind_to_poi.nodes', dict(a=a, b=b, n=n, kind=kind)
                yield 'C18.roundtrip.exhaustive', dict(a=a, b=b, n=n, kind=kind)
            for n in (2, 3, 4, 5, 8, 17, 40) + ((63, 64) if big else ()):
                for rep in range(2 if big else 1):
                    yield 'C18.poi_to_ind.nearest', dict(a=a, b=b, n=n, kind=kind, seed=rs())
        for lim in ([0.0, 1.0], [-2.0, 3.0], [10, 20], [-1e-3, 1e5], [5.0, 5.5]):
            yield 'C18.poi_scale.kinds', dict(a=a, b=b, lim=lim, seed=rs())
    # random boxes: magnitude and offset drawn log-uniformly (seeded part)
    for rep in range(40 if big else 12):
        w = 10.0 ** float(g.uniform(-12, 12))
        off = float(g.choice([-1, 1])) * w * 10.0 ** float(g.uniform(-3, 8))
        a, b = off, off + w
        for kind in ('uni', 'cheb'):
            n = int(g.integers(2, nmax + 1))
            yield 'C18.ind_to_poi.nodes', dict(a=a, b=b, n=n, kind=kind)
            yield 'C18.roundtrip.exhaustive', dict(a=a, b=b, n=n, kind=kind)
            yield 'C18.poi_to_ind.nearest', dict(a=a, b=b, n=n, kind=kind, seed=rs())
        yield 'C18.poi_scale.kinds', dict(a=a, b=b, lim=[float(g.normal()), float(g.normal()) + 4.0], seed=rs())
    for kind in ('uni', 'cheb'):
        for k in range(len(boxes) - 2):
            for n in ([2, 3, 4], [7, 2, 5], [16, 9], [40], [3, 3, 3]):
                yield 'C18.roundtrip.multidim', dict(boxes=[list(boxes[k + j]) for j in range(len(n))], n=n, kind=kind)
        for d in (1, 2, 3, 5):
            for a, b in boxes[:8]:
                for n in (2, 7, 33):
                    yield 'C18.options.interchangeable', dict(a=a, b=b, n=n, d=d, kind=kind, seed=rs())
    for d in range(1, 7):
        for reps in (0, 1, 4):
            yield 'C18.options.prep', dict(d=d, reps=reps)
        for d2 in range(1, 7):
            if d2 != d:
                yield 'C18.options.reject', dict(d=d, d2=d2)
                yield 'C18.poi_to_ind.reject_n_length', dict(d=d, d2=d2)
    for d in (1, 2, 3, 4):
        yield 'C18.grid_flat.enumeration', dict(d=d, nmax=4)
    if big:
        yield 'C18.grid_flat.enumeration', dict(d=5, nmax=3)
        yield 'C18.grid_flat.enumeration', dict(d=2, nmax=12)
    for n in (1, 2, 3, 7, 64):
        yield 'C18.grid_flat.scalar', dict(n=n)
    for m in (1, 2, 3, 5, 8, 13, 40):
        for ties in (False, True):
            for rep in range(6 if big else 2):
                yield 'C18.cdf_getter.step', dict(m=m, ties=ties, seed=rs(), as_list=bool(rep % 2))

    # ---- parameter-coverage extension -------------------------------------------------------------------------------
    # boxes at the edge of the conditioning rule / with a zero bound, a few grid sizes each
    for a, b in BOXES_EXTRA + (BOXES_EXTRA_MORE if big else []):
        for kind in ('uni', 'cheb'):
            for n in (2, 3, 17, 40) + ((5, 33, 64) if big else ()):
                yield 'C18.ind_to_poi.nodes', dict(a=a, b=b, n=n, kind=kind)
                yield 'C18.roundtrip.exhaustive', dict(a=a, b=b, n=n, kind=kind)
                if big or n in (2, 17):
                    yield 'C18.poi_to_ind.nearest', dict(a=a, b=b, n=n, kind=kind, seed=rs())
        for lim in ([-2.0, 3.0], [1e-4, 3e-4]):
            yield 'C18.poi_scale.kinds', dict(a=a, b=b, lim=lim, seed=rs())
    # limits of tiny / huge magnitude, with an offset, integer limits, a zero limit
    for k, (a, b) in enumerate(boxes if big else boxes[:4]):
        for lim in ([1e-8, 2e-8], [-1e8, 1e8], [1e6, 1e6 + 1], [0, 1e-300], [-7, -3], [-1e-300, 1e100])[k % 2 * (not big)::1 + (not big)]:
            yield 'C18.poi_scale.kinds', dict(a=a, b=b, lim=lim, seed=rs())
    # large grids
    large = [(-1.0, 1.0, 257, 'uni'), (-1.0, 1.0, 1000, 'uni'), (-1.0, 1.0, 65537, 'uni'), (0.0, 1.0, 2 ** 17 + 1, 'uni'),
             (-1.0, 1.0, 2 ** 31 + 1, 'uni'), (0.0, 1.0, 2 ** 32 + 2, 'uni'), (-3.7, 12.1, 2 ** 40 + 1, 'uni'),
             (1e6, 1e6 + 1, 4097, 'uni'), (1e-300, 2e-300, 2 ** 20 + 1, 'uni'), (-1e300, 1e300, 2 ** 33, 'uni'),
             (-1.0, 1.0, 257, 'cheb'), (-1.0, 1.0, 1000, 'cheb'), (0.0, 1.0, 65537, 'cheb'),
             (-1.0, 1.0, 2 ** 20 + 1, 'cheb'), (-3.7, 12.1, 4097, 'cheb'), (1e6, 1e6 + 1, 1025, 'cheb'),
             (1e-300, 2e-300, 65537, 'cheb'), (-1e300, 1e300, 2 ** 17 + 1, 'cheb')]
    if big:
        for a, b in boxes:
            for n in (100, 255, 256, 257, 511, 512, 513, 1000, 4096, 65536, 2 ** 20, 2 ** 31, 2 ** 31 + 1, 2 ** 36):
                large += [(a, b, n, 'uni'), (a, b, n, 'cheb')]          # unresolvable combinations return SKIP
    for a, b, n, kind in large:
        yield 'C18.large_n.maps', dict(a=a, b=b, n=n, kind=kind, seed=rs())
    # per-dimension options with distinct values
    nn = [2, 40, 3, 1025, 7, 2, 64, 9, 5, 300, 4, 11]
    mixed = [([0, 3, 4], [2, 33, 1000], 1, 'list'), ([0, 3, 4], [2, 33, 1000], 3, 'array'), ([2, 9, 6], [5, 2, 17], 7, 'mixed'),
             (list(range(6)), nn[:6], 6, 'mixed'), (list(range(12)), nn, 12, 'array'), (list(range(12)), nn, 1, 'list')]
    if big:
        mixed += [(list(range(12)), nn, 7, 'mixed'), ([7, 8], [2, 2], 2, 'list'), ([5], [129], 1, 'array'), ([5], [129], 5, 'list'),
                  (list(range(30)), [2 + (7 * k) % 23 for k in range(30)], 30, 'array'),
                  (list(range(30)), [2 + (5 * k) % 61 for k in range(30)], 4, 'mixed'),
                  ([k % 30 for k in range(100)], [2 + (3 * k) % 17 for k in range(100)], 3, 'list')]
    for kind in ('uni', 'cheb'):
        for sel, n, m, form in mixed:
            for rep in range(3 if big else 1):
                yield 'C18.multidim.mixed', dict(boxes=[list(boxes[k % len(boxes)]) for k in sel], n=n, kind=kind, m=m,
                                                 form=form, seed=rs() % 1000)
    # option / index / point dtypes
    k = 0
    for a, b in ((-1, 1), (0, 1), (-3, 12), (0, 2 ** 20), (-1000000, -999999)):
        for n in (2, 100, 256, 300) + ((7, 128, 129, 255, 257, 70000) if big else ()):
            for d in ((1, 3, 5) if big else (1 + 2 * (k % 2),)):
                for kind in ('uni', 'cheb'):
                    yield 'C18.options.dtypes', dict(a=a, b=b, n=n, d=d, kind=kind, seed=rs())
            k += 1
    # large flat grids
    flat = [([70000], 'list'), ([2, 513], 'int32'), ([513, 2], 'list'), ([1, 300, 1], 'int16'), ([2] * 14, 'int64'),
            ([257, 3, 2], 'list'), ([256, 256], 'int32')]
    if big:
        flat += [([300, 300], 'list'), ([2] * 18, 'int32'), ([3] * 10, 'int16'), ([1000, 1000], 'int64'), ([2, 40000, 2], 'list'),
                 ([1] * 10, 'list'), ([1, 1, 1, 65537], 'int64'), ([5, 4, 3, 2, 1, 2, 3, 4, 5], 'int16'), ([128, 127, 129], 'list')]
    for n, form in flat:
        yield 'C18.grid_flat.large', dict(n=n, form=form)
    # sample / query forms of the empirical CDF
    forms = [(1, 'int_list', 1.0), (7, 'int_list', 1.0), (12, 'int_array', 1.0), (9, 'float32', 1e30), (9, 'float32', 1e-30),
             (1, 'all_equal', 1e-300), (5, 'all_equal', 1.0), (6, 'all_equal', 1e300), (10, 'two_values', 1e-300),
             (10, 'two_values', 1.0), (20, 'ascending', 1e-8), (20, 'descending', 1e300), (2, 'descending', 1.0),
             (4096, 'random', 1e-300), (1000, 'int_array', 1.0)]
    if big:
        forms += [(100000, 'random', 1.0), (100000, 'int_list', 1.0), (65537, 'descending', 1e8), (3, 'two_values', 1e300),
                  (40, 'float32', 1.0), (2, 'all_equal', -1.0), (33, 'ascending', 1e300), (1, 'random', 1e300)]
    for m, form, scale in forms:
        for rep in range(3 if big else 1):
            yield 'C18.cdf_getter.forms', dict(m=m, form=form, scale=scale, seed=rs())
    # confidence band (alpha = 0: the default argument)
    for m in (1, 2, 10, 1000) + ((3, 50, 100000) if big else ()):
        for alpha in (0, 0.05, 0.5, 1e-6, 1.0) + ((0.01, 0.999, 1e-300) if big else ()):
            for kind in ('cdf', 'edge', 'rand') if big else (('cdf', 'edge', 'rand')[(m + int(alpha * 10)) % 3],):
                yield 'C18.cdf_confidence.band', dict(m=m, alpha=alpha, kind=kind, seed=rs())
    # ---- the same argument objects for several calls --------------------------------------------------------------------
    for fn in REPEAT_FNS:
        stat = fn.startswith('cdf')
        for form in (('native', 'list', 'narrow', 'view', 'floatn') if stat else OPT_FORMS):
            for d, m in ((1, 0), (3, 0), (3, 2), (2, 5)) + (((5, 0), (1, 1), (6, 3)) if big else ()):
                for kind in (('uni',) if stat or fn in ('poi_scale_lim', 'grid_prep_opt', 'grid_prep_opts', 'grid_flat') else ('uni', 'cheb')):
                    if fn == 'grid_flat' and (form in ('floatn',) or m):
                        continue
                    yield 'C18.repeat.same_objects', dict(fn=fn, d=d, m=m, form=form, kind=kind, seed=rs() % 1000)
    for kind in ('uni', 'cheb'):
        for sel, n in (([0, 2, 9], [9, 8, 7]), ([1], [12]), ([3, 4], [2, 5]), ([2, 0, 1, 9, 6], [3, 4, 2, 6, 5])) + \
                ((([5, 6, 7, 8], [7, 3, 16, 4]), ([9], [33])) if big else ()):
            for form in OPT_FORMS:
                yield 'C18.session.shared_options', dict(boxes=[list(boxes[k]) for k in sel], n=n, kind=kind, form=form,
                                                         seed=rs() % 1000)
