"""C14 (bounded, T3): samplers draw from exactly the distribution their TT-tensor defines.

How the probability claim is audited: `teneva._rand(seed)` hands any non-int `seed` through unchanged, so a
duck-typed *auditing generator* (class `Audit` below: records every probability vector given to `choice` and
delegates to a real `numpy.random.Generator`, or - in scripted mode - returns a prescribed index) is passed as
`seed`.  On small integer-valued tensors the dense distribution is computed with exact Python integers.

* sample (non-negative TT) / sample_square (arbitrary sign, squared entries):
  - `chain`: scripted generator forces EVERY multi-index whose (d-1)-prefix has positive marginal to be "drawn"
    once; each recorded conditional vector is compared with the dense conditional of its prefix, the product of
    the conditionals at the drawn index with entry/total (resp. entry^2/total), the returned rows with the draws.
    Since whole conditional vectors are compared at every positive prefix, every multi-index is covered.
  - `chain_random`: the same audit on real draws (m samples from a real generator).
  - `gof` (C14.sample.gof / C14.sample_square.gof): protocol-independent fallback, empirical frequencies of 4000 / 20000 real draws within 7 binomial
    sigmas of the dense distribution for every multi-index.
  - tensors with <= 24 entries (quick) / <= 120 (thorough), d = 2..6, ranks 1..3, zeros allowed.
* sample_square (every clause about it is named C14.sample_square.*, so that on the pinned tree exactly these
  fail): `runs` (the call returns at all - known defect of the pinned tree under NumPy >= 2.5: every
  input raises), `unique` (distinct rows, all of positive probability, requested count).
* all samplers: integer dtype (sample_rand_poi: float points inside the box), shape (m, d), bounds, int / float m,
  list / ndarray n, int seed and Generator seed.
* sample_lhs: every index of mode k is used floor(m/n_k) or ceil(m/n_k) times, all m = 1..3*max(n)+2.
* sample_tt: (I, idx, idx_many): idx partitions I, block k = LHS prefixes x full mode k x LHS suffixes in the
  advertised order (mode index slowest, suffix fastest), idx_many = number of suffixes per block.

Parameter-coverage additions (audit of every sampler x every parameter):
* C14.sample.chain_scaled: `sample` on tensors of overall norm 2^(-800) .. 2^(+800) with unsert = 0 (the absolute noise
  is the only scale of the routine); C14.sample.chain with unsert = 1e-3; chain_random with m = 1.
* C14.sample.chain_signed_cores: non-negative tensors whose cores have both signs (Kronecker squares of signed tensors).
* mode sizes beyond one byte (300, 260) in the scripted chains of sample / sample_square and in sample_tt.layout; mode
  sizes 300 / 33000 in the shape-and-bounds clause of every sampler (m above and below the mode sizes).
* C14.sample_square.unique_limits: explicit m_fact / max_rep, as many distinct rows as non-zero entries (forced
  restarts), more than exist -> ValueError (never a short or repeated result), max_rep < 0.
* C14.sample_lhs.counts_at: floor / ceil rule for single (n, m) with n = 300, 33000, 70000 and m = 1, n-1, n, n+1, >> n,
  m a multiple of every mode; n as float array / m as float.
* independence of the rows (few rows per call): the auditing generator also records `replace`; every `choice` call that
  draws more than one index must draw WITH replacement (`_independent`, part of every chain audit).  chain_random with
  2 <= m <= n[0] (first modes 5 .. 300); C14.sample.gof_few_rows / C14.sample_square.gof_few_rows: 250 (thorough 3000) calls
  with m rows each, 2 <= m <= n[0], one first-mode slice boosted by 4 (non-uniform marginal), int seeds or one generator
  object: frequencies of all runs*m rows within 7 sigmas AND rows 0 / 1 of a call coincide (first index, whole row) with
  the frequency sum p0^2 / sum p^2 of independent draws; C14.sample_square.unique_first_draw: the m_fact*m candidate rows
  of unique=True (m_fact*m <= n[0]) are drawn with replacement from the exact marginal.
* rank-deficient unfoldings with a prescribed order of the dependent interface rows / columns (gap closure; `_deficient`, 16
  forms): untruncated block sums A + B + B in every block order (ABB, BAB, BBA, AA, ABAB, only the last cores repeated), a
  proportional / dependent / zero row or column at a lower or a higher position of one core, zero-padded bonds (zeros first / in
  the middle / last), duplicated bonds; integer cores, exact dense reference.  C14.sample_square.chain_deficient /
  C14.sample.chain_deficient: the scripted audit of every multi-index (and 60 real draws); C14.sample_square.gof_deficient /
  C14.sample.gof_deficient: the protocol-independent frequency test.  The last mode is wide enough (n_d >= r + 2) for the
  triangular factor of the last unfolding to be square, shapes up to 120 entries.
Input forms (audit f3-forms; reference = exact dense distribution of the float64 image of the cores):
* C14.forms.sample.chain / C14.forms.sample_square.chain: the scripted audit of every multi-index (and 40 real draws) with the cores
  as float32 / int64 / int32 / mixed dtypes / Fortran order / strided views / read-only / a tuple of cores, m as numpy.int64 / int32 /
  float / numpy.float64, positional (documented order) / keyword / mixed calls (sample_square on float32 cores: 2e-5, the
  orthogonalisation runs in single precision then).
* C14.forms.samplers: sample_lhs / sample_rand / sample_rand_poi with n (a, b) as tuple / int32 / uint8 / float / float32 array / list of
  numpy.int64 / list of floats, m in the same number forms, positional / keyword calls; C14.sample_tt.layout with n as tuple / int32 /
  uint8 array / list of numpy.int64 and r as a NumPy number.
* C14.seed.numpy_integer: NumPy integers as seed - FAILS on the clean tree for every sampler (utils._rand tests isinstance(seed, int);
  AttributeError: 'numpy.int64' object has no attribute 'choice'); possible genuine defect, reported.
# DOUBTFUL (not yielded): sample_tt(n) with n given as floats (the docstring allows "int/float") raises TypeError
# (range(n[i])), e.g. sample_tt(np.array([3., 4.]), 2, seed=1); sample_lhs / sample_rand accept float n.
# float_cf of sample_square returns non-integer "indices" by design and is outside the statement.
"""
import itertools
import math
import numpy as np
import teneva
from rtc.api import clause, PASS, FAIL, TRIVIAL, SKIP, check
from rtc import gen


BUDGET = (100, 600)
BOUNDS = ('chain audits: 14 shapes with <= 24 entries (quick) / 24 shapes with <= 120 entries (thorough) + [300,2], [2,260], d = 2..6, '
          'ranks 1..3, integer cores (zeros allowed; signed cores of non-negative tensors), every multi-index scripted once, '
          'per-core scales 2^-200 .. 2^300, unsert in {default, 0, 1e-10, 1e-3}; gof: 4000 / 20000 draws; '
          'LHS: mode sizes 1..9, m = 1..29, and n in {300, 33000, 70000} at selected m; sample_tt: 11 shapes x r in 1..5; '
          'sample_square unique: m up to the number of non-zero entries, m_fact in {1,2,5}, max_rep in {-1,0,1,100}; '
          'few rows per call (2 <= m <= n[0], n[0] = 4 .. 300): replace flag of every recorded draw, 250 / 3000 calls x m rows '
          'goodness of fit + pairwise independence of rows 0 / 1, unique=True candidates with m_fact*m <= n[0]; '
          'rank-deficient unfoldings: 16 forms (block sums in 6 orders, dependent / zero rows and columns low / high, zero padding x 3, '
          'duplicated bonds) x 6 shapes with 15 .. 60 entries (thorough 11, <= 120) x ranks 1..3, scripted + real draws, gof 2500 / 20000 draws; '
          'input forms: 8 core forms x 5 number forms x 5 call forms in rotation over 3 (6) shapes for sample / sample_square chains, 6 shape / box forms for '
          'lhs / rand / rand_poi, 4 for sample_tt; NumPy integer seeds for the 6 samplers')

SHAPES_Q = [[2, 3], [3, 2], [4, 6], [1, 5], [5, 1], [2, 2, 2], [3, 2, 2], [2, 3, 4], [1, 3, 2], [3, 1, 4], [2, 2, 2, 3],
            [2, 1, 2, 2], [2, 2, 2, 2], [3, 2, 1, 4]]
SHAPES_T = [[4, 5, 6], [2, 3, 4, 5], [5, 4, 3, 2], [2] * 6, [10, 12], [3, 3, 3, 3], [2, 2, 5, 3], [6, 1, 5, 4],
            [2, 2, 2, 2, 2], [8, 15]]


class Audit:
    """Duck-typed stand-in for numpy.random.Generator: logs every `choice` call (a, size, p, result), delegates all
    draws to a private real Generator; with `script` set, `choice` returns script(call_number, a, size, p) instead
    (same return type as the real generator: scalar for size None, array otherwise)."""

    def __init__(self, seed, script=None):
        self._g = np.random.default_rng(seed)
        self.log = []
        self.other = []
        self._script = script

    def choice(self, a, size=None, replace=True, p=None, axis=0, shuffle=True):
        pr = None if p is None else np.array(p, dtype=float, copy=True)
        if pr is not None:          # the validation a real Generator performs (single-precision p: its own, wider tolerance)
            pd = np.asarray(p).dtype
            atol = float(np.sqrt(np.finfo(pd).eps)) if pd.kind == 'f' and pd.itemsize < 8 else 1e-8
            if pr.ndim != 1 or np.any(np.isnan(pr)) or np.any(pr < 0) or abs(pr.sum() - 1) > atol:
                raise ValueError(f'audit: invalid probability vector {pr}')
        if self._script is None:
            r = self._g.choice(a, size=size, replace=replace, p=p, axis=axis, shuffle=shuffle)
        else:
            r = self._script(len(self.log), a, size, pr)
            if size is None:
                r = np.int64(r)
            else:
                r = np.asarray(r, dtype=np.int64).reshape(size if not isinstance(size, int) else (size,))
        self.log.append({'a': a, 'size': size, 'p': pr, 'r': np.array(r, copy=True), 'replace': replace})
        return r

    def __getattr__(self, name):
        if name.startswith('_'):
            raise AttributeError(name)
        f = getattr(self._g, name)

        def wrapped(*args, **kw):
            self.other.append(name)
            return f(*args, **kw)
        return wrapped


def _tensor(n, r, seed, square):
    """integer TT and its exact weight tensor (entries, or squared entries) as float array + exact total"""
    for retry in range(6):          # rank-1 integer tensors are often identically zero: take the next seed
        Y = gen.tt(n, r, seed + retry, 'int' if square else 'pos')
        D = gen.dense_exact(Y)
        if any(v != 0 for v in D.reshape(-1)):
            break
    W = np.vectorize(lambda v: v * v if square else v, otypes=[object])(D)
    total = int(W.sum())
    return Y, W.astype(float), total


DEF_FORMS = ('ABB', 'BAB', 'BBA', 'AA', 'ABAB', 'ABB_last', 'row_lo', 'row_hi', 'row_mix', 'col_lo', 'col_hi', 'zero_row',
             'pad_first', 'pad_mid', 'pad_last', 'dup_bond')


def _block_sum(parts):
    """sum of TT-tensors WITHOUT truncation (block cores, plain NumPy): the cores of the summands stand in the given order"""
    d = len(parts[0])
    Z = []
    for k in range(d):
        Gs = [Y[k] for Y in parts]
        if k == 0:
            Z.append(np.concatenate(Gs, axis=2))
        elif k == d - 1:
            Z.append(np.concatenate(Gs, axis=0))
        else:
            C = np.zeros((sum(G.shape[0] for G in Gs), Gs[0].shape[1], sum(G.shape[2] for G in Gs)))
            a = b = 0
            for G in Gs:
                C[a:a + G.shape[0], :, b:b + G.shape[2]] = G
                a, b = a + G.shape[0], b + G.shape[2]
            Z.append(C)
    return Z


def _deficient(n, r, seed, square, form):
    """Integer TT-tensor whose unfoldings are RANK-DEFICIENT with a prescribed order of the dependent interface rows /
    columns (the representation carries directions that contribute nothing, and an orthogonalisation meets exactly
    singular triangular factors):
      ABB / BAB / BBA / AA / ABAB  untruncated sums of a rank-r tensor A and a rank-1 tensor B in that block order (every
                        core of the sum has dependent rows AND columns; in ABB the dependent row has independent rows before it)
      ABB_last          A + B + B' where B' differs from B only in the first core (only the LAST cores repeat)
      row_lo / row_hi   one core (position seed-dependent, k >= 1) gets row i := c * row j with i < j / i > j
      row_mix           row 1 := a * row 0 + b * row 2 (r >= 3) - a dependent row in the middle
      col_lo / col_hi   the same for the columns of a core k <= d - 2
      zero_row          an interface row (not the last one) of a core is zero, the matching column of the core before is not
      pad_first / _mid / _last   every bond of A embedded in a bond larger by 2, the zero rows / columns standing first / in
                        the middle / last
      dup_bond          every bond carries each direction twice (cores [G, G] / [G; G] halves)
    Returns (Y, W float weights, exact integer total) like _tensor."""
    d = len(n)
    g = gen.rng('C14.def', n, r, seed, form)
    for retry in range(8):
        A = gen.tt(n, r, seed + retry, 'int' if square else 'pos')
        B = gen.tt(n, 1, seed + 100 + retry, 'int' if square else 'pos')
        if not square:
            A, B = [G + (G.sum() == 0) for G in A], [G + 1.0 for G in B]
        if form in ('ABB', 'BAB', 'BBA', 'AA', 'ABAB'):
            Y = _block_sum([{'A': A, 'B': B}[c] for c in form])
        elif form == 'ABB_last':
            B2 = [G.copy() for G in B]
            B2[0] = B2[0][:, ::-1, :] * 2.0
            Y = _block_sum([A, B, B2])
        elif form in ('row_lo', 'row_hi', 'row_mix', 'zero_row'):
            Y = [G.copy() for G in A]
            ks = [k for k in range(1, d) if Y[k].shape[0] >= (3 if form == 'row_mix' else 2)]
            if not ks:
                return None, None, 0
            k = ks[int(g.integers(len(ks)))]
            rk = Y[k].shape[0]
            if form == 'row_mix':
                Y[k][1] = 2.0 * Y[k][0] + (-1.0 if square else 1.0) * Y[k][2]
            elif form == 'zero_row':
                Y[k][int(g.integers(rk - 1))] = 0.0
            else:
                i, j = sorted(int(x) for x in g.choice(rk, size=2, replace=False))
                if form == 'row_hi':
                    i, j = j, i
                Y[k][i] = float(g.choice([-2, -1, 2, 3] if square else [1, 2, 3])) * Y[k][j]
        elif form in ('col_lo', 'col_hi'):
            Y = [G.copy() for G in A]
            ks = [k for k in range(d - 1) if Y[k].shape[2] >= 2]
            if not ks:
                return None, None, 0
            k = ks[int(g.integers(len(ks)))]
            i, j = sorted(int(x) for x in g.choice(Y[k].shape[2], size=2, replace=False))
            if form == 'col_hi':
                i, j = j, i
            Y[k][:, :, i] = float(g.choice([-2, -1, 2, 3] if square else [1, 2, 3])) * Y[k][:, :, j]
        elif form in ('pad_first', 'pad_mid', 'pad_last'):
            Y = []
            for k, G in enumerate(A):
                a, nk, b = G.shape
                pa = [0] * a if k == 0 else {'pad_first': [2 + x for x in range(a)], 'pad_last': list(range(a)),
                                             'pad_mid': [x if x < (a + 1) // 2 else x + 2 for x in range(a)]}[form]
                pb = [0] * b if k == d - 1 else {'pad_first': [2 + x for x in range(b)], 'pad_last': list(range(b)),
                                                 'pad_mid': [x if x < (b + 1) // 2 else x + 2 for x in range(b)]}[form]
                H = np.zeros((a + (2 if k > 0 else 0), nk, b + (2 if k < d - 1 else 0)))
                H[np.ix_(pa, range(nk), pb)] = G
                Y.append(H)
        elif form == 'dup_bond':
            Y = [np.concatenate([G, G], axis=2) if k < d - 1 else G for k, G in
                 enumerate([np.concatenate([G, -2.0 * G] if square else [G, G], axis=0) if k > 0 else G for k, G in enumerate(A)])]
        else:
            raise ValueError(form)
        D = gen.dense_exact(Y)
        if any(v != 0 for v in D.reshape(-1)) and (square or all(v >= 0 for v in D.reshape(-1))):
            break
    W = np.vectorize(lambda v: v * v if square else v, otypes=[object])(D)
    return Y, W.astype(float), int(W.sum())


CORE_FORMS = ('f32', 'i64', 'i32', 'mixed', 'F', 'V', 'ro', 'tuple')
NUM_FORMS = ('npi64', 'npi32', 'float', 'npf64', 'int')
CALL_FORMS = ('pos', 'kw', 'mix:2', 'min', 'kwmin')
REQ = gen.call_form.REQ


def _arr_form(G, form, k=0):
    """the integer-valued float64 array G with the same values in another dtype / memory layout"""
    if form == 'mixed':
        form = ('f32', 'i64', 'f64', 'i32')[k % 4]
    if form in ('f64', 'tuple'):
        return G.copy()
    if form in ('f32', 'i64', 'i32', 'u8'):
        H = G.astype({'f32': np.float32, 'i64': np.int64, 'i32': np.int32, 'u8': np.uint8}[form])
        assert np.array_equal(H.astype(float), G)
        return H
    if form == 'F':
        return np.asfortranarray(G)
    if form == 'V':
        big = np.full([2 * k_ for k_ in G.shape], 7.0)
        sl = tuple(slice(None, None, 2) for _ in G.shape)
        big[sl] = G
        return big[sl]
    if form == 'ro':
        H = G.copy()
        H.setflags(write=False)
        return H
    raise ValueError(form)


def _cores_form(Y, form):
    Z = [_arr_form(G, form, k) for k, G in enumerate(Y)]
    return tuple(Z) if form == 'tuple' else Z


def _num(v, form):
    return {'int': int, 'npi64': np.int64, 'npi32': np.int32, 'float': float, 'npf64': np.float64}[form](v)


def _call(fn, Y, m, g, unsert, call=None):
    if call is not None:              # the call written in one of the forms of gen.call_form, documented parameter order
        if fn == 'sample':
            return gen.call_form(teneva.sample, ('Y', 'm', 'seed', 'unsert'), (Y, m, g, 1.E-10 if unsert is None else unsert),
                                 (REQ, 1, None, 1.E-10), call)
        return gen.call_form(teneva.sample_square, ('Y', 'm', 'unique', 'seed', 'm_fact', 'max_rep', 'float_cf'),
                             (Y, m, False, g, 5, 100, None), (REQ, 1, True, None, 5, 100, None), call)
    if fn == 'sample':
        return teneva.sample(Y, m, seed=g) if unsert is None else teneva.sample(Y, m, seed=g, unsert=unsert)
    return teneva.sample_square(Y, m, unique=False, seed=g)


def _independent(log):
    """every `choice` call that draws more than one index must draw WITH replacement (the rows are independent draws from
    the distribution; without replacement the indices of one call are forced to be distinct)"""
    for c, e in enumerate(log):
        cnt = 1 if e['size'] is None else int(np.prod(e['size']))
        if cnt > 1 and not e['replace']:
            return (f'choice call #{c} draws {cnt} of {e["a"]} indices with replace={e["replace"]!r}: the rows are not '
                    f'independent draws from the distribution')
    return None


def _audit(fn, Y, W, total, I, log, tol_first, tol):
    """Relate the recorded draws to the returned rows and compare every conditional with the dense one."""
    M, d = I.shape
    n = list(W.shape)
    msg = _independent(log)
    if msg:
        return msg
    draws = []      # (call number, position in call, value)
    for c, e in enumerate(log):
        for pos, v in enumerate(np.atleast_1d(e['r']).reshape(-1)):
            draws.append((c, int(v)))
    vals = np.array([v for _, v in draws])
    if len(vals) != M * d:
        return f'{len(vals)} indices drawn through choice for {M} x {d} returned indices'
    if np.array_equal(vals, I.T.reshape(-1)):
        where = {(s, k): draws[k * M + s][0] for k in range(d) for s in range(M)}
    elif np.array_equal(vals, I.reshape(-1)):
        where = {(s, k): draws[s * d + k][0] for k in range(d) for s in range(M)}
    else:
        return 'returned indices are not the indices drawn from the generator (neither mode-major nor sample-major)'
    for s in range(M):
        row = [int(v) for v in I[s]]
        prod = 1.0
        for k in range(d):
            e = log[where[(s, k)]]
            p = e['p']
            na = len(e['a']) if isinstance(e['a'], (np.ndarray, list)) else int(e['a'])
            if p is None or len(p) != n[k] or na != n[k]:
                return f'mode {k}: choice over {e["a"]} with p of length {None if p is None else len(p)}, mode size {n[k]}'
            marg = W[tuple(row[:k])].reshape(n[k], -1).sum(axis=1)      # dense marginal of the prefix
            if marg.sum() <= 0:
                return f'row {row}: prefix {row[:k]} has zero probability but was drawn'
            cond = marg / marg.sum()
            t = tol_first if k == 0 else tol
            if not np.max(np.abs(p - cond)) <= t:
                return (f'conditional of mode {k} given prefix {row[:k]}: generator received {p.tolist()}, dense '
                        f'conditional {cond.tolist()}')
            prod *= p[row[k]]
        if not abs(prod - W[tuple(row)] / total) <= tol_first + d * tol:
            return f'row {row}: product of conditionals {prod!r} != weight/total = {W[tuple(row)] / total!r}'
    return None


def _targets(W):
    """all multi-indices whose (d-1)-prefix has positive marginal (their conditionals are all well defined)"""
    n = W.shape
    pm = W.reshape(-1, n[-1]).sum(axis=1).reshape(n[:-1]) if len(n) > 1 else None
    return np.array([idx for idx in itertools.product(*[range(k) for k in n]) if pm[idx[:-1]] > 0], dtype=int)


def _kron_square(X):
    """TT-tensor of the elementwise square of X (Kronecker product of every core slice with itself): a non-negative
    tensor whose cores have entries of both signs"""
    return [np.einsum('aib,cid->acibd', G, G).reshape(G.shape[0] ** 2, G.shape[1], G.shape[2] ** 2) for G in X]


def _run_chain(fn, n, r, seed, scripted, m, unsert, exp=0, signed=False, form=None, cores=None, mform=None, call=None):
    square = fn == 'sample_square'
    if form is not None:
        Y, W, total = _deficient(n, r, seed, square, form)
        if Y is None:
            return SKIP(f'no core with enough rows / columns for the form {form}')
    else:
        Y, W, total = _tensor(n, r, seed, square or signed)
    if total == 0:
        return SKIP('zero tensor defines no distribution')
    if signed:
        Y = _kron_square(Y)
    if exp:
        # exact power-of-two rescaling of every core: the distribution (entry^2 / total) is unchanged
        Y = [G * 2.0 ** exp for G in Y]
    d = len(n)
    if scripted:
        T = _targets(W)
        M = len(T)

        def script(c, a, size, p):
            if c == 0:
                return T[:, 0]
            k, s = 1 + (c - 1) // M, (c - 1) % M
            return T[s, k] if size is None else [T[s, k]]
        g = Audit(seed, script)
    else:
        T, M = None, m
        g = Audit(seed)
    if cores is not None:             # the same (integer-valued) tensor in another dtype / memory layout / container
        Y = _cores_form(Y, cores)
    snap = gen.snapshot(list(Y))
    try:
        I = _call(fn, Y, M if mform is None else _num(M, mform), g, unsert, call)
    except Exception as e:
        return FAIL(f'{fn} raised {type(e).__name__}: {str(e)[:200]}'
                    + (' (see clause C14.sample_square.runs)' if square else ''))
    if gen.snapshot(list(Y)) != snap:
        return FAIL('argument tensor modified')
    if not isinstance(I, np.ndarray) or I.shape != (M, d) or I.dtype.kind not in 'iu':
        return FAIL(f'result shape {getattr(I, "shape", None)} dtype {getattr(I, "dtype", None)}, expected ({M}, {d}) int')
    if scripted and not np.array_equal(I, T):
        k = int(np.flatnonzero((I != T).any(axis=1))[0])
        return FAIL(f'scripted draw {T[k].tolist()} returned as {I[k].tolist()}')
    if g.other:
        return FAIL(f'unexpected generator methods used: {sorted(set(g.other))}')
    us = 1e-10 if unsert is None else unsert
    tol_first = (4 * n[0] * us / total + 1e-12) if not square else 1e-10
    tol_sq = 1e-10
    if square and cores in ('f32', 'mixed'):      # float32 cores: the orthogonalisation of the library runs in single precision
        tol_first = tol_sq = 2e-5
    msg = _audit(fn, Y, W, total, I, g.log, tol_first, 1e-12 if not square else tol_sq)
    if msg:
        return FAIL(msg)
    if scripted:
        return PASS
    return PASS


@clause('C14.sample.chain', funcs=('sample.sample',))
def sample_chain(n, r, seed, unsert):
    """sample, scripted audit over every multi-index: conditionals == dense conditionals, product == entry/total
    (first-mode vector up to the documented `unsert` noise, 4*n0*unsert/total)."""
    return _run_chain('sample', n, r, seed, True, None, unsert)


@clause('C14.sample.chain_scaled', funcs=('sample.sample',))
def sample_chain_scaled(n, r, seed, exp):
    """sample(unsert=0.) on a tensor whose cores are all multiplied by 2**exp (overall norm 2**(d*exp), tiny or huge):
    proportionality to the entries is scale-free, the audited conditionals are the dense conditionals for every
    multi-index (the documented absolute `unsert` noise is switched off, it is the only scale in the routine)."""
    return _run_chain('sample', n, r, seed, True, None, 0.0, exp=exp)


@clause('C14.sample.chain_signed_cores', funcs=('sample.sample',))
def sample_chain_signed_cores(n, r, seed, scripted):
    """sample on a NON-NEGATIVE tensor whose TT-cores have entries of both signs (the elementwise square X*X of a
    signed integer tensor, cores = Kronecker squares): probability proportional to the entry x^2, conditionals equal
    to the dense ones for every multi-index."""
    return _run_chain('sample', n, r, seed, bool(scripted), 40, None, signed=True)


@clause('C14.sample.chain_random', funcs=('sample.sample',))
def sample_chain_random(n, r, seed, m):
    """sample, audit of m real draws (generator object as seed)."""
    return _run_chain('sample', n, r, seed, False, m, None)


@clause('C14.sample_square.chain', funcs=('sample.sample_square', 'sample._sample_core_first'))
def sample_square_chain(n, r, seed):
    """sample_square(unique=False), scripted audit over every multi-index with squared entries."""
    return _run_chain('sample_square', n, r, seed, True, None, None)


@clause('C14.sample_square.chain_scaled', funcs=('sample.sample_square', 'sample._sample_core_first'))
def sample_square_chain_scaled(n, r, seed, exp):
    """sample_square on a tensor whose cores are all multiplied by 2**exp (ordinary per-core values, extreme overall norm):
    the audited chain of conditionals still multiplies to entry^2 / total for every multi-index."""
    return _run_chain('sample_square', n, r, seed, True, None, None, exp=exp)


@clause('C14.sample_square.chain_random', funcs=('sample.sample_square', 'sample._sample_core_first'))
def sample_square_chain_random(n, r, seed, m):
    """sample_square(unique=False), audit of m real draws."""
    return _run_chain('sample_square', n, r, seed, False, m, None)


@clause('C14.sample_square.chain_deficient', funcs=('sample.sample_square', 'sample._sample_core_first', 'transformation.orthogonalize',
                                                     'transformation.orthogonalize_right'))
def sample_square_chain_deficient(n, r, seed, form, scripted):
    """sample_square(unique=False) on tensors with RANK-DEFICIENT unfoldings in a prescribed row / column order (`_deficient`:
    untruncated sums A + B + B in every block order, proportional / dependent / zero rows and columns at a lower or higher
    position, zero-padded and duplicated bonds): the audited chain of conditionals multiplies to entry^2 / total for every
    multi-index (scripted) resp. for 60 real draws."""
    return _run_chain('sample_square', n, r, seed, bool(scripted), 60, None, form=form)


@clause('C14.sample.chain_deficient', funcs=('sample.sample',))
def sample_chain_deficient(n, r, seed, form, scripted):
    """sample on NON-NEGATIVE tensors of the same rank-deficient forms (non-negative cores): conditionals == dense
    conditionals, product == entry / total for every multi-index."""
    return _run_chain('sample', n, r, seed, bool(scripted), 60, 0.0, form=form)


@clause('C14.forms.sample.chain', funcs=('sample.sample',))
def forms_sample_chain(n, r, seed, cores, mform, call, scripted):
    """sample on a non-negative integer-valued tensor handed over as float32 / int64 / int32 / mixed-dtype / Fortran-ordered /
    strided / read-only cores or a tuple of cores, m as numpy.int64 / int32 / float / numpy.float64, the arguments positionally in
    the documented order (Y, m, seed, unsert) / by keyword / mixed: the scripted audit of every multi-index (or 40 real draws) -
    conditionals == dense conditionals of the float64 image, product == entry / total, int result of shape (m, d)."""
    return _run_chain('sample', n, r, seed, bool(scripted), 40, 0.0 if seed % 2 else None, cores=cores, mform=mform, call=call)


@clause('C14.forms.sample_square.chain', funcs=('sample.sample_square', 'sample._sample_core_first'))
def forms_sample_square_chain(n, r, seed, cores, mform, call, scripted):
    """The same for sample_square(unique=False) and squared entries, arguments in the documented order (Y, m, unique, seed,
    m_fact, max_rep, float_cf); float32 cores: conditionals to single precision (2e-5)."""
    return _run_chain('sample_square', n, r, seed, bool(scripted), 40, None, cores=cores, mform=mform, call=call)


@clause('C14.forms.samplers', funcs=('sample.sample_lhs', 'sample.sample_rand', 'sample.sample_rand_poi'))
def forms_samplers(fn, n, m, seed, nform, mform, call, genobj):
    """sample_lhs / sample_rand / sample_rand_poi with the shape n (resp. the box a, b) as tuple / int32 / uint8 / float array /
    list of numpy.int64 / list of floats, m as numpy.int64 / int32 / float / numpy.float64, positional (n, m, seed) or keyword calls,
    int or Generator seed: int64-kind array (points: float64) of shape (m, d) inside the bounds; LHS: floor / ceil usage rule."""
    d = len(n)
    sd = np.random.default_rng(seed) if genobj else seed
    conv = {'list': list, 'tuple': tuple, 'i32': lambda v: np.array(v, dtype=np.int32), 'u8': lambda v: np.array(v, dtype=np.uint8),
            'farr': lambda v: np.array(v, dtype=float), 'f32arr': lambda v: np.array(v, dtype=np.float32),
            'npi64list': lambda v: [np.int64(x) for x in v], 'floatlist': lambda v: [float(x) for x in v]}[nform]
    mf = _num(m, mform)
    if fn == 'sample_rand_poi':
        a, b = [-1 - k for k in range(d)], [k + 1 for k in range(d)]
        X = gen.call_form(teneva.sample_rand_poi, ('a', 'b', 'm', 'seed'), (conv(a), conv(b), mf, sd), (REQ, REQ, REQ, None), call)
        if not isinstance(X, np.ndarray) or X.shape != (m, d) or X.dtype != np.float64:
            return FAIL(f'shape {getattr(X, "shape", None)} dtype {getattr(X, "dtype", None)}')
        if not (np.all(X >= np.array(a)) and np.all(X <= np.array(b))):
            return FAIL('point outside the box (or not a number)')
        if m >= 3 and any(len(np.unique(X[:, k])) < 2 for k in range(d)):
            return FAIL('constant coordinate')
        return PASS
    f = {'sample_lhs': teneva.sample_lhs, 'sample_rand': teneva.sample_rand}[fn]
    I = gen.call_form(f, ('n', 'm', 'seed'), (conv(n), mf, sd), (REQ, REQ, None), call)
    if not isinstance(I, np.ndarray) or I.shape != (m, d) or I.dtype.kind not in 'iu':
        return FAIL(f'shape {getattr(I, "shape", None)} dtype {getattr(I, "dtype", None)}')
    if I.min() < 0 or np.any(I.max(axis=0) >= np.array(n)):
        return FAIL(f'index outside [0, n): column maxima {I.max(axis=0).tolist()} for n={n}')
    if fn == 'sample_lhs':
        for k, nk in enumerate(n):
            msg = _lhs_ok(I[:, k], nk, m)
            if msg:
                return FAIL(f'mode {k}: ' + msg)
    return PASS


SEED_FNS = ('sample', 'sample_square', 'sample_lhs', 'sample_rand', 'sample_rand_poi', 'sample_tt')


@clause('C14.seed.numpy_integer', funcs=('utils._rand', 'sample.sample', 'sample.sample_square', 'sample.sample_lhs', 'sample.sample_rand',
                                         'sample.sample_rand_poi', 'sample.sample_tt'))
def seed_numpy_integer(fn, n, m, seed, stype):
    """"seed (int): random seed. It should be an integer number or a numpy Generator class instance" / "for all seeds": a seed
    that is a NumPy integer (numpy.int64 - what rng.integers(...), an element of an integer array or n.max() yield - or int32 /
    uint8) is an integer number: every sampler returns an array of the requested shape inside the bounds, like for the Python
    int of the same value.  FAILS on the clean tree (possible genuine defect, reported): utils._rand tests isinstance(seed, int),
    a NumPy integer is handed through as if it were a Generator -> AttributeError: 'numpy.int64' object has no attribute 'choice'."""
    d = len(n)
    sd = {'npi64': np.int64, 'npi32': np.int32, 'npu8': np.uint8}[stype](seed)
    try:
        if fn == 'sample':
            I = teneva.sample([G + 1.0 for G in gen.tt(n, 2, seed, 'pos')], m, seed=sd)
        elif fn == 'sample_square':
            I = teneva.sample_square(gen.tt(n, 2, seed, 'gauss'), m, unique=False, seed=sd)
        elif fn == 'sample_lhs':
            I = teneva.sample_lhs(n, m, seed=sd)
        elif fn == 'sample_rand':
            I = teneva.sample_rand(n, m, seed=sd)
        elif fn == 'sample_rand_poi':
            I = np.floor(teneva.sample_rand_poi([0.] * d, [float(k) for k in n], m, seed=sd)).astype(int)
        else:
            I = teneva.sample_tt(n, m, seed=sd)[0]
            m = len(I)
    except AttributeError as e:
        return FAIL(f'{fn}(seed={stype}({seed})) raised AttributeError: {e}')
    if not isinstance(I, np.ndarray) or I.shape != (m, d) or I.dtype.kind not in 'iu':
        return FAIL(f'shape {getattr(I, "shape", None)} dtype {getattr(I, "dtype", None)}')
    return check(I.min() >= 0 and np.all(I.max(axis=0) < np.array(n)), 'index outside the bounds')


@clause('C14.sample_square.runs', funcs=('sample.sample_square',))
def sample_square_runs(n, r, seed, unique, m):
    """sample_square returns (no exception) for a generic Gaussian tensor.  Known defect of the pinned tree: a
    `size=1` draw is stored into a scalar slot, which raises for every input under the installed NumPy."""
    Y = gen.tt(n, r, seed, 'gauss')
    try:
        I = teneva.sample_square(Y, m, unique=unique, seed=seed)
    except Exception as e:
        return FAIL(f'sample_square raised {type(e).__name__}: {str(e)[:300]}')
    return check(isinstance(I, np.ndarray) and I.shape == (m, len(n)), f'result {np.shape(I)}')


@clause('C14.sample_square.unique', funcs=('sample.sample_square',))
def sample_square_unique(n, r, seed, m, genobj):
    """unique=True: exactly m rows, pairwise distinct, each of positive squared weight, inside the bounds."""
    Y, W, total = _tensor(n, r, seed, True)
    nz = int(np.count_nonzero(W))
    if nz == 0:
        return SKIP('zero tensor')
    m = max(1, min(m, nz // 2)) if nz > 1 else 1
    try:
        I = teneva.sample_square(Y, m, unique=True, seed=np.random.default_rng(seed) if genobj else seed)
    except Exception as e:
        return FAIL(f'sample_square raised {type(e).__name__}: {str(e)[:200]} (see clause C14.sample_square.runs)')
    if not isinstance(I, np.ndarray) or I.shape != (m, len(n)) or I.dtype.kind not in 'iu':
        return FAIL(f'result shape {getattr(I, "shape", None)} dtype {getattr(I, "dtype", None)}')
    if len({tuple(r_) for r_ in I.tolist()}) != m:
        return FAIL(f'rows not distinct: {I.tolist()}')
    if I.min() < 0 or np.any(I.max(axis=0) >= np.array(n)):
        return FAIL('index outside the tensor bounds')
    if any(W[tuple(r_)] == 0 for r_ in I.tolist()):
        return FAIL('a multi-index of zero weight was returned')
    return PASS


@clause('C14.sample_square.unique_limits', funcs=('sample.sample_square',))
def sample_square_unique_limits(n, r, seed, m_fact, max_rep, over, genobj):
    """unique=True with explicit m_fact / max_rep: asking for as many distinct rows as there are entries of
    non-zero weight (over = 0; restarts are needed with m_fact = 1) gives exactly these rows; asking for more
    (over > 0) can never be satisfied: ValueError - never a short, padded or repeated result."""
    Y, W, total = _tensor(n, r, seed, True)
    nz = int(np.count_nonzero(W))
    if nz == 0:
        return SKIP('zero tensor')
    if over == 0 and W[W > 0].min() / total < 0.004:
        return SKIP('an entry of tiny weight: too many restarts for a bounded case')
    m = nz + over
    try:
        I = teneva.sample_square(Y, m, True, np.random.default_rng(seed) if genobj else seed, m_fact, max_rep)
    except ValueError as e:
        return PASS if over > 0 or max_rep < 8 else FAIL(f'ValueError although {m} distinct rows exist: {e}')
    if over > 0:
        return FAIL(f'{m} distinct rows requested from a tensor with {nz} non-zero entries: returned shape {np.shape(I)}')
    if not isinstance(I, np.ndarray) or I.shape != (m, len(n)) or I.dtype.kind not in 'iu':
        return FAIL(f'result shape {getattr(I, "shape", None)} dtype {getattr(I, "dtype", None)}')
    rows = {tuple(r_) for r_ in I.tolist()}
    want = {tuple(int(v) for v in idx) for idx in np.argwhere(W > 0)}
    return check(rows == want, f'rows {sorted(rows)} are not the {nz} entries of non-zero weight')


def _gof(fn, n, r, seed, m, form=None):
    square = fn == 'sample_square'
    Y, W, total = _tensor(n, r, seed, square) if form is None else _deficient(n, r, seed, square, form)
    if Y is None:
        return SKIP(f'no core with enough rows / columns for the form {form}')
    if total == 0:
        return SKIP('zero tensor')
    try:
        I = teneva.sample(Y, m, seed=seed) if not square else teneva.sample_square(Y, m, unique=False, seed=seed)
    except Exception as e:
        return FAIL(f'{fn} raised {type(e).__name__}: {str(e)[:200]}'
                    + (' (see clause C14.sample_square.runs)' if square else ''))
    if I.shape != (m, len(n)) or I.dtype.kind not in 'iu':
        return FAIL(f'shape {I.shape} dtype {I.dtype}')
    cnt = np.zeros(W.shape)
    np.add.at(cnt, tuple(I.T), 1)
    P = W / total
    dev = np.abs(cnt / m - P)
    lim = 7 * np.sqrt(P * (1 - P) / m) + 1.0 / m + (1e-9 if not square else 0)
    if np.any(dev > lim) or np.any(cnt[P == 0] > 0):
        k = np.unravel_index(int(np.argmax(dev - lim)), W.shape)
        return FAIL(f'multi-index {list(map(int, k))}: frequency {cnt[k] / m:.5f}, probability {P[k]:.5f} (m={m})')
    return PASS


@clause('C14.sample.gof', funcs=('sample.sample',))
def sample_gof(n, r, seed, m):
    """Protocol-independent fallback: empirical frequency of every multi-index within 7 binomial sigmas (+1/m) of
    entry/total for m real draws of `sample` with an integer seed."""
    return _gof('sample', n, r, seed, m)


@clause('C14.sample_square.gof', funcs=('sample.sample_square',))
def sample_square_gof(n, r, seed, m):
    """The same fallback for sample_square(unique=False) and squared entries."""
    return _gof('sample_square', n, r, seed, m)


@clause('C14.sample_square.gof_deficient', funcs=('sample.sample_square', 'transformation.orthogonalize'))
def sample_square_gof_deficient(n, r, seed, m, form):
    """Protocol-independent fallback for the rank-deficient forms: frequencies of m real draws of sample_square(unique=False)
    within 7 binomial sigmas of entry^2 / total for every multi-index."""
    return _gof('sample_square', n, r, seed, m, form)


@clause('C14.sample.gof_deficient', funcs=('sample.sample',))
def sample_gof_deficient(n, r, seed, m, form):
    """The same for sample on the non-negative rank-deficient forms."""
    return _gof('sample', n, r, seed, m, form)


def _tensor_skewed(n, r, seed, square):
    """_tensor with one slice of the FIRST core multiplied by 4: the first-mode marginal is far from uniform"""
    Y, W, total = _tensor(n, r, seed, square)
    if total == 0:
        return Y, W, total
    Y = [G.copy() for G in Y]
    Y[0][:, seed % n[0], :] *= 4.0
    D = gen.dense_exact(Y)
    W = np.vectorize(lambda v: v * v if square else v, otypes=[object])(D)
    return Y, W.astype(float), int(W.sum())


def _gof_few(fn, n, r, seed, m, runs, genobj):
    """`runs` calls with m rows each (m <= n[0] is the point: few rows, first mode at least as large).  All runs * m rows
    are independent draws: every multi-index within 7 binomial sigmas; rows 0 and 1 of a call are independent: the
    frequency of `equal first index` / `equal row` within 7 sigmas of sum p0^2 / sum p^2."""
    square = fn == 'sample_square'
    Y, W, total = _tensor_skewed(n, r, seed, square)
    if total == 0:
        return SKIP('zero tensor')
    P = W / total
    P0 = P.reshape(n[0], -1).sum(axis=1)
    g = np.random.default_rng(seed) if genobj else None
    cnt = np.zeros(W.shape)
    eq0 = eqrow = 0
    snap = gen.snapshot(Y)
    for j in range(runs):
        sd = g if genobj else seed + 7919 * j
        try:
            I = teneva.sample(Y, m, seed=sd) if not square else teneva.sample_square(Y, m, unique=False, seed=sd)
        except Exception as e:
            return FAIL(f'{fn}(m={m}) raised {type(e).__name__}: {str(e)[:200]} in run {j}')
        if not isinstance(I, np.ndarray) or I.shape != (m, len(n)) or I.dtype.kind not in 'iu':
            return FAIL(f'shape {getattr(I, "shape", None)} dtype {getattr(I, "dtype", None)}')
        if I.min() < 0 or np.any(I.max(axis=0) >= np.array(n)):
            return FAIL('index outside the tensor bounds')
        np.add.at(cnt, tuple(I.T), 1)
        if m >= 2:
            eq0 += int(I[0, 0] == I[1, 0])
            eqrow += int(np.array_equal(I[0], I[1]))
    if gen.snapshot(Y) != snap:
        return FAIL('argument tensor modified')
    N = runs * m
    dev = np.abs(cnt / N - P)
    lim = 7 * np.sqrt(P * (1 - P) / N) + 1.0 / N + (1e-9 if not square else 0)
    if np.any(dev > lim) or np.any(cnt[P == 0] > 0):
        k = np.unravel_index(int(np.argmax(dev - lim)), W.shape)
        f0 = cnt.reshape(n[0], -1).sum(axis=1) / N
        return FAIL(f'multi-index {list(map(int, k))}: frequency {cnt[k] / N:.5f}, probability {P[k]:.5f} ({runs} calls with '
                    f'm={m} rows); first-mode frequencies {np.round(f0, 3).tolist()}, marginal {np.round(P0, 3).tolist()}')
    if m >= 2:
        for name, got, q in (('first index', eq0, float((P0 ** 2).sum())), ('row', eqrow, float((P ** 2).sum()))):
            if not abs(got / runs - q) <= 7 * math.sqrt(q * (1 - q) / runs) + 1.0 / runs:
                return FAIL(f'rows 0 and 1 of a call have the same {name} in {got} of {runs} calls (m={m}); independent draws: '
                            f'probability {q:.4f}')
    return PASS


@clause('C14.sample.gof_few_rows', funcs=('sample.sample',))
def sample_gof_few_rows(n, r, seed, m, runs, genobj):
    """sample with FEW rows per call (2 <= m <= n[0], non-uniform first-mode marginal), many calls (int seeds or one
    generator object): every row is a draw from entry/total and the rows of one call are independent."""
    return _gof_few('sample', n, r, seed, m, runs, genobj)


@clause('C14.sample_square.gof_few_rows', funcs=('sample.sample_square', 'sample._sample_core_first'))
def sample_square_gof_few_rows(n, r, seed, m, runs, genobj):
    """The same for sample_square(unique=False) and squared entries."""
    return _gof_few('sample_square', n, r, seed, m, runs, genobj)


@clause('C14.sample_square.unique_first_draw', funcs=('sample.sample_square', 'sample._sample_core_first'))
def sample_square_unique_first_draw(n, r, seed, m, m_fact):
    """unique=True with m_fact * m <= n[0] candidate rows: the candidates are independent draws as well - the first
    indices are m_fact * m draws WITH replacement from the exact first-mode marginal of the squared tensor (audited
    generator), every later `choice` is a single draw; the result has m distinct rows of positive weight."""
    Y, W, total = _tensor_skewed(n, r, seed, True)
    if total == 0:
        return SKIP('zero tensor')
    if int(np.count_nonzero(W)) < 4 * m:
        return SKIP('too few entries of non-zero weight for a bounded number of restarts')
    g = Audit(seed)
    try:
        I = teneva.sample_square(Y, m, True, g, m_fact)
    except Exception as e:
        return FAIL(f'sample_square raised {type(e).__name__}: {str(e)[:200]}')
    if not g.log:
        return FAIL('no draw went through the generator passed as seed')
    msg = _independent(g.log)
    if msg:
        return FAIL(msg)
    e = g.log[0]
    P0 = W.reshape(n[0], -1).sum(axis=1) / total
    cnt = 1 if e['size'] is None else int(np.prod(e['size']))
    if cnt != m_fact * m or e['p'] is None or len(e['p']) != n[0] or not np.max(np.abs(e['p'] - P0)) <= 1e-10:
        return FAIL(f'first draw: {cnt} indices with p = {None if e["p"] is None else e["p"].tolist()}, expected {m_fact * m} '
                    f'draws from the marginal {P0.tolist()}')
    if not isinstance(I, np.ndarray) or I.shape != (m, len(n)) or I.dtype.kind not in 'iu':
        return FAIL(f'result shape {getattr(I, "shape", None)} dtype {getattr(I, "dtype", None)}')
    if len({tuple(r_) for r_ in I.tolist()}) != m or any(W[tuple(r_)] == 0 for r_ in I.tolist()):
        return FAIL(f'rows not distinct or of zero weight: {I.tolist()}')
    return PASS


SAMPLERS = ('sample', 'sample_square', 'sample_square_unique', 'sample_lhs', 'sample_rand', 'sample_rand_poi',
            'sample_tt')


@clause('C14.samplers.shape_bounds', funcs=('sample.sample', 'sample.sample_lhs', 'sample.sample_rand',
                                            'sample.sample_rand_poi', 'sample.sample_tt'))
def shape_bounds(fn, n, m, seed, genobj, forms):
    """Every sampler except sample_square: integer array (sample_rand_poi: float points in the box) of shape (m, d)
    (sample_tt: rows of length d) with column k inside [0, n_k); m may be int or float, n list or ndarray (forms=1)."""
    return _shape_bounds(fn, n, m, seed, genobj, forms)


@clause('C14.sample_square.shape_bounds', funcs=('sample.sample_square',))
def sample_square_shape_bounds(fn, n, m, seed, genobj, forms):
    """sample_square (fn = sample_square | sample_square_unique): integer array of shape (m, d) inside the bounds."""
    return _shape_bounds(fn, n, m, seed, genobj, forms)


def _shape_bounds(fn, n, m, seed, genobj, forms):
    d = len(n)
    sd = np.random.default_rng(seed) if genobj else seed
    nn = np.array(n) if forms else list(n)
    mm = float(m) if forms else m
    try:
        if fn == 'sample':
            Y = gen.tt(n, 2, seed, 'pos')
            Y = [G + 1.0 for G in Y]
            I = teneva.sample(Y, mm, seed=sd)
        elif fn in ('sample_square', 'sample_square_unique'):
            Y = gen.tt(n, 2, seed, 'gauss')
            uq = fn.endswith('unique')
            if uq:
                m = min(m, max(1, int(np.prod(n)) // 2))
                mm = float(m) if forms else m
            I = teneva.sample_square(Y, mm, unique=uq, seed=sd)
        elif fn == 'sample_lhs':
            I = teneva.sample_lhs(nn, mm, seed=sd)
        elif fn == 'sample_rand':
            I = teneva.sample_rand(nn, mm, seed=sd)
        elif fn == 'sample_rand_poi':
            a = [-1.0 - k for k in range(d)]
            b = [0.5 * k + 1e-3 for k in range(d)]
            X = teneva.sample_rand_poi(np.array(a) if forms else a, np.array(b) if forms else b, mm, seed=sd)
            if not isinstance(X, np.ndarray) or X.shape != (m, d) or X.dtype.kind != 'f':
                return FAIL(f'shape {getattr(X, "shape", None)} dtype {getattr(X, "dtype", None)}')
            if not (np.all(X >= np.array(a)) and np.all(X <= np.array(b))):
                return FAIL('point outside the box (or not a number)')
            if m >= 3 and any(len(np.unique(X[:, k])) < 2 for k in range(d)):
                return FAIL('constant coordinate')
            return PASS
        elif fn == 'sample_tt':
            I, idx, idx_many = teneva.sample_tt(nn, m, seed=sd)
            if I.ndim != 2 or I.shape[1] != d:
                return FAIL(f'shape {I.shape}')
            m = I.shape[0]
        else:
            return FAIL('unknown sampler ' + fn)
    except Exception as e:
        return FAIL(f'{fn} raised {type(e).__name__}: {str(e)[:200]}'
                    + (' (see clause C14.sample_square.runs)' if fn.startswith('sample_square') else ''))
    if not isinstance(I, np.ndarray) or I.shape != (m, d):
        return FAIL(f'shape {getattr(I, "shape", None)}, requested ({m}, {d})')
    if I.dtype.kind not in 'iu':
        return FAIL(f'dtype {I.dtype} is not an integer type')
    if I.min() < 0 or np.any(I.max(axis=0) >= np.array(n)):
        return FAIL(f'index outside [0, n): column maxima {I.max(axis=0).tolist()} for n={n}')
    return PASS


def _lhs_ok(col, nk, m):
    cnt = np.bincount(col, minlength=nk)
    if len(cnt) != nk:
        return f'index {int(col.max())} >= mode size {nk}'
    lo, hi = m // nk, -(-m // nk)
    if cnt.min() < lo or cnt.max() > hi:
        return f'usage counts {cnt.tolist()} for m={m}, mode size {nk}: allowed {lo}..{hi}'
    return None


@clause('C14.sample_lhs.counts', funcs=('sample.sample_lhs',))
def lhs_counts(n, seed, genobj):
    """Every index of mode k occurs floor(m/n_k) or ceil(m/n_k) times, for every m = 1 .. 3*max(n)+2."""
    sd = np.random.default_rng(seed) if genobj else None
    for m in range(1, 3 * max(n) + 3):
        I = teneva.sample_lhs(list(n), m, seed=sd if genobj else seed + m)
        if I.shape != (m, len(n)) or I.dtype.kind not in 'iu':
            return FAIL(f'm={m}: shape {I.shape} dtype {I.dtype}')
        if I.min() < 0:
            return FAIL('negative index')
        for k, nk in enumerate(n):
            msg = _lhs_ok(I[:, k], nk, m)
            if msg:
                return FAIL(f'm={m}, mode {k}: ' + msg)
    return PASS


@clause('C14.sample_lhs.counts_at', funcs=('sample.sample_lhs',))
def lhs_counts_at(n, m, seed, genobj, as_float):
    """The floor / ceil usage rule for a single (n, m), so that large modes (> 255, > 32767) and m far below /
    equal to / far above the mode sizes are reachable; n as int list or float array, m as int or float."""
    sd = np.random.default_rng(seed) if genobj else seed
    I = teneva.sample_lhs(np.array(n, dtype=float) if as_float else list(n), float(m) if as_float else m, seed=sd)
    if not isinstance(I, np.ndarray) or I.shape != (m, len(n)) or I.dtype.kind not in 'iu':
        return FAIL(f'shape {getattr(I, "shape", None)} dtype {getattr(I, "dtype", None)}')
    if I.min() < 0:
        return FAIL('negative index')
    for k, nk in enumerate(n):
        msg = _lhs_ok(I[:, k], nk, m)
        if msg:
            return FAIL(f'mode {k}: ' + msg)
    return PASS


@clause('C14.sample_lhs.shuffled', funcs=('sample.sample_lhs',))
def lhs_shuffled(nk, m, seed):
    """The columns are permuted independently (not the sorted repeat pattern): over 40 seeds a column of a
    two-mode LHS takes at least 3 different orders and the two columns are not always equal."""
    cols, same = set(), 0
    for s in range(40):
        I = teneva.sample_lhs([nk, nk], m, seed=seed + s)
        cols.add(tuple(I[:, 0].tolist()))
        same += int(np.array_equal(I[:, 0], I[:, 1]))
    if m >= 3 and nk >= 2 and len(cols) < 3:
        return FAIL(f'only {len(cols)} different orders of a column in 40 seeds')
    if m >= 3 and nk >= 2 and same == 40:
        return FAIL('both columns always identical')
    return PASS if m >= 3 and nk >= 2 else TRIVIAL('too small to shuffle')


@clause('C14.sample_tt.layout', funcs=('sample.sample_tt',))
def sample_tt_layout(n, r, seed, genobj, as_array, nform=None, rform='int', call=None):
    """(I, idx, idx_many): idx = offsets partitioning I into one block per mode; block k has n_k * L * R rows with
    L = number of LHS prefixes (1 for k = 0), R = idx_many[k] = number of LHS suffixes (1 for the last mode), row
    (i_k * L + l) * R + j = (prefix l, i_k, suffix j); prefixes / suffixes are LHS samples of r rows."""
    d = len(n)
    sd = np.random.default_rng(seed) if genobj else seed
    nn = np.array(n) if as_array else list(n)
    if nform is not None:             # other forms of the shape: tuple / int32 / uint8 array / list of numpy.int64
        nn = {'tuple': tuple, 'i32': lambda v: np.array(v, dtype=np.int32), 'u8': lambda v: np.array(v, dtype=np.uint8),
              'npi64list': lambda v: [np.int64(x) for x in v]}[nform](n)
    if call is not None:
        out = gen.call_form(teneva.sample_tt, ('n', 'r', 'seed'), (nn, _num(r, rform), sd), (REQ, 4, None), call)
    else:
        out = teneva.sample_tt(nn, _num(r, rform), seed=sd)
    if not isinstance(out, tuple) or len(out) != 3:
        return FAIL('result is not a triple')
    I, idx, idx_many = out
    if not all(isinstance(x, np.ndarray) for x in out) or I.ndim != 2 or I.shape[1] != d or I.dtype.kind not in 'iu':
        return FAIL(f'I shape {getattr(I, "shape", None)} dtype {getattr(I, "dtype", None)}')
    if idx.shape != (d + 1,) or idx_many.shape != (d,):
        return FAIL(f'idx shape {idx.shape}, idx_many shape {idx_many.shape}')
    if idx[0] != 0 or idx[-1] != len(I) or np.any(np.diff(idx) <= 0):
        return FAIL(f'idx {idx.tolist()} does not partition the {len(I)} rows')
    if I.min() < 0 or np.any(I.max(axis=0) >= np.array(n)):
        return FAIL('index outside the bounds')
    for k in range(d):
        B = I[idx[k]:idx[k + 1]]
        L = 1 if k == 0 else r
        R = 1 if k == d - 1 else r
        if int(idx_many[k]) != R:
            return FAIL(f'idx_many[{k}] = {idx_many[k]}, block has {R} suffixes')
        if len(B) != n[k] * L * R:
            return FAIL(f'block {k} has {len(B)} rows, expected n_k*L*R = {n[k]}*{L}*{R}')
        B4 = B.reshape(n[k], L, R, d)
        if np.any(B4[:, :, :, k] != np.arange(n[k])[:, None, None]):
            return FAIL(f'block {k}: mode index is not constant-per-slab 0..n_k-1 in order')
        if np.any(B4[:, :, :, :k] != B4[:1, :, :1, :k]):
            return FAIL(f'block {k}: prefix columns vary with the mode index or the suffix')
        if np.any(B4[:, :, :, k + 1:] != B4[:1, :1, :, k + 1:]):
            return FAIL(f'block {k}: suffix columns vary with the mode index or the prefix')
        for j in range(k):
            msg = _lhs_ok(B4[0, :, 0, j], n[j], L)
            if msg:
                return FAIL(f'block {k}: prefixes are not an LHS sample in mode {j}: ' + msg)
        for j in range(k + 1, d):
            msg = _lhs_ok(B4[0, 0, :, j], n[j], R)
            if msg:
                return FAIL(f'block {k}: suffixes are not an LHS sample in mode {j}: ' + msg)
    return PASS


def cases(tier, seed):
    for _exp in (-133, -150, 300, 60):
        for _n, _r in (([2, 3, 2, 2], 2), ([3, 2, 2, 2], 1), ([2, 2, 3, 3], 3)):
            yield 'C14.sample_square.chain_scaled', dict(n=_n, r=_r, seed=11 + abs(_exp), exp=_exp)
    big = tier == 'thorough'
    g = gen.rng('C14', seed)

    def rs():
        return int(g.integers(1 << 30))

    shapes = SHAPES_Q + (SHAPES_T if big else [])
    for n in shapes:
        for r in (1, 2, 3):
            for rep in range(4 if big else 2):
                yield 'C14.sample.chain', dict(n=n, r=r, seed=rs(), unsert=[None, 0.0, 1e-10][rep % 3])
                yield 'C14.sample_square.chain', dict(n=n, r=r, seed=rs())
            yield 'C14.sample.chain_random', dict(n=n, r=r, seed=rs(), m=400 if big else 60)
            yield 'C14.sample_square.chain_random', dict(n=n, r=r, seed=rs(), m=400 if big else 60)
            yield 'C14.sample_square.unique', dict(n=n, r=r, seed=rs(), m=[1, 3, 8][r - 1], genobj=bool(r % 2))
    # ---- parameter-coverage additions -----------------------------------------------------------------------
    for _exp in (-200, -60, 60, 200):               # sample: tiny / huge overall norm (unsert switched off)
        for _n, _r in (([2, 3, 2, 2], 2), ([3, 4], 3), ([2, 2, 3], 1)):
            yield 'C14.sample.chain_scaled', dict(n=_n, r=_r, seed=7 + abs(_exp), exp=_exp)
    for n in ([2, 3], [4, 3], [2, 2, 2], [3, 1, 2], [2, 2, 2, 2]) + (([3, 3, 3], [2, 5, 2, 2]) if big else ()):
        for r in (1, 2):
            yield 'C14.sample.chain_signed_cores', dict(n=n, r=r, seed=rs(), scripted=1)
            yield 'C14.sample.chain_signed_cores', dict(n=n, r=r, seed=rs(), scripted=0)
    for n in ([300, 2], [2, 260]):                  # mode sizes beyond one byte
        yield 'C14.sample.chain', dict(n=n, r=2, seed=rs(), unsert=0.0)
        yield 'C14.sample_square.chain', dict(n=n, r=2, seed=rs())
        yield 'C14.sample_tt.layout', dict(n=n, r=2, seed=rs(), genobj=False, as_array=True)
    for n in SHAPES_Q[:6]:                          # larger documented noise, a single sample
        yield 'C14.sample.chain', dict(n=n, r=2, seed=rs(), unsert=1e-3)
        yield 'C14.sample.chain_random', dict(n=n, r=2, seed=rs(), m=1)
        yield 'C14.sample_square.chain_random', dict(n=n, r=2, seed=rs(), m=1)
    for n in ([2, 2], [3, 2], [2, 2, 2], [1, 3, 2]) + (([2, 3, 2], [4, 2]) if big else ()):
        for r in (1, 2):
            for (m_fact, max_rep, over) in ((1, 100, 0), (5, 100, 0), (1, 1, 1), (2, 0, 3), (1, -1, 0)):
                yield 'C14.sample_square.unique_limits', dict(n=n, r=r, seed=rs(), m_fact=m_fact, max_rep=max_rep, over=over,
                                                              genobj=bool(over % 2))
    for (n, ms) in (([300, 2], (1, 2, 299, 300, 301, 1000)), ([33000], (3, 33001)), ([1, 70000, 2], (5,)), ([4, 7], (28, 56, 3))):
        for m in ms:
            yield 'C14.sample_lhs.counts_at', dict(n=n, m=m, seed=rs(), genobj=bool(m % 2), as_float=bool(m % 3 == 0))
    for fn in SAMPLERS:
        for (n, m) in (([300, 2], 700), ([33000, 3], 4)):
            if fn == 'sample_tt':
                m = 2
            yield ('C14.sample_square.shape_bounds' if fn.startswith('sample_square') else
                   'C14.samplers.shape_bounds'), dict(fn=fn, n=n, m=m, seed=rs(), genobj=False, forms=1)
    for n in ([2, 3], [2, 2, 2], [3, 1, 4], [2, 2, 2, 3]) + (([4, 5, 6], [2] * 6) if big else ()):
        for r in (1, 2, 3):
            for cid in ('C14.sample.gof', 'C14.sample_square.gof'):
                yield cid, dict(n=n, r=r, seed=rs(), m=20000 if big else 4000)
    for n, r in (([3, 4], 2), ([2, 2, 2], 1), ([5, 3, 4, 2], 3)):
        for unique in (False, True):
            yield 'C14.sample_square.runs', dict(n=n, r=r, seed=rs(), unique=unique, m=3)
    for fn in SAMPLERS:
        for n in ([2, 3], [1, 4], [5, 1, 3], [2, 2, 2, 2], [7, 6, 5], [3] * 6):
            for m in (1, 2, 5, 16):
                for forms in (0, 1):
                    if fn == 'sample_tt' and m > 5:
                        continue
                    yield ('C14.sample_square.shape_bounds' if fn.startswith('sample_square') else
                           'C14.samplers.shape_bounds'), dict(fn=fn, n=n, m=m, seed=rs(), genobj=bool((m + forms) % 2),
                                                            forms=forms)
    for n in ([1], [2], [3], [5], [9], [2, 3], [7, 4, 1], [6, 6], [2, 5, 3, 8]):
        for rep in range(4 if big else 1):
            for genobj in (False, True):
                yield 'C14.sample_lhs.counts', dict(n=n, seed=rs(), genobj=genobj)
    for nk, m in ((2, 4), (3, 7), (5, 5), (4, 2), (6, 13), (1, 3), (3, 1)):
        yield 'C14.sample_lhs.shuffled', dict(nk=nk, m=m, seed=rs())
    for n in ([2, 2], [3, 4], [5, 1], [2, 3, 4], [4, 1, 3], [2, 2, 2, 2], [3, 5, 2, 4], [6, 6, 6], [2] * 6):
        for r in (1, 2, 3, 4, 5):
            for rep in range(2 if big else 1):
                yield 'C14.sample_tt.layout', dict(n=n, r=r, seed=rs(), genobj=bool((r + rep) % 2),
                                                   as_array=bool(r % 2))
    # ---- gap closure: rank-deficient unfoldings with a prescribed order of the dependent rows / columns ----------------
    gd = gen.rng('C14.deficient', seed)           # own stream: the seeds of the older cases stay what they were

    def ds():
        return int(gd.integers(1 << 30))

    dshapes = [[3, 5], [4, 6], [2, 3, 5], [3, 2, 6], [2, 2, 2, 6], [3, 4, 5]] + ([[4, 5, 6], [6, 7], [2, 2, 3, 2, 5], [5, 1, 6], [3, 3, 3, 4]] if big else [])
    k = 0
    for n in dshapes:
        for form in DEF_FORMS:
            for r in ((1, 2, 3) if big else (3 if form == 'row_mix' else 1 + k % 2 if form[0] in 'AB' else 2 + k % 2,)):
                k += 1
                if r < 2 and form.startswith(('row', 'col', 'zero_row')) or r < 3 and form == 'row_mix':
                    continue
                yield 'C14.sample_square.chain_deficient', dict(n=n, r=r, seed=ds(), form=form, scripted=1)
                if big or k % 4 == 0:
                    yield 'C14.sample_square.chain_deficient', dict(n=n, r=r, seed=ds(), form=form, scripted=0)
                if big or k % 3 == 0:
                    yield 'C14.sample.chain_deficient', dict(n=n, r=r, seed=ds(), form=form, scripted=1)
                if big and k % 2:
                    yield 'C14.sample.chain_deficient', dict(n=n, r=r, seed=ds(), form=form, scripted=0)
    for n, r, forms in (([3, 4, 5], 2, ('ABB', 'row_lo')),) + \
            ((([4, 5, 6], 2, DEF_FORMS), ([2, 3, 5], 3, DEF_FORMS)) if big else ()):
        for form in forms:
            yield 'C14.sample_square.gof_deficient', dict(n=n, r=r, seed=ds(), m=20000 if big else 2500, form=form)
            if big or form == 'ABB':
                yield 'C14.sample.gof_deficient', dict(n=n, r=r, seed=ds(), m=20000 if big else 2500, form=form)
    # ---- few rows per call: 2 <= rows <= size of the first mode (the draws of one call must still be independent) ----
    for n in ([6, 3, 2], [8, 2], [5, 2, 2], [300, 2]) + (([4, 6], [7, 1, 3], [12, 3], [9, 2, 2, 2], [40, 2]) if big else ()):
        for r in ((1, 2, 3) if big else (1, 2)):
            for m in sorted({2, max(2, n[0] // 2), n[0] - 1, n[0]}):
                yield 'C14.sample.chain_random', dict(n=n, r=r, seed=rs(), m=m)
                yield 'C14.sample_square.chain_random', dict(n=n, r=r, seed=rs(), m=m)
    few = (([6, 3, 2], 2, (2, 3, 6)), ([4, 3], 1, (2,)))
    if big:
        few += (([6, 3, 2], 1, (2, 4)), ([4, 3], 2, (3, 4)), ([8, 2, 2], 2, (3, 8)), ([5, 4], 3, (2, 5)), ([10, 2], 2, (4, 10, 11)))
    for n, r, ms in few:
        for m in ms:
            for cid in ('C14.sample.gof_few_rows', 'C14.sample_square.gof_few_rows'):
                yield cid, dict(n=n, r=r, seed=rs(), m=m, runs=3000 if big else 250, genobj=bool((m + r) % 2))
    for n, m, m_fact in (([10, 3], 2, 5), ([12, 2, 2], 2, 5), ([6, 4], 3, 2), ([6, 2, 3], 6, 1), ([300, 2], 40, 5), ([25, 2], 5, 5)):
        for r in (1, 2, 3):
            yield 'C14.sample_square.unique_first_draw', dict(n=n, r=r, seed=rs(), m=m, m_fact=m_fact)
    # ---- input forms (audit f3-forms): own stream of seeds, every form of every argument at least once in quick
    gf = gen.rng('C14.forms', seed)

    def fs():
        return int(gf.integers(1 << 30))

    k = 0
    for rnd in range(4 if big else 1):
        for n in ([3, 4], [2, 3, 2], [2, 2, 2, 3]) + (([4, 5, 3], [2, 2, 2, 2, 2], [6, 2]) if big else ()):
            for cf in CORE_FORMS:
                k += 1
                if not big and len(n) == 4 and k % 2:
                    continue
                p = dict(n=n, r=1 + (k + rnd) % 3, seed=fs(), cores=cf, mform=NUM_FORMS[(k + rnd) % 5], call=CALL_FORMS[(k // 2 + rnd) % 5],
                         scripted=int(k % 4 != 0))
                yield 'C14.forms.sample.chain', p
                yield 'C14.forms.sample_square.chain', dict(p, seed=fs())
    k = 0
    for fn, nforms in (('sample_lhs', ('tuple', 'i32', 'u8', 'farr', 'npi64list', 'floatlist')),
                       ('sample_rand', ('tuple', 'i32', 'u8', 'farr', 'npi64list', 'floatlist')),
                       ('sample_rand_poi', ('tuple', 'i32', 'farr', 'f32arr', 'npi64list', 'floatlist'))):
        for nform in nforms:
            for (n, m) in (([3, 4], 7), ([2, 5, 3], 10), ([300, 2], 4)) + ((([6, 6, 6, 2], 13), ([1, 4], 1)) if big else ()):
                k += 1
                if nform == 'u8' and max(n) > 255:
                    continue
                yield 'C14.forms.samplers', dict(fn=fn, n=n, m=m, seed=fs(), nform=nform, mform=NUM_FORMS[k % 5], call=CALL_FORMS[(k // 3) % 5],
                                                 genobj=bool(k % 2))
    k = 0
    for nform in ('tuple', 'i32', 'u8', 'npi64list'):
        for n in ([3, 4], [2, 3, 4], [2, 2, 2, 2]) + (([5, 1], [6, 6, 6]) if big else ()):
            k += 1
            yield 'C14.sample_tt.layout', dict(n=n, r=1 + k % 4, seed=fs(), genobj=bool(k % 2), as_array=False, nform=nform,
                                               rform=NUM_FORMS[k % 5], call=CALL_FORMS[k % 5])
    # NumPy integers as seed (one narrowly named clause: fails on the clean tree, see its docstring)
    for k, fn in enumerate(SEED_FNS):
        yield 'C14.seed.numpy_integer', dict(fn=fn, n=[3, 4, 2], m=3, seed=5 + k, stype='npi64')
    if big:
        for k, fn in enumerate(SEED_FNS):
            yield 'C14.seed.numpy_integer', dict(fn=fn, n=[2, 5], m=4, seed=11 + k, stype=('npi32', 'npu8')[k % 2])
