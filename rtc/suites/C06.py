"""C06 (bounded, T3): TT-cross honours its evaluation budget, index domain and stop contract.

Everything is observed through an instrumented objective f(I) = T[I] (T a dense Gaussian array, full-rank or
rank-2) that records every batch, and a callback that records the info dictionary after every sweep.  The
expected behaviour is computed by a small independent *model of the contract*: the batches U_1, U_2, ... of the
unconstrained, uncached run are the requests of the algorithm (2d per sweep); a budget / a cache / a failing
objective only decides which prefix of them is evaluated:

    request U_j -> new_j = rows of U_j not evaluated before (all rows without a cache);
    if new_j is empty: no call;  elif evaluated + |new_j| > m: stop 'm';  elif this is the k-th call and the
    objective fails: stop 'func';  else evaluated += |new_j|, hits += |U_j| - |new_j|.

Clauses:

* C06.cross.budget_every_m     EVERY budget m = 1 .. unconstrained count + 1 (split over `parts` cases): batches
                               are integer 2-D arrays of width d inside the bounds, rows asked <= m, the batches
                               are exactly the model's prefix (so 'm' is reported iff m_used + next batch > m),
                               info['m'] == rows evaluated, info['m_cache'] == model hits, with a cache no index is
                               evaluated twice, info['m_max'] == m, result well-formed / original shape / finite.
* C06.cross.func_none_every_k  the objective returns None at its k-th call for EVERY k: stop 'func', exactly k
                               calls, the k-th batch is not counted, result well-formed and finite.
* C06.cross.cb_every_sweep     the callback returns True at sweep s for EVERY s <= nswp: stop 'cb', info['nswp'] ==
                               s == number of callback calls, no objective call after the callback, 2*d*s requests.
* C06.cross.stop_nswp          nswp = 0..3 alone: stop 'nswp', info['nswp'] == nswp == callback calls, and exactly
                               2*d*nswp requests reached the (uncached) objective (one for nswp = 0).
* C06.cross.stop_thresholds    e / e_vld thresholds placed just above and just below the value reported at every
                               sweep (incl. the pre-iteration value of e_vld), alone and combined, with nswp: the
                               run stops at the first sweep where a criterion holds with the reason in priority order
                               e_vld, e, nswp; 'e' / 'e_vld' only with 0 <= reported value <= threshold.
* C06.cross.priority           several criteria at the same sweep: conv (cache) > cb > e_vld > e > nswp; exactly
                               one documented reason.
* C06.cross.conv_consistent    with a cache and m_cache_scale in {0, 1, 2, 5}: 'conv' is reported exactly at the first
                               sweep end with m_cache > m_cache_scale * m.
* C06.cross.validate_args      all 64 combinations of m / e / nswp / e_vld / I_vld / y_vld being None or set:
                               ValueError iff (m, e, nswp all None and validation triple incomplete) or (e_vld
                               without validation data), raised BEFORE any objective call; otherwise the run ends
                               with a documented reason.
* C06.cross.default_info_no_leak  calls that share the default `info` dictionary do not influence each other.

Parameter coverage (optional `opt` dictionary of a configuration; the systematic part uses the defaults): tau in
{1, 1.01, 3}, tau0 in {1, 2}, k0 in {1, 2}; growth limits 2/2, 2/3, 3/3 (dr_min >= 2, clipped on nearly square
unfoldings), 0/1, 0/2 (1/5, 4/6, 0/5 thorough); objective scaled by 1e-12 .. 1e8 (1e+-30 thorough) and the zero
objective; d = 4, 5 (6 thorough) and mode sizes 9, 12 (20 thorough); pre-filled caches (the model starts from the
pre-filled keys; SKIP when everything the first sweep asks for is pre-filled, then the cache-specific stop fires);
the budget given as float (the form of the library's demos) or NumPy integer - info['m_max'] is the integer;
Fortran-ordered / non-contiguous starts; ragged and over-sized rank profiles of the start; validation data as
nested lists; callbacks returning None / 0 (never stop); m_cache_scale left at its documented default 5.

Input FORMS (opt keys y0 / num / call / vform, run through the budget / failing-call / callback / nswp / threshold / priority /
conv clauses; the model is built from the requests of the run in the SAME form, the contract checks are form-independent): the
start with float32 / alternating float32-float64 / int64 / int32 / alternating int64-float64 cores, read-only, Fortran-ordered,
non-contiguous cores, the core list as tuple; every numeric option (m, e, nswp, tau, dr_min, dr_max, tau0, k0, e_vld,
m_cache_scale) as np.int64 / np.float64, np.int32 / np.float32 or 0-d array (with a cache pre-filled with np.int64 -> np.float64
pairs); every argument positionally in the documented order (pos, mix:2, mix:5, min, kwmin); validation data as int32 / uint8 /
Fortran-ordered / non-contiguous / read-only index arrays or tuple of tuples, values as float32 / view / read-only / list.

Sparse objectives (opt['sparse'], `_support`): the objective is EXACTLY zero outside one slice (first / last / middle
mode), one fibre, one entry (corner / seeded position), a sub-box or two values of i_0.  The blocks the algorithm samples
then have identically zero rows, the row selection sees residuals that are exactly zero on all unselected rows and -
with dr_min >= 1 - still has to add rows; growth 1/1, 1/2, 2/3 (0/2, 0/0, 3/3 thorough) on d = 2, 3, 4, with a cache
(budget / failing call / nswp clauses: every index reaches the objective once, info['m'] = distinct indices) and without.
"""
import inspect
import numpy as np
import teneva
from rtc.api import clause, PASS, FAIL, TRIVIAL, SKIP, check
from rtc import gen


BUDGET = (60, 600)
BOUNDS = ('d in {2,3} (4, 5; 6 thorough), n_k in 1..4 (9, 12; 20 thorough), initial rank 1..3 and ragged profiles up to 5 '
          '(gauss / ones / zero cores), growth 0/0, 1/1, 1/2 and 2/2, 2/3, 3/3, 0/1, 0/2, nswp 2 (quick) / 2..3 (thorough), '
          'with and without cache (empty / pre-filled): 132 + 64 configs (quick) / 612 + 169 (thorough), every budget '
          '(int / float / NumPy int), every failing call, every callback sweep, thresholds around every reported value; '
          'tau {1,1.01,3}, tau0 {1,2}, k0 {1,2}; objective scale 1e-12..1e8 (1e+-30 thorough) and the zero objective; 8 kinds of '
          'exactly sparse objectives (slice / fibre / single entry / sub-box support) x growth 1/1, 1/2, 2/3 (quick: two of three combinations); 64 '
          'argument combinations on 2 shapes; input forms: 19 (27 thorough) combinations of start dtype f32 / mixed / i64 / read-only '
          '/ F / view / tuple, numeric options as np.int64 / np.int32 / np.float32 / 0-d, positional call forms, validation data int32 '
          '/ uint8 / F / view / float32 / tuple through 7 clauses (153 quick cases)')

FUNCS = ('cross.cross', 'cross._func', 'cross._func_eval', 'utils._info_appr')
STOPS = ('func', 'm', 'e', 'nswp', 'conv', 'e_vld', 'cb')
HUGE = 10 ** 18


class _Oracle:
    def __init__(self, T, none_at=None, guard=4000):
        self.T, self.batches, self.none_at, self.guard = T, [], none_at, guard

    def __call__(self, I):
        self.batches.append(np.array(I))
        if self.none_at is not None and len(self.batches) == self.none_at:
            return None
        if len(self.batches) > self.guard:       # safety net: a run that does not terminate
            return None
        J = np.asarray(I)
        if J.dtype.kind not in 'iu':            # the domain clause reports it; keep the run going
            J = np.rint(J).astype(int)
        return self.T[tuple(np.clip(J, 0, np.array(self.T.shape) - 1).T)]

    def rows(self):
        return sum(len(b) for b in self.batches)


def _problem(n, rho, r0, kind, tseed, yseed, opt=None):
    """opt (all optional): scale (factor on the objective; 0 -> the zero objective), sparse (one of SPARSE: the
    objective is exactly zero outside a small support, see _support), order ('F' / 'V' layout of the cores of the
    start); r0 may be an int or a rank profile."""
    opt = opt or {}
    T = gen.dense(gen.tt(n, rho, tseed, 'gauss'))
    if 'scale' in opt:
        T = T * float(opt['scale'])
    if opt.get('sparse'):
        T = T * _support(n, opt['sparse'], tseed)
    Y0 = gen.tt(n, r0, yseed, kind, order=opt.get('order') or 'C')
    if opt.get('y0'):
        # input FORM of the start (gen.tt_form); integer dtypes: integer-valued cores (rint(100 G) for Gaussian starts; the
        # 'ones' / 'zero' starts are integer-valued as they are)
        if any(t in opt['y0'] for t in ('i64', 'i32', 'imixed')):
            Y0 = [np.rint(100.0 * G) if kind == 'gauss' else G for G in Y0]
        Y0, _ = gen.tt_form(Y0, opt['y0'])
    return T, Y0


SPARSE = ('slice0', 'slicelast', 'slicemid', 'delta0', 'delta', 'fiber', 'block', 'rows2')


def _support(n, how, seed):
    """0/1 mask of an objective that vanishes EXACTLY outside a small support, so that the sampled unfolding
    blocks have identically zero rows / columns (the Gaussian values on the support stay generic):
    slice0 / slicelast / slicemid: one slice i_0 = 0 / i_{d-1} = 0 / i_{d//2} = n-1;  delta0 / delta: one entry (all
    zeros / seeded position);  fiber: one mode-(d//2) fibre through a seeded position;  block: the box i_k < ceil(n_k/2);
    rows2: two seeded values of i_0 (one if n_0 < 3)."""
    d = len(n)
    g = gen.rng('C06sup', n, how, seed)
    pos = [int(g.integers(0, k)) for k in n]
    M = np.zeros(n)
    if how == 'slice0':
        M[0] = 1.0
    elif how == 'slicelast':
        M[..., 0] = 1.0
    elif how == 'slicemid':
        M[(slice(None),) * (d // 2) + (n[d // 2] - 1,)] = 1.0
    elif how == 'delta0':
        M[(0,) * d] = 1.0
    elif how == 'delta':
        M[tuple(pos)] = 1.0
    elif how == 'fiber':
        M[tuple(pos[:d // 2]) + (slice(None),) + tuple(pos[d // 2 + 1:])] = 1.0
    elif how == 'block':
        M[tuple(slice(0, -(-k // 2)) for k in n)] = 1.0
    elif how == 'rows2':
        M[pos[0]] = 1.0
        if n[0] >= 3:
            M[(pos[0] + 1 + int(g.integers(0, n[0] - 1))) % n[0]] = 1.0
    else:
        raise ValueError(how)
    return M


NUMS = ('m', 'e', 'nswp', 'tau', 'dr_min', 'dr_max', 'tau0', 'k0', 'e_vld', 'm_cache_scale')
# documented order of the parameters of cross and their documented defaults (positional call forms, gen.call_form)
XNAMES = ('f', 'Y0', 'm', 'e', 'nswp', 'tau', 'dr_min', 'dr_max', 'tau0', 'k0', 'info', 'cache', 'I_vld', 'y_vld', 'e_vld',
          'cb', 'func', 'm_cache_scale', 'log')
XDEFAULTS = (gen.call_form.REQ, gen.call_form.REQ, None, None, None, 1.1, 1, 1, 1.05, 100, None, None, None, None, None, None,
             None, 5, False)


def _xkw(opt):
    """Keyword arguments of cross named in opt (tau, tau0, k0) and, under '_form', the FORM of the call (taken out by _run):
    num = 'np64' / 'np32' / '0d' (every numeric option as NumPy scalar / 0-d array; the suite's "never" value 10**18 of
    m_cache_scale stays a Python int - 10**18 * info['m'] leaves int64), call = 'pos' / 'mix:k' / 'min' / 'kwmin' (documented
    parameter order)."""
    kw = {key: opt[key] for key in ('tau', 'tau0', 'k0') if key in (opt or {})}
    if (opt or {}).get('num') or (opt or {}).get('call'):
        kw['_form'] = {key: opt[key] for key in ('num', 'call') if key in opt}
    return kw


def _pre(T, n, opt, seed):
    """Pre-filled cache (opt['prefill'] true pairs index -> value) or None."""
    cnt = (opt or {}).get('prefill')
    if not cnt:
        return None
    g = gen.rng('C06pre', seed)
    pre = {}
    for _ in range(cnt):
        key = tuple(int(g.integers(0, k)) for k in n)
        pre[key] = float(T[key])
    return pre


def _vld(T, n, seed, cnt=9, opt=None):
    g = gen.rng('C06vld', seed)
    I = np.stack([g.integers(0, k, size=cnt) for k in n], axis=1)
    vf = (opt or {}).get('vform')
    if vf == 'list':
        return I.tolist(), [float(v) for v in T[tuple(I.T)]]
    if vf:      # 'i32+F|f32', 'u8+ro', 'tuple|list', 'V|V': forms of the index array | of the values (gen.idx_form / val_form)
        fi, _, fy = vf.partition('|')
        return gen.idx_form(I, fi), gen.val_form(T[tuple(I.T)], fy)[0]
    return I, T[tuple(I.T)]


def _run(T, Y0, cache, none_at=None, cb_at=None, cb_ret=True, cb_else=False, pre=None, **kw):
    """cache: False (none) / True (a dictionary: empty, or a copy of the pre-filled `pre`)."""
    f = _Oracle(T, none_at)
    info, log = {}, []

    def cb(Y, info_, opts):
        log.append(dict(nswp=info_['nswp'], e=info_['e'], e_vld=info_['e_vld'], m=info_['m'],
                        m_cache=info_['m_cache'], calls=len(f.batches), stop=info_['stop']))
        return cb_ret if (cb_at is not None and info_['nswp'] == cb_at) else cb_else

    form = kw.pop('_form', None) or {}
    kw.update(info=info, cache=(dict(pre) if pre else {}) if cache else None, cb=cb)
    if cache and pre and form.get('num'):       # (NumPy-typed calls also get a cache pre-filled with NumPy-typed pairs)
        kw['cache'] = {tuple(np.int64(x) for x in key): np.float64(val) for key, val in pre.items()}
    if form.get('num'):
        names = [q for q in NUMS if not (q == 'm_cache_scale' and kw.get(q) == HUGE)]
        kw = gen.num_kwargs(kw, form['num'], names if form['num'] != 'float' else ('m',))     # ('float': the budget only)
    if form.get('call'):
        vals = [f, Y0] + [kw.get(name, dv) for name, dv in zip(XNAMES[2:], XDEFAULTS[2:])]
        assert set(kw) <= set(XNAMES)
        Y = gen.call_form(teneva.cross, XNAMES, vals, XDEFAULTS, form['call'])
    else:
        Y = teneva.cross(f, Y0, **kw)
    return Y, info, f, log


def _model(U, cache, m=None, none_at=None, pre=None):
    """Independent model of the evaluation contract (see module docstring); pre: pre-filled cache keys."""
    seen, batches, ev, hits, calls, stop = set(pre or ()), [], 0, 0, 0, None
    for Uj in U:
        if cache:
            keep = [i for i, row in enumerate(Uj) if tuple(row.tolist()) not in seen]
            new = Uj[keep]
        else:
            new = Uj
        if len(new):
            if m is not None and ev + len(new) > m:
                stop = 'm'
                break
            calls += 1
            batches.append(new)
            if none_at is not None and calls == none_at:
                stop = 'func'
                break
            seen.update(tuple(r.tolist()) for r in new)
        ev += len(new)
        hits += len(Uj) - len(new)
    return dict(batches=batches, m=ev, m_cache=hits, stop=stop)


def _conv_fires(U, pre, d):
    """With a pre-filled cache: is everything the first sweep requests pre-filled?  Then no evaluation happens
    in sweep 1 and the cache-specific stop 'conv' (m_cache > m_cache_scale * 0) fires - outside these clauses."""
    return bool(pre) and all(tuple(r.tolist()) in pre for Uj in U[:2 * d] for r in Uj)


def _contract(Y, info, f, n, m=None, cache=False):
    """Clauses that hold for EVERY run; returns a message or None."""
    d = len(n)
    msg = gen.wf(Y, n)
    if msg:
        return 'result not a well-formed TT of the original shape: ' + msg
    if not gen.finite(Y):
        return 'result has non-finite entries'
    for j, b in enumerate(f.batches):
        if not isinstance(b, np.ndarray) or b.ndim != 2 or b.shape[1] != d or len(b) < 1:
            return f'batch {j} has shape {getattr(b, "shape", None)}, expected (k >= 1, {d})'
        if b.dtype.kind not in 'iu':
            return f'batch {j} has dtype {b.dtype}'
        if (b < 0).any() or (b >= np.array(n)).any():
            return f'batch {j} leaves the bounds {n}: {b[((b < 0) | (b >= np.array(n))).any(axis=1)][0].tolist()}'
    asked = f.rows()
    if m is not None and asked > m:
        return f'{asked} indices asked with budget m = {m}'
    failed = info.get('stop') == 'func'
    evaluated = asked - (len(f.batches[-1]) if failed and f.batches else 0)
    if info.get('m') != evaluated:
        return f"info['m'] = {info.get('m')} but {evaluated} indices were evaluated (stop {info.get('stop')})"
    if info.get('stop') not in STOPS:
        return f"stop reason {info.get('stop')!r} is not documented"
    if info.get('m_max') != (None if m is None else int(m)) or isinstance(info.get('m_max'), float):
        return f"info['m_max'] = {info.get('m_max')!r} for m = {m!r}"
    if cache:
        rows = [tuple(r.tolist()) for b in f.batches for r in b]
        if len(set(rows)) != len(rows):
            return f'{len(rows) - len(set(rows))} indices evaluated more than once although a cache is used'
    elif info.get('m_cache') != 0:
        return f"m_cache = {info.get('m_cache')} without a cache"
    return None


def _same_batches(got, want):
    if len(got) != len(want):
        return f'{len(got)} batches reached the objective, expected {len(want)}'
    for j, (a, b) in enumerate(zip(got, want)):
        if a.shape != b.shape or not np.array_equal(a, b):
            return f'batch {j} differs from the request of the unconstrained run'
    return None


def _reference(T, Y0, kw):
    """Requests of the unconstrained, uncached run."""
    Y, info, f, log = _run(T, Y0, False, **kw)
    return f.batches, info, log


@clause('C06.cross.budget_every_m', funcs=FUNCS)
def budget_every_m(n, rho, r0, kind, dr_min, dr_max, nswp, tseed, yseed, cache, part, parts, opt=None):
    """Every budget m (those with m % parts == part): domain, asked <= m, counters, maximal prefix, stop reason.
    opt: see _problem / _xkw / _pre; mform = 'float' / 'np' passes the budget as float (the form used in the
    library's own demos, m=1.E+4) / as NumPy integer."""
    T, Y0 = _problem(n, rho, r0, kind, tseed, yseed, opt)
    kw = dict(nswp=nswp, dr_min=dr_min, dr_max=dr_max, m_cache_scale=HUGE, **_xkw(opt))
    pre = _pre(T, n, opt, tseed) if cache else None
    mform = (opt or {}).get('mform')
    U, iref, _ = _reference(T, Y0, kw)
    if iref['stop'] != 'nswp' or len(U) != 2 * len(n) * nswp:
        return FAIL(f"reference run: stop {iref['stop']}, {len(U)} requests, expected {2 * len(n) * nswp}")
    if _conv_fires(U, pre, len(n)):
        return SKIP("everything the first sweep requests is pre-filled: the cache-specific stop 'conv' fires")
    full = _model(U, cache, pre=pre)
    tot = full['m']
    tested = 0
    for m in range(1, tot + 2):
        if m % parts != part:
            continue
        tested += 1
        m_arg = float(m) if mform == 'float' else (np.int64(m) if mform == 'np' else m)
        Y, info, f, log = _run(T, Y0, cache, m=m_arg, pre=pre, **kw)
        msg = _contract(Y, info, f, n, m, cache)
        if msg:
            return FAIL(f'm = {m} of {tot}: {msg}')
        if pre and any(tuple(r.tolist()) in pre for b in f.batches for r in b):
            return FAIL(f'm = {m}: a pre-filled index was evaluated')
        want = _model(U, cache, m=m, pre=pre)
        msg = _same_batches(f.batches, want['batches'])
        if msg:
            return FAIL(f'm = {m} of {tot}: {msg} (stop {info["stop"]})')
        if info['stop'] != (want['stop'] or 'nswp'):
            return FAIL(f"m = {m} of {tot}: stop {info['stop']!r}, expected {(want['stop'] or 'nswp')!r} "
                        f"(evaluated {info['m']})")
        if info['m'] != want['m'] or info['m_cache'] != want['m_cache']:
            return FAIL(f"m = {m}: counters m/m_cache {info['m']}/{info['m_cache']}, model {want['m']}/{want['m_cache']}")
        if info['stop'] == 'nswp' and info['nswp'] != nswp:
            return FAIL(f"m = {m}: stop nswp after {info['nswp']} sweeps")
        if info['nswp'] != len(log):
            return FAIL(f"m = {m}: info['nswp'] {info['nswp']} but {len(log)} completed sweeps")
    return PASS if tested else TRIVIAL('no budget in this part')


@clause('C06.cross.func_none_every_k', funcs=FUNCS)
def func_none_every_k(n, rho, r0, kind, dr_min, dr_max, nswp, tseed, yseed, cache, opt=None):
    """Objective returns None at its k-th call, every k: stop 'func', k calls, counters, well-formed result."""
    T, Y0 = _problem(n, rho, r0, kind, tseed, yseed, opt)
    kw = dict(nswp=nswp, dr_min=dr_min, dr_max=dr_max, m_cache_scale=HUGE, **_xkw(opt))
    pre = _pre(T, n, opt, tseed) if cache else None
    U, iref, _ = _reference(T, Y0, kw)
    if _conv_fires(U, pre, len(n)):
        return SKIP("everything the first sweep requests is pre-filled: the cache-specific stop 'conv' fires")
    ncalls = len(_model(U, cache, pre=pre)['batches'])
    for k in range(1, ncalls + 1):
        Y, info, f, log = _run(T, Y0, cache, none_at=k, pre=pre, **kw)
        msg = _contract(Y, info, f, n, None, cache)
        if msg:
            return FAIL(f'None at call {k} of {ncalls}: {msg}')
        if info['stop'] != 'func':
            return FAIL(f"None at call {k} of {ncalls}: stop {info['stop']!r}")
        want = _model(U, cache, none_at=k, pre=pre)
        msg = _same_batches(f.batches, want['batches'])
        if msg:
            return FAIL(f'None at call {k}: {msg}')
        if info['m'] != want['m'] or info['m_cache'] != want['m_cache']:
            return FAIL(f"None at call {k}: counters {info['m']}/{info['m_cache']}, model {want['m']}/{want['m_cache']}")
        if info['nswp'] != len(log):
            return FAIL(f"None at call {k}: info['nswp'] {info['nswp']} but {len(log)} completed sweeps")
    return PASS


@clause('C06.cross.cb_every_sweep', funcs=FUNCS)
def cb_every_sweep(n, rho, r0, kind, dr_min, dr_max, nswp, tseed, yseed, cache, opt=None):
    """Callback returns True at sweep s, every s: stop 'cb' right after that sweep; a callback that returns
    False / None / 0 (opt['cb_else'], default False) never stops the run."""
    T, Y0 = _problem(n, rho, r0, kind, tseed, yseed, opt)
    d = len(n)
    kw = dict(nswp=nswp, dr_min=dr_min, dr_max=dr_max, m_cache_scale=HUGE, **_xkw(opt))
    cb_else = {'none': None, 'zero': 0}.get((opt or {}).get('cb_else'), False)
    kw['cb_else'] = cb_else
    # DOUBTFUL (disabled, see the report): a callback returning numpy.True_ (e.g. `return info['e'] < 1e-3`, the
    # reported values are NumPy floats) does NOT stop the run, the library tests `cb(...) is True`; the docstring
    # says "returns a true value", the property text "returned True".  cb_ret=np.True_ would be the case.
    U, iref, _ = _reference(T, Y0, kw)
    for s in range(1, nswp + 1):
        Y, info, f, log = _run(T, Y0, cache, cb_at=s, **kw)
        msg = _contract(Y, info, f, n, None, cache)
        if msg:
            return FAIL(f'callback at sweep {s}: {msg}')
        if info['stop'] != 'cb' or info['nswp'] != s or len(log) != s:
            return FAIL(f"callback True at sweep {s}: stop {info['stop']!r}, info['nswp'] {info['nswp']}, "
                        f"{len(log)} callback calls")
        if log[-1]['calls'] != len(f.batches):
            return FAIL(f'callback at sweep {s}: objective called after the callback returned True')
        want = _model(U[:2 * d * s], cache)
        msg = _same_batches(f.batches, want['batches'])
        if msg:
            return FAIL(f'callback at sweep {s}: {msg}')
        if info['m'] != want['m'] or info['m_cache'] != want['m_cache']:
            return FAIL(f"callback at sweep {s}: counters {info['m']}/{info['m_cache']}")
    # a callback that never returns True does not stop the run
    Y, info, f, log = _run(T, Y0, cache, cb_at=None, **kw)
    if info['stop'] != 'nswp' or info['nswp'] != nswp:
        return FAIL(f"callback returning False: stop {info['stop']!r} after {info['nswp']}")
    return PASS


@clause('C06.cross.stop_nswp', funcs=FUNCS)
def stop_nswp(n, rho, r0, kind, dr_min, dr_max, nswp, tseed, yseed, cache, opt=None):
    """nswp alone: 'nswp' after exactly nswp sweeps (callback calls, 2*d requests per sweep)."""
    T, Y0 = _problem(n, rho, r0, kind, tseed, yseed, opt)
    d = len(n)
    Y, info, f, log = _run(T, Y0, cache, nswp=nswp, dr_min=dr_min, dr_max=dr_max, m_cache_scale=HUGE, **_xkw(opt))
    msg = _contract(Y, info, f, n, None, cache)
    if msg:
        return FAIL(msg)
    if info['stop'] != 'nswp' or info['nswp'] != nswp or len(log) != nswp:
        return FAIL(f"stop {info['stop']!r}, info['nswp'] {info['nswp']}, {len(log)} callback calls, nswp = {nswp}")
    if not cache:
        want = 2 * d * nswp if nswp else 1
        if len(f.batches) != want:
            return FAIL(f'{len(f.batches)} requests for {nswp} sweeps, expected {want}')
    if nswp == 0:
        # documented: only the maxvol pre-iteration is performed -> the tensor does not depend on f
        T2 = gen.dense(gen.tt(n, rho, tseed + 1, 'gauss'))
        Y2, _, _, _ = _run(T2, Y0, cache, nswp=0, dr_min=dr_min, dr_max=dr_max, m_cache_scale=HUGE, **_xkw(opt))
        if any(not np.array_equal(A, B) for A, B in zip(Y, Y2)):
            return FAIL('nswp = 0: result depends on the objective')
    return PASS


def _predict(traj, evld0, nswp=None, e=None, e_vld=None, cb_at=None, conv_scale=None):
    """(reason, sweep) from the reported values of the reference run; priority conv > cb > e_vld > e > nswp."""
    def ok(v, thr):
        return thr is not None and v >= 0 and v <= thr and not np.isinf(v)
    if ok(evld0, e_vld):
        return 'e_vld', 0
    if nswp is not None and 0 >= nswp:
        return 'nswp', 0
    for t in traj:
        s = t['nswp']
        if conv_scale is not None and t['m_cache'] > conv_scale * t['m']:
            return 'conv', s
        if cb_at is not None and s == cb_at:
            return 'cb', s
        if ok(t['e_vld'], e_vld):
            return 'e_vld', s
        if ok(t['e'], e):
            return 'e', s
        if nswp is not None and s >= nswp:
            return 'nswp', s
    return None, None


def _consistent(info, kw):
    st = info['stop']
    if st == 'e' and not (kw.get('e') is not None and 0 <= info['e'] <= kw['e']):
        return f"stop 'e' with reported e {info['e']} and threshold {kw.get('e')}"
    if st == 'e_vld' and not (kw.get('e_vld') is not None and 0 <= info['e_vld'] <= kw['e_vld']):
        return f"stop 'e_vld' with reported e_vld {info['e_vld']} and threshold {kw.get('e_vld')}"
    if st == 'nswp' and info['nswp'] != kw.get('nswp'):
        return f"stop 'nswp' after {info['nswp']} sweeps, nswp = {kw.get('nswp')}"
    return None


@clause('C06.cross.stop_thresholds', funcs=FUNCS)
def stop_thresholds(n, rho, r0, kind, dr_min, dr_max, nswp, tseed, yseed, cache, opt=None):
    """Thresholds just above / below each reported e and e_vld: stop at the first sweep where one holds."""
    T, Y0 = _problem(n, rho, r0, kind, tseed, yseed, opt)
    I_vld, y_vld = _vld(T, n, tseed, opt=opt)
    base = dict(dr_min=dr_min, dr_max=dr_max, m_cache_scale=HUGE, I_vld=I_vld, y_vld=y_vld, **_xkw(opt))
    Y, iref, f, traj = _run(T, Y0, cache, nswp=nswp, **base)
    if iref['stop'] != 'nswp' or len(traj) != nswp:
        return FAIL(f"reference run: stop {iref['stop']}, {len(traj)} sweeps")
    _, i0, _, _ = _run(T, Y0, cache, nswp=0, **base)
    evld0 = i0['e_vld']
    rep = [evld0] + [t[key] for t in traj for key in ('e', 'e_vld')]
    if not all(np.isfinite(v) for v in rep):
        return FAIL(f'non-finite reported e / e_vld (the thresholds around them cannot be placed): {rep}')
    up, dn = 1 + 1e-9, 1 - 1e-9
    settings = []
    for t in traj:
        for fac in (up, dn):
            if t['e'] > 0:
                settings.append(dict(e=t['e'] * fac))
            if t['e_vld'] > 0:
                settings.append(dict(e_vld=t['e_vld'] * fac))
            if t['e'] > 0 and t['e_vld'] > 0:
                settings.append(dict(e=t['e'] * fac, e_vld=t['e_vld'] * fac))
                settings.append(dict(e=t['e'] * fac, e_vld=t['e_vld'] * (2 - fac)))
    for fac in (up, dn):
        if evld0 > 0:
            settings.append(dict(e_vld=evld0 * fac))
    settings += [dict(e=1e+10), dict(e_vld=1e+10), dict(e=0.0), dict(e_vld=0.0), dict(e=1e+10, e_vld=1e+10)]
    for st in settings:
        for with_nswp in (True, False):
            kw = dict(st)
            if with_nswp:
                kw['nswp'] = nswp
            reason, sweep = _predict(traj, evld0, **kw)
            if reason is None:
                continue            # would not terminate within the reference horizon
            Y, info, f, log = _run(T, Y0, cache, **kw, **base)
            msg = _contract(Y, info, f, n, None, cache) or _consistent(info, kw)
            if msg:
                return FAIL(f'{kw}: {msg}')
            if (info['stop'], info['nswp']) != (reason, sweep):
                return FAIL(f"{kw}: stopped with {info['stop']!r} after {info['nswp']} sweeps, expected {reason!r} "
                            f"after {sweep}; reported e {[t['e'] for t in traj]}, e_vld {[evld0] + [t['e_vld'] for t in traj]}")
            if len(log) != info['nswp']:
                return FAIL(f"{kw}: info['nswp'] {info['nswp']} but {len(log)} completed sweeps")
    return PASS


@clause('C06.cross.priority', funcs=FUNCS)
def priority(n, rho, r0, kind, dr_min, dr_max, nswp, tseed, yseed, opt=None):
    """Several criteria hold at the same sweep: conv > cb > e_vld > e > nswp, exactly one documented reason."""
    T, Y0 = _problem(n, rho, r0, kind, tseed, yseed, opt)
    I_vld, y_vld = _vld(T, n, tseed, opt=opt)
    base = dict(dr_min=dr_min, dr_max=dr_max, I_vld=I_vld, y_vld=y_vld, **_xkw(opt))
    _, iref, _, traj = _run(T, Y0, True, nswp=nswp, m_cache_scale=HUGE, **base)
    _, i0, _, _ = _run(T, Y0, True, nswp=0, m_cache_scale=HUGE, **base)
    evld0 = i0['e_vld']
    rep = [evld0] + [t[key] for t in traj for key in ('e', 'e_vld')]
    if not all(np.isfinite(v) for v in rep):
        return FAIL(f'non-finite reported e / e_vld (the criteria cannot be placed): {rep}')
    done = 0
    for s in range(1, nswp + 1):
        t = traj[s - 1]
        # thresholds that hold at sweep s but not before
        e_ok = t['e'] > 0 and all(u['e'] > t['e'] * 1.001 or u['e'] < 0 for u in traj[:s - 1])
        v_ok = t['e_vld'] > 0 and evld0 > t['e_vld'] * 1.001 and all(u['e_vld'] > t['e_vld'] * 1.001 for u in traj[:s - 1])
        conv_ok = t['m_cache'] > 0 and all(u['m_cache'] == 0 for u in traj[:s - 1])
        crit = {'nswp': dict(nswp=s)}
        if e_ok:
            crit['e'] = dict(e=t['e'] * 1.0001)
        if v_ok:
            crit['e_vld'] = dict(e_vld=t['e_vld'] * 1.0001)
        order = ['conv', 'cb', 'e_vld', 'e', 'nswp']
        avail = [c for c in order if c in crit or c == 'cb' or (c == 'conv' and conv_ok)]
        # every non-empty subset of the criteria that can be made to hold at sweep s (and not earlier)
        for mask in range(1, 1 << len(avail)):
            sub = [c for j, c in enumerate(avail) if mask >> j & 1]
            kw, cb_at, scale = {}, None, HUGE
            for c in sub:
                if c == 'cb':
                    cb_at = s
                elif c == 'conv':
                    scale = 0
                else:
                    kw.update(crit[c])
            kw.setdefault('nswp', nswp)     # guarantees termination; if it coincides it has the lowest priority
            want = sub[0]
            cache = True                    # the trajectory was recorded with a cache
            Y, info, f, log = _run(T, Y0, cache, cb_at=cb_at, m_cache_scale=scale, **kw, **base)
            msg = _contract(Y, info, f, n, None, cache) or _consistent(info, kw)
            if msg:
                return FAIL(f'sweep {s}, criteria {sub}: {msg}')
            if info['stop'] != want or info['nswp'] != s:
                return FAIL(f"sweep {s}, criteria {sub} hold together: stop {info['stop']!r} after {info['nswp']} "
                            f"sweeps, expected {want!r} after {s}")
            done += 1
    return PASS if done else TRIVIAL('no combination')


@clause('C06.cross.conv_consistent', funcs=('cross.cross',))
def conv_consistent(n, rho, r0, kind, dr_min, dr_max, nswp, tseed, yseed, scale, opt=None):
    """With a cache: 'conv' exactly at the first sweep end with m_cache > m_cache_scale * m (else 'nswp');
    scale = None: the argument is left out (documented default 5)."""
    T, Y0 = _problem(n, rho, r0, kind, tseed, yseed, opt)
    base = dict(dr_min=dr_min, dr_max=dr_max, **_xkw(opt))
    _, iref, _, traj = _run(T, Y0, True, nswp=nswp, m_cache_scale=HUGE, **base)
    if scale is None:
        reason, sweep = _predict(traj, -1, nswp=nswp, conv_scale=5)
        Y, info, f, log = _run(T, Y0, True, nswp=nswp, **base)
        scale = 5
    else:
        reason, sweep = _predict(traj, -1, nswp=nswp, conv_scale=scale)
        Y, info, f, log = _run(T, Y0, True, nswp=nswp, m_cache_scale=scale, **base)
    msg = _contract(Y, info, f, n, None, True)
    if msg:
        return FAIL(msg)
    if (info['stop'], info['nswp']) != (reason, sweep):
        return FAIL(f"stop {info['stop']!r} after {info['nswp']}, expected {reason!r} after {sweep}; "
                    f"m/m_cache per sweep {[(t['m'], t['m_cache']) for t in traj]}, scale {scale}")
    if info['stop'] == 'conv' and not info['m_cache'] > scale * info['m']:
        return FAIL(f"'conv' with m_cache {info['m_cache']} <= {scale} * m {info['m']}")
    return PASS if reason == 'conv' else TRIVIAL('conv does not fire within nswp')


@clause('C06.cross.validate_args', funcs=('cross.cross',))
def validate_args(n, r0, yseed, m, e, nswp, e_vld, has_I, has_y):
    """Missing stop criteria -> ValueError before any evaluation; otherwise a documented stop."""
    T, Y0 = _problem(n, 8, r0, 'gauss', 11, yseed)
    I_vld, y_vld = _vld(T, n, 5)
    f = _Oracle(T, guard=300)
    info = {}
    kw = dict(m=m, e=e, nswp=nswp, e_vld=e_vld, I_vld=I_vld if has_I else None, y_vld=y_vld if has_y else None)
    must_raise = (m is None and e is None and nswp is None and not (has_I and has_y and e_vld is not None)) \
        or (e_vld is not None and not (has_I and has_y))
    try:
        Y = teneva.cross(f, Y0, info=info, **kw)
        raised = None
    except ValueError as ex:
        raised = ex
    if must_raise:
        if raised is None:
            return FAIL(f"no ValueError although the stop arguments are insufficient; stop {info.get('stop')!r}")
        if f.batches:
            return FAIL(f'ValueError raised after {len(f.batches)} objective calls')
        return PASS
    if raised is not None:
        return FAIL(f'ValueError for a sufficient set of stop arguments: {raised}')
    if len(f.batches) > f.guard:
        return FAIL('run did not terminate (safety net of the objective fired)')
    msg = _contract(Y, info, f, n, m, False) or _consistent(info, kw)
    return check(msg is None, msg)


@clause('C06.cross.default_info_no_leak', funcs=('cross.cross',))
def default_info_no_leak(n, r0, yseed, first):
    """Two calls that share the default info dictionary behave like calls with fresh dictionaries."""
    T, Y0 = _problem(n, 8, r0, 'gauss', 11, yseed)
    default = inspect.signature(teneva.cross).parameters['info'].default
    if not isinstance(default, dict):
        return TRIVIAL('no shared default dictionary')
    saved = dict(default)
    try:
        f1 = _Oracle(T)
        if first == 'm':
            teneva.cross(f1, Y0, m=max(1, n[0]), dr_min=1, dr_max=1)
        elif first == 'func':
            f1.none_at = 2
            teneva.cross(f1, Y0, nswp=2)
        else:
            teneva.cross(f1, Y0, nswp=1, cache={})
        f2 = _Oracle(T)
        Ya = teneva.cross(f2, Y0, nswp=2)
        shared = dict(default)
        f3, fresh = _Oracle(T), {}
        Yb = teneva.cross(f3, Y0, nswp=2, info=fresh)
    finally:
        default.clear()
        default.update(saved)
    if len(Ya) != len(Yb) or any(not np.array_equal(A, B) for A, B in zip(Ya, Yb)):
        return FAIL(f'result after a {first!r}-interrupted call differs from a call with a fresh info dict')
    if _same_batches(f2.batches, f3.batches):
        return FAIL('objective requests differ: ' + _same_batches(f2.batches, f3.batches))
    for key in ('stop', 'nswp', 'm', 'm_cache', 'm_max', 'with_cache'):
        if shared.get(key) != fresh.get(key):
            return FAIL(f'info[{key!r}]: shared default {shared.get(key)!r} vs fresh {fresh.get(key)!r}')
    return PASS


# ----------------------------------------------------------------------------------------------- cases

def _configs(tier, seed):
    big = tier == 'thorough'
    g = gen.rng('C06', seed)
    shapes = [[2, 2], [3, 4], [4, 1], [1, 3], [4, 4], [2, 3, 2], [3, 3, 3], [4, 1, 3], [1, 2, 1], [4, 2, 3], [2, 4, 4]]
    if big:
        shapes += [[1, 1], [2, 4], [4, 4, 4], [3, 1, 1], [2, 2, 2], [1, 4, 2]]
    out, k = [], 0
    for n in shapes:
        for (a, b) in ((0, 0), (1, 1), (1, 2)):
            for r0 in ((1, 2, 3) if big else (1, 2)):
                for rep in range(2 if big else 1):
                    k += 1
                    kind = ('gauss', 'gauss', 'ones', 'gauss', 'zero', 'gauss')[k % 6]
                    rho = (8, 2)[k % 2]
                    nswp = 3 if (big and np.prod(n) <= 16 and rep == 0) else 2
                    for cache in (False, True):
                        out.append(dict(n=n, rho=rho, r0=r0 if kind == 'gauss' else max(2, r0), kind=kind, dr_min=a,
                                        dr_max=b, nswp=nswp, tseed=int(g.integers(1 << 30)),
                                        yseed=int(g.integers(1 << 30)), cache=cache))
    return out


def cases(tier, seed):
    big = tier == 'thorough'
    cfgs = _configs(tier, seed)
    for c in cfgs:
        size = int(np.prod(c['n'])) * (1 + c['dr_max'])
        parts = 1 if size <= 12 else (3 if size <= 30 else 6)
        for part in range(parts):
            yield 'C06.cross.budget_every_m', dict(c, part=part, parts=parts)
        yield 'C06.cross.func_none_every_k', c
        yield 'C06.cross.cb_every_sweep', c
        yield 'C06.cross.stop_thresholds', dict(c, nswp=3)
        for nswp in (0, 1, 2, 3):
            yield 'C06.cross.stop_nswp', dict(c, nswp=nswp)
        nc = {k: v for k, v in c.items() if k != 'cache'}
        yield 'C06.cross.priority', dict(nc, nswp=3)
        for scale in (0, 1, 2, 5):
            yield 'C06.cross.conv_consistent', dict(nc, nswp=4, scale=scale)
    # ------------------------------------------------------------ parameter / regime coverage (own generator)
    g2 = gen.rng('C06cov', seed)

    def cfg(n, rho, r0, a, b, cache, opt=None, kind='gauss', nswp=2):
        c = dict(n=n, rho=rho, r0=r0, kind=kind, dr_min=a, dr_max=b, nswp=nswp, tseed=int(g2.integers(1 << 30)),
                 yseed=int(g2.integers(1 << 30)), cache=cache)
        if opt:
            c['opt'] = opt
        return c

    def emit(c, which, some_parts=None):
        """which: subset of 'b' budget, 'f' func, 'c' callback, 'n' nswp, 't' thresholds, 'p' priority, 'v' conv."""
        if 'b' in which:
            size = int(np.prod(c['n'])) * (1 + c['dr_max'])
            parts = 1 if size <= 12 else (3 if size <= 30 else (6 if size <= 80 else 12))
            for part in range(parts):
                if some_parts is None or big or part % max(1, parts // some_parts) == 0:
                    yield 'C06.cross.budget_every_m', dict(c, part=part, parts=parts)
        if 'f' in which:
            yield 'C06.cross.func_none_every_k', c
        if 'c' in which:
            yield 'C06.cross.cb_every_sweep', c
        if 'n' in which:
            for nswp in ((0, 1, 2, 3) if big else (0, 2)):
                yield 'C06.cross.stop_nswp', dict(c, nswp=nswp)
        if 't' in which:
            yield 'C06.cross.stop_thresholds', dict(c, nswp=3)
        nc = {q: v for q, v in c.items() if q != 'cache'}
        if 'p' in which:
            yield 'C06.cross.priority', dict(nc, nswp=3)
        if 'v' in which:
            for scale in (None, 5):
                yield 'C06.cross.conv_consistent', dict(nc, nswp=4, scale=scale)

    two = [[3, 4], [2, 3, 2]]
    some = two + ([[2, 2], [4, 1, 3], [4, 4]] if big else [])
    k = 0
    # (a) accuracy parameters / iteration limit of the row selection
    for o in ({'tau': 1.0}, {'tau': 3.0}, {'tau0': 2.0}, {'k0': 1}, {'tau': 1.01, 'tau0': 1.0, 'k0': 2}):
        for n in some:
            k += 1
            yield from emit(cfg(n, (8, 2)[k % 2], 1 + k % 2, 1, 2, bool(k % 2), o), 'bfcnt' + ('pv' if big else ''))
    # (b) growth limits: dr_min >= 2 (clipped on nearly square unfoldings), dr_min = 0 < dr_max, wide gaps
    for (a, b) in ((2, 2), (2, 3), (0, 1), (0, 2), (3, 3)) + (((1, 5), (4, 6), (0, 5)) if big else ()):
        for n in [[2, 2]] + some:
            k += 1
            yield from emit(cfg(n, (8, 2)[k % 2], 1 + k % 2, a, b, bool(k % 2)), 'bfcn' + ('tpv' if big else ''))
    # (c) scale of the objective (relative criteria), the zero objective
    for sc in (1e-12, 1e8, 0.0) + ((1e-8, 1e-4, 1e4, 1e-30, 1e30) if big else ()):
        for n in some:
            k += 1
            yield from emit(cfg(n, (8, 2)[k % 2], 2, 1, 1 + k % 2, bool(k % 2), {'scale': sc}),
                            'bfcn' + ('t' if sc else '') + ('pv' if big and sc else ''))
    # (d) more modes, larger modes
    for n in ([2, 2, 2, 2], [2, 1, 2, 2, 2], [12, 2], [2, 9, 2]) + (([2] * 6, [3, 2, 2, 3], [20, 3], [1, 1, 1, 1]) if big else ()):
        for cache in (False, True):
            k += 1
            yield from emit(cfg(n, (8, 2)[k % 2], 1 + k % 2, k % 2, 1, cache), 'bfcn' + ('tpv' if big else ''), some_parts=2)
    # (e) pre-filled cache, (f) budget given as float / NumPy integer, (i) memory layout of the start,
    # (k) ragged and over-sized rank profiles of the start
    for n in some + [[2, 2]]:
        k += 1
        d = len(n)
        yield from emit(cfg(n, 8, 2, 1, 1, True, {'prefill': 5}), 'bf')
        yield from emit(cfg(n, 2, 1, 1, 2, True, {'prefill': 40}), 'bf' if big else 'f')
        yield from emit(cfg(n, 8, 2, 1, 1, bool(k % 2), {'mform': ('float', 'np')[k % 2]}), 'b')
        yield from emit(cfg(n, 8, 2, 0, 1, bool(k % 2), {'order': ('F', 'V')[k % 2]}), 'bf')
        yield from emit(cfg(n, 2, [1] + [5, 2, 3, 4][:d - 1] + [1], k % 2, 1, bool(k % 2)), 'bfc')
    # (g) validation data as nested lists, (h) callbacks returning None / 0, (j) m_cache_scale left at its default
    for n in two:
        k += 1
        yield from emit(cfg(n, 8, 2, 1, 1, bool(k % 2), {'vform': 'list'}), 'tp')
        for ce in ('none', 'zero'):
            yield from emit(cfg(n, 8, 2, 1, 1, ce == 'zero', {'cb_else': ce}), 'c')
        for (a, b) in ((0, 0), (1, 1)):
            yield from emit(cfg(n, 2, 2, a, b, True), 'v')
    # (l) objectives that vanish exactly outside a small support (one slice, one fibre, one entry, a sub-box): the sampled
    # unfolding blocks have identically zero rows, so the row selection meets residuals that are exactly zero on every
    # not yet selected row while dr_min >= 1 forces it to add rows - the index sets must stay duplicate-free (with a
    # cache no index may reach the objective twice, info['m'] counts distinct indices, the budget is not charged twice)
    dims = [[3, 3], [4, 3, 3], [2, 3, 2], [3, 2, 2, 3]] + ([[5, 4, 3, 4], [2, 2], [4, 1, 3]] if big else [])
    grows = [(1, 1), (1, 2), (2, 3)] + ([(0, 2), (0, 0), (3, 3)] if big else [])
    for si, sp in enumerate(SPARSE):
        for q, n in enumerate(dims):
            for w, (a, b) in enumerate(grows):
                k += 1
                pick = (si + q + w) % 3
                if big or pick != 2:
                    which = 'fn' if len(n) > 4 or int(np.prod(n)) > 40 else ('bfn' + ('c' if pick == 0 else ''))
                    yield from emit(cfg(n, (8, 2)[k % 2], 1 + k % 2, a, b, True, {'sparse': sp}), which, some_parts=2)
                if (big and pick != 2) or (pick == 1 and q < 2):
                    yield from emit(cfg(n, (8, 2)[k % 2], 1 + k % 2, a, b, False, {'sparse': sp}), 'fn')
    # (m) input FORMS: the start as float32 / mixed / integer-dtype / read-only / F-ordered / non-contiguous cores or as a tuple,
    # every numeric option (m, e, nswp, tau, dr_min, dr_max, tau0, k0, e_vld, m_cache_scale) as NumPy scalar / 0-d array, the
    # positional call forms in the documented parameter order, validation data in int32 / uint8 / F / view / float32 / tuple forms
    fopts = [{'y0': 'f32'}, {'y0': 'mixed'}, {'y0': 'i64'}, {'y0': 'imixed+V'}, {'y0': 'tuple'}, {'y0': 'ro'},
             {'y0': 'F+ro+tuple'}, {'num': 'np64'}, {'num': 'np32'}, {'num': '0d'}, {'call': 'pos'}, {'call': 'mix:2'},
             {'call': 'kwmin'}, {'vform': 'i32+F'}, {'vform': 'u8+ro|f32'}, {'vform': 'V|V+ro'}, {'vform': 'tuple|list'},
             {'y0': 'f32+tuple', 'num': 'np32', 'call': 'pos', 'vform': 'i32+V|f32'}, {'num': 'np64', 'tau': 1.5, 'tau0': 1.25, 'k0': 3}]
    if big:
        fopts += [{'y0': 'i32'}, {'y0': 'mixed1+V'}, {'num': 'np32', 'call': 'pos'}, {'num': '0d', 'y0': 'ro+tuple'},
                  {'call': 'min'}, {'call': 'mix:5'}, {'vform': 'i64+F+ro|f32+ro'}, {'num': 'float'}]
    for j, o in enumerate(fopts):
        for q, n in enumerate(some + ([[2, 2]] if big else [])):
            if not big and (j + q) % 2:
                continue                            # quick: one of the two shapes per form, alternating
            k += 1
            a, b = ((1, 2), (0, 1), (1, 1), (0, 0))[k % 4]
            isint = any(t in o.get('y0', '') for t in ('i64', 'i32', 'imixed'))
            kind = 'ones' if (isint and k % 2) else 'gauss'
            which = 'bfcn' + ('tp' if ('vform' in o or 'num' in o or 'call' in o or big) else '') + ('v' if ('num' in o or big) else '')
            c = cfg(n, (8, 2)[k % 2], 2 if kind == 'ones' else 1 + k % 2, a, b, bool(k % 2), o, kind=kind)
            if 'num' in o and c['cache']:
                c['opt'] = dict(o, prefill=5)       # (the pre-filled pairs are NumPy-typed as well, see _run)
            yield from emit(c, which, some_parts=2)
    g = gen.rng('C06v', seed)
    for n in ([3, 3], [2, 3, 2]):
        for bits in range(64):
            yield 'C06.cross.validate_args', dict(
                n=n, r0=1 + bits % 2, yseed=int(g.integers(1 << 30)),
                m=40 if bits & 1 else None, e=1e+10 if bits & 2 else None, nswp=1 if bits & 4 else None,
                e_vld=1e+10 if bits & 8 else None, has_I=bool(bits & 16), has_y=bool(bits & 32))
        for first in ('m', 'func', 'cache'):
            yield 'C06.cross.default_info_no_leak', dict(n=n, r0=2, yseed=int(g.integers(1 << 30)), first=first)
