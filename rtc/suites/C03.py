"""C03 (bounded, T3): TT-SVD meets the sqrt(d-1)*e bound with capped, quasi-optimal ranks; matrix factorisations.

Oracles: own dense evaluation (`gen.dense`), NumPy SVDs of the unfoldings of the INPUT array / of the input
matrix, own index arithmetic for the bit interleaving of svd_matrix / full_matrix.
With tail_k(q) = sqrt(sum_{j>=q} s_j^2) for unfolding k of the input:

* `C03.svd.shape_ranks`      well-formed, same shape, finite, ranks <= max(1,int(r)) and <= size of the unfolding.
* `C03.svd.error_bound`      cap not binding: ||A - full(svd(A,e))|| <= e sqrt(d-1) (1+1e-6) + c eps ||A||, for
                             ||A|| = 1e-6 ... 1e6 (known defect of the pinned tree once ||A|| >~ 1 and e binds).
* `C03.svd.rank_minimal`     r_k <= min{q >= 1: tail_k(q) <= e (1-5e-7)}.
* `C03.svd.exact_lowrank`    arrays of exact TT-rank: returned ranks = ranks of the unfoldings, error at rounding level.
  (all four also through `svd_matrix`, whose input is the matrix and whose reference array is the interleaved tensor)
* `C03.svd_matrix.roundtrip` integer-coded 2^q x 2^q matrices: TT entry at digits m_k = i_k + 2 j_k equals A[i,j];
                             full_matrix(svd_matrix(A)) reproduces A (exactly after rounding to integers); cap respected.
* `C03.full_matrix.interleave` full_matrix of an integer QTT-matrix equals the own de-interleaving with ==.
* `C03.matrix_skeleton.*` / `C03.matrix_svd.*`: inner size q = max(1, min(int(r), qmin)) with qmin the smallest size
  whose discarded tail energy is <= e (relative to s_0 if rel=True); ||A - U V|| = tail(q) (best rank-q
  approximation, Eckart-Young); give_to: 'l' V orthonormal rows, 'r' U orthonormal columns, 'm' both Gram matrices
  = diag(s); matrix_svd: right factor has orthonormal rows.

Accuracy specs: ['rel', f] -> f*||A||;  ['abs', x] -> x;  ['thr', k, q, sign] -> (1 + sign*1e-6) * tail_k(q)
(just above / below the value at which rank q becomes admissible).

Parameter / regime coverage added by the audit of the signatures:
* e >= ||A|| (['rel', 1+1e-9], ['rel', 1.5 / 2], ['abs', 1e30]): every singular value may go and only the floor
  max(1, .) keeps a rank - for svd, svd_matrix, matrix_skeleton (rel False / True) and matrix_svd, with and without cap;
* exactly-zero arrays / matrices (kind 'zero', absolute accuracies): finite well-formed result of rank 1, zero error;
* memory layout of the input array / matrix (param `layout`: 'F' Fortran order, 'V' strided view, 'R' negative strides);
* mode sizes 300 .. 1025 (thorough 2048), many modes d = 6 .. 10 (thorough 11), alternating modes of size 1;
* long / wide / larger matrices 600x4, 3x700, 1x300, 30x30 (thorough 2x2048, 28x90).
Not covered on purpose: full_matrix(order='C') - the parameter is undocumented and the property fixes only the
inverse of svd_matrix's interleaving (order 'F').
"""
import itertools, math
import numpy as np
import teneva
from rtc.api import clause, PASS, FAIL, TRIVIAL, SKIP
from rtc import gen


BUDGET = (55, 560)
BOUNDS = ('svd: d in {2,3,4} (thorough 5), modes 1..5, 13 magnitudes 1e-6..1e6, 5 array families, e in rel {0.5..1e-9} '
          'and (1 +- 1e-6) x every unfolding tail, caps {1e12,1,2,3,2.7}; svd_matrix/full_matrix q <= 5 (thorough 8) '
          'on integer-coded matrices; matrix factorisations: shapes 1x1 .. 7x5, 8 spectra, scales 1e-6..1e6, '
          'all give_to x rel x hermitian, thresholds at every tail; e >= ||A||, zero arrays / matrices, input layouts F / '
          'strided / negative strides, modes up to 1025 (thorough 2048), d up to 10 (thorough 11), matrices up to 600x4 / 3x700 / 30x30')

EPS = np.finfo(float).eps
MAGS = [10.0 ** k for k in range(-6, 7)]
CAPS = (1e12, 1, 2, 3, 2.7)
SPECTRA = {
    'geom': [1.0, 1e-1, 1e-2, 1e-3, 1e-4, 1e-5],
    'ties': [1.0, 1.0, 0.5, 0.5, 0.5],
    'gap': [1.0, 0.9, 1e-3, 0.9e-3],
    'zeros': [1.0, 0.3, 0.0, 0.0],
    'flat': [1.0, 1.0, 1.0, 1.0],
    'one': [1.0],
}


def tails(s):
    t = np.sqrt(np.cumsum((np.asarray(s, dtype=float) ** 2)[::-1])[::-1])
    return np.append(t, 0.0)


# ----------------------------------------------------------------------------- arrays for svd

def _interleave(A, q):
    """Own interleaving: T[m_0..m_{q-1}] = A[sum i_k 2^k, sum j_k 2^k], m_k = i_k + 2 j_k."""
    I = gen.all_indices([4] * q)
    i = sum(((I[:, k] & 1) << k) for k in range(q))
    j = sum(((I[:, k] >> 1) << k) for k in range(q))
    return A[i, j].reshape([4] * q)


def array(n, seed, kind, mag):
    """Dense array of a family with Frobenius norm exactly (up to rounding) `mag`."""
    g = gen.rng('C03arr', n, seed, kind)
    d = len(n)
    if kind == 'zero':                      # exactly zero array (only with absolute accuracies)
        return np.zeros(n)
    if kind == 'gauss':
        A = g.normal(size=n)
    elif kind == 'int':
        A = g.integers(-3, 4, size=n).astype(float)
    elif kind.startswith('lowrank:'):
        A = gen.dense(gen.tt(n, int(kind[8:]), seed, 'gauss'))
    elif kind == 'decay':
        Y = gen.tt(n, 4, seed, 'gauss')
        for k in range(d - 1):
            Y[k] = Y[k] * (0.2 ** np.arange(Y[k].shape[2]))[None, None, :]
        A = gen.dense(Y)
    else:
        raise ValueError(kind)
    nrm = np.linalg.norm(A)
    if nrm == 0:
        return None
    return np.ascontiguousarray(A * (mag / nrm))


# documented signatures (docstrings of /repo/teneva/svd.py, transformation.py): parameter order and defaults
REQ = gen.call_form.REQ
SIG = {
    'svd': (('Y_full', 'e', 'r'), (REQ, 1e-10, 1e12)),
    'svd_matrix': (('Y_full', 'e', 'r'), (REQ, 1e-10, 1e12)),
    'matrix_skeleton': (('A', 'e', 'r', 'hermitian', 'rel', 'give_to'), (REQ, 1e-10, 1e12, False, False, 'm')),
    'matrix_svd': (('A', 'e', 'r'), (REQ, 1e-10, 1e12)),
    'full_matrix': (('Y', 'order'), (REQ, 'F')),
}
DTYPES = ('int64', 'int32', 'int16', 'uint8', 'bool', 'float32', '>f8')


def _eps(dtype):
    """Unit roundoff that the property's 'rounding accuracy' refers to: that of the input data if it is given in a
    floating type (the unchanged library factorises a float32 array in float32 and returns float32 cores), float64
    otherwise (integer / bool data are exact and factorised in float64)."""
    dt = np.dtype(dtype)
    return float(np.finfo(dt).eps) if dt.kind == 'f' else EPS


def typed(F, dtype):
    """The float64 array F in the dtype `dtype`: floating dtypes by a plain cast (the values change at the rounding
    level of the dtype - the reference is always the float64 image of what is actually passed); integer / bool dtypes
    need an integer-valued F (see int_array); None if the values do not fit."""
    dt = np.dtype(dtype)
    if dt.kind == 'f':
        return F.astype(dt)
    return gen.typed_int_array(F, dt)


def int_array(n, seed, kind, mag, dtype):
    """Integer-valued array of a family (float64 holding integers): 'int' entries in [-3, 3]; 'gauss' / 'decay'
    rint(30 x unit-variance family member); 'lowrank:r' exact TT-rank <= r from integer cores; all times the integer
    factor max(1, int(mag)) (bool / uint8: factor 1)."""
    g = gen.rng('C03int', n, seed, kind)
    small = np.dtype(dtype).kind in 'bu' and np.dtype(dtype).itemsize == 1
    f = 1 if small else max(1, int(mag))
    if kind == 'zero':
        return np.zeros(n)
    if kind == 'int':
        A = g.integers(-3, 4, size=n).astype(float)
    elif kind.startswith('lowrank:'):
        A = gen.dense(gen.tt(n, int(kind[8:]), seed, 'pos' if small else 'int'))
    else:
        B = array(n, seed, kind, 1.0)
        A = np.rint(B * (30.0 * math.sqrt(B.size)))
    return A * f


class Case:
    pass


def _layout(A, layout):
    """The same array in another memory layout: 'F' Fortran order, 'V' non-contiguous view of a larger buffer,
    'R' reversed strides (negative steps)."""
    if layout == 'C':
        return A
    if layout == 'F':
        return np.asfortranarray(A)
    if layout == 'V':
        big = np.zeros([2 * k for k in A.shape], dtype=A.dtype)
        sl = tuple(slice(None, None, 2) for _ in A.shape)
        big[sl] = A
        return big[sl]
    if layout == 'R':
        sl = tuple(slice(None, None, -1) for _ in A.shape)
        return np.ascontiguousarray(A[sl])[sl]
    raise ValueError(layout)


def run_svd(n, seed, kind, mag, e, cap, via, layout='C'):
    c = Case()
    if via == 'svd_matrix':
        q = len(n)
        if any(k != 4 for k in n):
            raise ValueError('svd_matrix cases use mode size 4')
        M = array([2 ** q, 2 ** q], seed, kind if not kind.startswith('lowrank') else 'gauss', mag)
        if kind.startswith('lowrank'):       # low QTT rank: interleaved tensor of a low-rank TT, mapped back
            T = array(n, seed, kind, mag)
            I = gen.all_indices([4] * q)
            i = sum(((I[:, k] & 1) << k) for k in range(q))
            j = sum(((I[:, k] >> 1) << k) for k in range(q))
            M = np.zeros((2 ** q, 2 ** q))
            M[i, j] = T.reshape(-1)
        c.inp = _layout(M, layout)
        c.A = _interleave(M, q)
        fn = teneva.svd_matrix
    else:
        c.inp = array(n, seed, kind, mag)
        c.A = c.inp
        if c.inp is not None:
            c.inp = _layout(c.inp, layout)
        fn = teneva.svd
    if c.inp is None:
        return None, SKIP('zero array')
    c.d = len(n)
    c.nrm = float(np.linalg.norm(c.A))
    c.svs = [np.linalg.svd(c.A.reshape(int(np.prod(n[:k])), -1), compute_uv=False) for k in range(1, c.d)]
    if e[0] == 'rel':
        c.e = e[1] * c.nrm
        if not c.e > 0:
            return None, SKIP('relative accuracy of a zero array')
    elif e[0] == 'abs':
        c.e = float(e[1])
    else:
        _, k, q, sign = e
        if k >= len(c.svs) or not (1 <= q < len(c.svs[k])):
            return None, SKIP('no such threshold')
        t = tails(c.svs[k])[q]
        if t < 1e-6 * c.nrm:
            return None, SKIP('threshold below 1e-6 ||A||')
        c.e = t * (1 + sign * 1e-6)
    c.cap = cap
    snap = gen.snapshot(c.inp)
    c.Y = fn(c.inp, c.e, cap)
    if gen.snapshot(c.inp) != snap:
        return None, FAIL('input array changed')
    msg = gen.wf(c.Y, n)
    if msg:
        return None, FAIL('result not well-formed: ' + msg)
    if not gen.finite(c.Y):
        return None, FAIL('non-finite cores')
    c.rk = [1] + [G.shape[2] for G in c.Y]
    c.err = float(np.linalg.norm(gen.dense(c.Y) - c.A))
    c.capbinds = cap < 1e6 and any(x >= max(1, int(cap)) for x in c.rk[1:-1])
    return c, None


@clause('C03.svd.shape_ranks', funcs=('svd.svd', 'svd.svd_matrix'))
def svd_shape_ranks(n, seed, kind, mag, e, cap, via, layout='C'):
    """Well-formed finite TT of the input's shape; every rank <= max(1, int(r)) and <= the size of its unfolding."""
    c, res = run_svd(n, seed, kind, mag, e, cap, via, layout)
    if c is None:
        return res
    for k in range(1, c.d):
        carry = min(int(np.prod(n[:k])), int(np.prod(n[k:])))
        if c.rk[k] > max(1, int(cap)):
            return FAIL(f'rank {k} = {c.rk[k]} > cap {cap}')
        if c.rk[k] > carry:
            return FAIL(f'rank {k} = {c.rk[k]} > unfolding size {carry}')
    return PASS


@clause('C03.svd.error_bound', funcs=('svd.svd', 'svd.svd_matrix', 'svd.matrix_skeleton'))
def svd_error_bound(n, seed, kind, mag, e, cap, via, layout='C'):
    """Cap not binding: ||A - full(svd(A, e))|| <= e sqrt(d-1), whatever the scale of the data."""
    c, res = run_svd(n, seed, kind, mag, e, cap, via, layout)
    if c is None:
        return res
    if c.capbinds:
        return SKIP('cap binds')
    lim = c.e * math.sqrt(max(1, c.d - 1)) * (1 + 1e-6) + 64 * c.d * EPS * c.nrm
    if not c.err <= lim:
        return FAIL(f'error {c.err:.6e} > e sqrt(d-1) = {c.e * math.sqrt(c.d - 1):.6e} (ratio {c.err / (c.e * math.sqrt(c.d - 1)):.3f}, '
                    f'||A|| = {c.nrm:.3e}, ranks {c.rk})')
    full = [1] + [min(int(np.prod(n[:k])), int(np.prod(n[k:]))) for k in range(1, c.d)] + [1]
    return PASS if c.rk != full else TRIVIAL('nothing truncated')


@clause('C03.svd.rank_minimal', funcs=('svd.svd', 'svd.svd_matrix', 'svd.matrix_skeleton'))
def svd_rank_minimal(n, seed, kind, mag, e, cap, via, layout='C'):
    """Each rank <= the smallest rank whose tail energy in the corresponding unfolding of the input is <= e."""
    c, res = run_svd(n, seed, kind, mag, e, cap, via, layout)
    if c is None:
        return res
    if c.e < 1e-9 * c.nrm:
        return SKIP('e below the rounding floor 1e-9 ||A||')
    for k, s in enumerate(c.svs):
        t = tails(s)
        qmin = max(1, next(q for q in range(len(t)) if t[q] <= c.e * (1 - 5e-7)))
        if c.rk[k + 1] > qmin:
            return FAIL(f'bond {k + 1}: rank {c.rk[k + 1]} > minimal rank {qmin} with tail <= e = {c.e:.6e} '
                        f'(tails {t[max(0, qmin - 1):qmin + 1]}, ||A|| = {c.nrm:.3e})')
    return PASS


@clause('C03.svd.exact_lowrank', funcs=('svd.svd', 'svd.svd_matrix'))
def svd_exact_lowrank(n, seed, rho, mag, via):
    """Arrays of exact low TT-rank are reproduced to rounding accuracy with exactly the ranks of their unfoldings
    (e = 1e-8 ||A||); SKIP unless every unfolding has a clear numerical rank."""
    c, res = run_svd(n, seed, f'lowrank:{rho}', mag, ['rel', 1e-8], 1e12, via)
    if c is None:
        return res
    want = [1]
    for s in c.svs:
        if np.any((s > 1e-12 * s[0]) & (s < 1e-5 * s[0])):
            return SKIP('unfolding without a clear numerical rank')
        want.append(int(np.sum(s >= 1e-5 * s[0])))
    want.append(1)
    if c.rk != want:
        return FAIL(f'ranks {c.rk}, TT-ranks of the array {want} (||A|| = {c.nrm:.1e})')
    if not c.err <= 1e4 * EPS * c.d * c.nrm:
        return FAIL(f'error {c.err:.3e} is not at rounding level of ||A|| = {c.nrm:.1e}')
    return PASS


# ----------------------------------------------------------------------------- svd_matrix / full_matrix

@clause('C03.svd_matrix.roundtrip', funcs=('svd.svd_matrix', 'transformation.full_matrix'))
def svd_matrix_roundtrip(q, coding, cap, layout='C'):
    """Integer-coded 2^q x 2^q matrix: q cores of mode size 4, TT entry at digits m_k = i_k + 2 j_k is A[i, j];
    full_matrix inverts the interleaving (exact after rounding to integers); ranks <= cap."""
    N = 2 ** q
    i, j = np.meshgrid(np.arange(N), np.arange(N), indexing='ij')
    if coding == 'pos':
        A = (i * N + j + 1).astype(float)
    elif coding == 'rowcol':          # separable: exact QTT-rank 1 after interleaving? no - rank <= 2 per bond
        A = (i + 1.0) * (j + 2.0)
    else:
        A = gen.rng('sm', q, coding).integers(-50, 51, size=(N, N)).astype(float)
    A = _layout(A, layout)
    snap = gen.snapshot(A)
    Y = teneva.svd_matrix(A, 1e-10, cap)
    if gen.snapshot(A) != snap:
        return FAIL('input changed')
    msg = gen.wf(Y, [4] * q) if q >= 1 else None
    if msg:
        return FAIL('result not well-formed: ' + msg)
    if any(G.shape[2] > max(1, int(cap)) for G in Y[:-1]):
        return FAIL(f'ranks {[G.shape[2] for G in Y[:-1]]} exceed cap {cap}')
    if not gen.finite(Y):
        return FAIL('non-finite cores')
    if cap < 1e6:
        return TRIVIAL('cap: structure only')
    T = gen.dense(Y)
    W = _interleave(A, q)
    tol = 1e-9 * max(1.0, np.abs(A).max())
    if T.shape != W.shape or not np.abs(T - W).max() <= tol:
        return FAIL(f'TT entries differ from A[i,j] at interleaved digits: max dev {np.abs(T - W).max():.3e}')
    B = teneva.full_matrix(Y)
    if B.shape != A.shape or not np.array_equal(np.rint(B), A) or not np.abs(B - A).max() <= tol:
        return FAIL(f'full_matrix(svd_matrix(A)) != A: {int(np.sum(np.rint(B) != A))} entries differ')
    return PASS


@clause('C03.full_matrix.interleave', funcs=('transformation.full_matrix',))
def full_matrix_interleave(q, r, seed):
    """full_matrix of an integer QTT-matrix: M[sum i_k 2^k, sum j_k 2^k] = T[(i_k + 2 j_k)_k], compared with ==."""
    Y = gen.tt([4] * q, r, seed, 'int')
    T = gen.dense_exact(Y)
    N = 2 ** q
    want = np.zeros((N, N))
    for idx in itertools.product(range(4), repeat=q):
        i = sum((m & 1) << k for k, m in enumerate(idx))
        j = sum((m >> 1) << k for k, m in enumerate(idx))
        want[i, j] = float(T[idx])
    M = teneva.full_matrix(Y)
    if M.shape != (N, N) or not np.array_equal(M, want):
        return FAIL('full_matrix differs from the de-interleaved tensor')
    return PASS


# ----------------------------------------------------------------------------- matrix factorisations

def matrix(m, n, seed, kind, scale):
    g = gen.rng('C03mat', m, n, seed, kind)
    if kind == 'zero':
        return np.zeros((m, n))
    if kind == 'gauss':
        A = g.normal(size=(m, n))
    elif kind == 'sym':
        B = g.normal(size=(m, m))
        A = B + B.T
    elif kind.startswith('rank:'):
        rho = int(kind[5:])
        A = g.normal(size=(m, rho)) @ g.normal(size=(rho, n))
    elif kind.startswith('spec:'):
        s = np.array(SPECTRA[kind[5:]][: min(m, n)])
        U, _ = np.linalg.qr(g.normal(size=(m, len(s))))
        V, _ = np.linalg.qr(g.normal(size=(n, len(s))))
        A = (U * s) @ V.T
    elif kind.startswith('symspec:'):
        s = np.array(SPECTRA[kind[8:]][:m])
        U, _ = np.linalg.qr(g.normal(size=(m, len(s))))
        sg = np.where(np.arange(len(s)) % 2 == 0, 1.0, -1.0)
        A = (U * (s * sg)) @ U.T
        A = (A + A.T) / 2
    else:
        raise ValueError(kind)
    return np.ascontiguousarray(A * scale)


def run_matrix(fn, m, n, seed, kind, scale, e, cap, rel=False, layout='C', **kw):
    c = Case()
    c.A = _layout(matrix(m, n, seed, kind, scale), layout)
    c.s = np.linalg.svd(c.A, compute_uv=False)
    c.nrm = float(np.linalg.norm(c.A))
    if (c.nrm == 0 or c.s[0] == 0) and (kind != 'zero' or rel or e[0] != 'abs'):
        return None, SKIP('zero matrix')
    c.t = tails(c.s / c.s[0]) if rel else tails(c.s)
    c.ref = (c.nrm / c.s[0]) if rel else c.nrm         # size of tail(0) in the units of e
    if e[0] == 'rel':
        c.e = e[1] * c.ref
    elif e[0] == 'abs':
        c.e = float(e[1])
    else:
        _, q, sign = e
        if not (1 <= q < len(c.s)):
            return None, SKIP('no such threshold')
        if c.t[q] < kw.get('floor', 1e-7) * c.ref:
            return None, SKIP('threshold below the rounding floor')
        c.e = c.t[q] * (1 + sign * 1e-6)
    c.cap = cap
    snap = gen.snapshot(c.A)
    kw.pop('floor', None)
    if fn is teneva.matrix_skeleton:
        kw['rel'] = rel
    out = fn(c.A, c.e, cap, **kw)
    if gen.snapshot(c.A) != snap:
        return None, FAIL('input matrix changed')
    if not isinstance(out, tuple) or len(out) != 2:
        return None, FAIL('result is not a pair')
    c.U, c.V = out
    if c.U.ndim != 2 or c.V.ndim != 2 or c.U.shape[0] != m or c.V.shape[1] != n or c.U.shape[1] != c.V.shape[0]:
        return None, FAIL(f'factor shapes {c.U.shape}, {c.V.shape} for a {m} x {n} matrix')
    if not (np.all(np.isfinite(c.U)) and np.all(np.isfinite(c.V))):
        return None, FAIL('non-finite factors')
    c.q = c.U.shape[1]
    return c, None


def _rank_selection(c, amb):
    """q = max(1, min(int(cap), qmin)); qmin = smallest size with tail <= e; SKIP when e is within the rounding
    ambiguity `amb` (relative, in tail^2) of a tail."""
    if c.q < 1 or c.q > max(1, int(c.cap)) or c.q > len(c.s):
        return FAIL(f'inner size {c.q} outside [1, min(max(1,int({c.cap})), {len(c.s)})]')
    for tq in c.t[:-1]:
        if abs(tq ** 2 - c.e ** 2) <= amb * c.ref ** 2:
            return SKIP('e within rounding distance of a tail energy')
    qmin = next(q for q in range(len(c.t)) if c.t[q] <= c.e)
    want = max(1, min(int(c.cap), qmin))
    if c.q != want:
        return FAIL(f'inner size {c.q}, expected {want} (qmin {qmin}, cap {c.cap}, e = {c.e:.9e}, tails {c.t[max(0, want - 1):want + 2]})')
    return PASS


def _best_approx(c, floor):
    err = float(np.linalg.norm(c.A - c.U @ c.V))
    best = tails(c.s)[min(c.q, len(c.s))]
    if not err <= best * (1 + 1e-6) + floor * c.nrm:
        return FAIL(f'||A - U V|| = {err:.6e} > best rank-{c.q} error {best:.6e} (||A|| = {c.nrm:.3e})')
    if err < best * (1 - 1e-6) - floor * c.nrm:
        return FAIL(f'||A - U V|| = {err:.6e} below the optimum {best:.6e}: oracle inconsistent')
    return PASS


SK = ('svd.matrix_skeleton',)


@clause('C03.matrix_skeleton.rank_selection', funcs=SK)
def msk_rank(m, n, seed, kind, scale, e, cap, rel, give_to, hermitian, layout='C'):
    """q <= max(1, int(r)); q = smallest size whose discarded tail energy is <= e (relative to s_0 when rel) unless
    the cap binds."""
    c, res = run_matrix(teneva.matrix_skeleton, m, n, seed, kind, scale, e, cap, rel=rel, layout=layout, hermitian=hermitian, give_to=give_to)
    return res if c is None else _rank_selection(c, 1e-12)


@clause('C03.matrix_skeleton.best_approx', funcs=SK)
def msk_best(m, n, seed, kind, scale, e, cap, rel, give_to, hermitian, layout='C'):
    """U V is a best rank-q approximation: ||A - U V|| equals the l2 norm of the discarded singular values."""
    c, res = run_matrix(teneva.matrix_skeleton, m, n, seed, kind, scale, e, cap, rel=rel, layout=layout, hermitian=hermitian, give_to=give_to)
    return res if c is None else _best_approx(c, 64 * EPS)


@clause('C03.matrix_skeleton.give_to', funcs=SK)
def msk_give_to(m, n, seed, kind, scale, e, cap, rel, give_to, hermitian, layout='C'):
    """'l': V has orthonormal rows (weights in U); 'r': U has orthonormal columns; 'm': U^T U = V V^T = diag(s_1..s_q)."""
    c, res = run_matrix(teneva.matrix_skeleton, m, n, seed, kind, scale, e, cap, rel=rel, layout=layout, hermitian=hermitian, give_to=give_to)
    if c is None:
        return res
    I = np.eye(c.q)
    GU, GV = c.U.T @ c.U, c.V @ c.V.T
    s = c.s[:c.q]
    tol = 256 * EPS
    if give_to == 'l':
        ok = np.abs(GV - I).max() <= tol and np.abs(GU - np.diag(s ** 2)).max() <= tol * c.s[0] ** 2
    elif give_to == 'r':
        ok = np.abs(GU - I).max() <= tol and np.abs(GV - np.diag(s ** 2)).max() <= tol * c.s[0] ** 2
    else:
        ok = np.abs(GU - np.diag(s)).max() <= tol * c.s[0] and np.abs(GV - np.diag(s)).max() <= tol * c.s[0]
    if not ok:
        return FAIL(f"give_to={give_to!r}: Gram matrices U^T U = {np.diag(GU)}, V V^T = {np.diag(GV)}, s = {s}")
    return PASS


MS = ('svd.matrix_svd',)
MS_FLOOR = 1e-3      # the Gram-matrix eigen-decomposition resolves tail^2 only to eps ||A||^2


@clause('C03.matrix_svd.rank_selection', funcs=MS)
def msv_rank(m, n, seed, kind, scale, e, cap, layout='C'):
    """As matrix_skeleton.rank_selection (absolute e); thresholds and ambiguity respect the eps ||A||^2 resolution."""
    c, res = run_matrix(teneva.matrix_svd, m, n, seed, kind, scale, e, cap, layout=layout, floor=MS_FLOOR)
    return res if c is None else _rank_selection(c, 256 * EPS * len(c.s))


@clause('C03.matrix_svd.best_approx', funcs=MS)
def msv_best(m, n, seed, kind, scale, e, cap, layout='C'):
    """U V is a best rank-q approximation up to the sqrt(eps) ||A|| resolution of the eigen-decomposition."""
    c, res = run_matrix(teneva.matrix_svd, m, n, seed, kind, scale, e, cap, layout=layout, floor=MS_FLOOR)
    return res if c is None else _best_approx(c, 4 * math.sqrt(EPS))


@clause('C03.matrix_svd.right_orthonormal', funcs=MS)
def msv_orth(m, n, seed, kind, scale, e, cap, layout='C'):
    """The right factor has orthonormal rows (up to eps (s_0 / s_q)^2); SKIP when s_q < 1e-5 s_0."""
    c, res = run_matrix(teneva.matrix_svd, m, n, seed, kind, scale, e, cap, layout=layout, floor=MS_FLOOR)
    if c is None:
        return res
    sq = c.s[c.q - 1]
    if c.s[0] == 0 or sq < 1e-5 * c.s[0]:
        return SKIP('smallest kept singular value below 1e-5 s_0')
    G = c.V @ c.V.T
    tol = 256 * EPS * (c.s[0] / sq) ** 2 * max(m, n)
    if not np.abs(G - np.eye(c.q)).max() <= tol:
        return FAIL(f'V V^T deviates from I by {np.abs(G - np.eye(c.q)).max():.3e} > {tol:.3e}')
    return PASS


# ----------------------------------------------------------------------------- case list

SVD4 = ['C03.svd.shape_ranks', 'C03.svd.error_bound', 'C03.svd.rank_minimal']


def _svd_thresholds(n, seed, kind, mag, via):
    """All (k, q) with tail_k(q) >= 1e-6 ||A|| - from the reference array alone (the library is not called while the
    case list is generated)."""
    if via == 'svd_matrix':
        q_ = len(n)
        M = array([2 ** q_, 2 ** q_], seed, kind if not kind.startswith('lowrank') else 'gauss', mag)
        A = _interleave(M, q_) if not kind.startswith('lowrank') else array(n, seed, kind, mag)
    else:
        A = array(n, seed, kind, mag)
    if A is None:
        return []
    nrm = float(np.linalg.norm(A))
    out = []
    for k in range(1, len(n)):
        sv = np.linalg.svd(A.reshape(int(np.prod(n[:k])), -1), compute_uv=False)
        t = tails(sv)
        for q in range(1, len(sv)):
            if t[q] >= 1e-6 * nrm:
                out.append((k - 1, q))
    return out


def _mat_thresholds(m, n, seed, kind, scale, floor):
    A = matrix(m, n, seed, kind, scale)
    s = np.linalg.svd(A, compute_uv=False)
    if s[0] == 0:
        return []
    t = tails(s)
    return [q for q in range(1, len(s)) if t[q] >= floor * t[0]]


def cases(tier, seed):
    big = tier == 'thorough'
    g = gen.rng('C03', seed)
    # ---- svd
    shapes = [[3, 4], [5, 1], [1, 4], [2, 2, 2], [3, 2, 4], [1, 3, 2], [3, 1, 3], [2, 3, 2, 2], [3, 2, 1, 3], [1, 1, 1]]
    if big:
        shapes += [[5, 5], [2, 5, 3], [2, 2, 2, 2, 2], [3, 2, 1, 2, 3], [4, 4, 4], [2, 3, 4, 2]]
    kinds = ('gauss', 'decay', 'lowrank:2', 'int')
    j = 0
    for n in shapes:
        for kind in kinds:
            j += 1
            for mi, mag in enumerate(MAGS):
                base = dict(n=n, seed=j, kind=kind, mag=mag, via='svd')
                es = [['rel', f] for f in ((0.5, 0.1, 1e-2, 1e-4, 1e-9) if (big or mi % 3 == 0) else (0.3, 1e-3))]
                es.append(['abs', 1e-10])
                for e in es:
                    for cid in SVD4:
                        yield cid, dict(base, e=e, cap=1e12)
                for ci, cap in enumerate(CAPS[1:]):
                    if big or (ci + mi) % 4 == 0:
                        for cid in SVD4:
                            yield cid, dict(base, e=['rel', 0.05], cap=cap)
                if big or mi % 4 == 0:
                    th = _svd_thresholds(n, j, kind, mag, 'svd')
                    if not big and len(th) > 5:
                        th = th[:: max(1, len(th) // 5)]
                    for k, q in th:
                        for sign in (1, -1):
                            for cid in SVD4:
                                yield cid, dict(base, e=['thr', k, q, sign], cap=1e12)
    # e >= ||A|| (everything may go: the floor max(1, .) of the rank), exactly-zero arrays, memory layouts of the input
    for ni, n in enumerate(shapes):
        for ki, kind in enumerate(kinds):
            for mag in (MAGS if big else MAGS[(ni + ki) % 5::5]):
                base = dict(n=n, seed=100 + ni, kind=kind, mag=mag, via='svd')
                for ei, e in enumerate((['rel', 1.0 + 1e-9], ['rel', 1.5], ['abs', 1e30])):
                    if not big and (ni + ki + ei) % 3 == 0:
                        continue
                    for cap in ((1e12, 2) if big else ((1e12, 2)[(ni + ki + ei) % 2],)):
                        for cid in SVD4:
                            yield cid, dict(base, e=e, cap=cap)
                for li, layout in enumerate(('F', 'V', 'R')):
                    if big or (ni + ki + li) % 3 == 0:
                        for e in (['rel', 0.2], ['rel', 1e-6]):
                            for cid in SVD4:
                                yield cid, dict(base, e=e, cap=1e12 if li != 1 else 2, layout=layout)
        for e in (['abs', 1e-10], ['abs', 1.0]):
            for cap in (1e12, 1, 3):
                for cid in SVD4:
                    yield cid, dict(n=n, seed=0, kind='zero', mag=1.0, via='svd', e=e, cap=cap)
    # large mode sizes and many modes
    # (every unfolding keeps min(rows, cols) <= 32: larger factorisations switch the BLAS to threads, which stalls the
    # 16-process pool of the runner)
    wide = [[520, 3], [2, 300, 2], [1, 1025], [2] * 10, [3] * 6, [2, 1, 2, 1, 2, 1, 2, 1, 2]]
    if big:
        wide += [[3, 2048], [2] * 11, [4] * 5, [30, 3, 10], [2, 1] * 5 + [2]]
    for ni, n in enumerate(wide):
        for ki, kind in enumerate(kinds):
            if not big and (ni + ki) % 2:
                continue
            for mag in (MAGS[::2] if big else MAGS[(ni + ki) % 6::6]):
                base = dict(n=n, seed=200 + ni, kind=kind, mag=mag, via='svd')
                for e in (['rel', 0.3], ['rel', 1e-3], ['rel', 1.5], ['abs', 1e-10]):
                    for cid in SVD4:
                        yield cid, dict(base, e=e, cap=1e12)
                for cid in SVD4:
                    yield cid, dict(base, e=['rel', 0.05], cap=2)
                th = _svd_thresholds(n, 200 + ni, kind, mag, 'svd')
                for k, q in th[:: max(1, len(th) // (6 if big else 3))]:
                    for sign in (1, -1):
                        for cid in SVD4:
                            yield cid, dict(base, e=['thr', k, q, sign], cap=1e12)
        for rho in (1, 2):
            yield 'C03.svd.exact_lowrank', dict(n=n, seed=200 + ni, rho=rho, mag=MAGS[(3 * ni + rho) % len(MAGS)], via='svd')
    for n in shapes:
        if len(n) < 2:
            continue
        for rho in (1, 2, 3):
            for mag in (MAGS if big else MAGS[::3]):
                for s in range(3 if big else 1):
                    yield 'C03.svd.exact_lowrank', dict(n=n, seed=s + 7 * rho, rho=rho, mag=mag, via='svd')
    # ---- svd through svd_matrix (mode size 4)
    for q in (2, 3) + ((4,) if big else ()):
        for kind in ('gauss', 'lowrank:2', 'decay'):
            for mag in (MAGS if big else MAGS[::4]):
                base = dict(n=[4] * q, seed=q, kind=kind, mag=mag, via='svd_matrix')
                for e in (['rel', 0.3], ['rel', 1e-2], ['rel', 1e-6]):
                    for cap in (1e12, 2):
                        for cid in SVD4:
                            yield cid, dict(base, e=e, cap=cap)
                th = _svd_thresholds([4] * q, q, kind, mag, 'svd_matrix')
                for k, qq in th[:: max(1, len(th) // (8 if big else 3))]:
                    for sign in (1, -1):
                        for cid in SVD4:
                            yield cid, dict(base, e=['thr', k, qq, sign], cap=1e12)
        for rho in (1, 2):
            for mag in MAGS[::3]:
                yield 'C03.svd.exact_lowrank', dict(n=[4] * q, seed=q, rho=rho, mag=mag, via='svd_matrix')
        for li, layout in enumerate(('F', 'V', 'R')):
            for e in (['rel', 0.3], ['rel', 1e-6], ['rel', 1.5]):
                for cid in SVD4:
                    yield cid, dict(n=[4] * q, seed=q, kind=('gauss', 'decay', 'lowrank:2')[li], mag=MAGS[(4 * li + q) % len(MAGS)],
                                    via='svd_matrix', e=e, cap=1e12, layout=layout)
        for cid in SVD4:
            yield cid, dict(n=[4] * q, seed=0, kind='zero', mag=1.0, via='svd_matrix', e=['abs', 1e-10], cap=1e12)
    for q in range(1, 9 if big else 6):
        for coding in ('pos', 'rowcol', 'rand1', 'rand2'):
            for cap in (1e12, 1, 3):
                yield 'C03.svd_matrix.roundtrip', dict(q=q, coding=coding, cap=cap)
            yield 'C03.svd_matrix.roundtrip', dict(q=q, coding=coding, cap=1e12, layout='FVR'[q % 3])
        for r in (1, 2, 3):
            if 2 <= q <= 6:
                for s in range(3 if big else 1):
                    yield 'C03.full_matrix.interleave', dict(q=q, r=r, seed=s)
    # ---- matrix factorisations
    mshapes = [(1, 1), (1, 4), (4, 1), (3, 3), (4, 6), (7, 5), (2, 5)] + ([(8, 8), (6, 10)] if big else [])
    mkinds = ['gauss', 'rank:2'] + ['spec:' + k for k in SPECTRA]
    scales = (1.0, 1e-6, 1e6) if not big else (1.0, 1e-6, 1e-3, 1e3, 1e6)
    j = 0
    for (m, n) in mshapes:
        for kind in mkinds:
            for scale in scales:
                j += 1
                sd = j
                es = [['rel', f] for f in (0.9, 0.3, 1e-2, 1e-5, 1e-9)] + [['abs', 1e-10]]
                es_thr = [['thr', q, sign] for q in _mat_thresholds(m, n, sd, kind, scale, 1e-7) for sign in (1, -1)]
                for gi, give_to in enumerate(('l', 'r', 'm')):
                    for rel in (False, True):
                        base = dict(m=m, n=n, seed=sd, kind=kind, scale=scale, rel=rel, give_to=give_to, hermitian=False)
                        elist = (es if (big or (gi + j) % 3 == 0) else es[1::2]) + es_thr
                        for e in elist:
                            caps = CAPS if (big and e[0] == 'rel') else ((1e12, CAPS[1 + (j + gi) % 4]) if e[0] == 'rel' else (1e12,))
                            for cap in caps:
                                for cid in ('C03.matrix_skeleton.rank_selection', 'C03.matrix_skeleton.best_approx',
                                            'C03.matrix_skeleton.give_to'):
                                    yield cid, dict(base, e=e, cap=cap)
                base = dict(m=m, n=n, seed=sd, kind=kind, scale=scale)
                es_thr = [['thr', q, sign] for q in _mat_thresholds(m, n, sd, kind, scale, MS_FLOOR) for sign in (1, -1)]
                for e in es + es_thr:
                    for cap in (CAPS if e[0] == 'rel' and e[1] in (0.3, 1e-9) else (1e12,)):
                        for cid in ('C03.matrix_svd.rank_selection', 'C03.matrix_svd.best_approx', 'C03.matrix_svd.right_orthonormal'):
                            yield cid, dict(base, e=e, cap=cap)
    # e >= the whole matrix (floor max(1, .)), zero matrices, memory layouts, long / wide matrices
    MSK = ('C03.matrix_skeleton.rank_selection', 'C03.matrix_skeleton.best_approx', 'C03.matrix_skeleton.give_to')
    MSV = ('C03.matrix_svd.rank_selection', 'C03.matrix_svd.best_approx', 'C03.matrix_svd.right_orthonormal')
    for (m, n) in mshapes + [(600, 4), (3, 700), (1, 300), (30, 30)] + ([(2, 2048), (28, 90)] if big else []):
        for ki, kind in enumerate(mkinds):
            if max(m, n) > 10 and (kind.startswith('spec:') and kind not in ('spec:geom', 'spec:zeros') or (not big and (ki + m) % 2)):
                continue
            for scale in (scales if big else (scales[(m + n + ki) % len(scales)], scales[(m + n + ki + 1) % len(scales)])):
                j += 1
                es = [['rel', 1.0 + 1e-9], ['rel', 2.0], ['abs', 1e30]]
                if max(m, n) > 10:
                    es += [['rel', 0.3], ['rel', 1e-6]] + [['thr', q, sg] for q in _mat_thresholds(m, n, j, kind, scale, MS_FLOOR)[:3] for sg in (1, -1)]
                for ei, e in enumerate(es):
                    if not big and ei < 3 and (j + ei) % 3 == 0:
                        continue
                    for cap in ((1e12, 2) if big else ((1e12, 2)[(j + ei) % 2],)):
                        for cid in MSV:
                            yield cid, dict(m=m, n=n, seed=j, kind=kind, scale=scale, e=e, cap=cap)
                        for gi, give_to in enumerate(('l', 'r', 'm')):
                            if not big and (gi + j + (cap < 1e6)) % 3:
                                continue
                            for cid in MSK:
                                yield cid, dict(m=m, n=n, seed=j, kind=kind, scale=scale, e=e, cap=cap, rel=bool((gi + j) % 2) or e[0] == 'rel' and e[1] == 2.0,
                                                give_to=give_to, hermitian=False)
                layout = 'FVR'[j % 3]
                for e in (['rel', 0.3], ['rel', 1e-6]):
                    for cid in MSV:
                        yield cid, dict(m=m, n=n, seed=j, kind=kind, scale=scale, e=e, cap=1e12, layout=layout)
                    for cid in MSK:
                        yield cid, dict(m=m, n=n, seed=j, kind=kind, scale=scale, e=e, cap=1e12, rel=bool(j % 2), give_to='lrm'[j % 3],
                                        hermitian=False, layout=layout)
        for e in (['abs', 1e-10], ['abs', 1.0]):
            for cap in (1e12, 1, 3):
                for cid in MSV:
                    yield cid, dict(m=m, n=n, seed=0, kind='zero', scale=1.0, e=e, cap=cap)
                for give_to in ('l', 'r', 'm'):
                    for cid in MSK:
                        yield cid, dict(m=m, n=n, seed=0, kind='zero', scale=1.0, e=e, cap=cap, rel=False, give_to=give_to, hermitian=bool(m == n and cap == 3))
    # hermitian=True on symmetric matrices
    for m in (1, 2, 4, 6):
        for kind in ['sym'] + ['symspec:' + k for k in ('geom', 'ties', 'zeros')]:
            for scale in (1.0, 1e-6, 1e6):
                j += 1
                thr = [['thr', q, sign] for q in _mat_thresholds(m, m, j, kind, scale, 1e-7) for sign in (1, -1)]
                for give_to in ('l', 'r', 'm'):
                    for e in [['rel', 0.3], ['rel', 1e-9]] + thr:
                        for cid in ('C03.matrix_skeleton.rank_selection', 'C03.matrix_skeleton.best_approx', 'C03.matrix_skeleton.give_to'):
                            yield cid, dict(m=m, n=m, seed=j, kind=kind, scale=scale, rel=bool(j % 2), give_to=give_to,
                                            hermitian=True, e=e, cap=1e12 if give_to != 'm' else 2)
    # ---- seeded random part
    for _ in range(400 if big else 80):
        d = int(g.integers(2, 6 if big else 5))
        n = [int(x) for x in g.integers(1, 6, size=d)]
        if int(np.prod(n)) > 700:
            continue
        base = dict(n=n, seed=int(g.integers(1 << 30)), kind=kinds[int(g.integers(0, 3))],
                    mag=MAGS[int(g.integers(0, len(MAGS)))], via='svd')
        e = ['rel', float(10.0 ** g.uniform(-7, -0.1))]
        for cid in SVD4:
            yield cid, dict(base, e=e, cap=1e12)
            yield cid, dict(base, e=e, cap=int(g.integers(1, 4)))
        m, nn = int(g.integers(1, 8)), int(g.integers(1, 8))
        mb = dict(m=m, n=nn, seed=int(g.integers(1 << 30)), kind=('gauss', 'rank:2', 'spec:geom')[int(g.integers(0, 3))],
                  scale=MAGS[int(g.integers(0, len(MAGS)))], e=['rel', float(10.0 ** g.uniform(-7, -0.1))],
                  cap=(1e12, 1, 2, 3)[int(g.integers(0, 4))])
        for cid in ('C03.matrix_svd.rank_selection', 'C03.matrix_svd.best_approx', 'C03.matrix_svd.right_orthonormal'):
            yield cid, dict(mb)
        mb.update(rel=bool(g.integers(0, 2)), give_to='lrm'[int(g.integers(0, 3))], hermitian=False)
        for cid in ('C03.matrix_skeleton.rank_selection', 'C03.matrix_skeleton.best_approx', 'C03.matrix_skeleton.give_to'):
            yield cid, dict(mb)
