"""C03 (bounded, T3): TT-SVD meets the sqrt(d-1)*e bound with capped, quasi-optimal ranks; matrix factorisations.

Oracles: own dense evaluation (`gen.dense`), NumPy SVDs of the unfoldings of the INPUT array / of the input
matrix, own index arithmetic for the bit interleaving of svd_matrix / full_matrix.
With tail_k(q) = sqrt(sum_{j>=q} s_j^2) for unfolding k of the input:

* `C03.svd.shape_ranks`      well-formed, same shape, finite, ranks <= max(1,int(r)) and <= size of the unfolding.
* `C03.svd.error_bound`      cap not binding: ||A - full(svd(A,e))|| <= e sqrt(d-1) (1+1e-6) + c eps ||A||, for
                             ||A|| = 1e-6 ... 1e6 (known defect of the pinned tree once ||A|| >~ 1 and e binds).
* `C03.svd.rank_minimal`     r_k <= min{q >= 1: tail_k(q) <= e (1-5e-7)}.
* `C03.svd.exact_lowrank`    arrays of exact TT-rank: returned ranks = ranks of the unfoldings, error at rounding level.
  (all four also through `svd_matrix`, whose input is the matrix and whose reference array is the interleaved tensor)
* `C03.svd_matrix.roundtrip` integer-coded 2^q x 2^q matrices: TT entry at digits m_k = i_k + 2 j_k equals A[i,j];
                             full_matrix(svd_matrix(A)) reproduces A (exactly after rounding to integers); cap respected.
* `C03.full_matrix.interleave` full_matrix of an integer QTT-matrix equals the own de-interleaving with ==.
* `C03.matrix_skeleton.*` / `C03.matrix_svd.*`: inner size q = max(1, min(int(r), qmin)) with qmin the smallest size
  whose discarded tail energy is <= e (relative to s_0 if rel=True); ||A - U V|| = tail(q) (best rank-q
  approximation, Eckart-Young); give_to: 'l' V orthonormal rows, 'r' U orthonormal columns, 'm' both Gram matrices
  = diag(s); matrix_svd: right factor has orthonormal rows.

Accuracy specs: ['rel', f] -> f*||A||;  ['abs', x] -> x;  ['thr', k, q, sign] -> (1 + sign*1e-6) * tail_k(q)
(just above / below the value at which rank q becomes admissible).

Parameter / regime coverage added by the audit of the signatures:
* e >= ||A|| (['rel', 1+1e-9], ['rel', 1.5 / 2], ['abs', 1e30]): every singular value may go and only the floor
  max(1, .) keeps a rank - for svd, svd_matrix, matrix_skeleton (rel False / True) and matrix_svd, with and without cap;
* exactly-zero arrays / matrices (kind 'zero', absolute accuracies): finite well-formed result of rank 1, zero error;
* memory layout of the input array / matrix (param `layout`: 'F' Fortran order, 'V' strided view, 'R' negative strides);
* mode sizes 300 .. 1025 (thorough 2048), many modes d = 6 .. 10 (thorough 11), alternating modes of size 1;
* long / wide / larger matrices 600x4, 3x700, 1x300, 30x30 (thorough 2x2048, 28x90).
Not covered on purpose: full_matrix(order='C') - the parameter is undocumented and the property fixes only the
inverse of svd_matrix's interleaving (order 'F').

Input forms (round 6):
* dtype of the dense input (param `dtype` of every svd / svd_matrix / matrix clause; `DTYPES` = int64, int32, int16,
  uint8, bool, float32, big-endian float64), also Fortran-ordered / strided / reversed views of these: integer and bool
  data take the integer-valued member of the family (`int_array` / `int_matrix`, factors 1 .. 1e6), the reference is the
  float64 image of what is passed, the result must be a floating TT (cores truncated to the input dtype are caught by
  well-formedness, error bound and exact_lowrank).  float32 data: the unchanged library factorises in float32 and
  returns float32 cores, so "rounding accuracy" is that of the data (`_eps`): floors c eps32 ||A||, thresholds / margins
  1e-3 instead of 1e-6, exact_lowrank with e = 1e-4 ||A||; oracles evaluate the returned cores in float64.
  `C03.matrix_svd.integer_input` keeps matrix_svd on integer / bool matrices apart (the Gram matrix is formed in the
  input dtype and wraps round for int16 / uint8 / bool / large int32 - a finding on the pinned tree).
* call FORMS (param `form`, `gen.call_form` against the documented signatures `SIG`): every argument positionally in
  the documented order (matrix_skeleton(A, e, r, hermitian, rel, give_to)), all by keyword, positional prefix +
  keywords (mix:k), trailing defaults left out (min / kwmin) - for svd, svd_matrix, matrix_skeleton (all hermitian x
  rel x give_to, square / non-square, scales 1e-5 / 1 / 1e4), matrix_svd, full_matrix; the documented DEFAULTS
  (e = 1e-10, r = 1e12, give_to = 'm') are exercised on data whose tails straddle 1e-10.
"""
import itertools, math
import numpy as np
import teneva
from rtc.api import clause, PASS, FAIL, TRIVIAL, SKIP
from rtc import gen


BUDGET = (60, 600)
BOUNDS = ('svd: d in {2,3,4} (thorough 5), modes 1..5, 13 magnitudes 1e-6..1e6, 5 array families, e in rel {0.5..1e-9} '
          'and (1 +- 1e-6) x every unfolding tail, caps {1e12,1,2,3,2.7}; svd_matrix/full_matrix q <= 5 (thorough 8) '
          'on integer-coded matrices; matrix factorisations: shapes 1x1 .. 7x5, 8 spectra, scales 1e-6..1e6, '
          'all give_to x rel x hermitian, thresholds at every tail; e >= ||A||, zero arrays / matrices, input layouts F / '
          'strided / negative strides, modes up to 1025 (thorough 2048), d up to 10 (thorough 11), matrices up to 600x4 / 3x700 / 30x30; '
          'input dtypes int64 / int32 / int16 / uint8 / bool / float32 / >f8 (x layouts) for svd, svd_matrix (q = 2..5), matrix_skeleton, '
          'matrix_svd; call forms pos / kw / mix:k / min / kwmin against the documented signatures, defaults on data straddling 1e-10')

EPS = np.finfo(float).eps
MAGS = [10.0 ** k for k in range(-6, 7)]
CAPS = (1e12, 1, 2, 3, 2.7)
SPECTRA = {
    'geom': [1.0, 1e-1, 1e-2, 1e-3, 1e-4, 1e-5],
    'ties': [1.0, 1.0, 0.5, 0.5, 0.5],
    'gap': [1.0, 0.9, 1e-3, 0.9e-3],
    'zeros': [1.0, 0.3, 0.0, 0.0],
    'flat': [1.0, 1.0, 1.0, 1.0],
    'one': [1.0],
}


def tails(s):
    t = np.sqrt(np.cumsum((np.asarray(s, dtype=float) ** 2)[::-1])[::-1])
    return np.append(t, 0.0)


# ----------------------------------------------------------------------------- arrays for svd

def _interleave(A, q):
    """Own interleaving: T[m_0..m_{q-1}] = A[sum i_k 2^k, sum j_k 2^k], m_k = i_k + 2 j_k."""
    I = gen.all_indices([4] * q)
    i = sum(((I[:, k] & 1) << k) for k in range(q))
    j = sum(((I[:, k] >> 1) << k) for k in range(q))
    return A[i, j].reshape([4] * q)


def array(n, seed, kind, mag):
    """Dense array of a family with Frobenius norm exactly (up to rounding) `mag`."""
    g = gen.rng('C03arr', n, seed, kind)
    d = len(n)
    if kind == 'zero':                      # exactly zero array (only with absolute accuracies)
        return np.zeros(n)
    if kind == 'gauss':
        A = g.normal(size=n)
    elif kind == 'int':
        A = g.integers(-3, 4, size=n).astype(float)
    elif kind.startswith('lowrank:'):
        A = gen.dense(gen.tt(n, int(kind[8:]), seed, 'gauss'))
    elif kind == 'decay':
        Y = gen.tt(n, 4, seed, 'gauss')
        for k in range(d - 1):
            Y[k] = Y[k] * (0.2 ** np.arange(Y[k].shape[2]))[None, None, :]
        A = gen.dense(Y)
    else:
        raise ValueError(kind)
    nrm = np.linalg.norm(A)
    if nrm == 0:
        return None
    return np.ascontiguousarray(A * (mag / nrm))


# documented signatures (docstrings of /repo/teneva/svd.py, transformation.py): parameter order and defaults
REQ = gen.call_form.REQ
SIG = {
    'svd': (('Y_full', 'e', 'r'), (REQ, 1e-10, 1e12)),
    'svd_matrix': (('Y_full', 'e', 'r'), (REQ, 1e-10, 1e12)),
    'matrix_skeleton': (('A', 'e', 'r', 'hermitian', 'rel', 'give_to'), (REQ, 1e-10, 1e12, False, False, 'm')),
    'matrix_svd': (('A', 'e', 'r'), (REQ, 1e-10, 1e12)),
    'full_matrix': (('Y', 'order'), (REQ, 'F')),
}
DTYPES = ('int64', 'int32', 'int16', 'uint8', 'bool', 'float32', '>f8')


def _eps(dtype):
    """Unit roundoff that the property's 'rounding accuracy' refers to: that of the input data if it is given in a
    floating type (the unchanged library factorises a float32 array in float32 and returns float32 cores), float64
    otherwise (integer / bool data are exact and factorised in float64)."""
    dt = np.dtype(dtype)
    return float(np.finfo(dt).eps) if dt.kind == 'f' else EPS


def typed(F, dtype):
    """The float64 array F in the dtype `dtype`: floating dtypes by a plain cast (the values change at the rounding
    level of the dtype - the reference is always the float64 image of what is actually passed); integer / bool dtypes
    need an integer-valued F (see int_array); None if the values do not fit."""
    dt = np.dtype(dtype)
    if dt.kind == 'f':
        return F.astype(dt)
    return gen.typed_int_array(F, dt)


def int_array(n, seed, kind, mag, dtype):
    """Integer-valued array of a family (float64 holding integers): 'int' entries in [-3, 3]; 'gauss' / 'decay'
    rint(30 x unit-variance family member); 'lowrank:r' exact TT-rank <= r from integer cores; all times the integer
    factor max(1, int(mag)) (bool / uint8: factor 1)."""
    g = gen.rng('C03int', n, seed, kind)
    small = np.dtype(dtype).kind in 'bu' and np.dtype(dtype).itemsize == 1
    f = 1 if small else max(1, int(mag))
    if kind == 'zero':
        return np.zeros(n)
    if kind == 'int':
        A = g.integers(-3, 4, size=n).astype(float)
    elif kind.startswith('lowrank:'):
        A = gen.dense(gen.tt(n, int(kind[8:]), seed, 'pos' if small else 'int'))
    else:
        B = array(n, seed, kind, 1.0)
        A = np.rint(B * (30.0 * math.sqrt(B.size)))
    return A * f


class Case:
    pass


def _layout(A, layout):
    """The same array in another memory layout: 'F' Fortran order, 'V' non-contiguous view of a larger buffer,
    'R' reversed strides (negative steps)."""
    if layout == 'C':
        return A
    if layout == 'F':
        return np.asfortranarray(A)
    if layout == 'V':
        big = np.zeros([2 * k for k in A.shape], dtype=A.dtype)
        sl = tuple(slice(None, None, 2) for _ in A.shape)
        big[sl] = A
        return big[sl]
    if layout == 'R':
        sl = tuple(slice(None, None, -1) for _ in A.shape)
        return np.ascontiguousarray(A[sl])[sl]
    raise ValueError(layout)


def run_svd(n, seed, kind, mag, e, cap, via, layout='C', dtype='float64', form='pos'):
    """dtype: dtype of the dense input (integer / bool dtypes take the integer-valued member of the family, see
    int_array); the reference array is always the float64 image of what is passed.  form: call form (gen.call_form)
    against the documented signature (Y_full, e=1e-10, r=1e12)."""
    c = Case()
    c.eps = _eps(dtype)
    isint = np.dtype(dtype).kind in 'iub' or kind.startswith('i:')      # 'i:<kind>': integer-valued member, any dtype
    kind = kind[2:] if kind.startswith('i:') else kind
    fam = (lambda n_, s_, k_, m_: int_array(n_, s_, k_, m_, dtype)) if isint else array
    if via == 'svd_matrix':
        q = len(n)
        if any(k != 4 for k in n):
            raise ValueError('svd_matrix cases use mode size 4')
        M = fam([2 ** q, 2 ** q], seed, kind if not kind.startswith('lowrank') else 'gauss', mag)
        if kind.startswith('lowrank'):       # low QTT rank: interleaved tensor of a low-rank TT, mapped back
            T = fam(n, seed, kind, mag)
            I = gen.all_indices([4] * q)
            i = sum(((I[:, k] & 1) << k) for k in range(q))
            j = sum(((I[:, k] >> 1) << k) for k in range(q))
            M = np.zeros((2 ** q, 2 ** q))
            M[i, j] = T.reshape(-1)
        if dtype != 'float64':
            M = typed(M, dtype)
            if M is None:
                return None, SKIP('values do not fit the dtype')
        c.inp = _layout(M, layout)
        c.A = _interleave(M.astype(float), q)
        fn = teneva.svd_matrix
    else:
        c.inp = fam(n, seed, kind, mag)
        if c.inp is not None and dtype != 'float64':
            c.inp = typed(c.inp, dtype)
            if c.inp is None:
                return None, SKIP('values do not fit the dtype')
        c.A = c.inp if dtype == 'float64' else (None if c.inp is None else c.inp.astype(float))
        if c.inp is not None:
            c.inp = _layout(c.inp, layout)
        fn = teneva.svd
    if c.inp is None:
        return None, SKIP('zero array')
    if str(c.inp.dtype) != str(np.dtype(dtype)):
        raise RuntimeError(f'case builder: input dtype {c.inp.dtype}, wanted {dtype}')
    c.d = len(n)
    c.nrm = float(np.linalg.norm(c.A))
    c.svs = [np.linalg.svd(c.A.reshape(int(np.prod(n[:k])), -1), compute_uv=False) for k in range(1, c.d)]
    wide = 1.0 if c.eps <= EPS else 1e3      # float32 data: thresholds / margins in units of its rounding level
    if e[0] == 'rel':
        c.e = e[1] * c.nrm
        if not c.e > 0:
            return None, SKIP('relative accuracy of a zero array')
    elif e[0] == 'abs':
        c.e = float(e[1])
    else:
        _, k, q, sign = e
        if k >= len(c.svs) or not (1 <= q < len(c.svs[k])):
            return None, SKIP('no such threshold')
        t = tails(c.svs[k])[q]
        if t < 1e-6 * wide * c.nrm:
            return None, SKIP('threshold below 1e-6 ||A||')
        c.e = t * (1 + sign * 1e-6 * wide)
    c.cap = cap
    snap = gen.snapshot(c.inp)
    c.Y = gen.call_form(fn, SIG[via][0], [c.inp, c.e, cap], SIG[via][1], form)
    if gen.snapshot(c.inp) != snap:
        return None, FAIL('input array changed')
    msg = gen.wf(c.Y, n)
    if msg:
        return None, FAIL('result not well-formed: ' + msg)
    if not gen.finite(c.Y):
        return None, FAIL('non-finite cores')
    c.rk = [1] + [G.shape[2] for G in c.Y]
    c.err = float(np.linalg.norm(gen.dense([np.asarray(G, dtype=float) for G in c.Y]) - c.A))
    c.capbinds = cap < 1e6 and any(x >= max(1, int(cap)) for x in c.rk[1:-1])
    return c, None


@clause('C03.svd.shape_ranks', funcs=('svd.svd', 'svd.svd_matrix'))
def svd_shape_ranks(n, seed, kind, mag, e, cap, via, layout='C', dtype='float64', form='pos'):
    """Well-formed finite TT of the input's shape; every rank <= max(1, int(r)) and <= the size of its unfolding."""
    c, res = run_svd(n, seed, kind, mag, e, cap, via, layout, dtype, form)
    if c is None:
        return res
    for k in range(1, c.d):
        carry = min(int(np.prod(n[:k])), int(np.prod(n[k:])))
        if c.rk[k] > max(1, int(cap)):
            return FAIL(f'rank {k} = {c.rk[k]} > cap {cap}')
        if c.rk[k] > carry:
            return FAIL(f'rank {k} = {c.rk[k]} > unfolding size {carry}')
    return PASS


@clause('C03.svd.error_bound', funcs=('svd.svd', 'svd.svd_matrix', 'svd.matrix_skeleton'))
def svd_error_bound(n, seed, kind, mag, e, cap, via, layout='C', dtype='float64', form='pos'):
    """Cap not binding: ||A - full(svd(A, e))|| <= e sqrt(d-1), whatever the scale of the data."""
    c, res = run_svd(n, seed, kind, mag, e, cap, via, layout, dtype, form)
    if c is None:
        return res
    if c.capbinds:
        return SKIP('cap binds')
    lim = c.e * math.sqrt(max(1, c.d - 1)) * (1 + 1e-6) + 64 * c.d * c.eps * c.nrm
    if not c.err <= lim:
        return FAIL(f'error {c.err:.6e} > e sqrt(d-1) = {c.e * math.sqrt(c.d - 1):.6e} (ratio {c.err / (c.e * math.sqrt(c.d - 1)):.3f}, '
                    f'||A|| = {c.nrm:.3e}, ranks {c.rk})')
    full = [1] + [min(int(np.prod(n[:k])), int(np.prod(n[k:]))) for k in range(1, c.d)] + [1]
    return PASS if c.rk != full else TRIVIAL('nothing truncated')


@clause('C03.svd.rank_minimal', funcs=('svd.svd', 'svd.svd_matrix', 'svd.matrix_skeleton'))
def svd_rank_minimal(n, seed, kind, mag, e, cap, via, layout='C', dtype='float64', form='pos'):
    """Each rank <= the smallest rank whose tail energy in the corresponding unfolding of the input is <= e."""
    c, res = run_svd(n, seed, kind, mag, e, cap, via, layout, dtype, form)
    if c is None:
        return res
    if c.e < 1e-9 * c.nrm:
        return SKIP('e below the rounding floor 1e-9 ||A||')
    # data given in a shorter floating type: the tails are resolved to its rounding level only (slack in e)
    lim = c.e * (1 - 5e-7) if c.eps <= EPS else c.e * (1 - 64 * c.eps) - 64 * c.d * c.eps * c.nrm
    for k, s in enumerate(c.svs):
        t = tails(s)
        qmin = max(1, next((q for q in range(len(t)) if t[q] <= lim), len(t) - 1))
        if c.rk[k + 1] > qmin:
            return FAIL(f'bond {k + 1}: rank {c.rk[k + 1]} > minimal rank {qmin} with tail <= e = {c.e:.6e} '
                        f'(tails {t[max(0, qmin - 1):qmin + 1]}, ||A|| = {c.nrm:.3e})')
    return PASS


@clause('C03.svd.exact_lowrank', funcs=('svd.svd', 'svd.svd_matrix'))
def svd_exact_lowrank(n, seed, rho, mag, via, dtype='float64', layout='C', form='pos'):
    """Arrays of exact low TT-rank are reproduced to rounding accuracy with exactly the ranks of their unfoldings
    (e = 1e-8 ||A||); SKIP unless every unfolding has a clear numerical rank.  dtype != float64: integer-valued
    arrays of exact low rank given in that dtype (float32 data: e = 1e-4 ||A||, gap 1e-2 - its rounding level is 1e-7)."""
    f64 = _eps(dtype) <= EPS
    c, res = run_svd(n, seed, f'lowrank:{rho}' if dtype == 'float64' else f'i:lowrank:{rho}', mag, ['rel', 1e-8 if f64 else 1e-4],
                     1e12, via, layout, dtype, form)
    if c is None:
        return res
    gap = 1e-5 if f64 else 1e-2
    want = [1]
    for s in c.svs:
        if s[0] == 0:
            return SKIP('zero array')
        if np.any((s > 1e-12 * s[0]) & (s < gap * s[0])):
            return SKIP('unfolding without a clear numerical rank')
        want.append(int(np.sum(s >= gap * s[0])))
    want.append(1)
    if c.rk != want:
        return FAIL(f'ranks {c.rk}, TT-ranks of the array {want} (||A|| = {c.nrm:.1e})')
    if not c.err <= 1e4 * c.eps * c.d * c.nrm:
        return FAIL(f'error {c.err:.3e} is not at rounding level of ||A|| = {c.nrm:.1e}')
    return PASS


# ----------------------------------------------------------------------------- svd_matrix / full_matrix

@clause('C03.svd_matrix.roundtrip', funcs=('svd.svd_matrix', 'transformation.full_matrix'))
def svd_matrix_roundtrip(q, coding, cap, layout='C', dtype='float64', form='pos'):
    """Integer-coded 2^q x 2^q matrix: q cores of mode size 4, TT entry at digits m_k = i_k + 2 j_k is A[i, j];
    full_matrix inverts the interleaving (exact after rounding to integers); ranks <= cap.  dtype: the matrix is
    given in that dtype (unsigned / bool: shifted to >= 0 / parity); form: call form of svd_matrix and full_matrix."""
    N = 2 ** q
    i, j = np.meshgrid(np.arange(N), np.arange(N), indexing='ij')
    if coding == 'pos':
        A = (i * N + j + 1).astype(float)
    elif coding == 'rowcol':          # separable: exact QTT-rank 1 after interleaving? no - rank <= 2 per bond
        A = (i + 1.0) * (j + 2.0)
    else:
        A = gen.rng('sm', q, coding).integers(-50, 51, size=(N, N)).astype(float)
    eps = _eps(dtype)
    if dtype != 'float64':
        A = typed(A, dtype)
        if A is None:
            return SKIP('values do not fit the dtype')
    A = _layout(A, layout)
    Af = A.astype(float)
    snap = gen.snapshot(A)
    Y = gen.call_form(teneva.svd_matrix, SIG['svd_matrix'][0], [A, 1e-10, cap], SIG['svd_matrix'][1], form)
    if gen.snapshot(A) != snap:
        return FAIL('input changed')
    msg = gen.wf(Y, [4] * q) if q >= 1 else None
    if msg:
        return FAIL('result not well-formed: ' + msg)
    if any(G.shape[2] > max(1, int(cap)) for G in Y[:-1]):
        return FAIL(f'ranks {[G.shape[2] for G in Y[:-1]]} exceed cap {cap}')
    if not gen.finite(Y):
        return FAIL('non-finite cores')
    if cap < 1e6:
        return TRIVIAL('cap: structure only')
    T = gen.dense([np.asarray(G, dtype=float) for G in Y])
    W = _interleave(Af, q)
    tol = max(1e-9, 4096 * eps) * max(1.0, np.abs(Af).max()) * (1 if eps <= EPS else N)
    if T.shape != W.shape or not np.abs(T - W).max() <= tol:
        return FAIL(f'TT entries differ from A[i,j] at interleaved digits: max dev {np.abs(T - W).max():.3e}')
    B = gen.call_form(teneva.full_matrix, SIG['full_matrix'][0], [Y, 'F'], SIG['full_matrix'][1],
                      {'pos': 'pos', 'kw': 'kw'}.get(form, 'min'))
    if B.shape != A.shape or not np.array_equal(np.rint(B), Af) or not np.abs(B - Af).max() <= tol:
        return FAIL(f'full_matrix(svd_matrix(A)) != A: {int(np.sum(np.rint(B) != Af))} entries differ')
    return PASS


@clause('C03.full_matrix.interleave', funcs=('transformation.full_matrix',))
def full_matrix_interleave(q, r, seed, form='min'):
    """full_matrix of an integer QTT-matrix: M[sum i_k 2^k, sum j_k 2^k] = T[(i_k + 2 j_k)_k], compared with ==.
    form: full_matrix(Y) / full_matrix(Y, 'F') / full_matrix(Y=Y, order='F') - the signature's default spelled out."""
    Y = gen.tt([4] * q, r, seed, 'int')
    T = gen.dense_exact(Y)
    N = 2 ** q
    want = np.zeros((N, N))
    for idx in itertools.product(range(4), repeat=q):
        i = sum((m & 1) << k for k, m in enumerate(idx))
        j = sum((m >> 1) << k for k, m in enumerate(idx))
        want[i, j] = float(T[idx])
    M = gen.call_form(teneva.full_matrix, SIG['full_matrix'][0], [Y, 'F'], SIG['full_matrix'][1], form)
    if M.shape != (N, N) or not np.array_equal(M, want):
        return FAIL('full_matrix differs from the de-interleaved tensor')
    return PASS


# ----------------------------------------------------------------------------- matrix factorisations

def matrix(m, n, seed, kind, scale):
    g = gen.rng('C03mat', m, n, seed, kind)
    if kind == 'zero':
        return np.zeros((m, n))
    if kind == 'gauss':
        A = g.normal(size=(m, n))
    elif kind == 'sym':
        B = g.normal(size=(m, m))
        A = B + B.T
    elif kind.startswith('rank:'):
        rho = int(kind[5:])
        A = g.normal(size=(m, rho)) @ g.normal(size=(rho, n))
    elif kind.startswith('spec:'):
        s = np.array(SPECTRA[kind[5:]][: min(m, n)])
        U, _ = np.linalg.qr(g.normal(size=(m, len(s))))
        V, _ = np.linalg.qr(g.normal(size=(n, len(s))))
        A = (U * s) @ V.T
    elif kind.startswith('symspec:'):
        s = np.array(SPECTRA[kind[8:]][:m])
        U, _ = np.linalg.qr(g.normal(size=(m, len(s))))
        sg = np.where(np.arange(len(s)) % 2 == 0, 1.0, -1.0)
        A = (U * (s * sg)) @ U.T
        A = (A + A.T) / 2
    else:
        raise ValueError(kind)
    return np.ascontiguousarray(A * scale)


def int_matrix(m, n, seed, kind, scale, dtype):
    """Integer-valued member of a matrix family (float64 holding integers) times the integer factor max(1, int(scale))
    (8-bit dtypes: 1): 'rank:k' product of integer factors, 'sym' B + B^T, otherwise rint(10 x the unit-scale member)."""
    g = gen.rng('C03imat', m, n, seed, kind)
    small = np.dtype(dtype).kind in 'bu' and np.dtype(dtype).itemsize == 1
    f = 1 if small else max(1, int(scale))
    if kind == 'zero':
        return np.zeros((m, n))
    if kind.startswith('rank:'):
        rho = int(kind[5:])
        lo = 0 if small else -3
        A = (g.integers(lo, 4, size=(m, rho)) @ g.integers(lo, 4, size=(rho, n))).astype(float)
    elif kind == 'sym':
        B = g.integers(-5, 6, size=(m, m)).astype(float)
        A = B + B.T
    else:
        A = np.rint(10.0 * matrix(m, n, seed, kind, 1.0))
        if kind.startswith('symspec:'):
            A = np.rint((A + A.T) / 2)
    return A * f


def run_matrix(fn, m, n, seed, kind, scale, e, cap, rel=False, layout='C', dtype='float64', form='std', **kw):
    """dtype: dtype of the matrix that is passed (integer / bool: integer-valued member of the family); the reference is
    the float64 image of what is passed.  form: 'std' (the historical call: A, e, r positional, options by keyword) or a
    call form of gen.call_form against the documented signature."""
    c = Case()
    c.eps = _eps(dtype)
    if np.dtype(dtype).kind in 'iub':
        A = int_matrix(m, n, seed, kind, scale, dtype)
    else:
        A = matrix(m, n, seed, kind, scale)
    if dtype != 'float64':
        A = typed(A, dtype)
        if A is None:
            return None, SKIP('values do not fit the dtype')
    c.inp = _layout(A, layout)
    c.A = c.inp.astype(float) if dtype != 'float64' else c.inp
    c.s = np.linalg.svd(c.A, compute_uv=False)
    c.nrm = float(np.linalg.norm(c.A))
    if (c.nrm == 0 or c.s[0] == 0) and (kind != 'zero' or rel or e[0] != 'abs'):
        return None, SKIP('zero matrix')
    c.t = tails(c.s / c.s[0]) if rel else tails(c.s)
    c.ref = (c.nrm / c.s[0]) if rel else c.nrm         # size of tail(0) in the units of e
    wide = 1.0 if c.eps <= EPS else 1e3      # float32 data: thresholds / margins in units of its rounding level
    if e[0] == 'rel':
        c.e = e[1] * c.ref
    elif e[0] == 'abs':
        c.e = float(e[1])
    else:
        _, q, sign = e
        if not (1 <= q < len(c.s)):
            return None, SKIP('no such threshold')
        if c.t[q] < kw.get('floor', 1e-7) * wide * c.ref:
            return None, SKIP('threshold below the rounding floor')
        c.e = c.t[q] * (1 + sign * 1e-6 * wide)
    c.cap = cap
    snap = gen.snapshot(c.inp)
    kw.pop('floor', None)
    if fn is teneva.matrix_skeleton:
        kw['rel'] = rel
    if form == 'std':
        out = fn(c.inp, c.e, cap, **kw)
    else:
        names, dflt = SIG['matrix_skeleton' if fn is teneva.matrix_skeleton else 'matrix_svd']
        vals = [c.inp, c.e, cap] + [kw.get(k, dv) for k, dv in zip(names[3:], dflt[3:])]
        out = gen.call_form(fn, names, vals, dflt, form)
    if gen.snapshot(c.inp) != snap:
        return None, FAIL('input matrix changed')
    if not isinstance(out, tuple) or len(out) != 2:
        return None, FAIL('result is not a pair')
    c.U, c.V = out
    if c.U.ndim != 2 or c.V.ndim != 2 or c.U.shape[0] != m or c.V.shape[1] != n or c.U.shape[1] != c.V.shape[0]:
        return None, FAIL(f'factor shapes {c.U.shape}, {c.V.shape} for a {m} x {n} matrix')
    if c.U.dtype.kind != 'f' or c.V.dtype.kind != 'f':
        return None, FAIL(f'factor dtypes {c.U.dtype}, {c.V.dtype} for input dtype {c.inp.dtype}')
    if not (np.all(np.isfinite(c.U)) and np.all(np.isfinite(c.V))):
        return None, FAIL('non-finite factors')
    c.U, c.V = c.U.astype(float), c.V.astype(float)
    c.q = c.U.shape[1]
    return c, None


def _rank_selection(c, amb):
    """q = max(1, min(int(cap), qmin)); qmin = smallest size with tail <= e; SKIP when e is within the rounding
    ambiguity `amb` (relative, in tail^2) of a tail."""
    if c.q < 1 or c.q > max(1, int(c.cap)) or c.q > len(c.s):
        return FAIL(f'inner size {c.q} outside [1, min(max(1,int({c.cap})), {len(c.s)})]')
    for tq in c.t[:-1]:
        if abs(tq ** 2 - c.e ** 2) <= amb * c.ref ** 2:
            return SKIP('e within rounding distance of a tail energy')
    qmin = next(q for q in range(len(c.t)) if c.t[q] <= c.e)
    want = max(1, min(int(c.cap), qmin))
    if c.q != want:
        return FAIL(f'inner size {c.q}, expected {want} (qmin {qmin}, cap {c.cap}, e = {c.e:.9e}, tails {c.t[max(0, want - 1):want + 2]})')
    return PASS


def _best_approx(c, floor):
    err = float(np.linalg.norm(c.A - c.U @ c.V))
    best = tails(c.s)[min(c.q, len(c.s))]
    if not err <= best * (1 + 1e-6) + floor * c.nrm:
        return FAIL(f'||A - U V|| = {err:.6e} > best rank-{c.q} error {best:.6e} (||A|| = {c.nrm:.3e})')
    if err < best * (1 - 1e-6) - floor * c.nrm:
        return FAIL(f'||A - U V|| = {err:.6e} below the optimum {best:.6e}: oracle inconsistent')
    return PASS


SK = ('svd.matrix_skeleton',)


@clause('C03.matrix_skeleton.rank_selection', funcs=SK)
def msk_rank(m, n, seed, kind, scale, e, cap, rel, give_to, hermitian, layout='C', dtype='float64', form='std'):
    """q <= max(1, int(r)); q = smallest size whose discarded tail energy is <= e (relative to s_0 when rel) unless
    the cap binds."""
    c, res = run_matrix(teneva.matrix_skeleton, m, n, seed, kind, scale, e, cap, rel=rel, layout=layout, dtype=dtype, form=form, hermitian=hermitian, give_to=give_to)
    return res if c is None else _rank_selection(c, 1e-12 * (c.eps / EPS))


@clause('C03.matrix_skeleton.best_approx', funcs=SK)
def msk_best(m, n, seed, kind, scale, e, cap, rel, give_to, hermitian, layout='C', dtype='float64', form='std'):
    """U V is a best rank-q approximation: ||A - U V|| equals the l2 norm of the discarded singular values."""
    c, res = run_matrix(teneva.matrix_skeleton, m, n, seed, kind, scale, e, cap, rel=rel, layout=layout, dtype=dtype, form=form, hermitian=hermitian, give_to=give_to)
    return res if c is None else _best_approx(c, 64 * c.eps)


@clause('C03.matrix_skeleton.give_to', funcs=SK)
def msk_give_to(m, n, seed, kind, scale, e, cap, rel, give_to, hermitian, layout='C', dtype='float64', form='std'):
    """'l': V has orthonormal rows (weights in U); 'r': U has orthonormal columns; 'm': U^T U = V V^T = diag(s_1..s_q)."""
    c, res = run_matrix(teneva.matrix_skeleton, m, n, seed, kind, scale, e, cap, rel=rel, layout=layout, dtype=dtype, form=form, hermitian=hermitian, give_to=give_to)
    if c is None:
        return res
    I = np.eye(c.q)
    GU, GV = c.U.T @ c.U, c.V @ c.V.T
    s = c.s[:c.q]
    tol = 256 * c.eps
    if give_to == 'l':
        ok = np.abs(GV - I).max() <= tol and np.abs(GU - np.diag(s ** 2)).max() <= tol * c.s[0] ** 2
    elif give_to == 'r':
        ok = np.abs(GU - I).max() <= tol and np.abs(GV - np.diag(s ** 2)).max() <= tol * c.s[0] ** 2
    else:
        ok = np.abs(GU - np.diag(s)).max() <= tol * c.s[0] and np.abs(GV - np.diag(s)).max() <= tol * c.s[0]
    if not ok:
        return FAIL(f"give_to={give_to!r}: Gram matrices U^T U = {np.diag(GU)}, V V^T = {np.diag(GV)}, s = {s}")
    return PASS


MS = ('svd.matrix_svd',)
MS_FLOOR = 1e-3      # the Gram-matrix eigen-decomposition resolves tail^2 only to eps ||A||^2


@clause('C03.matrix_svd.rank_selection', funcs=MS)
def msv_rank(m, n, seed, kind, scale, e, cap, layout='C', dtype='float64', form='std'):
    """As matrix_skeleton.rank_selection (absolute e); thresholds and ambiguity respect the eps ||A||^2 resolution."""
    c, res = run_matrix(teneva.matrix_svd, m, n, seed, kind, scale, e, cap, layout=layout, dtype=dtype, form=form, floor=MS_FLOOR)
    return res if c is None else _rank_selection(c, 256 * c.eps * len(c.s))


@clause('C03.matrix_svd.best_approx', funcs=MS)
def msv_best(m, n, seed, kind, scale, e, cap, layout='C', dtype='float64', form='std'):
    """U V is a best rank-q approximation up to the sqrt(eps) ||A|| resolution of the eigen-decomposition."""
    c, res = run_matrix(teneva.matrix_svd, m, n, seed, kind, scale, e, cap, layout=layout, dtype=dtype, form=form, floor=MS_FLOOR)
    return res if c is None else _best_approx(c, 4 * math.sqrt(c.eps))


@clause('C03.matrix_svd.right_orthonormal', funcs=MS)
def msv_orth(m, n, seed, kind, scale, e, cap, layout='C', dtype='float64', form='std'):
    """The right factor has orthonormal rows (up to eps (s_0 / s_q)^2); SKIP when s_q < 1e-5 s_0."""
    c, res = run_matrix(teneva.matrix_svd, m, n, seed, kind, scale, e, cap, layout=layout, dtype=dtype, form=form, floor=MS_FLOOR)
    if c is None:
        return res
    sq = c.s[c.q - 1]
    if c.s[0] == 0 or sq < 1e-5 * c.s[0]:
        return SKIP('smallest kept singular value below 1e-5 s_0')
    G = c.V @ c.V.T
    tol = 256 * c.eps * (c.s[0] / sq) ** 2 * max(m, n)
    if not np.abs(G - np.eye(c.q)).max() <= tol:
        return FAIL(f'V V^T deviates from I by {np.abs(G - np.eye(c.q)).max():.3e} > {tol:.3e}')
    return PASS


@clause('C03.matrix_svd.integer_input', funcs=MS)
def msv_integer(m, n, seed, kind, scale, e, cap, dtype, layout='C', form='std'):
    """matrix_svd of a matrix given in an integer / bool dtype (int64, int32, int16, uint8, bool): the three clauses
    above (rank selection, best approximation, orthonormal right factor) in one - kept apart from them because the
    Gram matrix A A^T is formed IN THE DTYPE OF THE INPUT, which wraps round for the narrow types."""
    if np.dtype(dtype).kind not in 'iub':
        raise ValueError('integer / bool dtypes only')
    for fn in (msv_rank, msv_best, msv_orth):
        res = fn(m, n, seed, kind, scale, e, cap, layout=layout, dtype=dtype, form=form)
        if res[0] == 'fail':
            return FAIL(f'{fn.__name__}: {res[1]}')
        if res[0] == 'skip' and fn is msv_rank and 'rounding distance' not in res[1]:
            return res
    return PASS


# ----------------------------------------------------------------------------- case list

SVD4 = ['C03.svd.shape_ranks', 'C03.svd.error_bound', 'C03.svd.rank_minimal']


def _svd_thresholds(n, seed, kind, mag, via):
    """All (k, q) with tail_k(q) >= 1e-6 ||A|| - from the reference array alone (the library is not called while the
    case list is generated)."""
    if via == 'svd_matrix':
        q_ = len(n)
        M = array([2 ** q_, 2 ** q_], seed, kind if not kind.startswith('lowrank') else 'gauss', mag)
        A = _interleave(M, q_) if not kind.startswith('lowrank') else array(n, seed, kind, mag)
    else:
        A = array(n, seed, kind, mag)
    if A is None:
        return []
    nrm = float(np.linalg.norm(A))
    out = []
    for k in range(1, len(n)):
        sv = np.linalg.svd(A.reshape(int(np.prod(n[:k])), -1), compute_uv=False)
        t = tails(sv)
        for q in range(1, len(sv)):
            if t[q] >= 1e-6 * nrm:
                out.append((k - 1, q))
    return out


def _mat_thresholds(m, n, seed, kind, scale, floor):
    A = matrix(m, n, seed, kind, scale)
    s = np.linalg.svd(A, compute_uv=False)
    if s[0] == 0:
        return []
    t = tails(s)
    return [q for q in range(1, len(s)) if t[q] >= floor * t[0]]


def cases(tier, seed):
    big = tier == 'thorough'
    g = gen.rng('C03', seed)
    # ---- svd
    shapes = [[3, 4], [5, 1], [1, 4], [2, 2, 2], [3, 2, 4], [1, 3, 2], [3, 1, 3], [2, 3, 2, 2], [3, 2, 1, 3], [1, 1, 1]]
    if big:
        shapes += [[5, 5], [2, 5, 3], [2, 2, 2, 2, 2], [3, 2, 1, 2, 3], [4, 4, 4], [2, 3, 4, 2]]
    kinds = ('gauss', 'decay', 'lowrank:2', 'int')
    j = 0
    for n in shapes:
        for kind in kinds:
            j += 1
            for mi, mag in enumerate(MAGS):
                base = dict(n=n, seed=j, kind=kind, mag=mag, via='svd')
                es = [['rel', f] for f in ((0.5, 0.1, 1e-2, 1e-4, 1e-9) if (big or mi % 3 == 0) else (0.3, 1e-3))]
                es.append(['abs', 1e-10])
                for e in es:
                    for cid in SVD4:
                        yield cid, dict(base, e=e, cap=1e12)
                for ci, cap in enumerate(CAPS[1:]):
                    if big or (ci + mi) % 4 == 0:
                        for cid in SVD4:
                            yield cid, dict(base, e=['rel', 0.05], cap=cap)
                if big or mi % 4 == 0:
                    th = _svd_thresholds(n, j, kind, mag, 'svd')
                    if not big and len(th) > 5:
                        th = th[:: max(1, len(th) // 5)]
                    for k, q in th:
                        for sign in (1, -1):
                            for cid in SVD4:
                                yield cid, dict(base, e=['thr', k, q, sign], cap=1e12)
    # e >= ||A|| (everything may go: the floor max(1, .) of the rank), exactly-zero arrays, memory layouts of the input
    for ni, n in enumerate(shapes):
        for ki, kind in enumerate(kinds):
            for mag in (MAGS if big else MAGS[(ni + ki) % 5::5]):
                base = dict(n=n, seed=100 + ni, kind=kind, mag=mag, via='svd')
                for ei, e in enumerate((['rel', 1.0 + 1e-9], ['rel', 1.5], ['abs', 1e30])):
                    if not big and (ni + ki + ei) % 3 == 0:
                        continue
                    for cap in ((1e12, 2) if big else ((1e12, 2)[(ni + ki + ei) % 2],)):
                        for cid in SVD4:
                            yield cid, dict(base, e=e, cap=cap)
                for li, layout in enumerate(('F', 'V', 'R')):
                    if big or (ni + ki + li) % 3 == 0:
                        for e in (['rel', 0.2], ['rel', 1e-6]):
                            for cid in SVD4:
                                yield cid, dict(base, e=e, cap=1e12 if li != 1 else 2, layout=layout)
        for e in (['abs', 1e-10], ['abs', 1.0]):
            for cap in (1e12, 1, 3):
                for cid in SVD4:
                    yield cid, dict(n=n, seed=0, kind='zero', mag=1.0, via='svd', e=e, cap=cap)
    # large mode sizes and many modes
    # (every unfolding keeps min(rows, cols) <= 32: larger factorisations switch the BLAS to threads, which stalls the
    # 16-process pool of the runner)
    wide = [[520, 3], [2, 300, 2], [1, 1025], [2] * 10, [3] * 6, [2, 1, 2, 1, 2, 1, 2, 1, 2]]
    if big:
        wide += [[3, 2048], [2] * 11, [4] * 5, [30, 3, 10], [2, 1] * 5 + [2]]
    for ni, n in enumerate(wide):
        for ki, kind in enumerate(kinds):
            if not big and (ni + ki) % 2:
                continue
            for mag in (MAGS[::2] if big else MAGS[(ni + ki) % 6::6]):
                base = dict(n=n, seed=200 + ni, kind=kind, mag=mag, via='svd')
                for e in (['rel', 0.3], ['rel', 1e-3], ['rel', 1.5], ['abs', 1e-10]):
                    for cid in SVD4:
                        yield cid, dict(base, e=e, cap=1e12)
                for cid in SVD4:
                    yield cid, dict(base, e=['rel', 0.05], cap=2)
                th = _svd_thresholds(n, 200 + ni, kind, mag, 'svd')
                for k, q in th[:: max(1, len(th) // (6 if big else 3))]:
                    for sign in (1, -1):
                        for cid in SVD4:
                            yield cid, dict(base, e=['thr', k, q, sign], cap=1e12)
        for rho in (1, 2):
            yield 'C03.svd.exact_lowrank', dict(n=n, seed=200 + ni, rho=rho, mag=MAGS[(3 * ni + rho) % len(MAGS)], via='svd')
    for n in shapes:
        if len(n) < 2:
            continue
        for rho in (1, 2, 3):
            for mag in (MAGS if big else MAGS[::3]):
                for s in range(3 if big else 1):
                    yield 'C03.svd.exact_lowrank', dict(n=n, seed=s + 7 * rho, rho=rho, mag=mag, via='svd')
    # ---- svd through svd_matrix (mode size 4)
    for q in (2, 3) + ((4,) if big else ()):
        for kind in ('gauss', 'lowrank:2', 'decay'):
            for mag in (MAGS if big else MAGS[::4]):
                base = dict(n=[4] * q, seed=q, kind=kind, mag=mag, via='svd_matrix')
                for e in (['rel', 0.3], ['rel', 1e-2], ['rel', 1e-6]):
                    for cap in (1e12, 2):
                        for cid in SVD4:
                            yield cid, dict(base, e=e, cap=cap)
                th = _svd_thresholds([4] * q, q, kind, mag, 'svd_matrix')
                for k, qq in th[:: max(1, len(th) // (8 if big else 3))]:
                    for sign in (1, -1):
                        for cid in SVD4:
                            yield cid, dict(base, e=['thr', k, qq, sign], cap=1e12)
        for rho in (1, 2):
            for mag in MAGS[::3]:
                yield 'C03.svd.exact_lowrank', dict(n=[4] * q, seed=q, rho=rho, mag=mag, via='svd_matrix')
        for li, layout in enumerate(('F', 'V', 'R')):
            for e in (['rel', 0.3], ['rel', 1e-6], ['rel', 1.5]):
                for cid in SVD4:
                    yield cid, dict(n=[4] * q, seed=q, kind=('gauss', 'decay', 'lowrank:2')[li], mag=MAGS[(4 * li + q) % len(MAGS)],
                                    via='svd_matrix', e=e, cap=1e12, layout=layout)
        for cid in SVD4:
            yield cid, dict(n=[4] * q, seed=0, kind='zero', mag=1.0, via='svd_matrix', e=['abs', 1e-10], cap=1e12)
    for q in range(1, 9 if big else 6):
        for coding in ('pos', 'rowcol', 'rand1', 'rand2'):
            for cap in (1e12, 1, 3):
                yield 'C03.svd_matrix.roundtrip', dict(q=q, coding=coding, cap=cap)
            yield 'C03.svd_matrix.roundtrip', dict(q=q, coding=coding, cap=1e12, layout='FVR'[q % 3])
        for r in (1, 2, 3):
            if 2 <= q <= 6:
                for s in range(3 if big else 1):
                    yield 'C03.full_matrix.interleave', dict(q=q, r=r, seed=s)
    # ---- matrix factorisations
    mshapes = [(1, 1), (1, 4), (4, 1), (3, 3), (4, 6), (7, 5), (2, 5)] + ([(8, 8), (6, 10)] if big else [])
    mkinds = ['gauss', 'rank:2'] + ['spec:' + k for k in SPECTRA]
    scales = (1.0, 1e-6, 1e6) if not big else (1.0, 1e-6, 1e-3, 1e3, 1e6)
    j = 0
    for (m, n) in mshapes:
        for kind in mkinds:
            for scale in scales:
                j += 1
                sd = j
                es = [['rel', f] for f in (0.9, 0.3, 1e-2, 1e-5, 1e-9)] + [['abs', 1e-10]]
                es_thr = [['thr', q, sign] for q in _mat_thresholds(m, n, sd, kind, scale, 1e-7) for sign in (1, -1)]
                for gi, give_to in enumerate(('l', 'r', 'm')):
                    for rel in (False, True):
                        base = dict(m=m, n=n, seed=sd, kind=kind, scale=scale, rel=rel, give_to=give_to, hermitian=False)
                        elist = (es if (big or (gi + j) % 3 == 0) else es[1::2]) + es_thr
                        for e in elist:
                            caps = CAPS if (big and e[0] == 'rel') else ((1e12, CAPS[1 + (j + gi) % 4]) if e[0] == 'rel' else (1e12,))
                            for cap in caps:
                                for cid in ('C03.matrix_skeleton.rank_selection', 'C03.matrix_skeleton.best_approx',
                                            'C03.matrix_skeleton.give_to'):
                                    yield cid, dict(base, e=e, cap=cap)
                base = dict(m=m, n=n, seed=sd, kind=kind, scale=scale)
                es_thr = [['thr', q, sign] for q in _mat_thresholds(m, n, sd, kind, scale, MS_FLOOR) for sign in (1, -1)]
                for e in es + es_thr:
                    for cap in (CAPS if e[0] == 'rel' and e[1] in (0.3, 1e-9) else (1e12,)):
                        for cid in ('C03.matrix_svd.rank_selection', 'C03.matrix_svd.best_approx', 'C03.matrix_svd.right_orthonormal'):
                            yield cid, dict(base, e=e, cap=cap)
    # e >= the whole matrix (floor max(1, .)), zero matrices, memory layouts, long / wide matrices
    MSK = ('C03.matrix_skeleton.rank_selection', 'C03.matrix_skeleton.best_approx', 'C03.matrix_skeleton.give_to')
    MSV = ('C03.matrix_svd.rank_selection', 'C03.matrix_svd.best_approx', 'C03.matrix_svd.right_orthonormal')
    for (m, n) in mshapes + [(600, 4), (3, 700), (1, 300), (30, 30)] + ([(2, 2048), (28, 90)] if big else []):
        for ki, kind in enumerate(mkinds):
            if max(m, n) > 10 and (kind.startswith('spec:') and kind not in ('spec:geom', 'spec:zeros') or (not big and (ki + m) % 2)):
                continue
            for scale in (scales if big else (scales[(m + n + ki) % len(scales)], scales[(m + n + ki + 1) % len(scales)])):
                j += 1
                es = [['rel', 1.0 + 1e-9], ['rel', 2.0], ['abs', 1e30]]
                if max(m, n) > 10:
                    es += [['rel', 0.3], ['rel', 1e-6]] + [['thr', q, sg] for q in _mat_thresholds(m, n, j, kind, scale, MS_FLOOR)[:3] for sg in (1, -1)]
                for ei, e in enumerate(es):
                    if not big and ei < 3 and (j + ei) % 3 == 0:
                        continue
                    for cap in ((1e12, 2) if big else ((1e12, 2)[(j + ei) % 2],)):
                        for cid in MSV:
                            yield cid, dict(m=m, n=n, seed=j, kind=kind, scale=scale, e=e, cap=cap)
                        for gi, give_to in enumerate(('l', 'r', 'm')):
                            if not big and (gi + j + (cap < 1e6)) % 3:
                                continue
                            for cid in MSK:
                                yield cid, dict(m=m, n=n, seed=j, kind=kind, scale=scale, e=e, cap=cap, rel=bool((gi + j) % 2) or e[0] == 'rel' and e[1] == 2.0,
                                                give_to=give_to, hermitian=False)
                layout = 'FVR'[j % 3]
                for e in (['rel', 0.3], ['rel', 1e-6]):
                    for cid in MSV:
                        yield cid, dict(m=m, n=n, seed=j, kind=kind, scale=scale, e=e, cap=1e12, layout=layout)
                    for cid in MSK:
                        yield cid, dict(m=m, n=n, seed=j, kind=kind, scale=scale, e=e, cap=1e12, rel=bool(j % 2), give_to='lrm'[j % 3],
                                        hermitian=False, layout=layout)
        for e in (['abs', 1e-10], ['abs', 1.0]):
            for cap in (1e12, 1, 3):
                for cid in MSV:
                    yield cid, dict(m=m, n=n, seed=0, kind='zero', scale=1.0, e=e, cap=cap)
                for give_to in ('l', 'r', 'm'):
                    for cid in MSK:
                        yield cid, dict(m=m, n=n, seed=0, kind='zero', scale=1.0, e=e, cap=cap, rel=False, give_to=give_to, hermitian=bool(m == n and cap == 3))
    # hermitian=True on symmetric matrices
    for m in (1, 2, 4, 6):
        for kind in ['sym'] + ['symspec:' + k for k in ('geom', 'ties', 'zeros')]:
            for scale in (1.0, 1e-6, 1e6):
                j += 1
                thr = [['thr', q, sign] for q in _mat_thresholds(m, m, j, kind, scale, 1e-7) for sign in (1, -1)]
                for give_to in ('l', 'r', 'm'):
                    for e in [['rel', 0.3], ['rel', 1e-9]] + thr:
                        for cid in ('C03.matrix_skeleton.rank_selection', 'C03.matrix_skeleton.best_approx', 'C03.matrix_skeleton.give_to'):
                            yield cid, dict(m=m, n=m, seed=j, kind=kind, scale=scale, rel=bool(j % 2), give_to=give_to,
                                            hermitian=True, e=e, cap=1e12 if give_to != 'm' else 2)
    # ---- dtype of the dense input (int64 / int32 / int16 / uint8 / bool / float32 / big-endian float64), also in
    # Fortran order / as strided and reversed views: the same contract, reference = float64 image of what is passed
    MSK = ('C03.matrix_skeleton.rank_selection', 'C03.matrix_skeleton.best_approx', 'C03.matrix_skeleton.give_to')
    MSV = ('C03.matrix_svd.rank_selection', 'C03.matrix_svd.best_approx', 'C03.matrix_svd.right_orthonormal')
    dshapes = [[3, 4], [2, 3, 2], [3, 2, 4], [1, 3, 2], [2, 3, 2, 2], [5, 1]] + ([[4, 4, 4], [2, 2, 2, 2, 2], [6, 7]] if big else [])
    for ni, n in enumerate(dshapes):
        for ki, kind in enumerate(kinds):
            for di, dtype in enumerate(DTYPES):
                if not big and ((ni + ki + di) % 3 == 2 or (dtype in ('int16', '>f8') and (ni + ki) % 2)):
                    continue
                isint = np.dtype(dtype).kind in 'iub'
                mags = (1.0, 1e3, 1e6) if isint else (1.0, 1e-6, 1e6)
                if np.dtype(dtype).itemsize == 1:
                    mags = (1.0,)
                elif dtype == 'int16':
                    mags = (1.0, 100.0)
                if not big:
                    mags = mags[(ni + ki + di) % len(mags):][:1]
                for mi, mag in enumerate(mags):
                    base = dict(n=n, seed=300 + ni, kind=kind, mag=mag, via='svd', dtype=dtype)
                    es = [['rel', 0.3], ['rel', 1e-2], ['rel', 1e-6], ['abs', 1e-10], ['rel', 1.5]]
                    for ei, e in enumerate(es if big else [es[(ni + di) % 2], es[2 + (ki + di) % 3]]):
                        for cid in SVD4:
                            yield cid, dict(base, e=e, cap=1e12)
                    if big or (ni + ki + di) % 2 == 0:
                        for cid in SVD4:
                            yield cid, dict(base, e=['rel', 0.05], cap=2)
                    for k in ((0, len(n) - 2) if big else ((ni + di) % max(1, len(n) - 1),)):
                        for q in ((1, 2) if big else (1 + (ki + di) % 2,)):
                            for sign in (1, -1):
                                for cid in SVD4:
                                    yield cid, dict(base, e=['thr', k, q, sign], cap=1e12)
                    for li, layout in enumerate('FVR'):
                        if big or (ni + ki + di + li) % 3 == 0:
                            for cid in SVD4:
                                yield cid, dict(base, e=['rel', 0.1], cap=1e12, layout=layout)
                                yield cid, dict(base, e=['rel', 1e-6], cap=1e12 if li else 2, layout=layout)
        for di, dtype in enumerate(DTYPES):
            for rho in (1, 2, 3):
                for mag in ((1.0, 1e3, 1e6) if big else ((1.0, 1e3, 1e6)[(ni + di + rho) % 3],)):
                    yield 'C03.svd.exact_lowrank', dict(n=n, seed=300 + ni + rho, rho=rho, mag=mag, via='svd', dtype=dtype,
                                                        layout='CFVR'[(ni + di + rho) % 4])
            for e in (['abs', 1e-10], ['abs', 1.0]):
                for cid in SVD4:
                    yield cid, dict(n=n, seed=0, kind='zero', mag=1.0, via='svd', e=e, cap=1e12, dtype=dtype)
    for q in (2, 3) + ((4,) if big else ()):
        for ki, kind in enumerate(('gauss', 'lowrank:2', 'int')):
            for di, dtype in enumerate(DTYPES):
                for mag in ((1.0, 1e3) if big else ((1.0, 1e3)[(q + ki + di) % 2],)):
                    base = dict(n=[4] * q, seed=q, kind=kind, mag=mag, via='svd_matrix', dtype=dtype)
                    for e in (['rel', 0.3], ['rel', 1e-2], ['rel', 1e-6]):
                        for cid in SVD4:
                            yield cid, dict(base, e=e, cap=1e12, layout='CFVR'[(q + ki + di) % 4])
                    for cid in SVD4:
                        yield cid, dict(base, e=['rel', 1e-2], cap=2)
                    for sign in (1, -1):
                        for cid in SVD4:
                            yield cid, dict(base, e=['thr', (q + di) % (q - 1), 1 + ki, sign], cap=1e12)
        for di, dtype in enumerate(DTYPES):
            for rho in (1, 2):
                yield 'C03.svd.exact_lowrank', dict(n=[4] * q, seed=q + rho, rho=rho, mag=(1.0, 1e3)[(q + di) % 2], via='svd_matrix', dtype=dtype)
    # (q = 1 is left to float64: the interleaved tensor has d = 1 there - outside the quantifier d >= 2 - and svd returns
    #  the copy of an integer array as the only core, in the integer dtype.  DOUBTFUL, reported, not yielded.)
    for q in range(2, 7 if big else 6):
        for ci, coding in enumerate(('pos', 'rowcol', 'rand1', 'rand2')):
            for di, dtype in enumerate(DTYPES):
                yield 'C03.svd_matrix.roundtrip', dict(q=q, coding=coding, cap=1e12, layout='CFVR'[(q + ci + di) % 4], dtype=dtype)
                if (q + ci + di) % 3 == 0:
                    yield 'C03.svd_matrix.roundtrip', dict(q=q, coding=coding, cap=2, dtype=dtype)
    j = 5000
    for (m, n) in [(1, 1), (1, 4), (4, 1), (3, 3), (4, 6), (7, 5)] + ([(8, 8), (2, 9), (30, 4)] if big else []):
        for ki, kind in enumerate(('gauss', 'rank:2', 'spec:geom', 'spec:ties', 'spec:zeros')):
            for di, dtype in enumerate(DTYPES):
                if not big and ((m + ki + di) % 3 == 2 or (dtype in ('int16', '>f8') and (m + ki) % 2)):
                    continue
                isint = np.dtype(dtype).kind in 'iub'
                scs = (1.0, 1e3, 1e6) if isint else (1.0, 1e-6, 1e6)
                if np.dtype(dtype).itemsize == 1:
                    scs = (1.0,)
                elif dtype == 'int16':
                    scs = (1.0, 100.0)
                for scale in (scs if big else scs[(m + n + ki + di) % len(scs):][:1]):
                    j += 1
                    es = [['rel', 0.9], ['rel', 0.3], ['rel', 1e-2], ['rel', 1e-6], ['abs', 1e-10], ['rel', 2.0]]
                    es += [['thr', q, sg] for q in (1, 2, 3) for sg in (1, -1)]
                    for ei, e in enumerate(es):
                        if (ei + j) % 3 if not big else (ei + j) % 2 and e[0] == 'thr':
                            continue
                        lay = 'CFVR'[(ei + j) % 4]
                        for cid in (MSV if not isint else ('C03.matrix_svd.integer_input',)):
                            yield cid, dict(m=m, n=n, seed=j, kind=kind, scale=scale, e=e, cap=(1e12, 2)[(ei + j) % 5 == 0], dtype=dtype, layout=lay)
                        for gi, give_to in enumerate('lrm'):
                            if not big and (gi + ei + j) % 3:
                                continue
                            for cid in MSK:
                                yield cid, dict(m=m, n=n, seed=j, kind=kind, scale=scale, e=e, cap=(1e12, 2)[(ei + j) % 5 == 0],
                                                rel=bool((gi + ei + j) % 2), give_to=give_to, hermitian=False, dtype=dtype, layout=lay)
        if m == n:
            for kind in ('sym', 'symspec:geom'):
                for di, dtype in enumerate(DTYPES):
                    j += 1
                    for gi, give_to in enumerate('lrm'):
                        for e in (['rel', 0.3], ['rel', 1e-6], ['thr', 1, 1], ['thr', 2, -1]):
                            for cid in MSK:
                                yield cid, dict(m=m, n=n, seed=j, kind=kind, scale=(1.0, 1e3)[(di + gi) % 2] if np.dtype(dtype).itemsize > 1 else 1.0,
                                                e=e, cap=1e12, rel=bool((gi + di) % 2), give_to=give_to, hermitian=True, dtype=dtype)
        for di, dtype in enumerate(DTYPES):
            for cid in (MSV if np.dtype(dtype).kind == 'f' else ('C03.matrix_svd.integer_input',)):
                yield cid, dict(m=m, n=n, seed=0, kind='zero', scale=1.0, e=['abs', 1e-10], cap=1e12, dtype=dtype)
            for cid in MSK:
                yield cid, dict(m=m, n=n, seed=0, kind='zero', scale=1.0, e=['abs', 1e-10], cap=1e12, rel=False, give_to='lrm'[di % 3],
                                hermitian=False, dtype=dtype)
    # ---- call FORMS of the anchored functions against the documented signatures (SIG): every argument positional in the
    # documented order, every argument by keyword, positional prefix + keywords, trailing defaults left out
    for ni, n in enumerate([[3, 4], [2, 3, 2], [3, 2, 4], [2, 3, 2, 2]] + ([[4, 4, 4], [1, 3, 2]] if big else [])):
        for ki, kind in enumerate(kinds):
            for mag in ((1e-5, 1.0, 1e4) if big else ((1e-5, 1.0, 1e4)[(ni + ki) % 3],)):
                base = dict(n=n, seed=400 + ni, kind=kind, mag=mag, via='svd')
                for fi, form in enumerate(('kw', 'mix:1', 'mix:2', 'min', 'kwmin')):
                    for ei, (e, cap) in enumerate(((['rel', 0.2], 1e12), (['rel', 1e-3], 2), (['abs', 1e-10], 1e12), (['abs', 1e-10], 1),
                                                   (['thr', 0, 1, 1], 1e12))):
                        if not big and form != 'min' and (ei + fi + ni + ki) % 2:
                            continue
                        for cid in SVD4:
                            yield cid, dict(base, e=e, cap=cap, form=form)
                    yield 'C03.svd.exact_lowrank', dict(n=n, seed=400 + ni, rho=1 + ki % 2, mag=mag, via='svd', form=form)
    for q in (2, 3):
        for ki, kind in enumerate(('gauss', 'lowrank:2', 'decay')):
            for form in ('kw', 'mix:1', 'mix:2', 'min', 'kwmin'):
                base = dict(n=[4] * q, seed=q + 40, kind=kind, mag=(1e-5, 1.0, 1e4)[(q + ki) % 3], via='svd_matrix', form=form)
                for e, cap in ((['rel', 0.2], 1e12), (['rel', 1e-3], 2), (['abs', 1e-10], 1e12), (['thr', 0, 1, 1], 1e12)):
                    for cid in SVD4:
                        yield cid, dict(base, e=e, cap=cap)
        for form in ('kw', 'mix:1', 'mix:2', 'min', 'kwmin'):
            for coding in ('pos', 'rand1'):
                for cap in (1e12, 2):
                    yield 'C03.svd_matrix.roundtrip', dict(q=q, coding=coding, cap=cap, form=form)
        for form in ('pos', 'kw'):
            for r in (1, 3):
                yield 'C03.full_matrix.interleave', dict(q=q, r=r, seed=5, form=form)
    j = 6000
    for (m, n) in [(1, 1), (1, 4), (4, 1), (3, 3), (4, 6), (9, 7), (6, 11), (8, 8), (5, 12)]:
        for ki, kind in enumerate(('gauss', 'rank:2', 'spec:geom', 'spec:ties')):
            if not big and (m * n + ki) % 2:
                continue
            for scale in ((1e-5, 1.0, 1e4) if big else ((1e-5, 1.0, 1e4)[(m + n + ki) % 3],)):
                j += 1
                es = [['rel', 0.3], ['rel', 2e-2], ['rel', 1e-6], ['abs', 1e-10], ['thr', 1, 1], ['thr', 2, -1], ['thr', 3, 1]]
                for form in ('pos', 'kw', 'mix:3', 'mix:4', 'mix:5', 'min', 'kwmin'):
                    for rel in (False, True):
                        for give_to in 'lrm':
                            for ei, (e, cap) in enumerate([(e, 1e12) for e in es] + [(['rel', 1e-9], 3), (['rel', 1e-2], 1)]):
                                if (ei + j + 2 * rel + 'lrm'.index(give_to) + len(form)) % (3 if big else 9):
                                    continue
                                for cid in MSK:
                                    yield cid, dict(m=m, n=n, seed=j, kind=kind, scale=scale, e=e, cap=cap, rel=rel, give_to=give_to,
                                                    hermitian=False, form=form)
                for fi, form in enumerate(('kw', 'mix:1', 'mix:2', 'min', 'kwmin')):
                    for ei, (e, cap) in enumerate(((['rel', 0.3], 1e12), (['rel', 1e-2], 2), (['abs', 1e-10], 1e12), (['thr', 1, 1], 1e12))):
                        if not big and (ei + fi + j) % 2:
                            continue
                        for cid in MSV:
                            yield cid, dict(m=m, n=n, seed=j, kind=kind, scale=scale, e=e, cap=cap, form=form)
        if m == n:
            for kind in ('sym', 'symspec:geom', 'symspec:ties'):
                j += 1
                for form in ('pos', 'kw', 'mix:3', 'mix:4', 'mix:5', 'min', 'kwmin'):
                    for rel in (False, True):
                        for gi, give_to in enumerate('lrm'):
                            for ei, e in enumerate((['rel', 0.3], ['rel', 1e-6], ['thr', 1, 1], ['thr', 2, -1])):
                                if not big and (ei + gi + rel + len(form) + j) % 4:
                                    continue
                                for cid in MSK:
                                    yield cid, dict(m=m, n=n, seed=j, kind=kind, scale=(1e-5, 1.0, 1e4)[j % 3], e=e, cap=1e12, rel=rel,
                                                    give_to=give_to, hermitian=True, form=form)
    # the documented DEFAULTS left out of the call (svd(A), matrix_skeleton(A), matrix_svd(A) ...: e = 1e-10, r = 1e12,
    # hermitian = rel = False, give_to = 'm') on data whose unfolding tails straddle the absolute default accuracy 1e-10
    for mag in (1e-7, 1e-8, 1e-9, 3e-10):
        for form in ('min', 'kwmin', 'mix:1'):
            for ni, n in enumerate(([3, 4], [2, 3, 2], [4, 4], [2, 2, 3, 2])):
                for kind in ('decay', 'gauss'):
                    for cid in SVD4:
                        yield cid, dict(n=n, seed=450 + ni, kind=kind, mag=mag, via='svd', e=['abs', 1e-10], cap=1e12, form=form)
            for kind in ('decay', 'gauss'):
                for cid in SVD4:
                    yield cid, dict(n=[4, 4], seed=452, kind=kind, mag=mag, via='svd_matrix', e=['abs', 1e-10], cap=1e12, form=form)
            for (m, n) in ((4, 6), (5, 5), (7, 3)):
                for kind in ('spec:geom', 'gauss'):
                    for cid in MSK:
                        yield cid, dict(m=m, n=n, seed=460 + m, kind=kind, scale=mag, e=['abs', 1e-10], cap=1e12, rel=False, give_to='m',
                                        hermitian=False, form=form)
                    for cid in MSV:
                        yield cid, dict(m=m, n=n, seed=460 + m, kind=kind, scale=mag, e=['abs', 1e-10], cap=1e12, form=form)
    # ---- seeded random part
    for _ in range(400 if big else 80):
        d = int(g.integers(2, 6 if big else 5))
        n = [int(x) for x in g.integers(1, 6, size=d)]
        if int(np.prod(n)) > 700:
            continue
        base = dict(n=n, seed=int(g.integers(1 << 30)), kind=kinds[int(g.integers(0, 3))],
                    mag=MAGS[int(g.integers(0, len(MAGS)))], via='svd')
        e = ['rel', float(10.0 ** g.uniform(-7, -0.1))]
        for cid in SVD4:
            yield cid, dict(base, e=e, cap=1e12)
            yield cid, dict(base, e=e, cap=int(g.integers(1, 4)))
        m, nn = int(g.integers(1, 8)), int(g.integers(1, 8))
        mb = dict(m=m, n=nn, seed=int(g.integers(1 << 30)), kind=('gauss', 'rank:2', 'spec:geom')[int(g.integers(0, 3))],
                  scale=MAGS[int(g.integers(0, len(MAGS)))], e=['rel', float(10.0 ** g.uniform(-7, -0.1))],
                  cap=(1e12, 1, 2, 3)[int(g.integers(0, 4))])
        for cid in ('C03.matrix_svd.rank_selection', 'C03.matrix_svd.best_approx', 'C03.matrix_svd.right_orthonormal'):
            yield cid, dict(mb)
        mb.update(rel=bool(g.integers(0, 2)), give_to='lrm'[int(g.integers(0, 3))], hermitian=False)
        for cid in ('C03.matrix_skeleton.rank_selection', 'C03.matrix_skeleton.best_approx', 'C03.matrix_skeleton.give_to'):
            yield cid, dict(mb)
