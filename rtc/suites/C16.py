"""C16 (bounded, T3): stabilised arithmetic stays finite and correct where plain floats overflow.

Reference with unbounded exponents: every core is converted EXACTLY to Python integers times a power of two
(`to_int`), scalar products are accumulated in exact big-integer arithmetic (`exact_dot` -> (N, E), value N 2^E),
so norms, distances ||Y1 - Y2||^2 = <Y1,Y1> - 2<Y1,Y2> + <Y2,Y2> (exact, no cancellation error) and single
entries of rank-1 tensors are known for d = 3000 and total scales 2^{+-30000}.  A returned pair (mantissa, p) is
compared through the quotient  mantissa 2^p / (N 2^E), whose exponent part is integer arithmetic.

Tolerance rule (no false alarms): a quotient q passes if |q - 1| <= 256 d eps ("tight": what the code achieves with
a wide margin on every family tried), or else if it is within the rigorous forward bound c d r^2 eps B / |value|
with B the same scalar product of the |cores| (computed exactly as well); only if both fail the case FAILs.

* `C16.core_stab.contract`   above the threshold: integer exponent shift, max|Q| in [1,2), G = 2^(p-p0) Q exactly,
                             scaling the input by 2^j shifts p by j and leaves Q bit-identical; at or below the
                             threshold (default 1e-100 or explicit): (G, p0) unchanged.
* `C16.core_stab.boundary`   exact powers of two (mantissa exactly 1, exponent exactly j) and their floating-point
                             neighbours (reconstruction exact, mantissa within 2 ulp of [1,2)).
* `C16.mul_scalar.stab_value` / `C16.norm.stab_value`   mantissa in [1,2) resp. [1,sqrt 2], integer resp.
                             half-integer exponent, mantissa 2^p = exact value; plain value agrees when representable.
* `C16.orthogonalize.stab_large`  finite cores, |entries| <= 2, pivot max-modulus in [1,2), integer p, orthonormal
                             non-pivot cores, 2^p ||Z[k]|| = exact norm; rank 1: sampled entries 2^p Z[i] = Y[i].
* `C16.accuracy.relative_distance`  accuracy(Y1, Y2) = exact ||Y1-Y2|| / ||Y2|| for huge / tiny tensors, 1e299 when
                             the quotient exceeds 2^500, a documented saturation value for a zero reference, ~0 for a copy.
* `C16.accuracy.mismatched_profiles`  the same for two tensors whose scale sits in different cores (the difference
                             tensor then mixes blocks whose partial products are > 2^1074 apart).
* `C16.truncate.stab_large`  truncate(use_stab=True): finite well-formed cores, ranks not increased (redundant ranks
                             removed), exact relative distance <= e.
* `C16.stab_vs_plain.agree`  representable inputs: stabilised and plain mul_scalar / norm / orthogonalize / truncate
                             coincide up to rounding.
* `C16.stab.extreme_cores`   the property as written for per-core scales 2^-200 / 2^-170 / 2^+520 (adjacent products
                             below core_stab's threshold 1e-100 resp. above 2^1023 before the rescaling happens).

* `C16.orthogonalize.huge_core`  ONE core scaled by 2^520 .. 2^900 (beyond half the double range: squares, Gram matrices and
                             2-norms computed by squaring overflow there, the scaled LAPACK kernels do not) at the first / last /
                             a middle position, optionally with rank-1 bonds next to it and neighbours of 2^-300 .. 2^10; every
                             pivot.  Regime restricted to what the sweeps can represent (each core and the product of the two
                             cores at either end within [2^-300, 2^960]; outside: finding C16.stab.extreme_cores).  The whole
                             contract of stab_large + exact relative distance of 2^p Z to Y; where all partial products are
                             representable also the plain run: finite, denotes Y, coincides with the stabilised one.

* `C16.rescale.exponent_only`  rescaling one core (first / second / mid / penultimate / last) by 2^t, t in {1, -3, 17, -40,
                             100}: mul_scalar, norm and orthogonalize shift their exponent by exactly t (2t if both arguments
                             of the scalar product are rescaled) and return the same mantissa (bit-identical values; QR
                             mantissa cores within 8 ulp).

Parameter coverage (audit): orthogonalize pivot k in {0, 1, d//3, d//2, 2d//3, d-2, d-1, None}; truncate e in {1e-12 .. 0.3},
rank cap r (int / float; below, at and above the TT-rank; cap = TT-rank on rank-deficient 'dup' inputs), is_eigh False;
accuracy separations 2^100 .. 2^520 around the saturation threshold 2^500; mode sizes 1, 2, 3, 5, 17 and mixed lists; ranks
1, 2, 3 and 5 (more than the boundary cores carry); d = 2100 with the total exponent swept over the residues modulo d
(`tshift`: truncate redistributes 2^(p/d) per core); core_stab on 1-D / 2-D / 4-D blocks.

Input forms (form audit): `C16.forms.stab` re-runs mul_scalar.stab_value / norm.stab_value / orthogonalize.stab_large /
accuracy.relative_distance / truncate.stab_large / stab_vs_plain.agree / rescale.exponent_only on tensors given as read-only
cores, read-only non-contiguous views, a tuple of cores (any family / profile, d = 2 .. 500, thorough 2100), with cores of dtype
int64 / int32 / int64 next to float64 (integer family at unit scale; accuracy only with a float first core - an integer first
core makes act_two.sub raise, C01's DOUBTFUL clause), and float32 cores (integer family, per-core exponents |e| <= 40: mul_scalar /
norm in float32 accuracy, because the unchanged library multiplies float32 cores in float32).  Positional / numpy-number call
forms of these functions are exercised in C01 (mul_scalar, norm), C02 (truncate) and C04 (orthogonalize).

Families: positive uniform cores, Gaussian, signed rank 1, integer, orthogonally conjugated block-diagonal cores;
eleven per-core exponent profiles (zero / up / down / alt / front / back / rand / ramp, one = a single huge or tiny core,
ends = first and last core, alt2 = alternating 2^200 / 2^-80) with totals up to 2^{+-30000};
the main clauses keep per-core exponents in [-80, 200] (see `C16.stab.extreme_cores` for the reason).
"""
import math
import numpy as np
import teneva
from rtc.api import clause, PASS, FAIL, TRIVIAL, SKIP
from rtc import gen


BUDGET = (75, 700)
CASE_TIMEOUT = 120
BOUNDS = ('d in {2, 3, 10, 60, 500, 2100, 3000}, rank 1..3 and 5 (3000: rank <= 2 quick), n in {1, 2, 3, 5, 17, mixed}, 5 families, '
          '11 exponent profiles, totals 2^-30000 .. 2^+30000 (|per-core exponent| <= 80 down / 200 up), pivots {0, 1, d/3, d/2, 2d/3, '
          'd-2, d-1, None}, truncate e 1e-12..0.3 / rank caps / is_eigh, accuracy separations 2^100..2^640, one-core rescalings 2^t, '
          'exact big-integer reference; orthogonalize with ONE core of 2^520..2^900 (first / last / middle, rank-1 bonds on either '
          'side, neighbours 2^-300..2^10, d = 3..60 and 1200, stabilised and - where representable - plain: 542 quick cases); input forms '
          'of the core list (read-only, views, tuple, int64 / int32 / mixed, float32) through 7 stabilised clauses, d = 2..500 (thorough 2100)')

EPS = np.finfo(float).eps
PROFILES = ('zero', 'up', 'down', 'alt', 'front', 'back', 'rand', 'ramp')
LO, HI = -80, 200


# ----------------------------------------------------------------------------- exact reference

def to_int(G):
    """(M, e): object array of Python ints and an exponent with G == M * 2^e exactly."""
    G = np.asarray(G, dtype=float)
    m, ex = np.frexp(G)
    mant = np.ldexp(m, 53).astype(np.int64)
    nz = mant != 0
    M = np.zeros(G.shape, dtype=object)
    if not nz.any():
        M[...] = 0
        return M, 0
    e = int((ex[nz] - 53).min())
    for idx in zip(*np.nonzero(nz)):
        M[idx] = int(mant[idx]) << int(ex[idx] - 53 - e)
    z = np.nonzero(~nz)
    for idx in zip(*z):
        M[idx] = 0
    return M, e


def exact_dot(Y1, Y2, absval=False):
    """<Y1, Y2> = N * 2^E exactly (N a Python int); absval: the same for the |cores|."""
    V = np.array([[1]], dtype=object)
    E = 0
    for G1, G2 in zip(Y1, Y2):
        M1, e1 = to_int(np.abs(G1) if absval else G1)
        M2, e2 = (M1, e1) if G2 is G1 else to_int(np.abs(G2) if absval else G2)
        W = None
        for m in range(M1.shape[1]):
            T = M1[:, m, :].T.dot(V).dot(M2[:, m, :])
            W = T if W is None else W + T
        V = W
        E += e1 + e2
    return int(V[0, 0]), E


def me(N):
    """(m, b): float m with |m| in [0.5, 1) and N ~ m * 2^b (relative error 2^-60); (0, 0) for N = 0."""
    if N == 0:
        return 0.0, 0
    b = abs(N).bit_length()
    if b > 64:
        return (N >> (b - 64)) / 18446744073709551616.0, b
    return N / float(1 << b), b


def bigratio(N1, E1, N2, E2):
    """(N1 2^E1) / (N2 2^E2) as a float; N1 may also be a float.  inf / 0 when the exponents are far apart."""
    if isinstance(N1, (float, np.floating)):
        m1, b1 = math.frexp(float(N1))
    else:
        m1, b1 = me(N1)
    m2, b2 = me(N2)
    if m2 == 0:
        return float('inf') if m1 != 0 else 1.0
    try:
        return math.ldexp(m1 / m2, max(-4000, min(4000, b1 + int(E1) - b2 - int(E2))))
    except OverflowError:
        return float('inf') if (m1 > 0) == (m2 > 0) else float('-inf')


def quotient(v, p, N, E):
    """v 2^p / (N 2^E) as a float."""
    return bigratio(float(v), p, N, E)


def combine(terms):
    """sum_i c_i N_i 2^{E_i} as (N, E), exact."""
    E = min(t[2] for t in terms)
    return sum(c * (N << (Et - E)) for c, N, Et in terms), E


EPS32 = float(np.finfo(np.float32).eps)
# input form of the tensors built by make() and rounding unit of `agrees` - set (and restored) by `C16.forms.stab` only
_FORM = {'form': None, 'eps': EPS}


def agrees(q, d, rigorous):
    """Tolerance rule of the module docstring; `rigorous` is a callable returning the rigorous relative bound."""
    if not np.isfinite(q):
        return False
    if abs(q - 1) <= 256 * d * _FORM['eps']:
        return True
    return abs(q - 1) <= rigorous()


# ----------------------------------------------------------------------------- inputs

def exponents(d, prof, s, seed):
    """Per-core exponents of a profile with per-core magnitude s (total about s*d), each within [LO, HI]."""
    g = gen.rng('C16exp', d, prof, s, seed)
    if prof == 'zero':
        ex = [0] * d
    elif prof in ('up', 'down'):
        ex = [abs(s) if prof == 'up' else -abs(s)] * d
    elif prof == 'alt':
        ex = [abs(s) if k % 2 == 0 else -abs(s) for k in range(d)]
    elif prof in ('front', 'back'):
        T = s * d
        step = HI if T > 0 else LO
        ex = [0] * d
        k = 0
        while T != 0 and k < d:
            u = step if abs(T) >= abs(step) else T
            ex[k] = u
            T -= u
            k += 1
        if prof == 'back':
            ex = ex[::-1]
    elif prof == 'rand':
        ex = [int(x) + s for x in g.integers(-abs(s) - 1, abs(s) + 2, size=d)]
    elif prof == 'ramp':
        ex = [int(round(2 * s * k / max(1, d - 1))) for k in range(d)]
    elif prof == 'one':            # one huge (s > 0) / tiny (s < 0) core at a seed-dependent position, the others O(1)
        ex = [0] * d
        ex[(7 * seed + 3) % d] = HI if s > 0 else LO
    elif prof == 'ends':           # the scale sits in the first and the last core only
        ex = [0] * d
        ex[0] = ex[-1] = HI if s > 0 else LO
    elif prof == 'alt2':           # alternating with unequal magnitudes: huge, tiny, huge, ... (net drift |HI + LO| per pair)
        ex = [(HI if k % 2 == 0 else LO) if s > 0 else (LO if k % 2 == 0 else HI) for k in range(d)]
    else:
        raise ValueError(prof)
    return [max(LO, min(HI, int(x))) for x in ex]


def modes(d, n):
    """Mode sizes: n an int (all modes) or a list that is repeated cyclically."""
    return [int(n)] * d if isinstance(n, int) else [int(n[k % len(n)]) for k in range(d)]


def make(d, r, n, seed, fam, prof, s, exps=None, tshift=0, rr=None):
    """TT-tensor of a family with exact power-of-two per-core scales; returns (Y, exps).  n: int or list (cyclic);
    tshift: the exponents of the first |tshift| cores (cyclically) are raised / lowered by one more, so that the total
    exponent moves by exactly tshift.  rr: explicit rank profile (entries 1 or r) instead of the uniform one."""
    g = gen.rng('C16tt', d, r, n, seed, fam)
    nn = modes(d, n)
    if rr is None:
        rr = [1] + [1 if fam == 'rank1s' else r] * (d - 1) + [1]
    Y = []
    if fam == 'rot':
        # orthogonally conjugated block-diagonal cores: r (nearly) orthogonal rank-1 terms; bond k is rotated by an
        # orthogonal Q_k on both sides, which cancels in the chain - perfectly conditioned at any d, signed entries
        Qs = [None] + [np.linalg.qr(gen.rng('C16rot', d, r, n, seed, k).normal(size=(rr[k], rr[k])))[0] for k in range(1, d)] + [None]
    for k in range(d):
        n = nn[k]
        shp = (rr[k], n, rr[k + 1])
        if fam == 'pos':
            G = g.uniform(0.5, 1.5, size=shp)
        elif fam in ('gauss', 'rank1s'):
            G = g.normal(size=shp)
        elif fam == 'int':
            G = g.integers(-3, 4, size=shp).astype(float)
            if not G.any():
                G[0, 0, 0] = 1.0
        elif fam == 'rot':
            G = np.zeros(shp)
            for a in range(max(shp[0], shp[2])):
                u = np.zeros(n)
                u[a % n] = 1.0 + 0.1 * a
                u = u + (0.25 * gen.rng('C16u', seed, k, a).normal(size=n) if n > r else 0.0)
                G[a if shp[0] > 1 else 0, :, a if shp[2] > 1 else 0] = u
            if Qs[k] is not None:
                G = np.einsum('ab,bnc->anc', Qs[k].T, G)
            if Qs[k + 1] is not None:
                G = np.einsum('anb,bc->anc', G, Qs[k + 1])
        else:
            raise ValueError(fam)
        Y.append(G)
    ex = exponents(d, prof, s, seed) if exps is None else list(exps)
    for j in range(abs(int(tshift))):
        ex[j % d] += 1 if tshift > 0 else -1
    Y = [np.ldexp(G, e) for G, e in zip(Y, ex)]
    if _FORM['form']:               # another INPUT FORM of the same tensor (ValueError if a value does not survive the dtype)
        Y = gen.tt_form1(Y, _FORM['form'])
    return Y, ex


def block_add(Y1, Y2):
    """Own block construction of Y1 + Y2 (not teneva.add)."""
    d = len(Y1)
    out = []
    for k, (A, B) in enumerate(zip(Y1, Y2)):
        if k == 0:
            G = np.concatenate([A, B], axis=2)
        elif k == d - 1:
            G = np.concatenate([A, B], axis=0)
        else:
            G = np.zeros((A.shape[0] + B.shape[0], A.shape[1], A.shape[2] + B.shape[2]))
            G[:A.shape[0], :, :A.shape[2]] = A
            G[A.shape[0]:, :, A.shape[2]:] = B
        out.append(G)
    return out


# ----------------------------------------------------------------------------- core_stab

@clause('C16.core_stab.contract', funcs=('core.core_stab',))
def core_stab_contract(shape, seed, k, p0, thr):
    """(Q, p) = core_stab(G, p0[, thr]): at or below the threshold (G, p0) unchanged; otherwise p - p0 an integer,
    max|Q| in [1, 2), G = 2^(p-p0) Q exactly; scaling G by 2^j shifts p by j and leaves Q bit-identical."""
    g = gen.rng('cs', shape, seed)
    G0 = g.normal(size=shape)
    if seed % 5 == 0:
        G0[g.random(size=shape) < 0.4] = 0.0
    if seed % 7 == 3:
        G0[...] = 0.0
    G = np.ldexp(G0, k)
    snap = gen.snapshot(G)
    kw = {} if thr is None else {'thr': thr}
    Q, p = teneva.core_stab(G, p0, **kw)
    if gen.snapshot(G) != snap:
        return FAIL('input changed')
    t = 1e-100 if thr is None else thr
    vmax = float(np.abs(G).max())
    if vmax <= t:
        if p != p0 or not np.array_equal(Q, G):
            return FAIL(f'max|G| = {vmax:.3e} <= thr = {t}: result changed (p = {p}, p0 = {p0})')
        return PASS
    if isinstance(p, bool) or not isinstance(p, (int, np.integer)):
        return FAIL(f'exponent {p!r} is not an integer')
    mx = float(np.abs(Q).max())
    if not (1.0 <= mx < 2.0):
        return FAIL(f'max|Q| = {mx!r} not in [1, 2)')
    if Q.shape != G.shape or not np.array_equal(np.ldexp(Q, int(p - p0)), G):
        return FAIL('G != 2^(p-p0) Q')
    for j in (1, -3, 17, -40):
        G2 = np.ldexp(G, j)
        if float(np.abs(G2).max()) <= t:
            continue
        Q2, p2 = teneva.core_stab(G2, p0, **kw)
        if p2 != p + j or not np.array_equal(Q2, Q) or not np.array_equal(np.signbit(Q2), np.signbit(Q)):
            return FAIL(f'scaling by 2^{j}: exponent {p} -> {p2}, mantissa identical: {np.array_equal(Q2, Q)}')
    return PASS


@clause('C16.core_stab.boundary', funcs=('core.core_stab',))
def core_stab_boundary(j, p0):
    """max|G| an exact power of two 2^j: mantissa exactly 1 and exponent exactly p0 + j; one ulp below / above:
    exact reconstruction, exponent j-1 or j, mantissa within 2 ulp of [1, 2)."""
    x = math.ldexp(1.0, j)
    for name, v in (('2^j', x), ('below', float(np.nextafter(x, 0.0))), ('above', float(np.nextafter(x, np.inf)))):
        G = np.array([[[v, -v / 3.0], [0.0, v / 7.0]]])
        Q, p = teneva.core_stab(G, p0)
        if v <= 1e-100:
            if p != p0 or not np.array_equal(Q, G):
                return FAIL(f'{name}: below the threshold but changed')
            continue
        if not np.array_equal(np.ldexp(Q, int(p - p0)), G):
            return FAIL(f'{name}: G != 2^(p-p0) Q')
        mx = float(np.abs(Q).max())
        if name == '2^j':
            if p != p0 + j or mx != 1.0:
                return FAIL(f'exact power of two 2^{j}: exponent {p - p0}, mantissa {mx!r}')
        else:
            if p - p0 not in (j - 1, j) or not (1.0 - 2 * EPS <= mx < 2.0):
                return FAIL(f'{name} 2^{j}: exponent {p - p0}, mantissa {mx!r}')
    return PASS


# ----------------------------------------------------------------------------- mul_scalar, norm

def _is_int(p):
    return not isinstance(p, bool) and isinstance(p, (int, np.integer))


@clause('C16.mul_scalar.stab_value', funcs=('act_two.mul_scalar', 'core.core_stab'))
def mul_scalar_stab(d, r, n, seed, fam, prof, s, prof2, s2):
    """(v, p) = mul_scalar(Y1, Y2, use_stab=True): p an integer, |v| in [1, 2) (or 0), v 2^p = exact <Y1, Y2>."""
    Y1, _ = make(d, r, n, seed, fam, prof, s)
    Y2, _ = make(d, max(1, r - 1) if r > 1 else 2, n, seed + 1, fam if fam != 'rank1s' else 'gauss', prof2, s2)
    snap = gen.snapshot([Y1, Y2])
    out = teneva.mul_scalar(Y1, Y2, use_stab=True)
    if gen.snapshot([Y1, Y2]) != snap:
        return FAIL('input changed')
    if not isinstance(out, tuple) or len(out) != 2:
        return FAIL('no (value, exponent) pair')
    v, p = out
    if not _is_int(p):
        return FAIL(f'exponent {p!r} is not an integer')
    N, E = exact_dot(Y1, Y2)
    if N == 0:
        if abs(v) < 1e-6:
            return TRIVIAL('scalar product exactly zero')
        # an exact zero can be a cancellation of huge terms (integer cores, d = 500: the partial sums pass 2^53 and stop being
        # exact); what floating point can deliver then is zero relative to the sum of the moduli, not zero
        Na, Ea = exact_dot(Y1, Y2, absval=True)
        ma, ba = me(Na)
        if np.isfinite(v) and Na != 0 and math.log2(abs(v)) + p <= math.log2(abs(ma)) + ba + Ea + math.log2(64 * d * max(r, 2) ** 2 * EPS):
            return TRIVIAL('scalar product zero by cancellation: result is zero relative to the sum of the moduli')
        return FAIL(f'exact value 0, got {v} 2^{p}')
    if not (np.isfinite(v) and 1.0 <= abs(v) < 2.0):
        return FAIL(f'mantissa {v!r} not in [1, 2)')
    q = quotient(v, p, N, E)

    def rigorous():
        B, EB = exact_dot(Y1, Y2, absval=True)
        return 64.0 * d * (r * r + 4) * EPS * abs(bigratio(B, EB, N, E))
    if not agrees(q, d, rigorous):
        m, b = me(N)
        return FAIL(f'v 2^p / exact = {q!r} (v = {v!r}, p = {p}, exact = {m!r} 2^{b + E})')
    return PASS


@clause('C16.norm.stab_value', funcs=('act_one.norm', 'act_two.mul_scalar', 'core.core_stab'))
def norm_stab(d, r, n, seed, fam, prof, s):
    """(z, q) = norm(Y, use_stab=True): 2q an integer, z in [1, sqrt 2], (z 2^q)^2 = exact <Y, Y>."""
    Y, ex = make(d, r, n, seed, fam, prof, s)
    snap = gen.snapshot(Y)
    out = teneva.norm(Y, use_stab=True)
    if gen.snapshot(Y) != snap:
        return FAIL('input changed')
    if not isinstance(out, tuple) or len(out) != 2:
        return FAIL('no (value, exponent) pair')
    z, q = out
    if float(2 * q) != int(round(2 * q)):
        return FAIL(f'exponent {q!r} is neither an integer nor a half-integer')
    N, E = exact_dot(Y, Y)
    if N == 0:
        return PASS if z == 0 else FAIL(f'zero tensor, norm mantissa {z}')
    if not (np.isfinite(z) and 1.0 <= z <= math.sqrt(2.0) * (1 + 4 * EPS)):
        return FAIL(f'mantissa {z!r} not in [1, sqrt 2]')
    quo = quotient(z * z, int(round(2 * q)), N, E)

    def rigorous():
        B, EB = exact_dot(Y, Y, absval=True)
        return 64.0 * d * (r * r + 4) * EPS * abs(bigratio(B, EB, N, E))
    if not agrees(quo, d, rigorous):
        m, b = me(N)
        return FAIL(f'(z 2^q)^2 / exact = {quo!r} (z = {z!r}, q = {q}, exact = {m!r} 2^{b + E})')
    return PASS


# ----------------------------------------------------------------------------- orthogonalize

def _pivot(d, kmode):
    if isinstance(kmode, int):
        return kmode % d
    return {'first': 0, 'last': d - 1, 'mid': d // 2, 'none': None, 'second': min(1, d - 1), 'penult': max(0, d - 2),
            'third': d // 3, 'q3': (2 * d) // 3}[kmode]


@clause('C16.orthogonalize.stab_large', funcs=('transformation.orthogonalize', 'core.core_stab'))
def orth_stab(d, r, n, seed, fam, prof, s, kmode):
    """orthogonalize(Y, k, use_stab=True) = (Z, p): finite cores with |entries| <= 2, integer p, pivot max-modulus
    in [1, 2), non-pivot cores orthonormal, 2^p ||Z[k]|| = exact ||Y||; rank 1: sampled entries 2^p Z[i] = Y[i]."""
    Y, ex = make(d, r, n, seed, fam, prof, s)
    k = _pivot(d, kmode)
    snap = gen.snapshot(Y)
    out = teneva.orthogonalize(Y, k, use_stab=True)
    if gen.snapshot(Y) != snap:
        return FAIL('input changed')
    return _orth_verify(Y, ex, out, d, r, n, seed, k)


def _kappa_log2(Y, ex, N, E):
    """log2 of prod_j ||G_j||_F / ||Y|| (the normwise condition of the QR sweeps), from the exact <Y, Y> = N 2^E"""
    lg = sum(math.log2(max(np.linalg.norm(np.ldexp(G, -e)), 1e-300)) + e for G, e in zip(Y, ex))
    m, b = me(N)
    return lg - 0.5 * (math.log2(m) + b + E)


def _orth_verify(Y, ex, out, d, r, n, seed, k):
    """the contract of C16.orthogonalize.stab_large for a given result `out` of orthogonalize(Y, k, use_stab=True)"""
    if not isinstance(out, tuple) or len(out) != 2:
        return FAIL('no (Z, p) pair')
    Z, p = out
    k = d - 1 if k is None else k
    msg = gen.wf(Z, modes(d, n))
    if msg:
        return FAIL('not well-formed: ' + msg)
    if not _is_int(p):
        return FAIL(f'exponent {p!r} is not an integer')
    if not gen.finite(Z):
        return FAIL('non-finite cores')
    mx = [float(np.abs(G).max()) for G in Z]
    if not all(x <= 2.0 for x in mx):
        return FAIL(f'entries up to {max(mx):.3e}')
    if mx[k] == 0.0 and exact_dot(Y, Y)[0] == 0:
        return TRIVIAL('exactly-zero tensor')
    if not (1.0 <= mx[k] < 2.0):
        return FAIL(f'pivot max-modulus {mx[k]!r} not in [1, 2)')
    for j, G in enumerate(Z):
        if j == k:
            continue
        M = np.einsum('amb,amc->bc', G, G) if j < k else np.einsum('amb,cmb->ac', G, G)
        if not np.abs(M - np.eye(M.shape[0])).max() <= 64 * EPS * max(G.shape[0] * G.shape[1], G.shape[1] * G.shape[2]):
            return FAIL(f'core {j} not orthonormal')
    N, E = exact_dot(Y, Y)
    Mk, ek = to_int(Z[k])
    Nk, Ek = int(sum(int(x) * int(x) for x in Mk.flat)), 2 * ek
    q = bigratio(Nk, Ek + 2 * int(p), N, E)

    def rigorous():      # normwise backward stability of the QR sweeps, relative to prod ||G_j||_F
        lg = sum(math.log2(max(np.linalg.norm(np.ldexp(G, -e)), 1e-300)) + e for G, e in zip(Y, ex))
        m, b = me(N)
        return 64.0 * d * r * EPS * 2.0 ** min(1000.0, 2 * (lg - 0.5 * (math.log2(m) + b + E)))
    if not agrees(q, d, rigorous):
        return FAIL(f'(2^p ||Z[k]||)^2 / ||Y||^2 = {q!r} (p = {p}, k = {k})')
    if all(G.shape[0] == 1 and G.shape[2] == 1 for G in Y):
        g = gen.rng('C16idx', d, seed)
        for _ in range(3):
            i = [int(x) for x in g.integers(0, modes(d, n))]
            num, en, den, ed = 1, 0, 1, 0
            for j in range(d):
                a, ea = to_int(Z[j][:, i[j], :])
                b, eb = to_int(Y[j][:, i[j], :])
                num, en = num * int(a[0, 0]), en + ea
                den, ed = den * int(b[0, 0]), ed + eb
            if den == 0:
                continue
            qq = bigratio(num, en + int(p), den, ed)
            if not abs(qq - 1) <= 256 * d * EPS:
                return FAIL(f'rank 1: 2^p Z[i] / Y[i] = {qq!r} at a sampled multi-index (p = {p})')
    return PASS


def _rel_dist2(Y, Z, p):
    """exact ||Y - 2^p Z||^2 / ||Y||^2 (big-integer scalar products), None for a zero tensor"""
    N11, E11 = exact_dot(Y, Y)
    if N11 == 0:
        return None
    N12, E12 = exact_dot(Y, Z)
    N22, E22 = exact_dot(Z, Z)
    S, ES = combine([(1, N11, E11), (-2, N12, E12 + int(p)), (1, N22, E22 + 2 * int(p))])
    return abs(bigratio(S, ES, N11, E11))


HUGE_LO, HUGE_HI = -300, 960


@clause('C16.orthogonalize.huge_core', funcs=('transformation.orthogonalize', 'transformation.orthogonalize_left',
                                              'transformation.orthogonalize_right', 'core.core_stab'))
def orth_huge_core(d, r, n, seed, fam, bg, pos, ex, nb, rk1, kmode, plain):
    """ONE core (position `pos`: first / last / mid / ...) carries 2^ex with ex beyond half the double range (squares
    overflow above 2^512), its neighbours 2^nb (nb = None: like all other cores 2^bg); rk1 = 1 / 2 / 3: the bond on the
    left / right / both sides of that core has rank 1.  Inside the regime in which the sweeps are representable (every
    core and the product of the two cores at either end within [2^-300, 2^960]; see the known finding
    C16.stab.extreme_cores for the outside) orthogonalize(Y, k, use_stab=True) satisfies the whole contract of
    C16.orthogonalize.stab_large and 2^p Z denotes Y (exact relative distance).  plain = True (all partial products of
    the sweeps representable): the plain orthogonalize(Y, k) is finite, denotes Y and coincides with the stabilised
    result core by core (2^p on the pivot core)."""
    j = _pivot(d, pos)
    j = d - 1 if j is None else j
    rr = [1] + [r] * (d - 1) + [1]
    if rk1 & 1 and j > 0:
        rr[j] = 1
    if rk1 & 2 and j < d - 1:
        rr[j + 1] = 1
    exps = [int(bg)] * d
    if nb is not None:
        for i in (j - 1, j + 1):
            if 0 <= i < d:
                exps[i] = int(nb)
    exps[j] = int(ex)
    ends = [exps[0] + exps[1], exps[-1] + exps[-2]] if d > 1 else []
    if not all(HUGE_LO <= e <= HUGE_HI for e in exps + ends):
        return SKIP('outside the regime in which the sweeps are representable (known finding C16.stab.extreme_cores)')
    Y, exps = make(d, r, n, seed, fam, 'zero', 0, exps=exps, rr=rr)
    k = _pivot(d, kmode)
    snap = gen.snapshot(Y)
    try:
        out = teneva.orthogonalize(Y, k, use_stab=True)
    except Exception as e:
        return FAIL(f'orthogonalize(k={k}, use_stab=True) raised {type(e).__name__}: {str(e)[:200]} (ranks {rr if d <= 12 else "..."}, '
                    f'core {j} scaled by 2^{ex})')
    if gen.snapshot(Y) != snap:
        return FAIL('input changed')
    res = _orth_verify(Y, exps, out, d, r, n, seed, k)
    if res[0] == 'fail':
        return res
    Z, p = out
    kk = d - 1 if k is None else k
    N, E = exact_dot(Y, Y)
    if N == 0:
        return TRIVIAL('exactly-zero tensor')
    tol = 256.0 * d * r * EPS * 2.0 ** min(500.0, _kappa_log2(Y, exps, N, E))
    rel2 = _rel_dist2(Y, Z, p)
    if not rel2 <= tol * tol:
        return FAIL(f'2^p Z does not denote Y: exact relative distance {math.sqrt(rel2) if np.isfinite(rel2) else rel2!r} > {tol:.3e} '
                    f'(p = {p}, k = {kk}, core {j} scaled by 2^{ex})')
    left = [sum(exps[:i + 1]) for i in range(kk + 1)]
    right = [sum(exps[i:]) for i in range(kk, d)]
    if not plain or d > 12 or not all(-900 <= c <= 900 for c in left + right):
        return res                  # the plain sweeps are not (safely) representable: nothing more is stated
    Zp = teneva.orthogonalize(Y, k)
    if gen.snapshot(Y) != snap:
        return FAIL('input changed (plain run)')
    msg = gen.wf(Zp, modes(d, n))
    if msg:
        return FAIL('plain result not well-formed: ' + msg)
    if not gen.finite(Zp):
        return FAIL(f'plain orthogonalize(k={kk}): non-finite cores although every partial product is representable '
                    f'(per-core exponents {exps}, ranks {rr})')
    rel2 = _rel_dist2(Y, Zp, 0)
    if not rel2 <= tol * tol:
        return FAIL(f'plain orthogonalize(k={kk}) does not denote Y: exact relative distance {math.sqrt(rel2)!r} > {tol:.3e}')
    for i in range(d):
        A = np.ldexp(Z[i], int(p)) if i == kk else Z[i]
        if A.shape != Zp[i].shape or not np.abs(A - Zp[i]).max() <= 64 * EPS * max(1e-300, np.abs(Zp[i]).max()):
            return FAIL(f'orthogonalize(k={kk}): core {i} differs between the stabilised and the plain run')
    return PASS


# ----------------------------------------------------------------------------- accuracy

@clause('C16.accuracy.relative_distance', funcs=('act_two.accuracy', 'act_one.norm', 'act_two.sub'))
def accuracy_rel(d, r, n, seed, fam, prof, s, rel, sep=640):
    """accuracy(Y1, Y2) = exact ||Y1 - Y2|| / ||Y2|| for tensors far outside the double range; 1e299 when the
    quotient exceeds 2^500; a documented saturation value (-1 / 1e299 / 0.0) for a zero reference tensor; (numerically)
    zero for a copy."""
    Y2, ex = make(d, r, n, seed, fam, prof, s)
    if rel == 'other':          # an unrelated tensor with the SAME per-core exponents (see accuracy.mismatched_profiles)
        Y1, _ = make(d, r, n, seed + 17, fam, prof, s, exps=ex)
    elif rel == 'perturbed':
        Y1 = [G.copy() for G in Y2]
        j = seed % d
        Y1[j] = Y1[j] * (1 + 1e-3 * gen.rng('pert', seed).uniform(0.5, 1.0, size=Y1[j].shape))
    elif rel == 'copy':
        Y1 = [G.copy() for G in Y2]
    elif rel == 'huge_vs_tiny':            # ||Y1|| / ||Y2|| > 2^600 (sep = 640; other values probe the threshold 2^500)
        Y1 = [G.copy() for G in Y2]
        todo = sep
        for j in range(d):
            u = min(todo, 150)
            Y1[j] = np.ldexp(Y1[j], u)
            todo -= u
        if todo > 0:
            return SKIP(f'cannot separate the scales by 2^{sep} with d cores')
        Y1[0] = Y1[0] * 1.5
    elif rel == 'tiny_vs_huge':            # ||Y1|| / ||Y2|| < 2^-600: distance = ||Y2||
        Y1 = [G.copy() for G in Y2]
        todo = 640
        for j in range(d):
            u = min(todo, 60)
            Y1[j] = np.ldexp(Y1[j], -u)
            todo -= u
        if todo > 0:
            return SKIP('cannot separate the scales by 2^-640 with d cores')
    elif rel == 'zero_ref':
        Y1 = Y2
        Y2 = [G * 0.0 for G in Y2]
    else:
        raise ValueError(rel)
    snap = gen.snapshot([Y1, Y2])
    got = teneva.accuracy(Y1, Y2)
    if gen.snapshot([Y1, Y2]) != snap:
        return FAIL('input changed')
    if rel == 'zero_ref':
        # the relative distance to a zero tensor is undefined; any documented saturation value is accepted
        return TRIVIAL(f'zero reference: {got!r}') if got in (-1, 1e299, 0.0) else \
            FAIL(f'zero reference tensor: accuracy = {got!r} is none of the documented values -1 / 1e299 / 0.0')
    N11, E11 = exact_dot(Y1, Y1)
    N12, E12 = exact_dot(Y1, Y2)
    N22, E22 = exact_dot(Y2, Y2)
    S1, ES = combine([(1, N11, E11), (-2, N12, E12), (1, N22, E22)])
    if N22 == 0:
        return SKIP('reference tensor is zero')
    m1, b1 = me(S1)
    m2, b2 = me(N22)
    lg = None if S1 == 0 else 0.5 * (math.log2(abs(m1)) + b1 + ES - math.log2(m2) - b2 - E22)     # log2 of the true quotient
    if rel == 'copy' or S1 == 0:
        B, EB = exact_dot(Y2, Y2, absval=True)
        lim = math.sqrt(1024.0 * d * (r * r + 4) * EPS * 4 * bigratio(B, EB, N22, E22))
        if not (0 <= got <= lim):
            return FAIL(f'accuracy of a tensor with its copy = {got!r} > rounding level {lim:.3e}')
        return PASS
    if lg > 501:
        return PASS if got == 1e299 else FAIL(f'true quotient 2^{lg:.1f}: accuracy = {got!r}, documented saturation 1e299')
    if lg < -501:
        return PASS if got == 0.0 else FAIL(f'true quotient 2^{lg:.1f}: accuracy = {got!r}, documented saturation 0.0')
    if abs(lg) > 499:
        return SKIP('true quotient within 2 binades of the saturation threshold')
    if not np.isfinite(got) or got < 0:
        return FAIL(f'accuracy = {got!r} for a true quotient 2^{lg:.3f}')
    want = 2.0 ** lg
    q = float(np.float64(got / want) ** 2)              # inf instead of OverflowError

    def rigorous():
        Ns = [(1, *exact_dot(Y1, Y1, absval=True)), (2, *exact_dot(Y1, Y2, absval=True)), (1, *exact_dot(Y2, Y2, absval=True))]
        B, EB = combine(Ns)
        B22, EB22 = Ns[2][1], Ns[2][2]
        c1 = abs(bigratio(B, EB, S1, ES))
        c2 = abs(bigratio(B22, EB22, N22, E22))
        return 64.0 * d * (4 * r * r + 4) * EPS * (c1 + c2)
    if not agrees(q, d, rigorous):
        return FAIL(f'accuracy = {got!r}, exact quotient {want!r} (2^{lg:.6f})')
    return PASS


@clause('C16.accuracy.mismatched_profiles', funcs=('act_two.accuracy', 'act_two.sub', 'act_two.mul_scalar', 'core.core_stab'))
def accuracy_mismatched(d, r, n, seed, fam, shift, factor):
    """Two tensors whose scale is distributed differently over the cores: B is A with 2^shift moved from each of the
    first d/2 cores to the last d/2 cores (exactly the same tensor), times `factor` -> accuracy(A, B) must be
    |1 - factor| / factor.  The difference tensor then has blocks whose partial products differ by more than the
    double range, which a single shared exponent cannot represent."""
    h = d // 2
    Y, _ = make(d, r, n, seed, fam, 'zero', 0)
    A = [np.ldexp(G, shift if k < h else 0) for k, G in enumerate(Y)]
    B = [np.ldexp(G, 0 if k < h else shift) for k, G in enumerate(Y)]
    if d % 2:
        B[-1] = np.ldexp(B[-1], -shift)
    B[0] = B[0] * factor
    got = teneva.accuracy(A, B)
    want = abs(1 - factor) / abs(factor)
    if factor == 1:
        return PASS if 0 <= got <= 1e-6 else FAIL(f'accuracy of a tensor with an exact re-scaling of itself = {got!r}, expected 0')
    if not abs(got - want) <= 1e-6 * want:
        return FAIL(f'accuracy = {got!r}, expected {want!r}')
    return PASS


# ----------------------------------------------------------------------------- truncate

@clause('C16.truncate.stab_large', funcs=('transformation.truncate', 'transformation.orthogonalize', 'core.core_stab'))
def truncate_stab(d, r, n, seed, fam, prof, s, e, inflate, rcap=None, is_eigh=True, tshift=0):
    """truncate(Y, e, use_stab=True): finite well-formed cores of the same shape, no rank increase (redundant ranks
    removed), exact relative distance to the input <= e.  rcap: rank cap r (int or float), every rank <= cap; the
    accuracy is only required if the cap is at least the TT-rank of the tensor.  is_eigh=False: the skeleton
    (SVD) branch.  tshift: total exponent moved by exactly tshift (sweeps the residue of the exponent modulo d)."""
    T, ex = make(d, r, n, seed, fam, prof, s, tshift=tshift)
    if inflate == 'dup':              # Y = T + T/4 as a block tensor: ranks 2r, TT-ranks r
        T2 = [G.copy() for G in T]
        T2[d // 2] = T2[d // 2] * 0.25
        Y = block_add(T, T2)
    elif inflate == 'decay':          # geometrically decaying bond weights
        Y = [G * ((0.05 ** np.arange(G.shape[2]))[None, None, :] if k < d - 1 and k % max(1, d // 7) == 0 else 1.0)
             for k, G in enumerate(T)]
    else:
        Y = T
    rin = [G.shape[2] for G in Y[:-1]]
    snap = gen.snapshot(Y)
    kw = {}
    if rcap is not None:
        kw['r'] = rcap
    if not is_eigh:
        kw['is_eigh'] = False
    Z = teneva.truncate(Y, e, use_stab=True, **kw)
    if gen.snapshot(Y) != snap:
        return FAIL('input changed')
    msg = gen.wf(Z, modes(d, n))
    if msg:
        return FAIL('not well-formed: ' + msg)
    if not gen.finite(Z):
        return FAIL('non-finite cores')
    rk = [G.shape[2] for G in Z[:-1]]
    if any(a > b for a, b in zip(rk, rin)):
        return FAIL('a rank increased')
    rtrue = 1 if fam == 'rank1s' else r
    if inflate == 'dup' and e >= 1e-9 and any(a > rtrue for a in rk):
        return FAIL(f'redundant ranks not removed: max rank {max(rk)} > {r}')
    if rcap is not None:
        if any(a > int(rcap) for a in rk):
            return FAIL(f'rank cap {rcap}: ranks {rk}')
        if int(rcap) < rtrue:
            return PASS if rk != rin else TRIVIAL('nothing truncated')       # binding below the TT-rank: structure only
    N11, E11 = exact_dot(Y, Y)
    N12, E12 = exact_dot(Y, Z)
    N22, E22 = exact_dot(Z, Z)
    S, ES = combine([(1, N11, E11), (-2, N12, E12), (1, N22, E22)])
    if N11 == 0:
        return SKIP('zero tensor')
    if S < 0:
        return FAIL('internal: negative exact squared distance')
    rel2 = bigratio(S, ES, N11, E11)
    floor2 = (1e-9 if d <= 500 else 1e-8) ** 2
    if not rel2 <= e * e * (1 + 1e-6) + floor2:
        return FAIL(f'exact relative distance {math.sqrt(rel2):.6e} > e = {e} (ranks {max(rin)} -> {max(rk)})')
    return PASS if rk != rin else TRIVIAL('nothing truncated')


# ----------------------------------------------------------------------------- stab vs plain

@clause('C16.stab_vs_plain.agree', funcs=('act_two.mul_scalar', 'act_one.norm', 'transformation.orthogonalize',
                                          'transformation.truncate'))
def stab_vs_plain(d, r, n, seed, fam, prof, s, e, rcap=None, is_eigh=True):
    """Representable inputs: v 2^p = plain mul_scalar, z 2^q = plain norm, 2^p Z = plain orthogonalize core by core,
    stabilised truncate = plain truncate (same ranks, same cores up to rounding after contraction)."""
    Y, ex = make(d, r, n, seed, fam, prof, s)
    Y2, _ = make(d, r, n, seed + 5, fam, prof, s)
    plain = teneva.mul_scalar(Y, Y2)
    N, E = exact_dot(Y, Y2)
    if not np.isfinite(plain):
        # a non-finite plain value is only outside the quantifier if the exact value is not representable either
        lg = math.log2(abs(me(N)[0])) + me(N)[1] + E if N else None
        if lg is not None and abs(lg) < 830:          # 1e-250 < |exact| < 1e250
            return FAIL(f'mul_scalar: plain value {plain!r} although the exact value is about 2^{lg:.1f}')
        return SKIP('plain scalar product not (safely) representable')
    if plain == 0 or abs(plain) < 1e-250 or abs(plain) > 1e250:
        return SKIP('plain scalar product not (safely) representable')
    v, p = teneva.mul_scalar(Y, Y2, use_stab=True)
    B, EB = exact_dot(Y, Y2, absval=True)
    cond = abs(bigratio(B, EB, N, E)) if N else float('inf')
    sp = math.ldexp(v, int(p))
    if not (abs(sp - plain) <= 512 * d * EPS * abs(plain) or abs(sp - plain) <= 128.0 * d * (r * r + 4) * EPS * cond * abs(plain)):
        return FAIL(f'mul_scalar: stab {sp!r} vs plain {plain!r}')
    pn = teneva.norm(Y)
    if not np.isfinite(pn):
        NN, EN = exact_dot(Y, Y)
        lg = 0.5 * (math.log2(me(NN)[0]) + me(NN)[1] + EN) if NN else None
        if lg is not None and abs(lg) < 465:          # 1e-140 < exact norm < 1e140
            return FAIL(f'norm: plain value {pn!r} although the exact norm is about 2^{lg:.1f}')
        return SKIP('plain norm not (safely) representable')
    if pn < 1e-140 or pn > 1e140:
        return SKIP('plain norm not (safely) representable')
    z, q = teneva.norm(Y, use_stab=True)
    sn = z * 2.0 ** q
    if not abs(sn - pn) <= 512 * d * EPS * pn:
        return FAIL(f'norm: stab {sn!r} vs plain {pn!r}')
    for k in sorted({0, d - 1, d // 2, min(1, d - 1), max(0, d - 2)}):
        Zs, ps = teneva.orthogonalize(Y, k, use_stab=True)
        Zp = teneva.orthogonalize(Y, k)
        for j in range(d):
            A = np.ldexp(Zs[j], int(ps)) if j == k else Zs[j]
            if A.shape != Zp[j].shape or not np.abs(A - Zp[j]).max() <= 64 * EPS * max(1e-300, np.abs(Zp[j]).max()):
                return FAIL(f'orthogonalize(k={k}): core {j} differs between the stabilised and the plain run')
    kw = {}
    if rcap is not None:
        kw['r'] = rcap
    if not is_eigh:
        kw['is_eigh'] = False
    Ts, Tp = teneva.truncate(Y, e, use_stab=True, **kw), teneva.truncate(Y, e, **kw)
    if rcap is not None and any(G.shape[2] > int(rcap) for G in Ts):
        return FAIL(f'truncate: rank cap {rcap} exceeded: {[G.shape[2] for G in Ts]}')
    if [G.shape for G in Ts] != [G.shape for G in Tp]:
        return FAIL(f'truncate: ranks differ: {[G.shape[2] for G in Ts]} vs {[G.shape[2] for G in Tp]}')
    if d <= 12:
        A, Bp = gen.dense(Ts), gen.dense(Tp)
        if not np.linalg.norm(A - Bp) <= 1e-9 * np.linalg.norm(Bp):
            return FAIL(f'truncate: stabilised and plain results differ by {np.linalg.norm(A - Bp) / np.linalg.norm(Bp):.3e}')
    else:
        N11, E11 = exact_dot(Ts, Ts)
        N12, E12 = exact_dot(Ts, Tp)
        N22, E22 = exact_dot(Tp, Tp)
        S, ES = combine([(1, N11, E11), (-2, N12, E12), (1, N22, E22)])
        rel2 = bigratio(S, ES, N22, E22)
        if not rel2 <= 1e-18:
            return FAIL(f'truncate: stabilised and plain results differ by {math.sqrt(rel2):.3e} (relative)')
    return PASS


# ----------------------------------------------------------------------------- re-scaling one core

def _same_mantissa(a, b):
    """Equal up to 8 ulp.  Bit-identity was demanded here at first; it is more than the property states and it is not even true of
    one and the same library on equal values: the rescaled core is a fresh contiguous array while its neighbours may be views, and
    the contraction kernels (einsum / BLAS) order their sums by memory layout (refactoring C16-r4 with non-contiguous cores: 1 ulp).
    The exponent bookkeeping, which is what the clause is about, stays exact."""
    return bool(abs(a - b) <= 8 * EPS * max(abs(a), abs(b)))


@clause('C16.rescale.exponent_only', funcs=('act_two.mul_scalar', 'act_one.norm', 'transformation.orthogonalize',
                                            'core.core_stab'))
def rescale_exponent_only(d, r, n, seed, fam, prof, s, pos, t, kmode):
    """Rescaling core `pos` by the exact power of two 2^t shifts the exponent and nothing else: mul_scalar(Y, Y2)
    -> (v, p + t) (and (v, p + 2t) if both arguments are rescaled), norm -> (z, q + t) with the same mantissas (8 ulp);
    orthogonalize(Y, k) -> exponent p + t and the same mantissa cores (up to 8 ulp of the largest entry: the QR
    kernels may order their sums differently for another magnitude)."""
    Y, ex = make(d, r, n, seed, fam, prof, s)
    Y2, _ = make(d, max(1, r - 1) if r > 1 else 2, n, seed + 1, fam if fam != 'rank1s' else 'gauss', prof, s)
    j = _pivot(d, pos)
    if j is None:
        j = d - 1
    if not LO - 60 <= ex[j] + t <= HI + 60:
        return SKIP('rescaled core would leave the per-core range of the suite')
    Ys = [np.ldexp(G, t) if i == j else G for i, G in enumerate(Y)]
    Y2s = [np.ldexp(G, t) if i == j else G for i, G in enumerate(Y2)]
    v0, p0 = teneva.mul_scalar(Y, Y2, use_stab=True)
    v1, p1 = teneva.mul_scalar(Ys, Y2, use_stab=True)
    v2, p2 = teneva.mul_scalar(Ys, Y2s, use_stab=True)
    w0, o0 = teneva.mul_scalar(Y2, Y, use_stab=True)
    v3, p3 = teneva.mul_scalar(Y2, Ys, use_stab=True)
    if v0 == 0.0 or w0 == 0.0:          # exactly-zero scalar product: the exponent carries no information
        if not (v1 == 0.0 and v2 == 0.0 and v3 == 0.0):
            return FAIL(f'mul_scalar: zero value became ({v1!r}, {v2!r}, {v3!r}) for core {j} times 2^{t}')
    elif not (np.isfinite(v0) and _same_mantissa(v1, v0) and _same_mantissa(v2, v0) and _same_mantissa(v3, w0)
              and p1 == p0 + t and p2 == p0 + 2 * t and p3 == o0 + t):
        return FAIL(f'mul_scalar: ({v0!r}, {p0}) -> one argument ({v1!r}, {p1}), both ({v2!r}, {p2}), swapped ({v3!r}, {p3}) '
                    f'for core {j} times 2^{t}')
    z0, q0 = teneva.norm(Y, use_stab=True)
    z1, q1 = teneva.norm(Ys, use_stab=True)
    if z0 == 0.0:
        if z1 != 0.0:
            return FAIL(f'norm: zero mantissa became {z1!r}')
        return TRIVIAL('exactly-zero tensor')
    if not (np.isfinite(z0) and _same_mantissa(z1, z0) and q1 == q0 + t):
        return FAIL(f'norm: ({z0!r}, {q0}) -> ({z1!r}, {q1}) for core {j} times 2^{t}')
    k = _pivot(d, kmode)
    Z0, e0 = teneva.orthogonalize(Y, k, use_stab=True)
    Z1, e1 = teneva.orthogonalize(Ys, k, use_stab=True)
    if e1 != e0 + t:
        return FAIL(f'orthogonalize(k={k}): exponent {e0} -> {e1} for core {j} times 2^{t}')
    for i, (A, B) in enumerate(zip(Z0, Z1)):
        if A.shape != B.shape or not np.abs(A - B).max() <= 8 * EPS * max(1.0, float(np.abs(A).max())):
            return FAIL(f'orthogonalize(k={k}): mantissa core {i} changed by {np.abs(A - B).max() if A.shape == B.shape else "shape"} '
                        f'for core {j} times 2^{t}')
    return PASS


# ----------------------------------------------------------------------------- extreme per-core scales

@clause('C16.stab.extreme_cores', funcs=('act_two.mul_scalar', 'act_one.norm', 'core.core_stab'))
def extreme_cores(d, r, n, seed, fam, s):
    """Property as written for per-core scales 2^s with adjacent products below core_stab's threshold (1e-100) or
    above the double range: the stabilised norm is still mantissa 2^exponent = exact norm."""
    Y, _ = make(d, r, n, seed, fam, 'zero', 0)
    Y = [np.ldexp(G, s) for G in Y]
    z, q = teneva.norm(Y, use_stab=True)
    N, E = exact_dot(Y, Y)
    quo = quotient(z * z, int(round(2 * q)), N, E)
    if not (np.isfinite(z) and 1.0 <= z <= 1.5):
        return FAIL(f'norm mantissa {z!r} (exponent {q}); exact norm^2 = {me(N)[0]!r} 2^{me(N)[1] + E}')
    if not abs(quo - 1) <= 1e-9:
        return FAIL(f'(z 2^q)^2 / exact = {quo!r} (z = {z!r}, q = {q})')
    return PASS


# ----------------------------------------------------------------------------- case list


@clause('C16.forms.stab', funcs=('act_two.mul_scalar', 'act_one.norm', 'transformation.orthogonalize', 'act_two.accuracy',
                                 'transformation.truncate', 'core.core_stab'))
def forms_stab(target, form, params):
    """The clauses mul_scalar.stab_value / norm.stab_value / orthogonalize.stab_large / accuracy.relative_distance /
    truncate.stab_large / stab_vs_plain.agree / rescale.exponent_only (`target`) on tensors given in another INPUT FORM
    (`gen.tt_form1`): read-only cores, read-only non-contiguous views, the core list as a tuple (any family / exponent
    profile: the values are untouched), cores of integer dtype / integer next to float64 cores (integer family at unit
    scale), float32 cores (integer family, per-core exponents within the float32 range; mul_scalar / norm only, compared in
    float32 accuracy because the unchanged library multiplies float32 cores in float32).  The exact big-integer reference
    is taken from the values that are passed."""
    fn = {'mul_scalar': mul_scalar_stab, 'norm': norm_stab, 'orthogonalize': orth_stab, 'accuracy': accuracy_rel,
          'truncate': truncate_stab, 'stab_vs_plain': stab_vs_plain, 'rescale': rescale_exponent_only}[target]
    _FORM.update(form=form, eps=EPS32 if form in ('f32', 'mix_f32a', 'mix_f32b', 'tuple_f32_ro') else EPS)
    try:
        return fn(**params)
    finally:
        _FORM.update(form=None, eps=EPS)


def _s_for(d):
    return {2: 80, 3: 80, 10: 80, 60: 80, 500: 60, 2100: 14, 3000: 10}[d]


def cases(tier, seed):
    big = tier == 'thorough'
    g = gen.rng('C16', seed)
    # core_stab
    for shape in ([1, 2, 1], [2, 3, 2], [1, 1, 1], [3, 2, 4], [4, 4, 1]):
        for sd in range(12 if big else 6):
            for k in (0, 1, -1, 52, -53, 300, -300, 1000 if sd % 2 else 600, -330, -333, -340, -700):
                for p0 in (0, 7, -1000):
                    if p0 and (sd + k) % 3:
                        continue
                    yield 'C16.core_stab.contract', dict(shape=shape, seed=sd, k=k, p0=p0, thr=None)
            for thr in (1.0, 1e-3, 0.0, 1e10):
                for k in (-12, -1, 0, 3, 40):
                    yield 'C16.core_stab.contract', dict(shape=shape, seed=sd, k=k, p0=3, thr=thr)
    for j in list(range(-60, 61)) + [-1000, -330, 200, 500, 1000]:
        yield 'C16.core_stab.boundary', dict(j=j, p0=(0, 5, -9)[j % 3])
    for _ in range(200 if big else 40):
        yield 'C16.core_stab.contract', dict(shape=[int(x) for x in g.integers(1, 5, size=3)], seed=int(g.integers(1 << 30)),
                                             k=int(g.integers(-900, 900)), p0=int(g.integers(-50, 50)), thr=None)
    # scalar product, norm, orthogonalize, accuracy, truncate on the d-grid
    fams = ('pos', 'gauss', 'rank1s', 'int', 'rot')
    dgrid = (2, 3, 10, 60, 500, 3000)
    for d in dgrid:
        s0 = _s_for(d)
        profs = PROFILES if (big or d <= 60) else (('up', 'down', 'alt', 'rand') if d < 3000 else ('up', 'down'))
        for fam in fams:
            for r in (1, 2, 3):
                if fam == 'rank1s' and r > 1:
                    continue
                if d == 3000 and (r > 2 or (not big and (r > 1 and fam not in ('pos', 'rot')))):
                    continue
                if d == 500 and not big and r == 3 and fam not in ('pos',):
                    continue
                for pi, prof in enumerate(profs):
                    if d >= 500 and not big and (pi + r) % 2 and prof not in ('up', 'down'):
                        continue
                    for sgn in ((1, -1) if prof in ('front', 'back', 'rand', 'ramp') else (1,)):
                        s = sgn * (s0 if prof != 'zero' else 0)
                        n = 3 if (d <= 60 and (pi + r) % 3 == 0) else 2
                        base = dict(d=d, r=r, n=n, seed=pi + 10 * r, fam=fam, prof=prof, s=s)
                        yield 'C16.norm.stab_value', dict(base)
                        yield 'C16.mul_scalar.stab_value', dict(base, prof2=PROFILES[(pi + 3) % 8], s2=-s if pi % 2 else s)
                        if d < 3000 or big or r == 1 or prof in ('up', 'down'):
                            for kmode in (('first', 'last', 'mid', 'none') if (d <= 60 or big) else (('first', 'last', 'mid')[pi % 3],)):
                                yield 'C16.orthogonalize.stab_large', dict(base, kmode=kmode)
                        rels = ('other', 'perturbed', 'copy', 'huge_vs_tiny', 'tiny_vs_huge', 'zero_ref')
                        for ri, rel in enumerate(rels):
                            if d >= 500 and not big and (ri + pi) % 3:
                                continue
                            if d == 3000 and ((not big and r > 1) or (big and (ri + pi) % 2)):
                                continue
                            yield 'C16.accuracy.relative_distance', dict(base, rel=rel)
                        if fam in ('pos', 'rot', 'gauss', 'rank1s') and (d < 3000 or big or (r == 1 and prof in ('up', 'down'))):
                            for e, inflate in ((1e-6, 'dup'), (1e-3, 'decay'), (1e-10, 'none')):
                                if d >= 500 and not big and inflate == 'none':
                                    continue
                                if d == 3000 and big and (inflate == 'none' or pi % 2):
                                    continue
                                if inflate == 'decay' and r == 1:
                                    continue
                                yield 'C16.truncate.stab_large', dict(base, e=e, inflate=inflate)
    # stabilised vs plain on representable inputs
    for d in (2, 3, 10, 60) + ((500,) if big else ()):
        for fam in ('pos', 'gauss', 'rot', 'int'):
            for r in (1, 2, 3):
                for prof, s in (('zero', 0), ('alt', 40), ('up', 4 if d >= 60 else 30), ('down', -(3 if d >= 60 else 30)), ('rand', 2)):
                    if d >= 60 and fam == 'int':
                        continue
                    yield 'C16.stab_vs_plain.agree', dict(d=d, r=r, n=2, seed=d + r, fam=fam, prof=prof, s=s,
                                                          e=(1e-10, 1e-4, 0.05)[(d + r) % 3])
    for d in (4, 12, 60):
        for shift, factor in ((200, 1.0), (200, 3.0), (-70, 1.0), (-70, 0.5), (40, 1.0), (40, 3.0)):
            yield 'C16.accuracy.mismatched_profiles', dict(d=d, r=2, n=2, seed=d, fam='pos', shift=shift, factor=factor)
    # extreme per-core scales
    for d in (3, 4, 10):
        for s in (-200, -170, 520):
            for fam in ('pos', 'gauss'):
                yield 'C16.stab.extreme_cores', dict(d=d, r=2, n=2, seed=1, fam=fam, s=s)
    # ---- input forms of the core list: read-only / views / tuple (any family and profile), integer dtypes (integer family at
    # unit scale; accuracy only with a float first core - an integer first core makes act_two.sub raise, see C01's DOUBTFUL
    # clause C01.forms.int_first_core_inplace), float32 cores (integer family, exponents within the float32 range)
    fj = 0
    for d in (2, 3, 10, 60, 500) + ((2100,) if big else ()):
        s0 = _s_for(d)
        for fi, form in enumerate(('ro', 'ro_view', 'tuple')):
            for pi, (fam, prof) in enumerate((('pos', 'up'), ('gauss', 'down'), ('rot', 'alt'), ('rank1s', 'rand'), ('int', 'ramp'), ('gauss', 'zero'))):
                fj += 1
                if not big and (fj + d) % 2 and d >= 60:
                    continue
                r = 1 if fam == 'rank1s' else 1 + (fj % 3)
                base = dict(d=d, r=r, n=2 + (fj % 2 if d <= 60 else 0), seed=900 + pi, fam=fam, prof=prof, s=s0 if prof != 'zero' else 0)
                yield 'C16.forms.stab', dict(target='norm', form=form, params=base)
                yield 'C16.forms.stab', dict(target='mul_scalar', form=form, params=dict(base, prof2=PROFILES[(pi + 3) % 8], s2=-base['s'] if pi % 2 else base['s']))
                yield 'C16.forms.stab', dict(target='orthogonalize', form=form, params=dict(base, kmode=('first', 'last', 'mid', 'none')[fj % 4]))
                for rel in (('other', 'perturbed', 'copy', 'huge_vs_tiny', 'tiny_vs_huge', 'zero_ref') if (big or d <= 10) else
                            (('other', 'copy', 'perturbed', 'huge_vs_tiny')[fj % 4],)):
                    yield 'C16.forms.stab', dict(target='accuracy', form=form, params=dict(base, rel=rel))
                if fam != 'int':
                    e, inflate = ((1e-6, 'dup'), (1e-3, 'decay'), (1e-10, 'none'))[fj % 3]
                    if not (inflate == 'decay' and r == 1):
                        yield 'C16.forms.stab', dict(target='truncate', form=form, params=dict(base, e=e, inflate=inflate))
                if d <= 60:
                    yield 'C16.forms.stab', dict(target='rescale', form=form, params=dict(base, pos=('first', 'mid', 'last')[fj % 3], t=(1, -3, 17, -40, 100)[fj % 5],
                                                                                          kmode=('first', 'last', 'mid')[(fj // 3) % 3]))
        for fi, form in enumerate(('i64', 'i32', 'mix_fi', 'mix_if')):
            if d > 60 and not big:
                continue
            for r in (1, 2, 3):
                base = dict(d=d, r=r, n=2 + (r + fi) % 2, seed=920 + r, fam='int', prof='zero', s=0)
                yield 'C16.forms.stab', dict(target='norm', form=form, params=base)
                yield 'C16.forms.stab', dict(target='mul_scalar', form=form, params=dict(base, prof2='zero', s2=0))
                yield 'C16.forms.stab', dict(target='orthogonalize', form=form, params=dict(base, kmode=('first', 'last', 'mid', 'none')[(r + fi) % 4]))
                yield 'C16.forms.stab', dict(target='truncate', form=form, params=dict(base, e=1e-6, inflate='dup'))
                if form == 'mix_fi':
                    for rel in ('other', 'copy', 'perturbed'):
                        yield 'C16.forms.stab', dict(target='accuracy', form=form, params=dict(base, rel=rel))
                if d <= 10:
                    yield 'C16.forms.stab', dict(target='stab_vs_plain', form=form, params=dict(base, e=(1e-10, 1e-4, 0.05)[r % 3]))
        for fi, form in enumerate(('f32', 'mix_f32a', 'mix_f32b', 'tuple_f32_ro')):
            for r in (1, 2):
                for prof, s_ in (('up', 30), ('down', -30), ('alt', 40), ('zero', 0), ('rand', 12)):
                    base = dict(d=d, r=r, n=2, seed=940 + r, fam='int', prof=prof, s=s_)
                    yield 'C16.forms.stab', dict(target='norm', form=form, params=base)
                    yield 'C16.forms.stab', dict(target='mul_scalar', form=form, params=dict(base, prof2=('down', 'up', 'alt', 'zero', 'rand')[(fi + r) % 5],
                                                                                              s2=(-30, 30, 40, 0, 12)[(fi + r) % 5]))
    # ---- parameter / regime coverage (audit) ------------------------------------------------------------------
    NEWPROF = ('one', 'ends', 'alt2')
    # (a) scale distributions: one huge / tiny core, both ends, alternating huge / tiny - every stabilised routine
    for d in (2, 3, 10, 60, 500) + ((3000,) if big else ()):
        for fam in fams:
            for r in (1, 2, 3):
                if fam == 'rank1s' and r > 1 or d >= 500 and r == 3 and not big:
                    continue
                if d == 3000 and (r > 1 or fam in ('int', 'rot')):
                    continue
                for pi, prof in enumerate(NEWPROF):
                    if prof == 'alt2' and d > 500:
                        continue                             # total beyond 2^+-30000
                    for sgn in (1, -1):
                        if not big and (d >= 500 or fam in ('int', 'rot')) and (pi + r + (sgn > 0)) % 2:
                            continue
                        if not big and d >= 500 and (fam in ('int', 'rot') or (r == 2 and fam != 'pos')):
                            continue
                        base = dict(d=d, r=r, n=2, seed=pi + 10 * r + d, fam=fam, prof=prof, s=sgn * 80)
                        yield 'C16.norm.stab_value', dict(base)
                        yield 'C16.mul_scalar.stab_value', dict(base, prof2=(NEWPROF + PROFILES)[(pi + r + d) % 11], s2=-sgn * 40)
                        for kmode in (('first', 'last', 'mid', 'second', 'penult') if ((big and d < 500) or d <= 10) else (('first', 'last', 'mid', 'second', 'penult')[(pi + r) % 5],)):
                            yield 'C16.orthogonalize.stab_large', dict(base, kmode=kmode)
                        for ri, rel in enumerate(('other', 'perturbed', 'copy', 'huge_vs_tiny', 'tiny_vs_huge')):
                            if not big and (d >= 60 or fam in ('int', 'rot')) and (ri + pi + r) % (5 if d >= 500 else 3):
                                continue
                            if big and d >= 500 and (ri + pi + r) % 2:
                                continue
                            yield 'C16.accuracy.relative_distance', dict(base, rel=rel)
                        if fam != 'int' and (big or d < 500 or r == 1):
                            yield 'C16.truncate.stab_large', dict(base, e=1e-6, inflate='dup')
                            if r > 1 and (big or d <= 60):
                                yield 'C16.truncate.stab_large', dict(base, e=1e-3, inflate='decay')
    # (b) pivot next to the ends / at the thirds for the old profiles
    for d in (2, 3, 10, 60) + ((500,) if big else ()):
        for fam in (fams if big and d < 500 else ('pos', 'gauss', 'rank1s')):
            for r in (1, 2, 3):
                if fam == 'rank1s' and r > 1:
                    continue
                for pi, prof in enumerate(PROFILES):
                    for kmode in (('second', 'penult', 'third', 'q3') if big else (('second', 'penult', 'third', 'q3')[(pi + r) % 4],)):
                        yield 'C16.orthogonalize.stab_large', dict(d=d, r=r, n=2 + (pi + r) % 2, seed=pi + 10 * r, fam=fam, prof=prof,
                                                                   s=(80 if pi % 2 else -80) if prof != 'zero' else 0, kmode=kmode)
    # (c) rescaling one core by 2^t: exponent shift and nothing else
    for d in (2, 3, 10, 60) + ((500,) if big else ()):
        for fam in (fams if big else ('pos', 'gauss', 'int')):
            for r in (1, 2, 3):
                if fam == 'rank1s' and r > 1:
                    continue
                for pi, (prof, s_) in enumerate((('zero', 0), ('up', 60), ('down', -60), ('alt', 80), ('rand', 40), ('one', 80))):
                    for ti, t in enumerate((1, -3, 17, -40, 100)):
                        if not big and (ti + pi + r) % 3:
                            continue
                        pos = ('first', 'last', 'mid', 'second', 'penult')[(ti + pi) % 5]
                        kmode = ('first', 'last', 'mid', 'none', 'second')[(ti + r) % 5]
                        yield 'C16.rescale.exponent_only', dict(d=d, r=r, n=2 + (pi % 2), seed=pi + r, fam=fam, prof=prof, s=s_,
                                                                pos=pos, t=t, kmode=kmode)
    # (d) truncate: binding / non-binding rank cap (int and float), skeleton branch, large e
    for d in (2, 3, 10, 60) + ((500,) if big else ()):
        for fam in ('pos', 'gauss', 'rot'):
            for r in (2, 3):
                for pi, (prof, s_) in enumerate((('zero', 0), ('up', 80), ('down', -80), ('alt', 80), ('one', 80))):
                    if not big and d >= 60 and (pi + r) % 2:
                        continue
                    base = dict(d=d, r=r, n=2 + (pi % 2), seed=pi + 10 * r, fam=fam, prof=prof, s=s_)
                    yield 'C16.truncate.stab_large', dict(base, e=1e-6, inflate='dup', rcap=r)             # cap = TT-rank < ranks
                    yield 'C16.truncate.stab_large', dict(base, e=1e-6, inflate='dup', rcap=float(r + 1))
                    yield 'C16.truncate.stab_large', dict(base, e=1e-12, inflate='none', rcap=r - 1)      # cap below the TT-rank
                    yield 'C16.truncate.stab_large', dict(base, e=1e-6, inflate='dup', rcap=1)
                    yield 'C16.truncate.stab_large', dict(base, e=1e-6, inflate='dup', is_eigh=False)
                    yield 'C16.truncate.stab_large', dict(base, e=1e-3, inflate='decay', is_eigh=False, rcap=r)
                    yield 'C16.truncate.stab_large', dict(base, e=0.3, inflate='decay')
    for d in (2, 3, 10, 60):
        for fam in ('pos', 'gauss'):
            for r in (2, 3):
                yield 'C16.stab_vs_plain.agree', dict(d=d, r=r, n=2, seed=d + r, fam=fam, prof='alt', s=40, e=1e-4, rcap=r - 1)
                yield 'C16.stab_vs_plain.agree', dict(d=d, r=r, n=2, seed=d + r, fam=fam, prof='up', s=3, e=1e-4, is_eigh=False)
                yield 'C16.stab_vs_plain.agree', dict(d=d, r=r, n=[3, 1, 2], seed=d + r, fam=fam, prof='rand', s=2, e=0.05, rcap=2.)
    # (e) d > 1030: the total exponent p of the rounding is redistributed as 2^(p/d) per core - sweep p mod d over [0, d)
    # (rank-1 inputs: nothing to truncate, but the exponent is redistributed all the same; exact reference stays cheap)
    for d in ((1031, 2100) if big else (2100,)):
        for fam in ('pos', 'rank1s'):
            for prof, s_ in (('up', 12), ('down', -12)):
                for m in range(8 if big else 4):
                    tsh = (m * (d // (8 if big else 4)) + 37) * (1 if s_ > 0 else -1)
                    base = dict(d=d, r=1, n=2, seed=m + 1, fam=fam, prof=prof, s=s_)
                    if not big and (m + (fam == 'pos') + (s_ > 0)) % 2:
                        continue
                    yield 'C16.truncate.stab_large', dict(base, e=1e-6, inflate='none', tshift=tsh)
                    if big and fam == 'pos':
                        yield 'C16.truncate.stab_large', dict(base, e=1e-6, inflate='dup', tshift=tsh, rcap=1)
        yield 'C16.truncate.stab_large', dict(d=d, r=1, n=2, seed=1, fam='pos', prof='up', s=12, e=1e-6, inflate='dup', tshift=d // 2 + 37, rcap=1)
    # (f) mode sizes 1, 5, 17 and mixed; ranks larger than the boundary cores can carry (r = 5 with n = 2, 1)
    for d in (2, 3, 10, 60):
        for n in (1, 5, [2, 1, 3], [1, 17]):
            for fam in ('pos', 'gauss', 'int'):
                for r in (1, 2, 5):
                    if r == 5 and d > 10 and not big:
                        continue
                    prof, s_ = (('up', 80), ('down', -80), ('alt', 80), ('rand', -60))[(d + r + len(str(n))) % 4]
                    base = dict(d=d, r=r, n=n, seed=d + r, fam=fam, prof=prof, s=s_)
                    yield 'C16.norm.stab_value', dict(base)
                    yield 'C16.mul_scalar.stab_value', dict(base, prof2='alt', s2=30)
                    yield 'C16.orthogonalize.stab_large', dict(base, kmode=('first', 'last', 'mid', 'second')[(d + r) % 4])
                    yield 'C16.accuracy.relative_distance', dict(base, rel=('other', 'perturbed', 'copy')[(d + r) % 3])
                    if fam != 'int':
                        yield 'C16.truncate.stab_large', dict(base, e=1e-6, inflate='dup' if r < 5 else 'none')
    # (g) accuracy: separations on both sides of the saturation threshold 2^500
    for d in (4, 10, 60) + ((500,) if big else ()):
        for fam in ('pos', 'gauss', 'rank1s'):
            for sep in (100, 300, 450, 497, 504, 520):
                for prof, s_ in (('zero', 0), ('up', 40), ('down', -40)):
                    if not big and (sep + d + s_) % 3 == 0:
                        continue
                    yield 'C16.accuracy.relative_distance', dict(d=d, r=1 if fam == 'rank1s' else 2, n=2, seed=sep + d, fam=fam, prof=prof,
                                                                 s=s_, rel='huge_vs_tiny', sep=sep)
    # (h) core_stab on 1-D / 2-D blocks (mul_scalar passes its 2-D interface matrix)
    for shape in ([3, 4], [1, 1], [6], [2, 1, 3, 2]):
        for sd in range(6):
            for k in (0, -1, 52, 300, -300, 900, -333, -340):
                yield 'C16.core_stab.contract', dict(shape=shape, seed=sd, k=k, p0=(0, 7, -1000)[(sd + k) % 3], thr=None)
    # seeded random part
    for _ in range(120 if big else 30):
        d = int((2, 3, 5, 10, 30, 60, 200)[int(g.integers(0, 7))])
        r = int(g.integers(1, 4))
        fam = fams[int(g.integers(0, 5))]
        prof = PROFILES[int(g.integers(0, 8))]
        s = int(g.integers(-80, 81)) if d <= 60 else int(g.integers(-60, 61))
        base = dict(d=d, r=r, n=int(g.integers(2, 4)), seed=int(g.integers(1 << 30)), fam=fam, prof=prof, s=s)
        yield 'C16.norm.stab_value', dict(base)
        yield 'C16.mul_scalar.stab_value', dict(base, prof2=PROFILES[int(g.integers(0, 8))], s2=int(g.integers(-60, 61)))
        yield 'C16.orthogonalize.stab_large', dict(base, kmode=('first', 'last', 'mid', 'none')[int(g.integers(0, 4))])
        yield 'C16.accuracy.relative_distance', dict(base, rel=('other', 'perturbed', 'huge_vs_tiny')[int(g.integers(0, 3))])
        if fam != 'int':
            yield 'C16.truncate.stab_large', dict(base, e=float(10.0 ** g.uniform(-8, -2)), inflate=('dup', 'decay')[int(g.integers(0, 2))])
    # (i) ONE core beyond half the double range (2^520 .. 2^900; squares / Gram matrices / 2-norms by squaring overflow,
    # the scaled LAPACK kernels do not), at the first / last / a middle position, with and without rank-1 bonds next to it,
    # every pivot position; neighbours 2^-300 so that the plain sweeps stay representable as well (plain = True)
    kmodes = ('first', 'last', 'mid', 'second', 'penult')
    c = 0
    for d in (3, 5, 10, 60) + ((2, 4, 200) if big else ()):
        for pos in ('first', 'last', 'mid') + (('second', 'penult') if big else ()):
            for r in (1, 2, 3):
                for rk1 in ((0,) if r == 1 else (0, 1, 2, 3)):
                    for rep in range(5 if big else 2):
                        c += 1
                        fam = ('pos', 'gauss', 'rot', 'int')[c % 4]
                        nb, bg = ((None, 0), (-300, 0), (None, 10), (None, -10), (-250, 5))[(c // 2) % 5]
                        yield 'C16.orthogonalize.huge_core', dict(d=d, r=r, n=2 + (c % 7 == 0), seed=c, fam=fam, bg=bg, pos=pos,
                                                                  ex=(600, 900, 520, 700)[(c // 3) % 4], nb=nb, rk1=rk1,
                                                                  kmode=kmodes[(c + rep) % 5], plain=d <= 10)
    # the plain run with a core that is above 2^512 at the moment it is processed, behind / in front of a rank-1 bond
    for d in (3, 5, 8):
        for r in (1, 2, 3):
            for fam in ('pos', 'gauss'):
                for pos, kmode in (('mid', 'first'), ('mid', 'last'), ('last', 'first'), ('first', 'last'), ('second', 'last'), ('penult', 'first')):
                    for ex, nb in ((900, -300), (600, None), (800, -200)):
                        for rk1 in ((0,) if r == 1 else ((1, 2, 3) if big else (1 + (d + r + ex // 100) % 3,))):
                            yield 'C16.orthogonalize.huge_core', dict(d=d, r=r, n=2, seed=d + r, fam=fam, bg=0, pos=pos, ex=ex, nb=nb,
                                                                      rk1=rk1, kmode=kmode, plain=True)
    # thousands of modes: the scale sits in ONE end core on top of a total far outside the double range
    for d, r, rk1, bg, pos, ex, kmode in ((1200, 1, 0, 10, 'last', 600, 'first'), (1200, 3, 1, -10, 'last', 700, 'mid')) + \
            (((1200, 2, 2, 10, 'first', 650, 'last'), (2500, 1, 0, -10, 'first', 900, 'mid'), (1200, 3, 3, 5, 'mid', 800, 'first')) if big else ()):
        yield 'C16.orthogonalize.huge_core', dict(d=d, r=r, n=2, seed=d, fam='pos', bg=bg, pos=pos, ex=ex, nb=None, rk1=rk1,
                                                  kmode=kmode, plain=False)
