"""C20 (bounded, T3): incomplete TT-SVD recovers low-rank tensors from the structured samples of sample_tt.

Covered clauses of the statement (inputs: Gaussian rank-rho TT-tensors, dense export by an own einsum chain;
values handed to svd_incomplete are read from that dense array, so nothing of teneva is in the oracle):

* C20.sample_tt.layout            the block layout shared between generator and consumer: idx / idx_many describe
                                  d blocks, block k lists  prefix (+) j (+) suffix  for every j < n_k (j slowest, suffix
                                  fastest), all indices inside the bounds, and for n_k >= m the m Latin-hypercube
                                  prefixes / suffixes are pairwise distinct in every column (what the recovery needs).
* C20.svd_incomplete.no_exception for m >= rho, every n_k >= m, cap >= rho the call returns (KNOWN DEFECT of the
                                  pinned tree, DESIGN section 7: a (cnt,1,r) array reaches lstsq for every input).
* C20.svd_incomplete.wellformed   result is a well-formed finite TT of the tensor's shape with ranks <= cap -- also
                                  for binding caps < rho, where only this structural part of the statement applies
                                  (FAIL with a clear message if the call raises).
* C20.svd_incomplete.recover      result equals the tensor: ||dense(Z)-T|| <= 1e-6 ||T|| after the conditioning
                                  rejection below (FAIL with a clear message if the call raises).

Parameter coverage (audit): sample_tt n as list / ndarray / tuple / int32 array, r positional and through its default (4),
seed int / Generator / None (reproducible, global generator untouched); svd_incomplete e in {1e-13 .. 1e-8} and scaled along
with the data (scales 1e-100 .. 1e100; e is ABSOLUTE), r int / float / binding / default, both defaults; mode sizes up to
600 / 1030 (2000 thorough), d up to 8 (10), m up to rho + 5, Gaussian and uniform cores, ragged bond-rank profiles (rho a
list, m >= max), 12 (37) further generator seeds.

Gap closure (documented FORMS of the arguments):
* C20.svd_incomplete.arg_forms    the cap r "(int, float)" as Python float EQUAL to the rank (2.0 for rank 2: the cap wins the minimum
                                  against the numerical rank), above / below it, non-integer (rho + 0.5, rho - 0.5), as NumPy float64 /
                                  float32 / int64 / int32 scalar, 1e12 as float / int / NumPy float, the default; e as float / NumPy
                                  float64 / float32 / 0-d array / 0; expected rank of sample_tt as np.int64 / np.int32; I, idx, idx_many
                                  as returned / Python lists / int32 / int64 / Fortran-ordered: no exception, well-formed, ranks <= int(cap),
                                  arguments unchanged, recovery when cap >= rho.
* C20.matrix_skeleton.cap_forms   the same forms of cap and accuracy directly on matrix_skeleton (give_to m / l / r, rel both): selected
                                  rank = min(int(cap), rank), ||A - U V|| = discarded singular values (own SVD).

Conditioning rule ("almost all tensors"): a case is SKIPped unless every unfolding of the target has
sigma_r / sigma_1 >= 1e-3 at its generic rank r AND every sampled sub-block that the recovery inverts (the
m sampled columns of unfolding k restricted to the sampled rows) has sigma_r / sigma_1 >= 1e-4.
"""
import numpy as np
import teneva
from rtc.api import clause, PASS, FAIL, TRIVIAL, SKIP, check
from rtc import gen


BUDGET = (60, 600)
BOUNDS = ('d in 2..4, n_k in m..m+2 (<= 7), rho in 1..3, m in rho..rho+2, cap in {rho, rho+1, 1e12}, generator seeds '
          '0..2, Gaussian cores: ~100 configs (quick, caps and seeds rotated) / ~900 (thorough, full product); layout clause d <= 4, n <= 6, m <= 6 incl. n_k < m; '
          'audit part: scales 1e-100..1e100 with e scaled along, e in 1e-13..1e-8, defaults, float caps, argument forms of sample_tt (4 shape forms, '
          'Generator / None seeds, default r), mode sizes up to 1030 (2000), d up to 8 (10), m up to rho+5, uniform cores, ragged rank profiles; '
          'argument forms: 19 cap forms (int / float / NumPy scalars equal to, above, below the rank, fractional, 1e12, default) x 6 e forms x '
          '5 index forms x 3 forms of the expected rank on 6 (10) configurations; matrix_skeleton: 5 (8) matrices x 19 cap forms x 6 e forms')

FUNCS = ('svd.svd_incomplete', 'sample.sample_tt')


def _bonds(n, rho):
    """rho: an int (all bonds) or the list of the d-1 bond ranks."""
    return [int(rho)] * (len(n) - 1) if isinstance(rho, int) else [int(x) for x in rho]


def _generic_ranks(n, rho):
    d = len(n)
    b = _bonds(n, rho)
    rl = [1]
    for k in range(d - 1):
        rl.append(min(b[k], rl[-1] * n[k]))
    rr = [1]
    for k in range(d - 1, 0, -1):
        rr.append(min(b[k - 1], rr[-1] * n[k]))
    rr = rr[::-1]
    return [min(a, b_) for a, b_ in zip(rl[1:], rr[:-1])]       # bonds 1..d-1


def _setup(n, rho, m, tseed, sseed, scale=1.0, kind='gauss', nform='list', seedform='int'):
    """Target tensor (own dense export) and the samples.  nform: how the shape is handed to sample_tt ('list', 'array',
    'tuple', 'int32'); seedform: 'int', 'gen' (a NumPy Generator seeded with sseed), 'kw_default_r' (m = 4 via the default)."""
    Yt = gen.tt(n, [1] + _bonds(n, rho) + [1], tseed, kind)
    T = gen.dense(Yt) * scale
    nn = {'list': list(n), 'array': np.array(n), 'tuple': tuple(n), 'int32': np.array(n, dtype=np.int32)}[nform]
    sd = np.random.default_rng(sseed) if seedform == 'gen' else sseed
    if seedform == 'kw_default_r':
        I, idx, idx_many = teneva.sample_tt(nn, seed=sd)
    else:
        I, idx, idx_many = teneva.sample_tt(nn, m, seed=sd)
    I = np.asarray(I, dtype=int)
    y = T[tuple(I.T)]
    return T, I, idx, idx_many, y


def _well_conditioned(T, n, rho, I, idx, idx_many):
    d = len(n)
    rk = _generic_ranks(n, rho)
    for k in range(1, d):
        U = T.reshape(int(np.prod(n[:k])), -1)
        s = np.linalg.svd(U, compute_uv=False)
        r = rk[k - 1]
        if s[r - 1] < 1e-3 * s[0]:
            return f'unfolding {k}: sigma_{r}/sigma_1 = {s[r - 1] / s[0]:.1e}'
    # sampled sub-blocks: block k (k >= 1) pairs the prefixes (rows) with mode index and suffixes
    for k in range(d):
        blk = I[idx[k]:idx[k + 1]]
        if k > 0:
            pre = np.unique(blk[:, :k], axis=0)
            U = T.reshape(int(np.prod(n[:k])), -1)
            rows = np.ravel_multi_index(tuple(pre.T), n[:k])
            s = np.linalg.svd(U[rows], compute_uv=False)
            r = rk[k - 1]
            if len(s) < r or s[r - 1] < 1e-4 * s[0]:
                return f'sampled prefixes of block {k} badly conditioned'
        if k < d - 1:
            suf = np.unique(blk[:, k + 1:], axis=0)
            U = T.reshape(int(np.prod(n[:k + 1])), -1)
            cols = np.ravel_multi_index(tuple(suf.T), n[k + 1:])
            s = np.linalg.svd(U[:, cols], compute_uv=False)
            r = rk[k]
            if len(s) < r or s[r - 1] < 1e-4 * s[0]:
                return f'sampled suffixes of block {k} badly conditioned'
            if k > 0:
                pre = np.unique(blk[:, :k + 1], axis=0)
                rows = np.ravel_multi_index(tuple(pre.T), n[:k + 1])
                s = np.linalg.svd(U[np.ix_(rows, cols)], compute_uv=False)
                if len(s) < r or s[r - 1] < 1e-4 * s[0]:
                    return f'sampled cross of block {k} badly conditioned'
    return None


def _call(I, y, idx, idx_many, cap, e=None):
    """cap None: svd_incomplete with its defaults (e = 1e-10, r = 1e12); e None: 1e-10."""
    try:
        if cap is None:
            return teneva.svd_incomplete(I, y, idx, idx_many), None
        return teneva.svd_incomplete(I, y, idx, idx_many, 1e-10 if e is None else e, cap), None
    except Exception as e:      # noqa: BLE001 - exception freedom is the clause
        return None, f'{type(e).__name__}: {str(e)[:200]}'


@clause('C20.sample_tt.layout', funcs=('sample.sample_tt',))
def sample_layout(n, m, sseed, nform='list', seedform='int'):
    """idx / idx_many describe d blocks of the form prefix (+) j (+) suffix, inside the bounds; prefixes and
    suffixes are Latin-hypercube rows (pairwise distinct per column when the mode size is >= m).  nform / seedform:
    the shape as list / ndarray / tuple / int32 array, the seed as int / Generator / None, m through the default (4);
    an int seed or an equally seeded Generator reproduces the samples and leaves NumPy's global generator alone."""
    d = len(n)
    nn = {'list': list(n), 'array': np.array(n), 'tuple': tuple(n), 'int32': np.array(n, dtype=np.int32)}[nform]
    mk = (lambda: np.random.default_rng(sseed)) if seedform == 'gen' else (lambda: None) if seedform == 'none' else (lambda: sseed)
    st = np.random.get_state()[1].tobytes()
    if seedform == 'kw_default_r':
        m = 4
        I, idx, idx_many = teneva.sample_tt(nn, seed=mk())
        I2 = teneva.sample_tt(nn, seed=mk())[0]
    else:
        I, idx, idx_many = teneva.sample_tt(nn, m, seed=mk())
        I2 = teneva.sample_tt(nn, m, mk())[0]
    if seedform != 'none':
        if not np.array_equal(I, I2):
            return FAIL('the same seed gives different samples')
        if np.random.get_state()[1].tobytes() != st:
            return FAIL("NumPy's global generator was used")
    I, idx, idx_many = np.asarray(I), np.asarray(idx), np.asarray(idx_many)
    if I.ndim != 2 or I.shape[1] != d or I.dtype.kind not in 'iu':
        return FAIL(f'I has shape {I.shape} dtype {I.dtype}')
    if idx.shape != (d + 1,) or idx_many.shape != (d,) or idx[0] != 0 or idx[-1] != len(I):
        return FAIL(f'idx {idx.tolist()} idx_many {idx_many.tolist()} for {len(I)} rows')
    if (I < 0).any() or (I >= np.array(n)).any():
        return FAIL('index outside the bounds')
    for k in range(d):
        blk = I[idx[k]:idx[k + 1]]
        l2 = int(idx_many[k])
        if l2 < 1 or len(blk) % (n[k] * l2):
            return FAIL(f'block {k}: {len(blk)} rows not a multiple of n_k * idx_many = {n[k]} * {l2}')
        l1 = len(blk) // (n[k] * l2)
        if (l1 != (m if k > 0 else 1)) or (l2 != (m if k < d - 1 else 1)):
            return FAIL(f'block {k}: {l1} prefixes, {l2} suffixes for expected rank {m}')
        B = blk.reshape(n[k], l1, l2, d)
        if not (B[:, :, :, k] == np.arange(n[k])[:, None, None]).all():
            return FAIL(f'block {k}: mode index is not the slowest counter')
        if not (B[:, :, :, :k] == B[:1, :, :1, :k]).all():
            return FAIL(f'block {k}: prefixes depend on the mode index or the suffix')
        if not (B[:, :, :, k + 1:] == B[:1, :1, :, k + 1:]).all():
            return FAIL(f'block {k}: suffixes depend on the mode index or the prefix')
        for c in range(d):
            if c == k or n[c] < m:
                continue
            col = B[0, :, 0, c] if c < k else B[0, 0, :, c]
            if len(set(col.tolist())) != len(col):
                return FAIL(f'block {k}: column {c} of the Latin hypercube repeats a value although n_c >= m')
    return PASS


@clause('C20.svd_incomplete.no_exception', funcs=FUNCS)
def no_exception(n, rho, m, cap, tseed, sseed):
    """m >= rho, n_k >= m, cap >= rho: svd_incomplete returns (known defect of the pinned tree: raises always)."""
    T, I, idx, idx_many, y = _setup(n, rho, m, tseed, sseed)
    Z, err = _call(I, y, idx, idx_many, cap)
    return check(err is None, 'svd_incomplete raised ' + str(err))


@clause('C20.svd_incomplete.wellformed', funcs=FUNCS)
def wellformed(n, rho, m, cap, tseed, sseed):
    """Result is a well-formed finite TT of the tensor's shape with ranks <= cap."""
    T, I, idx, idx_many, y = _setup(n, rho, m, tseed, sseed)
    Z, err = _call(I, y, idx, idx_many, cap)
    if err is not None:
        return FAIL('no result to inspect, svd_incomplete raised ' + err)
    msg = gen.wf(Z, n)
    if msg:
        return FAIL('not well-formed: ' + msg)
    rk = [G.shape[2] for G in Z[:-1]]
    if max(rk) > cap:
        return FAIL(f'ranks {rk} exceed the cap {cap}')
    return check(gen.finite(Z), 'non-finite cores')


@clause('C20.svd_incomplete.recover', funcs=FUNCS + ('act_one.get',))
def recover(n, rho, m, cap, tseed, sseed, scale=1.0, e=None, kind='gauss', nform='list', seedform='int'):
    """dense(result) equals the sampled rank-rho tensor up to rounding (relative 1e-6, conditioning rejection); also for
    tensors of small / large overall scale (all retained singular values stay far above the absolute threshold e, default
    1e-10; for other scales e is handed over scaled along), ranks <= cap; rho may be a list of bond ranks (m >= max);
    cap None = the defaults of svd_incomplete; the shape / seed are handed to sample_tt in the form nform / seedform;
    the sample arrays are left unchanged."""
    if seedform == 'kw_default_r':
        m = 4
    T, I, idx, idx_many, y = _setup(n, rho, m, tseed, sseed, scale, kind, nform, seedform)
    bad = _well_conditioned(T, n, rho, I, idx, idx_many)
    if bad:
        return SKIP(bad)
    snap = gen.snapshot([I, y, np.asarray(idx), np.asarray(idx_many)])
    Z, err = _call(I, y, idx, idx_many, cap, e)
    if err is not None:
        return FAIL('no result to compare, svd_incomplete raised ' + err)
    if gen.snapshot([I, y, np.asarray(idx), np.asarray(idx_many)]) != snap:
        return FAIL('svd_incomplete changed its arguments')
    msg = gen.wf(Z, n)
    if msg:
        return FAIL('not well-formed: ' + msg)
    rk = [G.shape[2] for G in Z[:-1]]
    if cap is not None and max(rk) > cap:
        return FAIL(f'ranks {rk} exceed the cap {cap}')
    D = gen.dense(Z)
    nT = float(np.abs(T).max())
    rel = float(np.linalg.norm((D - T) / nT) / np.linalg.norm(T / nT))           # no under- / overflow of the squares
    return FAIL(f'relative error {rel:.3e} > 1e-6, ranks {rk}') if not rel <= 1e-6 else PASS


CAP_FORMS = ('int_eq', 'float_eq', 'np_float64_eq', 'np_float32_eq', 'np_int64_eq', 'np_int32_eq', 'float_above', 'float_frac',
             'np_float64_above', 'np_int64_above', 'float_m', 'big_float', 'big_int', 'np_big_float', 'default',
             'float_below', 'np_float64_below', 'np_int64_below', 'float_frac_below')


def _cap(form, rho, m):
    """(value handed over as r, integer cap it stands for); form 'default' hands nothing over.  *_eq: the cap EQUALS the rank
    (the cap decides the minimum against the numerical rank), *_above: rho + 1, float_frac: rho + 0.5 (stands for rho), float_m: the
    expected rank m as a float, big_*: 1e12; *_below: rho - 1 resp. rho - 0.5 (binding below the rank: structure only)."""
    v = {'eq': rho, 'above': rho + 1, 'below': max(1, rho - 1)}
    table = {'int_eq': int(rho), 'float_eq': float(rho), 'np_float64_eq': np.float64(rho), 'np_float32_eq': np.float32(rho),
             'np_int64_eq': np.int64(rho), 'np_int32_eq': np.int32(rho), 'float_above': float(rho + 1), 'float_frac': rho + 0.5,
             'np_float64_above': np.float64(rho + 1), 'np_int64_above': np.int64(rho + 1), 'float_m': float(m),
             'big_float': 1.E+12, 'big_int': 10 ** 12, 'np_big_float': np.float64(1.E+12), 'default': None,
             'float_below': float(v['below']), 'np_float64_below': np.float64(v['below']), 'np_int64_below': np.int64(v['below']),
             'float_frac_below': max(1.0, rho - 0.5)}
    x = table[form]
    return x, (10 ** 12 if x is None else int(x))


def _acc(form, scale=1.0):
    """the accuracy e in the form: float / NumPy float64 / float32 scalar / 0-d array / the int 0 (no truncation by accuracy)"""
    return {'float': 1e-10 * scale, 'np_float64': np.float64(1e-10 * scale), 'np_float32': np.float32(1e-10 * scale),
            'array0d': np.array(1e-10 * scale), 'int0': 0, 'float0': 0.0}[form]


@clause('C20.svd_incomplete.arg_forms', funcs=FUNCS + ('svd.matrix_skeleton',))
def svd_incomplete_arg_forms(n, rho, m, tseed, sseed, capform, eform='float', idxform='asis', mform='int'):
    """The documented FORMS of the rank cap r "(int, float)" and of the accuracy: caps equal to / above / below the rank given as
    Python float, non-integer float, NumPy float64 / float32 / int64 / int32 scalars, the float default, 1e12 as int; e as
    float / NumPy scalar / 0-d array / the integer 0 (with a binding cap); the expected rank of sample_tt as int / np.int64 /
    np.int32 (same samples as with the int); the index-like arguments I, idx, idx_many as returned / Python lists / int32 /
    int64 arrays / Fortran-ordered I.  Every form returns (no TypeError), the result is a well-formed finite TT of the tensor's
    shape with ranks <= the integer part of the cap, the arguments are unchanged, and if the cap is at least rho the result
    equals the tensor (relative 1e-6, conditioning rejection as in C20.svd_incomplete.recover)."""
    T, I, idx, idx_many, y = _setup(n, rho, m, tseed, sseed)
    mm = {'int': int(m), 'np_int64': np.int64(m), 'np_int32': np.int32(m)}[mform]
    try:
        I2, idx2, many2 = teneva.sample_tt(list(n), mm, sseed)
    except Exception as ex:      # noqa: BLE001
        return FAIL(f'sample_tt(n, r={mm!r} [{type(mm).__name__}]) raised {type(ex).__name__}: {str(ex)[:200]}')
    if not (np.array_equal(I, I2) and np.array_equal(idx, idx2) and np.array_equal(idx_many, many2)):
        return FAIL(f'sample_tt with r = {mm!r} [{type(mm).__name__}] differs from r = {m} [int]')
    rmax = rho if isinstance(rho, int) else max(rho)            # rho may be the list of bond ranks
    cap, icap = _cap(capform, rmax, m)
    if eform in ('int0', 'float0') and (icap > rmax or not isinstance(rho, int)):
        return SKIP('e = 0 keeps rounding-level singular values unless the cap binds')
    e = _acc(eform)
    if idxform == 'lists':
        I_, idx_, many_ = I, [int(v) for v in idx], [int(v) for v in idx_many]
    elif idxform in ('int32', 'int64'):
        dt = np.int32 if idxform == 'int32' else np.int64
        I_, idx_, many_ = I.astype(dt), np.asarray(idx).astype(dt), np.asarray(idx_many).astype(dt)
    elif idxform == 'I_fortran':
        I_, idx_, many_ = np.asfortranarray(I), idx, idx_many
    else:
        I_, idx_, many_ = I, idx, idx_many
    snap = gen.snapshot([I_, y, idx_, many_])
    what = f'svd_incomplete(e={e!r} [{type(e).__name__}], r={cap!r} [{type(cap).__name__}], index arguments {idxform})'
    try:
        Z = teneva.svd_incomplete(I_, y, idx_, many_, e) if cap is None else teneva.svd_incomplete(I_, y, idx_, many_, e, cap)
    except Exception as ex:      # noqa: BLE001 - exception freedom for every documented form is the clause
        return FAIL(f'{what} raised {type(ex).__name__}: {str(ex)[:200]}')
    if gen.snapshot([I_, y, idx_, many_]) != snap:
        return FAIL(f'{what} changed its arguments')
    msg = gen.wf(Z, n)
    if msg:
        return FAIL(f'{what}: not well-formed: {msg}')
    if not gen.finite(Z):
        return FAIL(f'{what}: non-finite cores')
    rk = [G.shape[2] for G in Z[:-1]]
    if max(rk) > icap:
        return FAIL(f'{what}: ranks {rk} exceed the cap')
    if icap < rmax:
        return PASS
    bad = _well_conditioned(T, n, rho, I, idx, idx_many)
    if bad:
        return SKIP(bad)
    D = gen.dense(Z)
    rel = float(np.linalg.norm(D - T) / np.linalg.norm(T))
    return FAIL(f'{what}: relative error {rel:.3e} > 1e-6, ranks {rk}') if not rel <= 1e-6 else PASS


@clause('C20.matrix_skeleton.cap_forms', funcs=('svd.matrix_skeleton',))
def matrix_skeleton_cap_forms(mrows, ncols, rank, seed, capform, eform, give_to, rel):
    """matrix_skeleton (the decomposition behind the first core and every compressed block of svd_incomplete) for the same forms
    of the cap and the accuracy on an mrows x ncols matrix of the given rank with singular values 2^0 .. 2^-(rank-1): factors
    U [mrows, q], V [q, ncols] with 1 <= q <= integer part of the cap (never a TypeError), q = min(cap, rank) when e = 1e-10
    separates the singular values from the rounding level, and ||A - U V||_F equal to the discarded singular values (own SVD)."""
    g = gen.rng('C20.skel', mrows, ncols, rank, seed)
    Qa, _ = np.linalg.qr(g.normal(size=(mrows, mrows)))
    Qb, _ = np.linalg.qr(g.normal(size=(ncols, ncols)))
    sv = 2.0 ** -np.arange(rank)
    A = (Qa[:, :rank] * sv) @ Qb[:, :rank].T * 3.0
    cap, icap = _cap(capform, rank, min(mrows, ncols))
    e = _acc(eform)
    what = f'matrix_skeleton(e={e!r} [{type(e).__name__}], r={cap!r} [{type(cap).__name__}], rel={rel}, give_to={give_to})'
    snap = gen.snapshot(A)
    try:
        if cap is None:
            U, V = teneva.matrix_skeleton(A, e, rel=rel, give_to=give_to)
        else:
            U, V = teneva.matrix_skeleton(A, e, cap, rel=rel, give_to=give_to)
    except Exception as ex:      # noqa: BLE001
        return FAIL(f'{what} raised {type(ex).__name__}: {str(ex)[:200]}')
    if gen.snapshot(A) != snap:
        return FAIL(f'{what} changed the matrix')
    if not (isinstance(U, np.ndarray) and isinstance(V, np.ndarray) and U.ndim == 2 and V.ndim == 2 and U.shape[0] == mrows
            and V.shape[1] == ncols and U.shape[1] == V.shape[0]):
        return FAIL(f'{what}: factor shapes {getattr(U, "shape", None)}, {getattr(V, "shape", None)}')
    q = U.shape[1]
    if not 1 <= q <= min(mrows, ncols, max(1, icap)):
        return FAIL(f'{what}: selected rank {q} outside 1 .. min(size, cap)')
    if eform not in ('int0', 'float0') and q != min(rank, max(1, icap)):
        return FAIL(f'{what}: selected rank {q}, the matrix has rank {rank} (singular values 3 * 2^-k, then rounding level)')
    s = np.linalg.svd(A, compute_uv=False)
    tail = float(np.sqrt(np.sum(s[q:] ** 2)))
    err = float(np.linalg.norm(A - U @ V))
    if not (np.all(np.isfinite(U)) and np.all(np.isfinite(V)) and abs(err - tail) <= 1e-12 * s[0]):
        return FAIL(f'{what}: ||A - U V|| = {err:.3e}, discarded singular values {tail:.3e}')
    return PASS


def _configs(tier, seed):
    big = tier == 'thorough'
    g = gen.rng('C20', seed)
    out, k = [], 0
    for d in (2, 3, 4):
        for rho in (1, 2, 3):
            for dm in (0, 1, 2):
                m = rho + dm
                shapes = [[m] * d, [m + 1] * d, [m + (k % 3) for k in range(d)], [m + 2] + [m] * (d - 1)]
                for n in shapes:
                    if max(n) > 7 or (d == 4 and max(n) > 5 and not big):
                        continue
                    caps = (rho, rho + 1, 10 ** 12)
                    if big:
                        combos = [(c, s) for c in caps for s in range(3)]
                    else:               # rotate through caps and generator seeds
                        k += 1
                        combos = [(caps[k % 3], (k // 3) % 3)]
                    for cap, sseed in combos:
                        out.append(dict(n=n, rho=rho, m=m, cap=cap, tseed=int(g.integers(1 << 30)), sseed=sseed))
    return out


def cases(tier, seed):
    big = tier == 'thorough'
    for d in (2, 3, 4):
        for nn in ([2] * d, [3] * d, [4, 5, 6, 4][:d], [6, 3, 5, 2][:d], [1] + [4] * (d - 1)):
            for m in (1, 2, 3, 4, 6):
                for sseed in range(4 if big else 2):
                    yield 'C20.sample_tt.layout', dict(n=nn, m=m, sseed=sseed)
    for k, p in enumerate(_configs(tier, seed)):
        yield 'C20.svd_incomplete.no_exception', p
        yield 'C20.svd_incomplete.wellformed', p
        yield 'C20.svd_incomplete.recover', p
        if k % 3 == 0 or big:
            for scale in (1e-5, 1e4):
                yield 'C20.svd_incomplete.recover', dict(p, scale=scale)
        # "ranks <= the cap" is not conditional on cap >= rho: binding caps for the structural clause only
        low = list(range(1, p['rho']))
        for cap in (low if big else low[k % 2:][:1]):
            yield 'C20.svd_incomplete.wellformed', dict(p, cap=cap)
    # ---- parameter / regime coverage (audit) -------------------------------------------------------------------
    g = gen.rng('C20.audit', seed)

    def ts():
        return int(g.integers(1 << 30))

    # sample_tt: shape as ndarray / tuple / int32 array, seed as Generator / None, r through its default, large modes, d = 6..8
    for nn in ([4, 5], [3, 3, 3], [6, 5, 4, 7]):
        for nform in ('list', 'array', 'tuple', 'int32'):
            for seedform in ('int', 'gen', 'none', 'kw_default_r'):
                yield 'C20.sample_tt.layout', dict(n=nn, m=3, sseed=1 + len(nn), nform=nform, seedform=seedform)
    for nn, m in (([600, 520], 2), ([64, 70, 66], 5), ([3] * 6, 2), ([2] * 8, 2), ([20] * 3, 12), ([5, 5], 5), ([300, 2, 300], 2),
                  ([7, 7, 7], 1), ([1030, 4], 3)):
        yield 'C20.sample_tt.layout', dict(n=nn, m=m, sseed=3)
        yield 'C20.sample_tt.layout', dict(n=nn, m=m, sseed=3, nform='array', seedform='gen')
    # recovery: argument forms, defaults of svd_incomplete (cap None), float caps
    for n, rho, m in (([4, 5], 2, 3), ([4, 4, 5], 2, 3), ([4, 5, 4, 5], 2, 4), ([5, 6, 5], 3, 4)):
        for nform, seedform in (('array', 'int'), ('tuple', 'gen'), ('int32', 'gen'), ('list', 'kw_default_r'), ('array', 'none')):
            if seedform == 'kw_default_r' and min(n) < 4:
                continue
            for cap in (rho, float(rho) + 0.5, 1e12, None):
                yield 'C20.svd_incomplete.recover', dict(n=n, rho=rho, m=m, cap=cap, tseed=ts(), sseed=len(n) + rho, nform=nform, seedform=seedform)
    for n, rho, m in (([4, 5], 2, 3), ([4, 4, 5], 2, 3), ([5, 6, 5], 3, 4)):       # defaults (e = 1e-10 absolute) on small data
        for scale in (1e-3, 1e-5):
            yield 'C20.svd_incomplete.recover', dict(n=n, rho=rho, m=m, cap=None, tseed=ts(), sseed=4, scale=scale)
    # overall scale with the absolute accuracy e scaled along (e = 1e-10 * scale), and other values of e at scale 1
    for n, rho, m in (([3, 4], 2, 2), ([4, 5, 4], 2, 3), ([4, 4, 4, 4], 3, 4), ([5, 5, 5], 3, 3)) + ((([6, 5], 3, 5), ([3, 3, 3, 3, 3], 2, 2)) if big else ()):
        for scale in (1e-100, 1e-12, 1e-8, 1e-3, 1e2, 1e8, 1e100):
            for cap in ((rho, 10 ** 12) if big else (10 ** 12,) if scale in (1e-100, 1e8) else (rho,)):
                yield 'C20.svd_incomplete.recover', dict(n=n, rho=rho, m=m, cap=cap, tseed=ts(), sseed=1, scale=scale, e=1e-10 * scale)
        for e in (1e-13, 1e-12, 1e-8):
            for cap in (rho, 10 ** 12):
                yield 'C20.svd_incomplete.recover', dict(n=n, rho=rho, m=m, cap=cap, tseed=ts(), sseed=2, e=e)
    # larger mode sizes (> 255, >= 512, > 1024), more modes, m well above rho, uniform cores, ragged rank profiles
    for n, rho, m in (([600, 520], 2, 2), ([130, 3, 260], 2, 3), ([1030, 5], 3, 4), ([12, 10, 11], 3, 4), ([40, 33], 3, 6), ([3] * 5, 2, 2),
                      ([3] * 6, 2, 3), ([2] * 7, 1, 2), ([2] * 8, 2, 2), ([9, 9, 9], 2, 7), ([4, 5, 4, 5], [2, 3, 1], 3), ([5, 4, 5, 4], [1, 3, 2], 4),
                      ([6, 6, 6], [3, 1], 3), ([4, 4, 4, 4, 4], [2, 1, 2, 3], 3)) \
            + ((([64, 70, 66], 4, 5), ([3] * 7, 2, 2), ([2] * 10, 2, 2), ([2000, 3], 2, 2), ([520, 3, 600], 2, 3)) if big else ()):
        rmax = rho if isinstance(rho, int) else max(rho)
        for kind in ('gauss', 'unif'):
            for cap in (rmax, 10 ** 12):
                for sseed in ((0, 1, 2) if big else (len(n) % 3,)):
                    yield 'C20.svd_incomplete.recover', dict(n=n, rho=rho, m=m, cap=cap, tseed=ts(), sseed=sseed, kind=kind)
    # more generator seeds (int and Generator) on one mid-size configuration
    for sseed in range(3, 40 if big else 15):
        yield 'C20.svd_incomplete.recover', dict(n=[4, 5, 4], rho=2, m=3 + sseed % 2, cap=(2, 10 ** 12)[sseed % 2], tseed=ts(), sseed=sseed * 7919,
                                                 seedform=('int', 'gen')[sseed % 3 == 0])
    # ---- gap closure: the documented FORMS of rank caps / accuracies / index-like arguments (float cap that equals the rank, ...)
    ga = gen.rng('C20.forms', seed)
    fcfg = [([6, 7], 2, 4), ([5, 6, 7], 2, 4), ([6, 5, 7, 6], 3, 5), ([4, 5], 2, 2), ([4, 4, 4], 1, 2), ([5, 5, 5], 3, 3)] \
        + ([([3, 3, 3, 3, 3], 2, 3), ([12, 10, 11], 3, 4), ([7, 7], 4, 6), ([4, 5, 4, 5], [2, 3, 1], 3)] if big else [])
    for j, (n, rho, m) in enumerate(fcfg):
        rmax = rho if isinstance(rho, int) else max(rho)
        if not isinstance(rho, int):
            for cf in ('float_eq', 'np_float64_eq', 'float_frac', 'np_int64_above'):
                yield 'C20.svd_incomplete.arg_forms', dict(n=n, rho=rho, m=m, tseed=int(ga.integers(1 << 30)), sseed=j, capform=cf)
            continue
        for k, cf in enumerate(CAP_FORMS):
            if big or j < 3 or (k + j) % 3 == 0 or cf == 'float_eq':
                for sd in range(3 if big else 1):
                    yield 'C20.svd_incomplete.arg_forms', dict(n=n, rho=rmax, m=m, tseed=int(ga.integers(1 << 30)), sseed=j + sd, capform=cf)
        for k, ef in enumerate(('np_float64', 'np_float32', 'array0d', 'int0', 'float0')):
            for cf in (('int_eq', 'float_eq', 'np_int64_eq', 'float_above', 'default', 'float_below') if big else
                       ('float_eq', ('int_eq', 'float_above', 'np_int64_eq')[(j + k) % 3])[:2 if j == 0 else 1]):
                if big or j % 2 == 0:
                    yield 'C20.svd_incomplete.arg_forms', dict(n=n, rho=rmax, m=m, tseed=int(ga.integers(1 << 30)), sseed=j, capform=cf, eform=ef)
        for k, xf in enumerate(('lists', 'int32', 'int64', 'I_fortran')):
            for cf in (('float_eq', 'np_int32_eq', 'default', 'float_frac') if big else (('float_eq', 'np_int32_eq', 'default')[(j + k) % 3],)):
                if big or j % 2 == 1:
                    yield 'C20.svd_incomplete.arg_forms', dict(n=n, rho=rmax, m=m, tseed=int(ga.integers(1 << 30)), sseed=j, capform=cf, idxform=xf)
        for mf in ('np_int64', 'np_int32'):
            if big or j < 2:
                yield 'C20.svd_incomplete.arg_forms', dict(n=n, rho=rmax, m=m, tseed=int(ga.integers(1 << 30)), sseed=j, capform='np_float64_eq',
                                                           mform=mf)
    k = 0
    for (mr, nc, rank) in ((6, 4, 2), (4, 6, 3), (5, 5, 5), (7, 3, 1), (1, 5, 1)) + (((12, 9, 4), (3, 8, 3), (2, 2, 2)) if big else ()):
        for cf in CAP_FORMS:
            for ef in ('float', 'np_float64', 'np_float32', 'array0d', 'int0', 'float0'):
                k += 1
                if big or ef == 'float' or k % 4 == 0:
                    yield 'C20.matrix_skeleton.cap_forms', dict(mrows=mr, ncols=nc, rank=rank, seed=k % 3, capform=cf, eform=ef,
                                                                give_to='mlr'[k % 3], rel=bool(k % 2))
    # DOUBTFUL (disabled): sample_tt documents n as "list or np.ndarray of int/float", but float mode sizes raise
    # TypeError ('float' object cannot be interpreted as an integer) in range(n_k): sample_tt([4.0, 5.0], 2, seed=0).
