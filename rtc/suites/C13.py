"""C13 (bounded, T3): TT-ANOVA cores encode exactly the additive model estimated from the data.

Oracle: own recomputation of the model from the samples with plain NumPy (boolean masks and np.mean / float sums):
constant = sample mean, first-order term of mode k at index x = mean of the samples with I[:, k] == x minus the
constant, pair term = cell mean minus constant minus both first-order terms (0 for unobserved cells); the TT-tensor
is exported with gen.dense and compared at EVERY multi-index of the observed domain (product of the sets of
observed index values, position j <-> j-th smallest observed value).

Clauses:
  C13.model.terms        ANOVA(I, y, order): f0, f1 (and f2) equal the own conditional means; ANOVA(i) = sum of terms
  C13.anova.order1       anova(order=1, noise=0): observed mode sizes, all inner TT-ranks == r, value == f0 + sum f1
  C13.anova.noise        noise > 0: |value - model| <= chain(|P| + 8 noise M) - chain(|P|)  (P: exact pattern cores,
                         M: mask of the noise slots; every N(0,1) draw is < 8 in modulus), ranks == r
  C13.anova.additive     additive function on a full grid (also every point sampled twice) reproduced exactly,
                         orders 1 and 2
  C13.anova.order2       order 2, noise=0, rank large enough: value == f0 + sum f1 + sum f2 up to the rounding
                         accuracy of add_many (relative Frobenius 1e-6: truncate(e=1e-10) works on squared singular
                         values, i.e. sqrt(eps)-accurate); TT-ranks <= r for every r; d=2 full grid: the data itself
  C13.anova_func.model   ANOVA_func: coefficients equal the own per-dimension ridge fit (Chebyshev Vandermonde,
                         normal equations + lamb I); interpolant of cores(e=None) (teneva.func_get) == fitted constant
                         + sum of fitted 1-D expansions at random points; anova_func(e=1e-8) within 1e-6
  C13.anova2.only_near   (NOT part of the suite: `only_near` is an undocumented option outside the property; the clause is kept
                         for replay only - for d >= 3 cores_2 takes the tables from wrong positions of the pair list)
  C13.anova.order2_noise order 2 with noise > 0 / rel_noise: |Y - model|_F <= (1 + sqrt(d-1)) * noise bound + 1e-6 |model|

Parameter coverage (audit): order 2 with d = 4 (equal and unequal modes) and d = 5, a mode of size 12, only_near,
rel_noise for both orders, noise for order 2, repeated export, anova seeds as int and as Generator objects, overall
data scale 1e-8, 1e-4, 1e4, 1e8 (ykinds tiny8 .. huge8; every statement is homogeneous in y; the pair matrices go
through matrix_skeleton with its default ABSOLUTE accuracy 1e-10: the order-2 tolerances carry an absolute 1e-10 per
pair, which matters only at the scale 1e-8, and the repeated-export clause gets the small scales with order 1 only),
functional variant with d = 4, per-dimension bounds as lists, points / values as lists.
Gap closure (fourth mutation round):
  C13.anova_func.model   + point sets 'grid<q>' (tensor product of q symmetric Chebyshev-type nodes per variable) with data that
                         depend on one variable only / are even / odd in the scaled variables, and random points with data of
                         overall scale 1e-15 .. 1e-30 (1e-100 thorough): fitted coefficients (and for 'odd' the fitted constant)
                         that are non-zero but of magnitude <= 1e-16 - the switch inside tensors.delta - must stay at rounding
                         level in the coefficient tensor (TRIVIAL if no coefficient lies in (0, 1e-16])
  C13.delta.value        delta(n, i, v): zero except v at i, for v = 0, +-(5e-324 .. 1e300) incl. 0.99e-16, 1e-16, 1.01e-16, d = 1..6
  C13.anova.order2 / .additive  + d = 6, 7 (10; thorough 11): 15, 21, 45 pair terms, i.e. at / above / a multiple of the
                         intermediate-truncation period 15 of add_many, with r = 2, 3, 4 (binding) and r = need (values)
  C13.anova.order2_rank_cap   the same shapes with noise in {0, 1e-10, 1e-3, 0.5} and binding r: well-formed, ranks <= r
  C13.add_many.rank_cap  add_many(e=1e-10, r, trunc_freq in {default 15, 1, 2 (3, 4, 15, 16)}) with count - 1 below / equal to /
                         above / a multiple of the period, binding and non-binding r, number summands: ranks <= r, dense sum
Input forms (audit f3-forms; reference = own model of the float64 / int64 image of what is passed):
  C13.forms.anova        I_trn as list / tuple / int32 / int8 / uint8 / Fortran / strided / read-only, y_trn as list of floats / ints /
                         tuple / int64 / int32 / float32 / strided / read-only, r / order as numpy.int64 / int32, noise 0 as int / float /
                         numpy.float32, int / Generator seed, positional / keyword / mixed calls, ANOVA(...)(I) with I in the same form
  C13.forms.anova_func   X_trn as list / tuple / float32 / Fortran / strided / read-only, y_trn as above, bounds as 12 forms (Python /
                         numpy numbers, lists, typed arrays, tuple, defaults left out), n numpy.int64 / int32, lamb float / int /
                         numpy.float32, positional / keyword / mixed calls
  (a numpy.int64 seed is not converted by utils._rand - see clause C14.seed.numpy_integer)
# DOUBTFUL (not yielded): data of scale <= 1e-10, e.g. y * 1e-10 for shape [3, 4], how 'full2', r = need: all pair
# singular values fall below the absolute 1e-10 of matrix_skeleton, the pair terms are dropped, relative error 0.16.
"""
import itertools
import numpy as np
import teneva
from rtc.api import clause, PASS, FAIL, TRIVIAL, SKIP, check
from rtc import gen

BUDGET = (100, 800)
BOUNDS = ('d = 2..5, observed mode sizes 1..5 (+ 9, 12) (index values with gaps, also of both signs), full grids / doubled grids / sparse random '
          'subsets with duplicates (different y), y Gaussian / integer / additive / constant+spike / Gaussian scaled by 1e-8 .. 1e8; r in 2..5, '
          'noise in {0, 1e-10, 1e-3, 0.5} and rel_noise, orders 1 and 2 (rank 2 + pairs*n_max), only_near, int / Generator seeds; functional: d = 2..4, '
          'n = 2..6, m = 6n..10n points, lamb in {1e-7, 1e-3, 1}, boxes [-1,1], [0,2], [-3,5]; tensor-product point sets (4..7 nodes, '
          'd = 2..4) with one-variable / even / odd data, data scale 1e-15..1e-30; delta values 0, +-1e-300..1e300 around 1e-16; order 2 '
          'with d = 6, 7, 10 (15, 21, 45 pair terms) and r in {2, 3, 4, need}, noise {1e-10, 1e-3, 0.5}; add_many of 1..46 summands, '
          'trunc_freq {15, 1, 2}, binding / non-binding rank cap; input forms: 8 index forms x 8 value forms x 3 number types x 5 call forms '
          '(anova, 5 shapes, both orders), 6 point forms x 12 bound forms (anova_func, d = 2..4, n = 2..5) in rotation')

EPS = np.finfo(float).eps
SCALED = {'tiny8': 1e-8, 'tiny4': 1e-4, 'huge4': 1e4, 'huge8': 1e8}


def _data(shape, how, ykind, seed):
    """Samples (I, y) whose observed domain has `shape` distinct index values per mode."""
    g = gen.rng('C13.data', shape, how, ykind, seed)
    d = len(shape)
    gaps = (seed % 2 == 1)
    dom = [np.sort(g.choice(2 * n + 1, size=n, replace=False)) if gaps else np.arange(n) for n in shape]
    if seed % 4 == 3:                                 # index labels of both signs (centred labels such as -2..2)
        dom = [dm - n for dm, n in zip(dom, shape)]
    J = gen.all_indices(shape)                      # positions
    if how == 'full':
        P = J
    elif how == 'full2':
        P = np.vstack([J, J])
    elif how == 'sparse':
        rows = [J[g.integers(len(J))] for _ in range(2 * max(shape) + 2)]
        for k, n in enumerate(shape):
            for i in range(n):
                row = J[g.integers(len(J))].copy()
                row[k] = i
                rows.append(row)
        rows += rows[:3]                              # exact duplicates of multi-indices (with different y below)
        P = np.array(rows)
    else:
        raise ValueError(how)
    P = P[g.permutation(len(P))]
    I = np.array([[dom[k][p[k]] for k in range(d)] for p in P], dtype=int).reshape(len(P), d)
    if ykind == 'gauss':
        y = g.normal(size=len(P)) * 3. + 1.
    elif ykind == 'int':
        y = g.integers(-5, 6, size=len(P)).astype(float)
    elif ykind == 'additive':
        u = [g.normal(size=n) for n in shape]
        y = 0.7 + sum(u[k][P[:, k]] for k in range(d))
    elif ykind == 'spike':
        y = np.full(len(P), 2.5)
        y[0] = 1e3
    elif ykind in SCALED:                             # overall data scale: every statement is homogeneous in y
        y = (g.normal(size=len(P)) * 3. + 1.) * SCALED[ykind]
    else:
        raise ValueError(ykind)
    return I, y, dom, P


def _own_model(I, y, dom, order):
    """(f0, f1[k] arrays over dom[k], f2[(k1,k2)] matrices) by direct conditional means."""
    d = I.shape[1]
    f0 = float(np.sum(y) / len(y))
    f1 = [np.array([np.sum(y[I[:, k] == x]) / np.count_nonzero(I[:, k] == x) - f0 for x in dom[k]]) for k in range(d)]
    f2 = {}
    if order >= 2:
        for k1 in range(d - 1):
            for k2 in range(k1 + 1, d):
                Mx = np.zeros((len(dom[k1]), len(dom[k2])))
                for i1, x1 in enumerate(dom[k1]):
                    for i2, x2 in enumerate(dom[k2]):
                        m = (I[:, k1] == x1) & (I[:, k2] == x2)
                        if m.any():
                            Mx[i1, i2] = np.sum(y[m]) / np.count_nonzero(m) - f0 - f1[k1][i1] - f1[k2][i2]
                f2[(k1, k2)] = Mx
    return f0, f1, f2


def _model_dense(shape, f0, f1, f2):
    d = len(shape)
    T = np.full(shape, f0)
    for k in range(d):
        sh = [1] * d
        sh[k] = shape[k]
        T = T + f1[k].reshape(sh)
    for (k1, k2), Mx in f2.items():
        sh = [1] * d
        sh[k1], sh[k2] = shape[k1], shape[k2]
        T = T + Mx.reshape(sh)
    return T


def _scale(y, f0, f1, f2=None):
    s = abs(f0) + sum(np.abs(v).max() for v in f1) + np.abs(y).max()
    if f2:
        s += sum(np.abs(M).max() for M in f2.values())
    return float(s)


@clause('C13.model.terms', funcs=('anova.ANOVA', 'anova.ANOVA.build_0', 'anova.ANOVA.build_1', 'anova.ANOVA.build_2',
                                  'anova.ANOVA.calc'))
def model_terms(shape, how, ykind, seed, order):
    """ANOVA(I, y, order): domain = sorted observed index values, f0 = sample mean, f1 = conditional mean - f0,
    f2 = cell mean - f0 - f1 - f1 (0 for unobserved cells), A(i) = sum of the terms at every domain multi-index."""
    I, y, dom, P = _data(shape, how, ykind, seed)
    d = len(shape)
    A = teneva.ANOVA(I, y, order, seed=0)
    f0, f1, f2 = _own_model(I, y, dom, order)
    sc = _scale(y, f0, f1, f2)
    if list(A.shapes) != list(shape) or any(not np.array_equal(np.asarray(A.domain[k]), dom[k]) for k in range(d)):
        return FAIL(f'domain / shapes differ: {list(A.shapes)} vs {shape}')
    if not gen.close(A.f0, f0, sc):
        return FAIL(f'f0 = {A.f0!r} != sample mean {f0!r}')
    for k in range(d):
        got = np.array([A.f1[k][x] for x in dom[k]])
        if not gen.close(got, f1[k], sc):
            return FAIL(f'first-order terms of mode {k}: {got.tolist()} vs {f1[k].tolist()}')
        if not gen.close(A.f1_arr[k], f1[k], sc):
            return FAIL(f'f1_arr of mode {k} differs')
    if order == 2:
        num = 0
        for k1 in range(d - 1):
            for k2 in range(k1 + 1, d):
                got = np.array([[A.f2[num][x1, x2] for x2 in dom[k2]] for x1 in dom[k1]])
                if not gen.close(got, f2[(k1, k2)], sc):
                    return FAIL(f'pair terms ({k1},{k2}) differ (position {num} of f2)')
                if A.pair_num_to_num(k1, k2) != num or A.pair_num_to_num(k2, k1) != num:
                    return FAIL(f'pair_num_to_num({k1},{k2}) = {A.pair_num_to_num(k1, k2)} != {num}')
                num += 1
    T = _model_dense(shape, f0, f1, f2)
    J = gen.all_indices(shape)
    X = np.array([[dom[k][j[k]] for k in range(d)] for j in J]).reshape(len(J), d)
    got = A(X)
    if not gen.close(got, T[tuple(J.T)], sc * (1 + d * d)):
        return FAIL(f'A(i) differs from the sum of the terms: max dev {np.abs(got - T[tuple(J.T)]).max():.3e}')
    one = A(X[-1])
    if not gen.close(one, T[tuple(J[-1])], sc * (1 + d * d)):
        return FAIL('single multi-index evaluation differs')
    return PASS


def _ranks_ok(Y, r, exact):
    rk = [G.shape[2] for G in Y[:-1]]
    return all(x == r for x in rk) if exact else all(x <= r for x in rk)


@clause('C13.anova.order1', funcs=('anova.anova', 'anova.ANOVA.cores', 'anova.ANOVA.cores_1'))
def anova_order1(shape, how, ykind, seed, r, aseed):
    """anova(I, y, r, order=1, noise=0): well-formed, observed mode sizes, inner TT-ranks all == r, and at every
    multi-index of the observed domain value == f0 + sum_k f1_k (rounding only)."""
    I, y, dom, P = _data(shape, how, ykind, seed)
    Y = teneva.anova(I, y, r, 1, 0., aseed)
    msg = gen.wf(Y, shape)
    if msg:
        return FAIL('not well-formed / wrong mode sizes: ' + msg)
    if not _ranks_ok(Y, r, True):
        return FAIL(f'TT-ranks {[G.shape[2] for G in Y[:-1]]} != {r}')
    f0, f1, _ = _own_model(I, y, dom, 1)
    T = _model_dense(shape, f0, f1, {})
    got = gen.dense(Y)
    sc = _scale(y, f0, f1) * (1 + len(shape))
    if not gen.close(got, T, sc):
        return FAIL(f'value != f0 + sum f1: max dev {np.abs(got - T).max():.3e} (scale {sc:.3e})')
    return PASS


@clause('C13.ANOVA.repeated_export', funcs=('anova.ANOVA', 'anova.ANOVA.cores', 'anova.ANOVA.cores_1', 'anova.ANOVA.cores_2'))
def anova_repeated_export(shape, how, ykind, seed, order, aseed):
    """History: one fitted ANOVA object exports the SAME model every time `cores()` is called (different ranks in turn),
    evaluating it with `A(I)` in between; the fitted terms (f0, f1 tables) do not drift."""
    I, y, dom, P = _data(shape, how, ykind, seed)
    A = teneva.ANOVA(I, y, order, aseed)
    f0, f1, f2 = _own_model(I, y, dom, order)
    T = _model_dense(shape, f0, f1, f2 if order == 2 else {})
    d = len(shape)
    need = 2 + sum(min(shape[i], shape[k]) for i in range(d - 1) for k in range(i + 1, d))
    sc = _scale(y, f0, f1, f2 if order == 2 else None) * (1 + d)
    tol_rel = 1e-6 if order == 2 else None
    for call, r in enumerate(((2, 4, 3) if order == 1 else (need, need + 2, need)), start=1):
        Y = A.cores(r, 0.)
        msg = gen.wf(Y, shape)
        if msg:
            return FAIL(f'call {call}: not well-formed: {msg}')
        got = gen.dense(Y)
        if order == 1:
            ok = gen.close(got, T, sc)
        else:
            ok = np.linalg.norm(got - T) <= tol_rel * max(np.linalg.norm(T), sc) + 64 * np.finfo(float).eps * sc * T.size
        if not ok:
            return FAIL(f'export #{call} (r={r}) of the same ANOVA object differs from the fitted model: max dev '
                        f'{np.abs(got - T).max():.3e} (f0 = {f0:.6g})')
        if not abs(A.f0 - f0) <= 64 * np.finfo(float).eps * max(1.0, abs(f0), np.abs(y).max()):
            return FAIL(f'constant term drifted after export #{call}: {A.f0} vs {f0}')
        A(I[:1])
    return PASS if np.abs(y).max() > 0 else TRIVIAL('zero data')


def _pattern(shape, f0, f1, r):
    """Exact cores of f0 + sum f1 in the rank-r pattern of cores_1 and the mask of the remaining (noise) slots."""
    d = len(shape)
    Pc, Mk = [], []
    for k in range(d):
        r1, r2 = (1 if k == 0 else r), (1 if k == d - 1 else r)
        G = np.zeros((r1, shape[k], r2))
        M = np.ones((r1, shape[k], r2))
        if k == 0:
            G[0, :, 0], G[0, :, 1] = 1., f1[0]
            M[0, :, 0] = M[0, :, 1] = 0.
        elif k == d - 1:
            G[0, :, 0], G[1, :, 0] = f1[k] + f0, 1.
            M[0, :, 0] = M[1, :, 0] = 0.
        else:
            G[0, :, 0], G[1, :, 1], G[0, :, 1] = 1., 1., f1[k]
            M[0, :, 0] = M[1, :, 1] = M[0, :, 1] = 0.
        Pc.append(G)
        Mk.append(M)
    return Pc, Mk


@clause('C13.anova.noise', funcs=('anova.anova', 'anova.ANOVA.cores_1'))
def anova_noise(shape, how, ykind, seed, r, noise, aseed, rel, as_generator=False):
    """noise > 0 (or rel_noise via the class): ranks == r, observed mode sizes, and the deviation from the model is
    bounded entrywise by chain(|P| + 8 noise M) - chain(|P|) (+ rounding)."""
    I, y, dom, P = _data(shape, how, ykind, seed)
    if as_generator:                                  # a Generator object instead of an integer seed
        aseed = np.random.default_rng(aseed)
    if rel:
        A = teneva.ANOVA(I, y, 1, seed=aseed)
        Y = A.cores(r, noise=123., rel_noise=noise)
        eff = noise * max(abs(np.max(y)), abs(np.min(y)))
    else:
        Y = teneva.anova(I, y, r, 1, noise, aseed)
        eff = noise
    msg = gen.wf(Y, shape)
    if msg:
        return FAIL('not well-formed / wrong mode sizes: ' + msg)
    if not _ranks_ok(Y, r, True):
        return FAIL(f'TT-ranks {[G.shape[2] for G in Y[:-1]]} != {r}')
    f0, f1, _ = _own_model(I, y, dom, 1)
    T = _model_dense(shape, f0, f1, {})
    Pc, Mk = _pattern(shape, f0, f1, r)
    absP = gen.dense([np.abs(G) for G in Pc])
    bound = gen.dense([np.abs(G) + 8. * eff * M for G, M in zip(Pc, Mk)]) - absP
    dev = np.abs(gen.dense(Y) - T)
    slack = 64. * EPS * (absP + bound + _scale(y, f0, f1)) * (1 + len(shape))
    if not np.all(dev <= bound + slack):
        j = np.unravel_index(np.argmax(dev - bound), dev.shape)
        return FAIL(f'deviation {dev[j]:.3e} exceeds the noise bound {bound[j]:.3e} at {list(map(int, j))} (noise {eff})')
    if not any(M.any() for M in Mk):
        return TRIVIAL('no noise slot for this (d, r)')
    return PASS


@clause('C13.anova.additive', funcs=('anova.anova', 'anova.ANOVA.build_1', 'anova.ANOVA.cores_1', 'anova.ANOVA.cores_2'))
def anova_additive(shape, how, seed, r, order, aseed):
    """An additive function c + sum_k u_k(i_k) sampled on the full grid (each point once or twice) is reproduced
    exactly at every grid point (order 1: rounding; order 2: accuracy of the final rounding step)."""
    I, y, dom, P = _data(shape, how, 'additive', seed)
    Y = teneva.anova(I, y, r, order, 0., aseed)
    msg = gen.wf(Y, shape)
    if msg:
        return FAIL('not well-formed / wrong mode sizes: ' + msg)
    T = np.zeros(shape)
    T[tuple(P.T)] = y                                 # the function on the grid (duplicates carry equal values)
    got = gen.dense(Y)
    sc = (np.abs(y).max() + 1.) * (1 + len(shape))
    if order == 1:
        if not gen.close(got, T, sc, c=256.):
            return FAIL(f'additive function not reproduced: max dev {np.abs(got - T).max():.3e}')
        return PASS
    err = np.linalg.norm(got - T)
    if not err <= 1e-6 * np.linalg.norm(T):
        return FAIL(f'order 2: additive function not reproduced: rel. error {err / np.linalg.norm(T):.3e}')
    return check(_ranks_ok(Y, r, False), f'ranks {[G.shape[2] for G in Y[:-1]]} > {r}')


@clause('C13.anova.order2', funcs=('anova.anova', 'anova.ANOVA.build_2', 'anova.ANOVA.cores_2', 'anova._second_order_2_tt',
                                   'act_many.add_many'))
def anova_order2(shape, how, ykind, seed, r, aseed):
    """order = 2, noise = 0: TT-ranks <= r and observed mode sizes for every r; if r >= 2 + sum over pairs of
    min(n_i, n_j) (nothing is cut) value == f0 + sum f1 + sum f2 (relative Frobenius error <= 1e-6); for d = 2 and a
    full grid sampled once that is the data itself."""
    I, y, dom, P = _data(shape, how, ykind, seed)
    d = len(shape)
    Y = teneva.anova(I, y, r, 2, 0., aseed)
    msg = gen.wf(Y, shape)
    if msg:
        return FAIL('not well-formed / wrong mode sizes: ' + msg)
    if not _ranks_ok(Y, r, False):
        return FAIL(f'TT-ranks {[G.shape[2] for G in Y[:-1]]} exceed {r}')
    if not gen.finite(Y):
        return FAIL('non-finite cores')
    need = 2 + sum(min(shape[i], shape[j]) for i in range(d - 1) for j in range(i + 1, d))
    if r < need:
        return TRIVIAL(f'rank {r} < {need}: only structure checked')
    f0, f1, f2 = _own_model(I, y, dom, 2)
    T = _model_dense(shape, f0, f1, f2)
    got = gen.dense(Y)
    nrm = np.linalg.norm(T)
    if nrm == 0:
        return SKIP('zero model (C11 family)')
    err = np.linalg.norm(got - T)
    # the pair matrices pass through matrix_skeleton with its documented ABSOLUTE default accuracy 1e-10: an absolute
    # slack of 1e-10 per pair (broadcast over the other modes), negligible unless the data are of scale <= 1e-6
    if not err <= 1e-6 * nrm + 1e-10 * (d * (d - 1) // 2) * np.sqrt(T.size):
        return FAIL(f'value != f0 + sum f1 + sum f2: rel. error {err / nrm:.3e}')
    if d == 2 and how == 'full':
        D = np.zeros(shape)
        D[tuple(P.T)] = y
        if not np.linalg.norm(got - D) <= 1e-6 * np.linalg.norm(D):
            return FAIL('d = 2, full grid: the second-order model does not reproduce the data')
    return PASS


@clause('C13.anova.order2_rank_cap', funcs=('anova.anova', 'anova.ANOVA.cores', 'anova.ANOVA.cores_2', 'act_many.add_many'))
def anova_order2_rank_cap(shape, how, ykind, seed, r, noise, aseed):
    """order = 2, any noise >= 0, any r >= 2 - in particular r BELOW the natural rank of the second-order model and a
    number of pair terms d(d-1)/2 that reaches / is a multiple of the intermediate-truncation period 15 of add_many
    (d = 6, 7, 10): well-formed, observed mode sizes, finite, all TT-ranks <= r."""
    I, y, dom, P = _data(shape, how, ykind, seed)
    Y = teneva.anova(I, y, r, 2, noise, aseed)
    msg = gen.wf(Y, shape)
    if msg:
        return FAIL('not well-formed / wrong mode sizes: ' + msg)
    if not gen.finite(Y):
        return FAIL('non-finite cores')
    rk = [G.shape[2] for G in Y[:-1]]
    if not all(x <= r for x in rk):
        return FAIL(f'TT-ranks {rk} exceed the requested rank {r} (d = {len(shape)}, {len(shape) * (len(shape) - 1) // 2} pair terms, noise {noise})')
    return PASS


@clause('C13.add_many.rank_cap', funcs=('act_many.add_many', 'transformation.truncate'))
def add_many_rank_cap(shape, count, trunc_freq, r, seed, scalars=False):
    """The summation step of the order-2 export: add_many(Y_1 .. Y_count, e=1e-10, r, trunc_freq) for every relation
    between the number of additions count - 1 and the intermediate-truncation period (below, equal, a multiple, above;
    trunc_freq None = default 15): well-formed, mode sizes kept, all TT-ranks <= r ("maximum rank of the result"), and
    if r is at least the largest possible rank of the sum (nothing is cut) the dense tensor equals the dense sum
    (relative Frobenius 1e-6: truncation with e = 1e-10).  scalars: some summands are plain numbers."""
    g = gen.rng('C13.add_many', shape, count, seed)
    S, T = [], np.zeros(shape)
    for j in range(count):
        if scalars and j % 4 == 2:
            c = float(g.integers(-3, 4))
            S.append(c if j % 8 == 2 else int(c))
            T = T + c
        else:
            Yj = gen.tt(shape, 1 + int(g.integers(0, 2)), seed + 17 * j, 'gauss')
            S.append(Yj)
            T = T + gen.dense(Yj)
    before = gen.snapshot(S)
    kw = {} if trunc_freq is None else dict(trunc_freq=trunc_freq)
    Z = teneva.add_many(S, 1e-10, r, **kw)
    if gen.snapshot(S) != before:
        return FAIL('the summands were modified')
    msg = gen.wf(Z, shape)
    if msg:
        return FAIL('not well-formed / wrong mode sizes: ' + msg)
    if not gen.finite(Z):
        return FAIL('non-finite cores')
    rk = [G.shape[2] for G in Z[:-1]]
    if not all(x <= r for x in rk):
        return FAIL(f'TT-ranks {rk} exceed r = {r} ({count} summands, trunc_freq {trunc_freq})')
    d = len(shape)
    full = max(min(int(np.prod(shape[:k])), int(np.prod(shape[k:]))) for k in range(1, d))
    if r < full:
        return TRIVIAL(f'rank cap {r} < {full}: only structure checked')
    err, nrm = np.linalg.norm(gen.dense(Z) - T), np.linalg.norm(T)
    if not err <= 1e-6 * nrm:
        return FAIL(f'sum of {count} tensors (trunc_freq {trunc_freq}): rel. error {err / max(nrm, 1e-300):.3e}')
    return PASS


def _near(f2):
    return {k: v for k, v in f2.items() if k[1] == k[0] + 1}


@clause('C13.anova2.only_near', funcs=('anova.ANOVA.cores', 'anova.ANOVA.cores_2', 'anova._second_order_2_tt',
                                        'act_many.add_many'), replay_only=True)
def anova2_only_near(shape, how, ykind, seed, aseed):
    """ANOVA(order=2).cores(r, 0, only_near=True) with a rank that cuts nothing: the tensor is the constant plus the
    per-mode terms plus the pair terms of NEIGHBOURING modes (k, k+1) only, at every multi-index of the observed
    domain (relative Frobenius 1e-6), ranks <= r, observed mode sizes; cores_2(only_near=True) returns d - 1 pair
    tensors, the k-th one equal to the pair term of modes (k, k+1).  For d = 2 this is the full second-order model.
    FAILS on the clean tree for d >= 3 (possible genuine defect, reported): the pair matrices are taken from
    positions 0, 1, .. of the full pair list ((0,1), (0,2), ..) instead of the positions of (k, k+1) - ValueError for
    unequal mode sizes, the term of another pair otherwise."""
    I, y, dom, P = _data(shape, how, ykind, seed)
    d = len(shape)
    A = teneva.ANOVA(I, y, 2, seed=aseed)
    f0, f1, f2 = _own_model(I, y, dom, 2)
    near = _near(f2)
    r = 2 + sum(min(shape[k], shape[k + 1]) for k in range(d - 1)) + 1
    try:
        pairs = A.cores_2(r, only_near=True)
        Y = A.cores(r, 0., only_near=True)
    except ValueError as e:
        return FAIL(f'only_near=True raises ValueError: {e}')
    if len(pairs) != d - 1:
        return FAIL(f'cores_2(only_near=True) returns {len(pairs)} tensors for d = {d}')
    sc = _scale(y, f0, f1, f2)
    for k, Z in enumerate(pairs):
        msg = gen.wf(Z, shape)
        if msg:
            return FAIL(f'pair tensor {k} not well-formed: {msg}')
        sh = [1] * d
        sh[k], sh[k + 1] = shape[k], shape[k + 1]
        want = np.broadcast_to(near[(k, k + 1)].reshape(sh), shape)
        if not np.linalg.norm(gen.dense(Z) - want) <= 1e-6 * np.linalg.norm(want) + 64 * EPS * sc * want.size:
            return FAIL(f'pair tensor {k} is not the pair term of modes ({k}, {k + 1}): rel. error '
                        f'{np.linalg.norm(gen.dense(Z) - want) / max(np.linalg.norm(want), 1e-300):.3e}')
    msg = gen.wf(Y, shape)
    if msg:
        return FAIL('not well-formed / wrong mode sizes: ' + msg)
    if not _ranks_ok(Y, r, False):
        return FAIL(f'TT-ranks {[G.shape[2] for G in Y[:-1]]} exceed {r}')
    T = _model_dense(shape, f0, f1, near)
    nrm = np.linalg.norm(T)
    if nrm == 0:
        return SKIP('zero model (C11 family)')
    err = np.linalg.norm(gen.dense(Y) - T)
    if not err <= 1e-6 * nrm:
        return FAIL(f'value != f0 + sum f1 + sum of neighbouring pair terms: rel. error {err / nrm:.3e}')
    return PASS


@clause('C13.anova.order2_noise', funcs=('anova.anova', 'anova.ANOVA.cores', 'anova.ANOVA.cores_1', 'anova.ANOVA.cores_2',
                                         'act_many.add_many'))
def anova_order2_noise(shape, how, ykind, seed, noise, rel, aseed, as_generator):
    """order = 2 with noise > 0 (absolute, or rel_noise through the class) and a rank r >= 2 + sum of the pair ranks:
    ranks <= r, observed mode sizes, and the distance to the model f0 + sum f1 + sum f2 is bounded by the noise:
    the unrounded sum S has |S - T| <= delta := |chain(|P| + 8 noise M) - chain(|P|)|_F (P pattern cores of the
    first-order part, M noise slots); T has ranks <= r, so the rounding to rank r is quasi-optimal:
    |Y - T| <= (1 + sqrt(d-1)) delta + 1e-6 |T|."""
    I, y, dom, P = _data(shape, how, ykind, seed)
    d = len(shape)
    r = 2 + sum(min(shape[i], shape[j]) for i in range(d - 1) for j in range(i + 1, d))
    sd = np.random.default_rng(aseed) if as_generator else aseed
    if rel:
        Y = teneva.ANOVA(I, y, 2, seed=sd).cores(r, noise=55., rel_noise=noise)
        eff = noise * max(abs(np.max(y)), abs(np.min(y)))
    else:
        Y = teneva.anova(I, y, r, 2, noise, sd)
        eff = noise
    msg = gen.wf(Y, shape)
    if msg:
        return FAIL('not well-formed / wrong mode sizes: ' + msg)
    if not _ranks_ok(Y, r, False):
        return FAIL(f'TT-ranks {[G.shape[2] for G in Y[:-1]]} exceed {r}')
    f0, f1, f2 = _own_model(I, y, dom, 2)
    T = _model_dense(shape, f0, f1, f2)
    Pc, Mk = _pattern(shape, f0, f1, r)
    delta = np.linalg.norm(gen.dense([np.abs(G) + 8. * eff * M for G, M in zip(Pc, Mk)]) - gen.dense([np.abs(G) for G in Pc]))
    err = np.linalg.norm(gen.dense(Y) - T)
    lim = (1. + np.sqrt(d - 1.)) * (delta + 1e-10 * (d * (d - 1) // 2) * np.sqrt(T.size)) + 1e-6 * np.linalg.norm(T) \
        + 64 * EPS * _scale(y, f0, f1, f2) * T.size         # 1e-10 per pair: absolute default accuracy of matrix_skeleton
    if not err <= lim:
        return FAIL(f'distance to the second-order model {err:.3e} exceeds the noise bound {lim:.3e} (noise {eff})')
    return PASS


# ------------------------------------------------------------------ functional variant

def _own_ridge(X, y, n, a, b, lamb):
    """Per-dimension ridge fit in the Chebyshev basis: returns (constant, [c_k[1:]]), and the worst condition number."""
    Pc = np.polynomial.chebyshev
    y0 = float(np.mean(y))
    yc = y - y0
    const, cfs, cmax = y0, [], 1.
    a, b = np.broadcast_to(np.asarray(a, dtype=float), (X.shape[1],)), np.broadcast_to(np.asarray(b, dtype=float), (X.shape[1],))
    for k in range(X.shape[1]):
        tau = (2. * X[:, k] - a[k] - b[k]) / (b[k] - a[k])
        V = Pc.chebvander(tau, n - 1)                    # (m, n)
        H = V.T @ V + lamb * np.eye(n)
        c = np.linalg.solve(H, V.T @ yc)
        cmax = max(cmax, np.linalg.cond(H))
        const += c[0]
        cfs.append(c[1:])
    return const, cfs, cmax


@clause('C13.anova_func.model', funcs=('anova_func.ANOVA_func', 'anova_func.anova_func', 'func.func_get', 'tensors.delta'))
def anova_func_model(d, n, m, a, b, lamb, seed, ykind, yscale=1.0, xkind='random'):
    """ANOVA_func: coeffs == own ridge fit; func_get(X, cores(e=None)) == fitted constant + sum_k sum_{p>=1} c_k[p] T_p
    at random points of the box (with the class's own coefficients: rounding; with the own fit: conditioning-aware);
    anova_func with the default rounding e=1e-8 agrees within 1e-6.
    xkind 'grid<q>': tensor-product point set of q Chebyshev-type nodes per variable, symmetric about the centre of the box
    (m is ignored); with the data kinds 'first' / 'last' (depend on one variable only), 'even', 'odd' (in the scaled
    variables) many fitted coefficients are pure rounding residue (non-zero, ~1e-17 relative to the data; for 'odd' also
    the fitted constant): they must stay at rounding level in the coefficient tensor.  yscale <= 1e-15 puts ALL fitted
    coefficients at / below that absolute magnitude."""
    Pc = np.polynomial.chebyshev
    g = gen.rng('C13.func', d, n, m, a, b, seed, ykind)
    a_arg, b_arg = a, b                                # as handed to teneva: number, list (per-dimension bounds)
    if isinstance(a, list):
        a, b = np.array(a, dtype=float), np.array(b, dtype=float)
    if xkind == 'random':
        X = g.uniform(a, b, size=(m, d))
        X[m // 3] = X[0]                               # a repeated point
    elif xkind.startswith('grid'):
        q = int(xkind[4:])
        pts = np.cos(np.pi * (np.arange(q) + 0.5) / q)          # strictly inside (-1, 1), symmetric
        pts = 0.5 * (pts - pts[::-1])                           # exactly symmetric: pts[j] == -pts[q-1-j]
        X = gen.all_indices([q] * d)
        X = (a + b) / 2. + (b - a) / 2. * pts[X]
        X = X[g.permutation(len(X))]
        m = len(X)
    else:
        raise ValueError(xkind)
    Xs = (2. * X - a - b) / (b - a)
    if ykind == 'gauss':
        y = g.normal(size=m)
    elif ykind == 'additive':                          # additive polynomial of degree < n: the fit is (nearly) exact
        cf = [g.normal(size=n) for _ in range(d)]
        y = 0.3 + sum(Pc.chebval(Xs[:, k], cf[k]) for k in range(d))
    elif ykind == 'first':
        y = 1.5 + np.exp(0.7 * Xs[:, 0])
    elif ykind == 'last':
        y = 0.4 + Xs[:, -1] - Xs[:, -1] ** 3
    elif ykind == 'even':
        y = 0.3 + Xs[:, 0] ** 2 - 2. * Xs[:, 1] ** 2
    elif ykind == 'odd':
        y = Xs[:, 0] + 0.5 * Xs[:, -1] ** 3
    else:
        y = np.cos(X.sum(axis=1)) * 2. + X[:, 0]
    y = y * yscale                                     # the model is linear in the data: every statement below scales with it
    O = teneva.ANOVA_func(X.copy(), y.copy(), n, a_arg, b_arg, lamb)
    cfs = O.coeffs
    const, own, cond = _own_ridge(X, y, n, a, b, lamb)
    sc = np.abs(y).max() + abs(const) + sum(np.abs(c).sum() for c in own)
    tolc = 256. * EPS * cond * sc
    if len(cfs) != d + 1 or any(len(cfs[k + 1]) != n - 1 for k in range(d)):
        return FAIL(f'coeffs layout: {[np.size(c) for c in cfs]}')
    if not abs(cfs[0] - const) <= tolc:
        return FAIL(f'constant {cfs[0]!r} != own fit {const!r} (tol {tolc:.2e})')
    for k in range(d):
        if not np.abs(np.asarray(cfs[k + 1]) - own[k]).max() <= tolc:
            return FAIL(f'mode {k}: coefficients differ from the own ridge fit by {np.abs(cfs[k + 1] - own[k]).max():.3e} > {tolc:.2e}')
    A = O.cores(e=None)
    msg = gen.wf(A, [n] * d)
    if msg:
        return FAIL('cores(e=None) not well-formed: ' + msg)
    Xt = g.uniform(a, b, size=(8, d))
    tau = (2. * Xt - a - b) / (b - a)
    model = cfs[0] + sum(Pc.chebval(tau[:, k], np.r_[0., cfs[k + 1]]) for k in range(d))
    kap = float(np.max(np.maximum(np.abs(a), np.abs(b)) / (b - a)))
    tol = 64. * EPS * d * n * n * (1. + kap) * sc
    got = teneva.func_get(Xt, A, a_arg, b_arg)
    if not np.abs(got - model).max() <= tol:
        return FAIL(f'interpolant != fitted constant + sum of fitted expansions: {np.abs(got - model).max():.3e} > {tol:.2e}')
    # dense check of the coefficient tensor: constant at index 0, c_k[p] at p e_k, zero elsewhere
    D = gen.dense(A)
    W = np.zeros([n] * d)
    W[(0,) * d] = cfs[0]
    for k in range(d):
        for p in range(1, n):
            idx = [0] * d
            idx[k] = p
            W[tuple(idx)] = cfs[k + 1][p - 1]
    if not np.abs(D - W).max() <= 64. * EPS * sc * d:
        return FAIL(f'coefficient tensor differs from the delta layout by {np.abs(D - W).max():.3e}')
    if np.linalg.norm(W) > 0:
        B = teneva.anova_func(X.copy() if seed % 2 else X.tolist(), y.copy() if seed % 2 else y.tolist(), n, a_arg, b_arg, lamb)
        msg = gen.wf(B, [n] * d)
        if msg:
            return FAIL('anova_func not well-formed: ' + msg)
        if not np.linalg.norm(gen.dense(B) - W) <= 1e-6 * np.linalg.norm(W):
            return FAIL(f'anova_func(e=1e-8) differs from the model: {np.linalg.norm(gen.dense(B) - W) / np.linalg.norm(W):.3e}')
    if xkind != 'random' or yscale <= 1e-15:
        allc = np.concatenate([[cfs[0]]] + [np.asarray(c, dtype=float) for c in cfs[1:]])
        if not np.any((allc != 0) & (np.abs(allc) <= 1e-16)):
            return TRIVIAL('no non-zero fitted coefficient of magnitude <= 1e-16')
    return PASS


@clause('C13.delta.value', funcs=('tensors.delta',))
def delta_value(shape, pos, v):
    """The building block of ANOVA_func.cores: delta(n, i, v) is a well-formed tensor of shape n that is exactly zero
    everywhere except at the multi-index i, where it has the value v (relative rounding 64 eps d) - for every finite v:
    exact zero, both signs, magnitudes far below, just below / at / just above the internal switch 1e-16, huge."""
    d = len(shape)
    i = [int(p) % int(k) for p, k in zip(pos, shape)]
    for idx in (i, np.array(i)):
        Y = teneva.delta(shape, idx, v)
        msg = gen.wf(Y, shape)
        if msg:
            return FAIL('not well-formed: ' + msg)
        D = gen.dense(Y)
        got = float(D[tuple(i)])
        if not abs(got - v) <= 64. * EPS * d * abs(v):
            return FAIL(f'delta({shape}, {i}, {v!r}): value {got!r} at the multi-index (rel. dev {abs(got - v) / max(abs(v), 1e-300):.3e})')
        D[tuple(i)] = 0.
        if np.any(D != 0.) or not np.all(np.isfinite(D)):
            return FAIL(f'delta({shape}, {i}, {v!r}): non-zero / non-finite entries away from the multi-index')
    return PASS


# ------------------------------------------------------------------ input forms (audit f3-forms)
# The statement quantifies over every sample set; the clauses above pass int64 / float64 C-ordered arrays, Python numbers and
# (mostly) positional calls.  Here the same data arrive in the other forms a caller may use; the reference is the own model of
# the float64 / int64 image of what is passed.

I_FORMS = ('list', 'tuple', 'i32', 'i8', 'u8', 'F', 'V', 'ro')
Y_FORMS = ('list', 'intlist', 'tuple', 'i64', 'i32', 'f32', 'V', 'ro')
X_FORMS = ('list', 'tuple', 'f32', 'F', 'V', 'ro')
NUM_FORMS = ('int', 'npi64', 'npi32')
AB_FORMS = ('int', 'float', 'npf64', 'npi64', 'npf32', 'list', 'intlist', 'arr', 'i32arr', 'f32arr', 'tuple', 'default')
CALL_FORMS = ('pos', 'kw', 'mix:2', 'min', 'kwmin')
REQ = gen.call_form.REQ
FBOXES = [(-1, 1), (-3, 5), (0, 2), (-2, -1)]


def _arr_form(G, form):
    """the array G (integer-valued, or float32-representable) with the same values in another dtype / memory layout"""
    if form in ('i64', 'i32', 'i8', 'u8', 'f32'):
        H = G.astype({'i64': np.int64, 'i32': np.int32, 'i8': np.int8, 'u8': np.uint8, 'f32': np.float32}[form])
        return H if np.array_equal(H.astype(float), np.asarray(G, dtype=float)) else None
    if form == 'F':
        return np.asfortranarray(G)
    if form == 'V':
        big = np.zeros([2 * k for k in G.shape], dtype=G.dtype)
        sl = tuple(slice(None, None, 2) for _ in G.shape)
        big[sl] = G
        return big[sl]
    if form == 'ro':
        H = G.copy()
        H.setflags(write=False)
        return H
    if form == 'list':
        return G.tolist()
    if form == 'intlist':
        return [int(v) for v in G]
    if form == 'tuple':
        return tuple(tuple(r) if isinstance(r, list) else r for r in G.tolist())
    raise ValueError(form)


def _num(v, form):
    return {'int': int, 'npi64': np.int64, 'npi32': np.int32}[form](v)


@clause('C13.forms.anova', funcs=('anova.anova', 'anova.ANOVA', 'anova.ANOVA.build', 'anova.ANOVA.cores'))
def forms_anova(shape, how, seed, order, iform, yform, num, zero, call, genobj):
    """anova / ANOVA on integer data handed over in other input forms - multi-indices as list of lists / tuple / int32 / int8 /
    uint8 / Fortran-ordered / strided / read-only array, values as list of floats / of ints / tuple / int64 / int32 / float32 /
    strided / read-only array, r and order as numpy.int64 / int32, noise 0 as int / float / numpy.float32, seed as int or
    Generator, every argument positionally in the documented order / by keyword / mixed: float64 cores, observed mode sizes,
    order 1: ranks == r and value == f0 + sum f1 (rounding), order 2 with r large enough: value == f0 + sum f1 + sum f2 (1e-6);
    ANOVA(...)(I) with I in the same form == the model; the arguments are not modified."""
    I, y, dom, P = _data(shape, how, 'int', seed)
    d = len(shape)
    If = _arr_form(I, iform)
    if If is None:                                    # labels do not fit the dtype (negative labels / uint8): signed twin
        If = _arr_form(I, 'i32')
    yf = _arr_form(y, yform)
    need = 2 + sum(min(shape[i], shape[k]) for i in range(d - 1) for k in range(i + 1, d))
    r = 3 if order == 1 else need
    z = {'int': 0, 'float': 0., 'npf32': np.float32(0)}[zero]
    sd = np.random.default_rng(seed) if genobj else seed % 1000
    snap = gen.snapshot([If, yf])
    Y = gen.call_form(teneva.anova, ('I_trn', 'y_trn', 'r', 'order', 'noise', 'seed', 'fpath'),
                      (If, yf, _num(r, num), _num(order, num), z, sd, None), (REQ, REQ, 2, 1, 1.E-10, None, None), call)
    msg = gen.wf(Y, shape)
    if msg:
        return FAIL('not well-formed / wrong mode sizes: ' + msg)
    if any(G.dtype != np.float64 for G in Y):
        return FAIL(f'core dtypes {[str(G.dtype) for G in Y]}')
    if not _ranks_ok(Y, r, order == 1):
        return FAIL(f'TT-ranks {[G.shape[2] for G in Y[:-1]]} vs r = {r}')
    f0, f1, f2 = _own_model(I, y, dom, order)
    T = _model_dense(shape, f0, f1, f2)
    got = gen.dense(Y)
    sc = _scale(y, f0, f1, f2) * (1 + d)
    if order == 1:
        if not gen.close(got, T, sc):
            return FAIL(f'value != f0 + sum f1: max dev {np.abs(got - T).max():.3e} (scale {sc:.3e})')
    else:
        err, nrm = np.linalg.norm(got - T), np.linalg.norm(T)
        if not err <= 1e-6 * nrm + 1e-10 * (d * (d - 1) // 2) * np.sqrt(T.size):
            return FAIL(f'value != f0 + sum f1 + sum f2: rel. error {err / max(nrm, 1e-300):.3e}')
    A = teneva.ANOVA(If, yf, _num(order, num), sd if not genobj else np.random.default_rng(seed))
    vals = A(If)
    want = T[tuple(P.T)]
    if not (np.shape(vals) == (len(I),) and gen.close(vals, want, sc * (1 + d * d))):
        return FAIL(f'ANOVA(...)(I) with I as {iform}: differs from the model')
    one = A(If[0])
    if not (np.ndim(one) == 0 and gen.close(one, want[0], sc * (1 + d * d))):
        return FAIL(f'ANOVA(...)(one multi-index as {iform}) = {one!r}, model {want[0]!r}')
    if gen.snapshot([If, yf]) != snap:
        return FAIL('an argument was modified')
    return PASS


@clause('C13.forms.anova_func', funcs=('anova_func.anova_func', 'anova_func.ANOVA_func', 'grid.poi_scale'))
def forms_anova_func(d, n, seed, xform, yform, ab, num, lamb, call):
    """anova_func on integer-valued data handed over in other input forms - points as list / tuple / float32 / Fortran-ordered /
    strided / read-only array, values as list / int list / tuple / int64 / int32 / float32 array, bounds as Python int / float /
    numpy.float64 / int64 / float32 number, float / int list, float64 / int32 / float32 array, tuple, or left at the default
    [-1, 1], n as numpy.int64 / int32, lamb as float / int / numpy.float32, positional / keyword calls: the coefficient tensor
    (e=None) is the delta layout of the own ridge fit of the float64 image of the data; e = 1e-8 agrees within 1e-6."""
    g = gen.rng('C13.forms.func', d, n, seed, ab)
    if ab in ('int', 'float', 'npf64', 'npi64', 'npf32'):
        bx = [FBOXES[1 + seed % 2]] * d
    elif ab == 'default':
        bx = [FBOXES[0]] * d
    else:
        bx = [FBOXES[int(g.integers(len(FBOXES)))] for _ in range(d)]
    a, b = np.array([x[0] for x in bx], dtype=float), np.array([x[1] for x in bx], dtype=float)
    m = (6 + 2 * d) * n
    X = np.clip(g.uniform(a, b, size=(m, d)).astype(np.float32).astype(float), a, b)
    X[m // 3] = X[0]
    y = np.rint(6. * np.cos(X.sum(axis=1)) + 2. * X[:, 0])
    Xf, yf = _arr_form(X, xform), _arr_form(y, yform)
    if ab in ('int', 'float', 'npf64', 'npi64', 'npf32'):
        t = {'int': int, 'float': float, 'npf64': np.float64, 'npi64': np.int64, 'npf32': np.float32}[ab]
        af, bf = t(bx[0][0]), t(bx[0][1])
    elif ab == 'default':
        af, bf = -1., 1.
    else:
        f = {'list': lambda v: [float(x) for x in v], 'intlist': lambda v: [int(x) for x in v], 'arr': lambda v: np.array(v, dtype=float),
             'i32arr': lambda v: np.array(v, dtype=np.int32), 'f32arr': lambda v: np.array(v, dtype=np.float32),
             'tuple': lambda v: tuple(float(x) for x in v)}[ab]
        af, bf = f(a), f(b)
    lf = {'float': 1e-3, 'int': 1, 'npf32': np.float32(0.5), 'default': 1.E-7}[lamb]
    const, own, cond = _own_ridge(X, y, n, a, b, float(lf))
    sc = np.abs(y).max() + abs(const) + sum(np.abs(c).sum() for c in own)
    W = np.zeros([n] * d)
    W[(0,) * d] = const
    for k in range(d):
        for p in range(1, n):
            idx = [0] * d
            idx[k] = p
            W[tuple(idx)] = own[k][p - 1]
    snap = gen.snapshot([Xf, yf, af, bf])
    names, dflt = ('X_trn', 'y_trn', 'n', 'a', 'b', 'lamb', 'e'), (REQ, REQ, REQ, -1., 1., 1.E-7, 1.E-8)
    A = gen.call_form(teneva.anova_func, names, (Xf, yf, _num(n, num), af, bf, lf, None), dflt, call)
    msg = gen.wf(A, [n] * d)
    if msg:
        return FAIL('anova_func(e=None) not well-formed: ' + msg)
    tol = 256. * EPS * cond * sc + 64. * EPS * sc * d
    dev = float(np.abs(gen.dense(A) - W).max())
    if not dev <= tol:
        return FAIL(f'coefficient tensor differs from the delta layout of the own ridge fit by {dev:.3e} > {tol:.2e}')
    B = gen.call_form(teneva.anova_func, names, (Xf, yf, _num(n, num), af, bf, lf, 1.E-8), dflt, call)
    msg = gen.wf(B, [n] * d)
    if msg:
        return FAIL('anova_func not well-formed: ' + msg)
    if not np.linalg.norm(gen.dense(B) - W) <= 1e-6 * np.linalg.norm(W) + tol * np.sqrt(W.size):
        return FAIL(f'anova_func(e=1e-8) differs from the model: {np.linalg.norm(gen.dense(B) - W) / np.linalg.norm(W):.3e}')
    if gen.snapshot([Xf, yf, af, bf]) != snap:
        return FAIL('an argument was modified')
    return PASS


# ------------------------------------------------------------------ case list

def cases(tier, seed):
    big = tier == 'thorough'
    g = gen.rng('C13.cases', seed)

    def s():
        return int(g.integers(1 << 30))

    shapes = [[2, 2], [3, 4], [1, 3], [5, 2], [2, 3, 2], [3, 1, 4], [4, 4, 3], [2, 2, 2, 2], [3, 2, 1, 3]]
    if big:
        shapes += [[5, 5], [1, 1], [2, 5, 3], [3, 3, 2, 2], [1, 1, 1]]
    hows = ('full', 'full2', 'sparse')
    ykinds = ('gauss', 'int', 'spike')
    j = 0
    for shape in shapes:
        d = len(shape)
        npairs = d * (d - 1) // 2
        need = 2 + sum(min(shape[i], shape[k]) for i in range(d - 1) for k in range(i + 1, d))
        for how in hows:
            for yk in ykinds:
                for sd in ((1, 2, 3, 4) if big else (1, 2)):
                    j += 1
                    base = dict(shape=shape, how=how, ykind=yk, seed=sd)
                    for order in (1, 2):
                        yield 'C13.model.terms', dict(base, order=order)
                        yield 'C13.ANOVA.repeated_export', dict(base, order=order, aseed=j % 3)
                    for r in ((2, 3, 5) if big else (2, 3)):
                        yield 'C13.anova.order1', dict(base, r=r, aseed=j % 3)
                    for (r, noise, rel) in ((2, 1e-10, False), (3, 1e-3, False), (4, 0.5, False), (3, 1e-2, True)):
                        yield 'C13.anova.noise', dict(base, r=r, noise=noise, aseed=j % 3, rel=rel)
                    for r in (need, need + 3, 2, 3):
                        yield 'C13.anova.order2', dict(base, r=r, aseed=j % 3)
        for how in ('full', 'full2'):
            for sd in ((1, 2, 3) if big else (1, 2)):
                yield 'C13.anova.additive', dict(shape=shape, how=how, seed=sd, r=2, order=1, aseed=sd)
                yield 'C13.anova.additive', dict(shape=shape, how=how, seed=sd, r=4, order=1, aseed=sd)
                yield 'C13.anova.additive', dict(shape=shape, how=how, seed=sd, r=need, order=2, aseed=sd)
    for d in (2, 3):
        for n in ((2, 3, 4, 5, 6) if big else (2, 3, 5)):
            for (a, b) in ((-1., 1.), (0., 2.), (-3., 5.)):
                for lamb in (1e-7, 1e-3, 1.):
                    for yk in ('gauss', 'additive', 'smooth'):
                        yield 'C13.anova_func.model', dict(d=d, n=n, m=(6 + 2 * d) * n, a=a, b=b, lamb=lamb, seed=n + d,
                                                           ykind=yk)
    for d in (2, 3):
        for n in (3, 5):
            for yscale in (1e-9, 1e-6, 1e-3, 1e3, 1e6):
                for yk in ('additive', 'smooth'):
                    yield 'C13.anova_func.model', dict(d=d, n=n, m=(6 + 2 * d) * n, a=-1., b=1., lamb=1e-7, seed=n + d, ykind=yk,
                                                       yscale=yscale)
    # ---- gap closure: fitted coefficients at rounding level / below the switch 1e-16 inside tensors.delta ----------
    # tensor-product point sets with data that do not depend on a variable / are even / odd in it; tiny overall data scale
    j = 0
    for (d, n, q) in ((2, 3, 4), (3, 4, 5), (3, 6, 7), (4, 3, 4), (2, 5, 6)) + (((3, 2, 3), (4, 4, 5), (2, 6, 9)) if big else ()):
        for yk in ('first', 'last', 'even', 'odd'):
            for (a, b) in (((-1., 1.), (0., 2.), (-3., 5.)) if big else ((-1., 1.), (0., 2.), (-3., 5.))[j % 3:j % 3 + 1]):
                j += 1
                for lamb in ((1e-7, 1e-3, 1.) if big else ((1e-7, 1e-3, 1.)[j % 3],)):
                    yield 'C13.anova_func.model', dict(d=d, n=n, m=q ** d, a=a, b=b, lamb=lamb, seed=n + d + j, ykind=yk,
                                                       xkind=f'grid{q}')
        yield 'C13.anova_func.model', dict(d=d, n=n, m=q ** d, a=[-1. - k for k in range(d)], b=[0.5 + 2 * k for k in range(d)],
                                           lamb=1e-7, seed=n + d, ykind=('first', 'even')[j % 2], xkind=f'grid{q}')
        yield 'C13.anova_func.model', dict(d=d, n=n, m=q ** d, a=-1., b=1., lamb=1e-7, seed=n + d, ykind='even', xkind=f'grid{q}',
                                           yscale=(1e-6, 1e6)[j % 2])
    for d in (2, 3):
        for n in (3, 5):
            for yscale in (1e-15, 1e-16, 1e-17, 1e-20, 1e-30) + ((1e-14, 1e-18, 1e-60, 1e-100) if big else ()):
                for yk in (('gauss', 'additive', 'smooth') if big else (('gauss', 'additive', 'smooth')[j % 3],)):
                    j += 1
                    yield 'C13.anova_func.model', dict(d=d, n=n, m=(6 + 2 * d) * n, a=-1., b=1., lamb=1e-7, seed=n + d, ykind=yk,
                                                       yscale=yscale)
    for shape, pos in (([3], [1]), ([2, 3], [1, 0]), ([3, 3, 3], [0, 2, 1]), ([2, 2, 2, 2], [1, 1, 0, 1]), ([4, 1, 2, 3, 2, 2], [3, 0, 0, 2, 1, 1])):
        for mag in (0., 1e-300, 1e-100, 1e-30, 1e-18, 1e-17, 0.99e-16, 1e-16, 1.01e-16, 2e-16, 1e-15, 1e-8, 1., 42., 1e30, 1e300) + \
                ((5e-324, 1e-200, 3e-17, 1.0000000000000002e-16, 1e-12, 1e100) if big else ()):
            for sg in (1., -1.):
                yield 'C13.delta.value', dict(shape=shape, pos=pos, v=sg * mag)
    # ---- gap closure: number of pair terms at / above the intermediate-truncation period 15 of add_many (d >= 6), with rank
    # caps below and at the natural rank of the model
    j = 0
    for shape in ([2] * 6, [3, 2, 3, 2, 3, 2], [2] * 7) + (([2] * 10, [2, 3, 2, 2, 3, 2, 2], [3, 3, 2, 2, 2, 2], [2] * 11) if big else ()):
        d = len(shape)
        need = 2 + sum(min(shape[i], shape[k]) for i in range(d - 1) for k in range(i + 1, d))
        for how in (hows if big else ('full', 'sparse')):
            for yk in (ykinds if big else (ykinds[j % 3],)):
                j += 1
                base = dict(shape=shape, how=how, ykind=yk, seed=j)
                for r in (need, 2, 3, 4) + ((5, 8, need + 3) if big else ()):
                    yield 'C13.anova.order2', dict(base, r=r, aseed=j % 3)
                for (r, noise) in ((2, 1e-10), (3, 1e-3), (4, 1e-10), (6, 0.5)) + (((2, 0.), (5, 1e-10), (need, 1e-3)) if big else ()):
                    yield 'C13.anova.order2_rank_cap', dict(base, r=r, noise=noise, aseed=j)
                if how != 'sparse':
                    yield 'C13.anova.additive', dict(shape=shape, how=how, seed=j, r=need, order=2, aseed=j)
                    yield 'C13.anova.additive', dict(shape=shape, how=how, seed=j, r=3, order=2, aseed=j)
    for shape in ([2] * 10,) if not big else ():
        yield 'C13.anova.order2', dict(shape=shape, how='sparse', ykind='gauss', seed=2, r=92, aseed=1)
        yield 'C13.anova.order2_rank_cap', dict(shape=shape, how='sparse', ykind='gauss', seed=2, r=3, noise=1e-10, aseed=1)
    for shape in ([2, 3, 2], [2, 2, 2, 2]) + (([3, 4], [2] * 6, [4, 4, 3]) if big else ()):
        d = len(shape)
        full = max(min(int(np.prod(shape[:k])), int(np.prod(shape[k:]))) for k in range(1, d))
        for tf in (None, 1, 2) + ((3, 4, 15, 16) if big else ()):
            t = 15 if tf is None else tf
            for count in sorted({1, 2, t, t + 1, t + 2, 2 * t, 2 * t + 1, 2 * t + 2, 3 * t + 1}):
                for r in ((1, 2, full, full + 2) if big else (1 + j % 2, full)):
                    j += 1
                    yield 'C13.add_many.rank_cap', dict(shape=shape, count=count, trunc_freq=tf, r=r, seed=j,
                                                        scalars=(j % 5 == 0))
    # ---- parameter-coverage additions -----------------------------------------------------------------------
    # larger d / mode sizes (order 2 with d = 5, a mode of size 12), reduced combination list
    j = 0
    for shape in ([2, 2, 2, 2, 2], [12, 3], [2, 9, 2], [3, 3, 3, 3]) + (([2, 3, 2, 3, 2], [4, 4, 4, 4]) if big else ()):
        d = len(shape)
        need = 2 + sum(min(shape[i], shape[k]) for i in range(d - 1) for k in range(i + 1, d))
        for how in hows if big else ('full', 'sparse'):
            for yk in ykinds if big else ('gauss',):
                j += 1
                base = dict(shape=shape, how=how, ykind=yk, seed=j)
                for order in (1, 2):
                    yield 'C13.model.terms', dict(base, order=order)
                    yield 'C13.ANOVA.repeated_export', dict(base, order=order, aseed=j % 3)
                yield 'C13.anova.order1', dict(base, r=2 + j % 3, aseed=j % 3)
                yield 'C13.anova.noise', dict(base, r=3, noise=1e-3, aseed=j, rel=bool(j % 2), as_generator=True)
                for r in (need, need + 3, 2, 3):
                    yield 'C13.anova.order2', dict(base, r=r, aseed=j % 3)
                if how != 'sparse':
                    yield 'C13.anova.additive', dict(shape=shape, how=how, seed=j, r=need, order=2, aseed=j)
    # overall data scale 1e-8 .. 1e8 (the model and its TT export are homogeneous of degree 1 in y)
    for shape in ([3, 4], [2, 3, 2], [2, 2, 2, 2]) + (([4, 4, 3], [3, 1, 4]) if big else ()):
        d = len(shape)
        need = 2 + sum(min(shape[i], shape[k]) for i in range(d - 1) for k in range(i + 1, d))
        for how in ('full2', 'sparse'):
            for yk in SCALED:
                j += 1
                base = dict(shape=shape, how=how, ykind=yk, seed=j)
                yield 'C13.model.terms', dict(base, order=2)
                yield 'C13.anova.order1', dict(base, r=3, aseed=j % 3)
                yield 'C13.anova.noise', dict(base, r=3, noise=1e-2, aseed=j % 3, rel=True, as_generator=bool(j % 2))
                yield 'C13.anova.order2', dict(base, r=need, aseed=j % 3)
                yield 'C13.ANOVA.repeated_export', dict(base, order=2 if SCALED[yk] > 1 else 1, aseed=j % 3)
                yield 'C13.anova.order2_noise', dict(base, noise=1e-3, rel=True, aseed=j, as_generator=bool(j % 2))
    # order 2 with noise; only_near
    for shape in ([3, 4], [2, 3, 2], [4, 4, 3], [2, 2, 2, 2], [3, 2, 1, 3]) + (([2, 2, 2, 2, 2], [5, 5]) if big else ()):
        for how in hows if big else ('full', 'sparse'):
            for (noise, rel) in ((1e-10, False), (1e-3, False), (1e-2, True)):
                j += 1
                yield 'C13.anova.order2_noise', dict(shape=shape, how=how, ykind=ykinds[j % 3], seed=j, noise=noise, rel=rel,
                                                     aseed=j, as_generator=bool(j % 2))
    for shape in ([3, 4], [1, 3], [3, 3, 3], [3, 4, 2], [2, 2, 2, 2], [3, 2, 1, 3]) + (([2, 2, 2, 2, 2], [4, 4, 4]) if big else ()):
        for how in hows if big else ('full', 'sparse'):
            for yk in ('gauss', 'int'):
                j += 1
                # OUTSIDE C13 (not yielded): `only_near` is an undocumented option of the class method ANOVA.cores that the public
                # function anova() does not expose and the property does not mention.  Observation kept in DESIGN.md: for d >= 3 the
                # running table counter of cores_2 picks the tables of the pairs (0,1), (0,2), .. instead of (k, k+1).
                if shape is None:
                    yield 'C13.anova2.only_near', dict(shape=shape, how=how, ykind=yk, seed=j, aseed=j % 3)
    # functional variant: d = 4, per-dimension bounds given as lists
    for (d, n) in ((4, 3), (2, 4), (3, 2)):
        for yk in ('additive', 'smooth'):
            yield 'C13.anova_func.model', dict(d=d, n=n, m=(6 + 2 * d) * n, a=-2., b=1., lamb=1e-5, seed=n + d, ykind=yk)
            yield 'C13.anova_func.model', dict(d=d, n=n, m=(6 + 2 * d) * n, a=[-1. - k for k in range(d)],
                                               b=[0.5 + 2 * k for k in range(d)], lamb=1e-7, seed=n + d + 1, ykind=yk)
    for rep in range(200 if big else 40):
        shape = [int(g.integers(1, 6)) for _ in range(int(g.integers(2, 5)))]
        if int(np.prod(shape)) > 200:
            shape = shape[:2]
        d = len(shape)
        base = dict(shape=shape, how=hows[int(g.integers(3))], ykind=ykinds[int(g.integers(3))], seed=s())
        need = 2 + sum(min(shape[i], shape[k]) for i in range(d - 1) for k in range(i + 1, d))
        yield 'C13.model.terms', dict(base, order=2)
        yield 'C13.anova.order1', dict(base, r=int(g.integers(2, 6)), aseed=s())
        yield 'C13.anova.noise', dict(base, r=int(g.integers(2, 6)), noise=float(g.choice([1e-10, 1e-3, 0.5])), aseed=s(),
                                      rel=bool(rep % 2))
        yield 'C13.anova.order2', dict(base, r=need, aseed=s())
    # ---- input forms (audit f3-forms): every form of every argument at least once in quick
    j = 0
    for rnd in range(4 if big else 1):
        for ki, iform in enumerate(I_FORMS):
            for yform in (Y_FORMS if big else (Y_FORMS[ki % 2::2])):
                for order in (1, 2):
                    j += 1
                    shape = ([3, 4], [2, 3, 2], [5, 2], [2, 2, 2, 2], [3, 1, 4])[(j + rnd) % 5]
                    yield 'C13.forms.anova', dict(shape=shape, how=('full', 'full2', 'sparse')[j % 3], seed=j + 100 * rnd, order=order,
                                                  iform=iform, yform=yform, num=NUM_FORMS[j % 3], zero=('int', 'float', 'npf32')[(j // 2) % 3],
                                                  call=CALL_FORMS[(j + rnd) % 5], genobj=bool((j // 3) % 2))
    j = 0
    for rnd in range(3 if big else 1):
        for ka, ab in enumerate(AB_FORMS):
            for xform in (X_FORMS if big else X_FORMS[ka % 2::2]):
                j += 1
                yield 'C13.forms.anova_func', dict(d=2 + j % 3, n=2 + (j + rnd) % 4, seed=j + 100 * rnd, xform=xform, yform=Y_FORMS[(j + rnd) % 8],
                                                   ab=ab, num=NUM_FORMS[j % 3], lamb=('float', 'int', 'npf32', 'default')[(j + rnd) % 4],
                                                   call=CALL_FORMS[(j + rnd) % 5])
